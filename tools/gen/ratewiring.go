package main

// Translator piece for C15: how the rate limiter is wired into the scan engines.
//
// It transcribes (never judges) the following facts of command/*.go into coq/Gen/RateWiring.v:
//   - the two construction sites (startPacketScanEngine, genericScanCmdOpts.newScanEngine): the guard
//     around the construction, the arguments of ratelimit.New, the wrapper constructor, what it wraps,
//     what the wrapped variable is when the guard is false, and where the variable goes afterwards;
//   - per command: which option fields are handed to withRateCount/withRateWindow and which start
//     function receives the configuration (packet scans), or which engine constructor chain ends in
//     genericScanCmdOpts.newScanEngine (application scans);
//   - the option setters withRateCount/withRateWindow, the --rate flag binding and the parse step.
// The judgement (rate_wiring_ok) is a Coq computation in Properties/C15.v.

import (
	"bytes"
	"fmt"
	"go/ast"
	"go/token"
	"go/types"
	"os"
	"path/filepath"
	"sort"
	"strings"
)

func init() { register("RateWiring", genRateWiring) }

// ---------------------------------------------------------------- small AST helpers (shared with exitdelay.go)

func rwExprStr(e ast.Expr) string {
	if e == nil {
		return ""
	}
	// types.ExprString abbreviates composite literals with a non-ASCII ellipsis; the labels go into
	// Coq string literals, so everything outside printable ASCII is transcribed as "..."
	var b strings.Builder
	for _, r := range types.ExprString(e) {
		switch {
		case r == '\u2026':
			b.WriteString("...")
		case r < 32 || r > 126:
			b.WriteByte('?')
		default:
			b.WriteRune(r)
		}
	}
	return b.String()
}

// rwCallee renders the function of a call: "pkg.Func", "Func", "recv.method" (method calls keep
// only the method name prefixed by "."), so that renaming a receiver variable is not a change.
func rwCallee(c *ast.CallExpr) string {
	switch f := c.Fun.(type) {
	case *ast.Ident:
		return f.Name
	case *ast.SelectorExpr:
		if id, ok := f.X.(*ast.Ident); ok && id.Obj == nil {
			// unresolved identifier on the left = imported package
			return id.Name + "." + f.Sel.Name
		}
		return "." + f.Sel.Name
	}
	return rwExprStr(c.Fun)
}

// rwLastField returns the final selector name of x.y.z, or "" when e is not a selector.
func rwLastField(e ast.Expr) string {
	if s, ok := e.(*ast.SelectorExpr); ok {
		return s.Sel.Name
	}
	return ""
}

func rwIsIdent(e ast.Expr, name string) bool {
	id, ok := e.(*ast.Ident)
	return ok && id.Name == name
}

// rwFuncParams lists parameter names with their type strings.
func rwFuncParams(ft *ast.FuncType) map[string]string {
	m := map[string]string{}
	if ft.Params == nil {
		return m
	}
	for _, f := range ft.Params.List {
		for _, n := range f.Names {
			m[n.Name] = rwExprStr(f.Type)
		}
	}
	return m
}

// rwOriginOf resolves an identifier used in a function body to where its value comes from:
// "param:<type>" for a parameter, the callee name for `x, err := f(...)` / `x := f(...)` /
// `var x T = f(...)`, "=<ident>" chains are followed once.
func rwOriginOf(p *pkgFiles, body *ast.BlockStmt, params map[string]string, name string, depth int) string {
	if t, ok := params[name]; ok {
		return "param:" + t
	}
	if depth > 4 {
		return "?"
	}
	res := ""
	ast.Inspect(body, func(n ast.Node) bool {
		if res != "" {
			return false
		}
		switch s := n.(type) {
		case *ast.AssignStmt:
			if s.Tok != token.DEFINE {
				return true
			}
			for i, l := range s.Lhs {
				if !rwIsIdent(l, name) {
					continue
				}
				var rhs ast.Expr
				if len(s.Rhs) == len(s.Lhs) {
					rhs = s.Rhs[i]
				} else if len(s.Rhs) == 1 {
					rhs = s.Rhs[0]
				}
				res = rwOriginExpr(p, body, params, rhs, depth)
			}
		case *ast.DeclStmt:
			gd, ok := s.Decl.(*ast.GenDecl)
			if !ok || gd.Tok != token.VAR {
				return true
			}
			for _, sp := range gd.Specs {
				vs := sp.(*ast.ValueSpec)
				for i, id := range vs.Names {
					if id.Name != name {
						continue
					}
					if i < len(vs.Values) {
						res = rwOriginExpr(p, body, params, vs.Values[i], depth)
					} else {
						res = "zero:" + rwExprStr(vs.Type)
					}
				}
			}
		}
		return true
	})
	if res == "" {
		return "?"
	}
	return res
}

func rwOriginExpr(p *pkgFiles, body *ast.BlockStmt, params map[string]string, e ast.Expr, depth int) string {
	switch x := e.(type) {
	case *ast.CallExpr:
		return rwCallee(x)
	case *ast.Ident:
		return rwOriginOf(p, body, params, x.Name, depth+1)
	case *ast.UnaryExpr:
		return rwOriginExpr(p, body, params, x.X, depth)
	}
	return "expr:" + rwExprStr(e)
}

// rwCallsIn collects every call expression in n whose callee name is one of names.
func rwCallsIn(n ast.Node, names ...string) []*ast.CallExpr {
	var out []*ast.CallExpr
	want := map[string]bool{}
	for _, s := range names {
		want[s] = true
	}
	ast.Inspect(n, func(m ast.Node) bool {
		if c, ok := m.(*ast.CallExpr); ok && want[rwCallee(c)] {
			out = append(out, c)
		}
		return true
	})
	return out
}

// funcsOf enumerates the function declarations and their bodies of the package, sorted by file
// and position, including function literals' enclosing declaration only (literals are searched as
// part of the declaration body).
type rwDecl struct {
	file string
	fd   *ast.FuncDecl
}

func rwDecls(p *pkgFiles) []rwDecl {
	var out []rwDecl
	var files []string
	for f := range p.files {
		files = append(files, f)
	}
	sort.Strings(files)
	for _, f := range files {
		for _, d := range p.files[f].Decls {
			if fd, ok := d.(*ast.FuncDecl); ok && fd.Body != nil {
				out = append(out, rwDecl{f, fd})
			}
		}
	}
	return out
}

func rwRecvName(fd *ast.FuncDecl) string {
	if fd.Recv == nil || len(fd.Recv.List) != 1 {
		return ""
	}
	t := fd.Recv.List[0].Type
	if st, ok := t.(*ast.StarExpr); ok {
		t = st.X
	}
	if id, ok := t.(*ast.Ident); ok {
		return id.Name
	}
	return "?"
}

func rwStrList(xs []string) string {
	q := make([]string, len(xs))
	for i, x := range xs {
		q[i] = coqString(x)
	}
	return "[" + strings.Join(q, "; ") + "]"
}

// ---------------------------------------------------------------- construction sites

type rwRateSite struct {
	fn                  string // enclosing function ("recv.name" for methods)
	guardLHS, guardOp   string
	guardRHS            string // integer literal
	newRate             string // field handed to ratelimit.New as rate
	newOpts             [][2]string
	wrapper             string // constructor applied to (wrapped, limiter)
	wrapped             string // origin of the wrapped value
	dflt                string // origin of the variable's value when the guard is false
	sameVar             bool   // the wrapper's first argument is the value the variable held
	sink                string // call that receives the variable afterwards
	sinkArg             int
	sinkResultTo        string // the function that finally receives the engine / "return"
	otherAssigns        int    // assignments to the variable other than declaration and wrapping
	newCalls            int    // number of ratelimit.New calls in the function
	limiterArgIdx       int
	hasElse, extraStmts bool
}

func rwFindRateSite(p *pkgFiles, recv, name string) rwRateSite {
	fd := p.findFunc(recv, name)
	fn := name
	if recv != "" {
		fn = recv + "." + name
	}
	s := rwRateSite{fn: fn, limiterArgIdx: -1}
	params := rwFuncParams(fd.Type)
	s.newCalls = len(rwCallsIn(fd.Body, "ratelimit.New"))
	var v string
	var afterIf []ast.Stmt
	for i, st := range fd.Body.List {
		ifs, ok := st.(*ast.IfStmt)
		if !ok || len(rwCallsIn(ifs, "ratelimit.New")) == 0 {
			continue
		}
		if ifs.Init != nil {
			die("%s: rate-limit guard with an init statement is not understood", p.pos(ifs))
		}
		s.hasElse = ifs.Else != nil
		be, ok := ifs.Cond.(*ast.BinaryExpr)
		if !ok {
			die("%s: rate-limit guard is not a comparison", p.pos(ifs))
		}
		s.guardLHS = rwLastField(be.X)
		if s.guardLHS == "" {
			s.guardLHS = rwExprStr(be.X)
		}
		s.guardOp = be.Op.String()
		lit, ok := be.Y.(*ast.BasicLit)
		if !ok || lit.Kind != token.INT {
			die("%s: rate-limit guard does not compare with an integer literal", p.pos(ifs))
		}
		s.guardRHS = zlit(evalInt(p, be.Y, nil))
		s.extraStmts = len(ifs.Body.List) != 1
		if len(ifs.Body.List) < 1 {
			die("%s: empty rate-limit block", p.pos(ifs))
		}
		as, ok := ifs.Body.List[0].(*ast.AssignStmt)
		if !ok || as.Tok != token.ASSIGN || len(as.Lhs) != 1 || len(as.Rhs) != 1 {
			die("%s: rate-limit block does not start with a plain assignment", p.pos(ifs))
		}
		id, ok := as.Lhs[0].(*ast.Ident)
		if !ok {
			die("%s: rate-limit block assigns to a non-variable", p.pos(as))
		}
		v = id.Name
		wc, ok := as.Rhs[0].(*ast.CallExpr)
		if !ok {
			die("%s: rate-limit block does not assign a constructor call", p.pos(as))
		}
		s.wrapper = rwCallee(wc)
		if len(wc.Args) != 2 {
			die("%s: wrapper constructor does not take (delegate, limiter)", p.pos(wc))
		}
		for ai, a := range wc.Args {
			if c, ok := a.(*ast.CallExpr); ok && rwCallee(c) == "ratelimit.New" {
				s.limiterArgIdx = ai
				if len(c.Args) < 1 {
					die("%s: ratelimit.New without a rate", p.pos(c))
				}
				s.newRate = rwLastField(c.Args[0])
				if s.newRate == "" {
					s.newRate = "expr:" + rwExprStr(c.Args[0])
				}
				for _, o := range c.Args[1:] {
					oc, ok := o.(*ast.CallExpr)
					if !ok || len(oc.Args) != 1 {
						die("%s: ratelimit option is not a one-argument call", p.pos(o))
					}
					arg := rwLastField(oc.Args[0])
					if arg == "" {
						arg = "expr:" + rwExprStr(oc.Args[0])
					}
					s.newOpts = append(s.newOpts, [2]string{rwCallee(oc), arg})
				}
			}
		}
		if s.limiterArgIdx != 1 {
			die("%s: the limiter is not the second argument of the wrapper constructor", p.pos(wc))
		}
		wid, ok := wc.Args[0].(*ast.Ident)
		if !ok {
			die("%s: the wrapped value is not a variable", p.pos(wc))
		}
		s.wrapped = rwOriginOf(p, fd.Body, params, wid.Name, 0)
		s.dflt = rwOriginOf(p, fd.Body, params, v, 0)
		// same value: either the same variable, or the variable was initialised from the wrapped one
		s.sameVar = wid.Name == v || s.dflt == s.wrapped
		afterIf = fd.Body.List[i+1:]
		break
	}
	if v == "" {
		return s // no construction site: transcribed as absent
	}
	// other assignments to v anywhere in the function
	ast.Inspect(fd.Body, func(n ast.Node) bool {
		if as, ok := n.(*ast.AssignStmt); ok && as.Tok == token.ASSIGN {
			for _, l := range as.Lhs {
				if rwIsIdent(l, v) {
					s.otherAssigns++
				}
			}
		}
		return true
	})
	s.otherAssigns-- // the wrapping itself
	// where v goes after the guard
	var sinkCall *ast.CallExpr
	for _, st := range afterIf {
		ast.Inspect(st, func(n ast.Node) bool {
			c, ok := n.(*ast.CallExpr)
			if !ok || sinkCall != nil {
				return true
			}
			for ai, a := range c.Args {
				if rwIsIdent(a, v) {
					sinkCall, s.sinkArg, s.sink = c, ai, rwCallee(c)
				}
			}
			return true
		})
	}
	if sinkCall == nil {
		return s
	}
	// what happens to the sink's result: returned directly, or bound to a variable that is passed on
	for _, st := range afterIf {
		switch x := st.(type) {
		case *ast.ReturnStmt:
			for _, r := range x.Results {
				if r == ast.Expr(sinkCall) {
					s.sinkResultTo = "return"
				}
				if c, ok := r.(*ast.CallExpr); ok && s.sinkResultTo == "" {
					for _, a := range c.Args {
						if id, ok := a.(*ast.Ident); ok && rwOriginOf(p, fd.Body, params, id.Name, 0) == s.sink {
							s.sinkResultTo = rwCallee(c)
						}
					}
				}
			}
		}
	}
	return s
}

func (s rwRateSite) coq() string {
	var opts []string
	for _, o := range s.newOpts {
		opts = append(opts, fmt.Sprintf("(%s, %s)", coqString(o[0]), coqString(o[1])))
	}
	b := func(x bool) string {
		if x {
			return "true"
		}
		return "false"
	}
	rhs := s.guardRHS
	if rhs == "" {
		rhs = "0"
	}
	return fmt.Sprintf("{| rs_func := %s; rs_new_calls := %d; rs_guard_lhs := %s; rs_guard_op := %s; rs_guard_rhs := %s;\n"+
		"     rs_has_else := %s; rs_extra_stmts := %s; rs_new_rate := %s; rs_new_opts := [%s];\n"+
		"     rs_wrapper := %s; rs_wrapped := %s; rs_default := %s; rs_same_value := %s; rs_other_assigns := %d;\n"+
		"     rs_sink := %s; rs_sink_arg := %d; rs_sink_result_to := %s |}",
		coqString(s.fn), s.newCalls, coqString(s.guardLHS), coqString(s.guardOp), rhs,
		b(s.hasElse), b(s.extraStmts), coqString(s.newRate), strings.Join(opts, "; "),
		coqString(s.wrapper), coqString(s.wrapped), coqString(s.dflt), b(s.sameVar), s.otherAssigns,
		coqString(s.sink), s.sinkArg, coqString(s.sinkResultTo))
}

// ---------------------------------------------------------------- per-command option plumbing

// rwOptionArg finds with<Name>(arg) among the arguments of a configuration constructor call and
// returns (root expression, final field); ("", "") when the option is not passed; the count of
// occurrences is returned as well.
func rwOptionArg(cfg *ast.CallExpr, setter string) (root, field string, n int) {
	for _, a := range cfg.Args {
		c, ok := a.(*ast.CallExpr)
		if !ok || rwCallee(c) != setter {
			continue
		}
		n++
		if len(c.Args) != 1 {
			root, field = "?", "?"
			continue
		}
		if se, ok := c.Args[0].(*ast.SelectorExpr); ok {
			root, field = rwExprStr(se.X), se.Sel.Name
		} else {
			root, field = "expr:"+rwExprStr(c.Args[0]), ""
		}
	}
	return
}

// rwSetterField transcribes `func withX(v T) opt { return func(c *C) { c.F = v } }` as (F, rhs is
// the parameter).
func rwSetterField(p *pkgFiles, name string) (field string, fromParam bool) {
	fd := p.findFunc("", name)
	params := rwFuncParams(fd.Type)
	if len(fd.Body.List) != 1 {
		die("%s: option setter %s is not a single return", p.pos(fd), name)
	}
	rs, ok := fd.Body.List[0].(*ast.ReturnStmt)
	if !ok || len(rs.Results) != 1 {
		die("%s: option setter %s is not a single return", p.pos(fd), name)
	}
	fl, ok := rs.Results[0].(*ast.FuncLit)
	if !ok || len(fl.Body.List) != 1 {
		die("%s: option setter %s does not return a one-statement closure", p.pos(fd), name)
	}
	as, ok := fl.Body.List[0].(*ast.AssignStmt)
	if !ok || as.Tok != token.ASSIGN || len(as.Lhs) != 1 || len(as.Rhs) != 1 {
		die("%s: option setter %s closure is not one assignment", p.pos(fd), name)
	}
	field = rwLastField(as.Lhs[0])
	rhs := as.Rhs[0]
	if st, ok := rhs.(*ast.StarExpr); ok {
		rhs = st.X
	}
	if id, ok := rhs.(*ast.Ident); ok {
		_, fromParam = params[id.Name]
	}
	return
}

func rwDeclName(d rwDecl) string {
	if r := rwRecvName(d.fd); r != "" {
		return r + "." + d.fd.Name.Name
	}
	return d.fd.Name.Name
}

// rwMethodsNamed returns all methods with the given name (any receiver).
func rwMethodsNamed(ds []rwDecl, name string) []rwDecl {
	var out []rwDecl
	for _, d := range ds {
		if d.fd.Name.Name == name && d.fd.Recv != nil {
			out = append(out, d)
		}
	}
	return out
}

func genRateWiring() {
	p := parseDir(filepath.Join(*repo, "command"))
	ds := rwDecls(p)
	var b bytes.Buffer
	b.WriteString("(* GENERATED by tools/gen/ratewiring.go from command/*.go. Do not edit. *)\n")
	b.WriteString("From Coq Require Import ZArith List String.\nImport ListNotations.\nOpen Scope Z_scope.\nOpen Scope string_scope.\n\n")
	b.WriteString("Record rate_site := { rs_func : string; rs_new_calls : nat; rs_guard_lhs : string; rs_guard_op : string;\n" +
		"  rs_guard_rhs : Z; rs_has_else : bool; rs_extra_stmts : bool; rs_new_rate : string;\n" +
		"  rs_new_opts : list (string * string); rs_wrapper : string; rs_wrapped : string; rs_default : string;\n" +
		"  rs_same_value : bool; rs_other_assigns : nat; rs_sink : string; rs_sink_arg : nat; rs_sink_result_to : string }.\n\n")
	ps := rwFindRateSite(p, "", "startPacketScanEngine")
	gs := rwFindRateSite(p, "genericScanCmdOpts", "newScanEngine")
	fmt.Fprintf(&b, "Definition packet_rate_site : rate_site :=\n  %s.\n\n", ps.coq())
	fmt.Fprintf(&b, "Definition generic_rate_site : rate_site :=\n  %s.\n\n", gs.coq())

	// all ratelimit.New calls of the package, by enclosing function (a limiter constructed anywhere
	// else would be outside the model)
	var newSites []string
	for _, d := range ds {
		for range rwCallsIn(d.fd, "ratelimit.New") {
			newSites = append(newSites, rwDeclName(d))
		}
	}
	fmt.Fprintf(&b, "Definition ratelimit_new_sites : list string := %s.\n\n", rwStrList(newSites))

	// chunk loop of startPortScanEngine: which function is called inside the for loop
	var loopCalls []string
	pfd := p.findFunc("", "startPortScanEngine")
	for _, st := range pfd.Body.List {
		if fs, ok := st.(*ast.ForStmt); ok {
			// a call inside a go statement or a function literal is transcribed as "go <callee>": the
			// chunks (one limiter each) would then not run one after the other
			var stack []ast.Node
			ast.Inspect(fs.Body, func(n ast.Node) bool {
				if n == nil {
					stack = stack[:len(stack)-1]
					return true
				}
				stack = append(stack, n)
				c, ok := n.(*ast.CallExpr)
				if !ok {
					return true
				}
				name := rwCallee(c)
				if name != "startPacketScanEngine" && name != "startScanEngine" {
					return true
				}
				for _, a := range stack {
					switch a.(type) {
					case *ast.GoStmt, *ast.FuncLit, *ast.DeferStmt:
						name = "go " + rwCallee(c)
					}
				}
				loopCalls = append(loopCalls, name)
				return true
			})
		}
	}
	// and the same call anywhere outside the loop of that function (e.g. a worker pool)
	for _, c := range rwCallsIn(pfd.Body, "startPacketScanEngine", "startScanEngine") {
		inLoop := false
		for _, st := range pfd.Body.List {
			if fs, ok := st.(*ast.ForStmt); ok && fs.Pos() <= c.Pos() && c.End() <= fs.End() {
				inLoop = true
			}
		}
		if !inLoop {
			// `return f(...)` as a statement of its own (not under go/defer/a function literal) ends the
			// function: that engine run excludes every other one of this call
			label := "outside-loop "
			if rwIsTailReturn(pfd.Body, c) {
				label = "tail-return "
			}
			loopCalls = append(loopCalls, label+rwCallee(c))
		}
	}
	fmt.Fprintf(&b, "Definition port_scan_chunk_loop_calls : list string := %s.\n\n", rwStrList(loopCalls))

	// packet commands: every call of a start function with a newPacketScanConfig(...) argument
	b.WriteString("Record rate_packet_cmd := { rp_file : string; rp_func : string; rp_start : string;\n" +
		"  rp_count_n : nat; rp_count_root : string; rp_count_field : string;\n" +
		"  rp_window_n : nat; rp_window_root : string; rp_window_field : string }.\n\n")
	var rows []string
	for _, d := range ds {
		for _, c := range rwCallsIn(d.fd, "startPortScanEngine", "startPacketScanEngine") {
			if len(c.Args) != 2 {
				die("%s: start function call with %d arguments", p.pos(c), len(c.Args))
			}
			cfg, ok := c.Args[1].(*ast.CallExpr)
			if !ok || rwCallee(cfg) != "newPacketScanConfig" {
				if d.fd.Name.Name == "startPortScanEngine" {
					continue // the chunk loop passes a copy of its own configuration
				}
				die("%s: start function is not called with newPacketScanConfig(...)", p.pos(c))
			}
			cr, cf, cn := rwOptionArg(cfg, "withRateCount")
			wr, wf, wn := rwOptionArg(cfg, "withRateWindow")
			rows = append(rows, fmt.Sprintf("  {| rp_file := %s; rp_func := %s; rp_start := %s;\n"+
				"     rp_count_n := %d; rp_count_root := %s; rp_count_field := %s;\n"+
				"     rp_window_n := %d; rp_window_root := %s; rp_window_field := %s |}",
				coqString(d.file), coqString(rwDeclName(d)), coqString(rwCallee(c)),
				cn, coqString(cr), coqString(cf), wn, coqString(wr), coqString(wf)))
		}
	}
	fmt.Fprintf(&b, "Definition rate_packet_cmds : list rate_packet_cmd := [\n%s\n].\n\n", strings.Join(rows, ";\n"))

	// application-scan commands: startScanEngine(ctx, engine, ...) outside the packet path; the engine
	// variable's constructor method must end in <opts>.newScanEngine(ctx, scanner)
	b.WriteString("Record rate_generic_cmd := { rg_file : string; rg_func : string; rg_engine_ctor : string;\n" +
		"  rg_ctor_returns : list string }.\n\n")
	rows = nil
	for _, d := range ds {
		if d.fd.Name.Name == "startPacketScanEngine" {
			continue
		}
		for _, c := range rwCallsIn(d.fd, "startScanEngine") {
			if len(c.Args) != 3 {
				die("%s: startScanEngine call with %d arguments", p.pos(c), len(c.Args))
			}
			id, ok := c.Args[1].(*ast.Ident)
			if !ok {
				die("%s: the engine handed to startScanEngine is not a variable", p.pos(c))
			}
			ctor := rwOriginOf(p, d.fd.Body, rwFuncParams(d.fd.Type), id.Name, 0)
			var rets []string
			for _, m := range rwMethodsNamed(ds, strings.TrimPrefix(ctor, ".")) {
				if m.file != d.file {
					continue
				}
				ast.Inspect(m.fd.Body, func(n ast.Node) bool {
					if r, ok := n.(*ast.ReturnStmt); ok {
						for _, x := range r.Results {
							if rc, ok := x.(*ast.CallExpr); ok {
								rets = append(rets, rwCallee(rc))
							} else {
								rets = append(rets, "expr:"+rwExprStr(x))
							}
						}
					}
					return true
				})
			}
			rows = append(rows, fmt.Sprintf("  {| rg_file := %s; rg_func := %s; rg_engine_ctor := %s; rg_ctor_returns := %s |}",
				coqString(d.file), coqString(rwDeclName(d)), coqString(ctor), rwStrList(rets)))
		}
	}
	fmt.Fprintf(&b, "Definition rate_generic_cmds : list rate_generic_cmd := [\n%s\n].\n\n", strings.Join(rows, ";\n"))

	// setters
	cf, cp := rwSetterField(p, "withRateCount")
	wf, wp := rwSetterField(p, "withRateWindow")
	bs := func(x bool) string {
		if x {
			return "true"
		}
		return "false"
	}
	fmt.Fprintf(&b, "Definition rate_setters : list (string * string * bool) :=\n  [(\"withRateCount\", %s, %s); (\"withRateWindow\", %s, %s)].\n\n",
		coqString(cf), bs(cp), coqString(wf), bs(wp))

	// --rate flag and parse step of both option structs
	b.WriteString("Record rate_parse := { rq_type : string; rq_flag_names : list string; rq_flag_var : string;\n" +
		"  rq_parse_lhs : list string; rq_parse_fun : string; rq_parse_arg : string; rq_parse_guard : string }.\n\n")
	rows = nil
	for _, ty := range []string{"packetScanCmdOpts", "genericScanCmdOpts"} {
		ifd := p.findFunc(ty, "initCliFlags")
		var flagNames []string
		flagVar := ""
		for _, c := range rwCallsIn(ifd.Body, ".StringVarP", ".StringVar") {
			if len(c.Args) < 2 {
				continue
			}
			u, ok := c.Args[0].(*ast.UnaryExpr)
			if !ok || rwLastField(u.X) != "rawRateLimit" {
				continue
			}
			flagVar = rwLastField(u.X)
			if l, ok := c.Args[1].(*ast.BasicLit); ok {
				flagNames = append(flagNames, strings.Trim(l.Value, `"`))
			}
		}
		pfd := p.findFunc(ty, "parseRawOptions")
		var lhs []string
		fun, arg, guard := "", "", ""
		ast.Inspect(pfd.Body, func(n ast.Node) bool {
			ifs, ok := n.(*ast.IfStmt)
			if !ok {
				return true
			}
			for _, c := range rwCallsIn(ifs.Body, "parseRateLimit") {
				guard = rwExprStr(ifs.Cond)
				fun = rwCallee(c)
				if len(c.Args) == 1 {
					arg = rwLastField(c.Args[0])
				}
			}
			ast.Inspect(ifs.Body, func(m ast.Node) bool {
				as, ok := m.(*ast.AssignStmt)
				if !ok || len(as.Rhs) != 1 {
					return true
				}
				if c, ok := as.Rhs[0].(*ast.CallExpr); ok && rwCallee(c) == "parseRateLimit" && len(lhs) == 0 {
					for _, l := range as.Lhs {
						if f := rwLastField(l); f != "" {
							lhs = append(lhs, f)
						} else {
							lhs = append(lhs, rwExprStr(l))
						}
					}
				}
				return true
			})
			return true
		})
		// the guard is transcribed without the receiver name
		guard = strings.ReplaceAll(guard, "o.", ".")
		rows = append(rows, fmt.Sprintf("  {| rq_type := %s; rq_flag_names := %s; rq_flag_var := %s;\n"+
			"     rq_parse_lhs := %s; rq_parse_fun := %s; rq_parse_arg := %s; rq_parse_guard := %s |}",
			coqString(ty), rwStrList(flagNames), coqString(flagVar), rwStrList(lhs), coqString(fun), coqString(arg), coqString(guard)))
	}
	fmt.Fprintf(&b, "Definition rate_parses : list rate_parse := [\n%s\n].\n", strings.Join(rows, ";\n"))
	writeIfChanged("RateWiring.v", b.Bytes())
}

// ---------------------------------------------------------------- the limiter library the model describes

func init() { register("RateLib", genRateLib) }

// genRateLib pins the rate-limiter library: Model/Limiter.v is a model of go.uber.org/ratelimit at
// one version; go.mod/go.sum say which version and content the build uses (the module cache is
// checksum-verified against go.sum).  If the library source is present in the module cache its
// defaults (slack, window, constructor) are transcribed as well; absence is transcribed, not fatal.
func genRateLib() {
	const mod = "go.uber.org/ratelimit"
	read := func(name string) string {
		data, err := os.ReadFile(filepath.Join(*repo, name))
		if err != nil {
			die("read %s: %v", name, err)
		}
		return string(data)
	}
	version, replaced := "", false
	for _, line := range strings.Split(read("go.mod"), "\n") {
		f := strings.Fields(line)
		if len(f) >= 2 && f[0] == mod && strings.HasPrefix(f[1], "v") {
			version = f[1]
		}
		if len(f) >= 3 && f[0] == "require" && f[1] == mod {
			version = f[2]
		}
		if strings.Contains(line, "=>") && strings.Contains(line, mod) {
			replaced = true
		}
	}
	sum := ""
	for _, line := range strings.Split(read("go.sum"), "\n") {
		f := strings.Fields(line)
		if len(f) == 3 && f[0] == mod && f[1] == version {
			sum = f[2]
		}
	}
	// optional: the source in the module cache
	cache := os.Getenv("GOMODCACHE")
	if cache == "" {
		gp := os.Getenv("GOPATH")
		if gp == "" {
			gp = filepath.Join(os.Getenv("HOME"), "go")
		}
		cache = filepath.Join(gp, "pkg", "mod")
	}
	dir := filepath.Join(cache, "go.uber.org", "ratelimit@"+version)
	found, slack, per, ctor := false, "0", "", ""
	perReq, maxSlack := "", ""
	if st, err := os.Stat(dir); err == nil && st.IsDir() && version != "" {
		lp := parseDir(dir)
		found = true
		bfd := lp.findFunc("", "buildConfig")
		ast.Inspect(bfd.Body, func(n ast.Node) bool {
			cl, ok := n.(*ast.CompositeLit)
			if !ok {
				return true
			}
			if id, ok := cl.Type.(*ast.Ident); !ok || id.Name != "config" {
				return true
			}
			for _, el := range cl.Elts {
				kv, ok := el.(*ast.KeyValueExpr)
				if !ok {
					continue
				}
				switch {
				case rwIsIdent(kv.Key, "slack"):
					slack = zlit(evalInt(lp, kv.Value, nil))
				case rwIsIdent(kv.Key, "per"):
					per = rwExprStr(kv.Value)
				}
			}
			return true
		})
		nfd := lp.findFunc("", "New")
		for _, c := range rwCallsIn(nfd.Body, "newAtomicBased", "newMutexBased") {
			ctor = rwCallee(c)
		}
		afd := lp.findFunc("", "newAtomicBased")
		ast.Inspect(afd.Body, func(n ast.Node) bool {
			switch x := n.(type) {
			case *ast.AssignStmt:
				if len(x.Lhs) == 1 && len(x.Rhs) == 1 && rwIsIdent(x.Lhs[0], "perRequest") {
					perReq = rwExprStr(x.Rhs[0])
				}
			case *ast.KeyValueExpr:
				if rwIsIdent(x.Key, "maxSlack") {
					maxSlack = rwExprStr(x.Value)
				}
			}
			return true
		})
	}
	var b bytes.Buffer
	b.WriteString("(* GENERATED by tools/gen/ratewiring.go (RateLib) from go.mod, go.sum and the module cache. Do not edit. *)\n")
	b.WriteString("From Coq Require Import ZArith String.\nOpen Scope Z_scope.\nOpen Scope string_scope.\n\n")
	fmt.Fprintf(&b, "Definition ratelimit_version : string := %s.\n", coqString(version))
	fmt.Fprintf(&b, "Definition ratelimit_sum : string := %s.\n", coqString(sum))
	fmt.Fprintf(&b, "Definition ratelimit_replaced : bool := %v.\n", replaced)
	fmt.Fprintf(&b, "Definition ratelimit_src_found : bool := %v.\n", found)
	fmt.Fprintf(&b, "Definition ratelimit_default_slack : Z := %s.\n", slack)
	fmt.Fprintf(&b, "Definition ratelimit_default_per : string := %s.\n", coqString(per))
	fmt.Fprintf(&b, "Definition ratelimit_new_impl : string := %s.\n", coqString(ctor))
	fmt.Fprintf(&b, "Definition ratelimit_per_request_expr : string := %s.\n", coqString(perReq))
	fmt.Fprintf(&b, "Definition ratelimit_max_slack_expr : string := %s.\n", coqString(maxSlack))
	writeIfChanged("RateLib.v", b.Bytes())
}

// rwIsTailReturn: the call is the only result of a return statement that is not nested in a go or
// defer statement nor in a function literal.
func rwIsTailReturn(body *ast.BlockStmt, c *ast.CallExpr) bool {
	found := false
	var stack []ast.Node
	ast.Inspect(body, func(n ast.Node) bool {
		if n == nil {
			stack = stack[:len(stack)-1]
			return true
		}
		if rs, ok := n.(*ast.ReturnStmt); ok && len(rs.Results) == 1 && rs.Results[0] == ast.Expr(c) {
			ok := true
			for _, a := range stack {
				switch a.(type) {
				case *ast.GoStmt, *ast.FuncLit, *ast.DeferStmt, *ast.ForStmt, *ast.RangeStmt:
					ok = false
				}
			}
			found = ok
		}
		stack = append(stack, n)
		return true
	})
	return found
}
