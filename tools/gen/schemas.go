package main

// Translator piece for C14/C11: the JSON schemas of the scan result types.
//
// For every result type it emits (Gen/Schemas.v)
//   - the member list the code actually writes: for the easyjson types it is read off the generated
//     encoder function (key literal, writer method, omit condition, nested nullable object), for the
//     reflective types (MarshalJSON = json.Marshal of a method-less copy) off the struct tags;
//   - for the easyjson types additionally the member list the struct tags declare (the theorem
//     C14_schemas_agree compares the two: a stale generated encoder breaks it);
//   - which string escaper applies (easyjson jwriter with NoEscapeHTML unset / encoding/json.Marshal);
//   - how Result.ID() is built.
// Any shape not listed here aborts the translation.

import (
	"bytes"
	"fmt"
	"go/ast"
	"go/token"
	"path/filepath"
	"reflect"
	"strconv"
	"strings"
)

func init() { register("Schemas", genSchemas) }

type jsField struct {
	key  string
	omit bool
	ty   string // Coq term of type fty
}

func coqFields(fs []jsField) string {
	var parts []string
	for _, f := range fs {
		parts = append(parts, fmt.Sprintf("{| fkey := str %s; fomit := %v; ftype := %s |}", coqString(f.key), f.omit, f.ty))
	}
	return "[" + strings.Join(parts, ";\n   ") + "]"
}

func scalarOfGoType(name string) (string, bool) {
	switch name {
	case "string":
		return "SStr", true
	case "bool":
		return "SBool", true
	case "uint8", "byte":
		return "SUint 8", true
	case "uint16":
		return "SUint 16", true
	case "uint32":
		return "SUint 32", true
	case "uint64", "uint":
		return "SUint 64", true
	case "int8":
		return "SInt 8", true
	case "int16":
		return "SInt 16", true
	case "int32":
		return "SInt 32", true
	case "int64", "int":
		return "SInt 64", true
	}
	return "", false
}

func findStruct(p *pkgFiles, name string) *ast.StructType {
	for _, f := range p.files {
		for _, d := range f.Decls {
			gd, ok := d.(*ast.GenDecl)
			if !ok || gd.Tok != token.TYPE {
				continue
			}
			for _, s := range gd.Specs {
				ts := s.(*ast.TypeSpec)
				if ts.Name.Name == name {
					st, ok := ts.Type.(*ast.StructType)
					if !ok {
						die("%s: type %s is not a struct", p.pos(ts), name)
					}
					return st
				}
			}
		}
	}
	die("struct type %s not found", name)
	return nil
}

type tagField struct {
	goName string
	jsField
	scalar string // sty term when the field is a scalar
}

// jsonTag parses a `json:"name,omitempty"` tag; fields without a json tag, with "-" or with other
// options are not expected here.
func jsonTag(p *pkgFiles, f *ast.Field) (string, bool) {
	if f.Tag == nil {
		die("%s: result field without a json tag", p.pos(f))
	}
	raw, err := strconv.Unquote(f.Tag.Value)
	if err != nil {
		die("%s: bad tag literal", p.pos(f))
	}
	v, ok := reflect.StructTag(raw).Lookup("json")
	if !ok || v == "" || v == "-" {
		die("%s: unsupported json tag %q", p.pos(f), raw)
	}
	parts := strings.Split(v, ",")
	omit := false
	for _, o := range parts[1:] {
		if o != "omitempty" {
			die("%s: unsupported json tag option %q", p.pos(f), o)
		}
		omit = true
	}
	if parts[0] == "" {
		die("%s: empty json name", p.pos(f))
	}
	return parts[0], omit
}

func structTagFields(p *pkgFiles, name string, nested bool) []tagField {
	st := findStruct(p, name)
	var out []tagField
	for _, f := range st.Fields.List {
		if len(f.Names) != 1 {
			die("%s: embedded or multi-name field in %s", p.pos(f), name)
		}
		if !f.Names[0].IsExported() {
			die("%s: unexported field in %s", p.pos(f), name)
		}
		key, omit := jsonTag(p, f)
		tf := tagField{goName: f.Names[0].Name}
		tf.key, tf.omit = key, omit
		switch t := f.Type.(type) {
		case *ast.Ident:
			s, ok := scalarOfGoType(t.Name)
			if !ok {
				die("%s: unsupported field type %s", p.pos(f), t.Name)
			}
			tf.scalar = s
			tf.ty = "FS (" + s + ")"
		case *ast.StarExpr:
			id, ok := t.X.(*ast.Ident)
			if !ok || nested {
				die("%s: unsupported pointer field", p.pos(f))
			}
			sub := structTagFields(p, id.Name, true)
			var parts []string
			for _, sf := range sub {
				if sf.scalar == "" || sf.omit {
					die("%s: nested struct %s has a non-scalar or omitempty field", p.pos(f), id.Name)
				}
				parts = append(parts, fmt.Sprintf("(str %s, %s)", coqString(sf.key), sf.scalar))
			}
			tf.ty = "FPtr [" + strings.Join(parts, "; ") + "]"
		case *ast.MapType, *ast.SelectorExpr, *ast.InterfaceType:
			if nested {
				die("%s: unsupported nested field type", p.pos(f))
			}
			if mt, ok := t.(*ast.MapType); ok {
				if k, ok := mt.Key.(*ast.Ident); !ok || k.Name != "string" {
					die("%s: map key type is not string", p.pos(f))
				}
			}
			tf.ty = "FAny"
		default:
			die("%s: unsupported field type %T", p.pos(f), f.Type)
		}
		out = append(out, tf)
	}
	return out
}

// selField returns F for an expression `recv.F`, `*recv.F`, or T(recv.F) (one conversion).
func selField(e ast.Expr, recv string) (string, bool) {
	if ce, ok := e.(*ast.CallExpr); ok && len(ce.Args) == 1 {
		if _, ok := ce.Fun.(*ast.Ident); ok {
			e = ce.Args[0]
		}
	}
	if se, ok := e.(*ast.StarExpr); ok {
		e = se.X
	}
	se, ok := e.(*ast.SelectorExpr)
	if !ok {
		return "", false
	}
	id, ok := se.X.(*ast.Ident)
	if !ok || id.Name != recv {
		return "", false
	}
	return se.Sel.Name, true
}

// outCall matches the statement `out.M(args...)`.
func outCall(s ast.Stmt) (string, []ast.Expr, bool) {
	es, ok := s.(*ast.ExprStmt)
	if !ok {
		return "", nil, false
	}
	ce, ok := es.X.(*ast.CallExpr)
	if !ok {
		return "", nil, false
	}
	se, ok := ce.Fun.(*ast.SelectorExpr)
	if !ok {
		return "", nil, false
	}
	if id, ok := se.X.(*ast.Ident); !ok || id.Name != "out" {
		return "", nil, false
	}
	return se.Sel.Name, ce.Args, true
}

func charLit(e ast.Expr) (string, bool) {
	bl, ok := e.(*ast.BasicLit)
	if !ok || (bl.Kind != token.CHAR && bl.Kind != token.STRING) {
		return "", false
	}
	if bl.Kind == token.CHAR {
		r, _, _, err := strconv.UnquoteChar(bl.Value[1:len(bl.Value)-1], '\'')
		if err != nil {
			return "", false
		}
		return string(r), true
	}
	s, err := strconv.Unquote(bl.Value)
	return s, err == nil
}

type encField struct {
	goName string
	jsField
	scalar string
}

// easyEncoderFields walks one generated easyjson encoder function.
func easyEncoderFields(p *pkgFiles, fname string, nested bool) []encField {
	fd := p.findFunc("", fname)
	if fd.Type.Params == nil || len(fd.Type.Params.List) != 2 {
		die("%s: encoder %s does not take (out, in)", p.pos(fd), fname)
	}
	if n := fd.Type.Params.List[0].Names; len(n) != 1 || n[0].Name != "out" {
		die("%s: encoder %s: first parameter is not `out`", p.pos(fd), fname)
	}
	if n := fd.Type.Params.List[1].Names; len(n) != 1 || n[0].Name != "in" {
		die("%s: encoder %s: second parameter is not `in`", p.pos(fd), fname)
	}
	body := fd.Body.List
	if len(body) < 2 {
		die("%s: encoder %s too short", p.pos(fd), fname)
	}
	if m, a, ok := outCall(body[0]); !ok || m != "RawByte" || len(a) != 1 {
		die("%s: encoder %s does not start with out.RawByte('{')", p.pos(fd), fname)
	} else if c, ok := charLit(a[0]); !ok || c != "{" {
		die("%s: encoder %s does not start with '{'", p.pos(fd), fname)
	}
	if m, a, ok := outCall(body[len(body)-1]); !ok || m != "RawByte" || len(a) != 1 {
		die("%s: encoder %s does not end with out.RawByte('}')", p.pos(fd), fname)
	} else if c, ok := charLit(a[0]); !ok || c != "}" {
		die("%s: encoder %s does not end with '}'", p.pos(fd), fname)
	}
	var out []encField
	for _, s := range body[1 : len(body)-1] {
		switch st := s.(type) {
		case *ast.AssignStmt:
			// first := true ; _ = first
			if len(st.Lhs) == 1 && len(st.Rhs) == 1 {
				l, lok := st.Lhs[0].(*ast.Ident)
				if lok && l.Name == "first" {
					if r, ok := st.Rhs[0].(*ast.Ident); ok && r.Name == "true" {
						continue
					}
				}
				if lok && l.Name == "_" {
					if r, ok := st.Rhs[0].(*ast.Ident); ok && r.Name == "first" {
						continue
					}
				}
			}
			die("%s: unexpected assignment in encoder", p.pos(s))
		case *ast.BlockStmt:
			out = append(out, easyFieldBlock(p, st, false, "", len(out) == 0, nested))
		case *ast.IfStmt:
			if st.Else != nil || st.Init != nil {
				die("%s: unexpected if shape in encoder", p.pos(s))
			}
			fieldName, zero := omitCond(p, st.Cond)
			f := easyFieldBlock(p, st.Body, true, fieldName, len(out) == 0, nested)
			wantZero := map[string]string{"SStr": `""`, "SBool": "true"}[f.scalar]
			if strings.HasPrefix(f.scalar, "SUint") || strings.HasPrefix(f.scalar, "SInt") {
				wantZero = "0"
			}
			if zero != wantZero {
				die("%s: omit condition does not test the zero value of %s", p.pos(s), f.scalar)
			}
			out = append(out, f)
		default:
			die("%s: unexpected statement %T in encoder", p.pos(s), s)
		}
	}
	return out
}

// omitCond matches `in.F != ""`, `in.F != 0`, `in.F` and returns F and the literal compared with.
func omitCond(p *pkgFiles, e ast.Expr) (string, string) {
	switch c := e.(type) {
	case *ast.BinaryExpr:
		if c.Op != token.NEQ {
			die("%s: omit condition is not !=", p.pos(e))
		}
		f, ok := selField(c.X, "in")
		bl, ok2 := c.Y.(*ast.BasicLit)
		if !ok || !ok2 {
			die("%s: unsupported omit condition", p.pos(e))
		}
		return f, bl.Value
	case *ast.SelectorExpr:
		f, ok := selField(c, "in")
		if !ok {
			die("%s: unsupported omit condition", p.pos(e))
		}
		return f, "true"
	}
	die("%s: unsupported omit condition %T", p.pos(e), e)
	return "", ""
}

func easyFieldBlock(p *pkgFiles, b *ast.BlockStmt, omit bool, condField string, first, nested bool) encField {
	if len(b.List) != 3 {
		die("%s: member block with %d statements", p.pos(b), len(b.List))
	}
	// const prefix string = ",\"key\":"
	ds, ok := b.List[0].(*ast.DeclStmt)
	if !ok {
		die("%s: member block does not start with the prefix constant", p.pos(b))
	}
	gd, ok := ds.Decl.(*ast.GenDecl)
	if !ok || gd.Tok != token.CONST || len(gd.Specs) != 1 {
		die("%s: bad prefix declaration", p.pos(b))
	}
	vs := gd.Specs[0].(*ast.ValueSpec)
	if len(vs.Names) != 1 || vs.Names[0].Name != "prefix" || len(vs.Values) != 1 {
		die("%s: bad prefix declaration", p.pos(b))
	}
	prefix, ok := charLit(vs.Values[0])
	if !ok || len(prefix) < 5 || !strings.HasPrefix(prefix, `,"`) || !strings.HasSuffix(prefix, `":`) {
		die("%s: prefix literal %q is not ,\"key\":", p.pos(b), prefix)
	}
	key := prefix[2 : len(prefix)-2]
	for _, c := range []byte(key) {
		if c < 32 || c > 126 || c == '"' || c == '\\' {
			die("%s: key %q needs escaping", p.pos(b), key)
		}
	}
	// out.RawString(prefix[1:]) for the first member (which must not be omittable), out.RawString(prefix) after
	m, a, ok := outCall(b.List[1])
	if !ok || m != "RawString" || len(a) != 1 {
		die("%s: member block does not write its prefix with out.RawString", p.pos(b))
	}
	switch x := a[0].(type) {
	case *ast.Ident:
		if x.Name != "prefix" || first {
			die("%s: the first member must drop the leading comma, later members must not", p.pos(b))
		}
	case *ast.SliceExpr:
		id, ok := x.X.(*ast.Ident)
		lo, ok2 := x.Low.(*ast.BasicLit)
		if !ok || !ok2 || id.Name != "prefix" || lo.Value != "1" || x.High != nil || !first || omit {
			die("%s: unexpected prefix slice", p.pos(b))
		}
	default:
		die("%s: unexpected prefix expression", p.pos(b))
	}
	f := encField{}
	f.key, f.omit = key, omit
	// the value
	switch v := b.List[2].(type) {
	case *ast.ExprStmt:
		m, a, ok := outCall(v)
		if !ok || len(a) != 1 {
			die("%s: unexpected value statement", p.pos(v))
		}
		name, ok := selField(a[0], "in")
		if !ok {
			die("%s: value is not a field of `in`", p.pos(v))
		}
		f.goName = name
		switch m {
		case "String":
			f.scalar = "SStr"
		case "Bool":
			f.scalar = "SBool"
		case "Uint8":
			f.scalar = "SUint 8"
		case "Uint16":
			f.scalar = "SUint 16"
		case "Uint32":
			f.scalar = "SUint 32"
		case "Uint64", "Uint":
			f.scalar = "SUint 64"
		case "Int8":
			f.scalar = "SInt 8"
		case "Int16":
			f.scalar = "SInt 16"
		case "Int32":
			f.scalar = "SInt 32"
		case "Int64", "Int":
			f.scalar = "SInt 64"
		default:
			die("%s: unsupported writer method %s", p.pos(v), m)
		}
		f.ty = "FS (" + f.scalar + ")"
	case *ast.IfStmt:
		// if in.F == nil { out.RawString("null") } else { enc(out, *in.F) }
		if nested || omit {
			die("%s: unsupported nesting", p.pos(v))
		}
		be, ok := v.Cond.(*ast.BinaryExpr)
		if !ok || be.Op != token.EQL {
			die("%s: unexpected pointer test", p.pos(v))
		}
		name, ok := selField(be.X, "in")
		if id, ok2 := be.Y.(*ast.Ident); !ok || !ok2 || id.Name != "nil" {
			die("%s: unexpected pointer test", p.pos(v))
		}
		f.goName = name
		if len(v.Body.List) != 1 {
			die("%s: unexpected nil branch", p.pos(v))
		}
		if m, a, ok := outCall(v.Body.List[0]); !ok || m != "RawString" || len(a) != 1 {
			die("%s: unexpected nil branch", p.pos(v))
		} else if s, ok := charLit(a[0]); !ok || s != "null" {
			die("%s: nil pointer is not written as null", p.pos(v))
		}
		eb, ok := v.Else.(*ast.BlockStmt)
		if !ok || len(eb.List) != 1 {
			die("%s: unexpected else branch", p.pos(v))
		}
		es, ok := eb.List[0].(*ast.ExprStmt)
		if !ok {
			die("%s: unexpected else branch", p.pos(v))
		}
		ce, ok := es.X.(*ast.CallExpr)
		if !ok || len(ce.Args) != 2 {
			die("%s: unexpected else branch", p.pos(v))
		}
		fn, ok := ce.Fun.(*ast.Ident)
		if !ok {
			die("%s: unexpected nested encoder call", p.pos(v))
		}
		if o, ok := ce.Args[0].(*ast.Ident); !ok || o.Name != "out" {
			die("%s: nested encoder does not get `out`", p.pos(v))
		}
		if n2, ok := selField(ce.Args[1], "in"); !ok || n2 != name {
			die("%s: nested encoder does not get *in.%s", p.pos(v), name)
		}
		sub := easyEncoderFields(p, fn.Name, true)
		var parts []string
		for _, sf := range sub {
			if sf.scalar == "" || sf.omit {
				die("%s: nested encoder has a non-scalar or omittable member", p.pos(v))
			}
			parts = append(parts, fmt.Sprintf("(str %s, %s)", coqString(sf.key), sf.scalar))
		}
		f.ty = "FPtr [" + strings.Join(parts, "; ") + "]"
	default:
		die("%s: unexpected value statement %T", p.pos(b.List[2]), b.List[2])
	}
	if omit && condField != f.goName {
		die("%s: omit condition tests %s but the member writes %s", p.pos(b), condField, f.goName)
	}
	return f
}

// marshalKind inspects MarshalJSON of ScanResult: "easy:<encoder func>" or "std".
func marshalKind(p *pkgFiles) string {
	fd := p.findFunc("ScanResult", "MarshalJSON")
	body := fd.Body.List
	recv := ""
	if len(fd.Recv.List[0].Names) == 1 {
		recv = fd.Recv.List[0].Names[0].Name
	}
	// easyjson: w := jwriter.Writer{}; enc(&w, v); return w.Buffer.BuildBytes(), w.Error
	if len(body) == 3 {
		as, ok := body[0].(*ast.AssignStmt)
		if ok && len(as.Rhs) == 1 {
			if cl, ok := as.Rhs[0].(*ast.CompositeLit); ok {
				se, ok := cl.Type.(*ast.SelectorExpr)
				if ok && se.Sel.Name == "Writer" {
					if x, ok := se.X.(*ast.Ident); !ok || x.Name != "jwriter" {
						die("%s: unexpected writer type", p.pos(cl))
					}
					if len(cl.Elts) != 0 {
						die("%s: jwriter.Writer literal sets fields (NoEscapeHTML/Flags?)", p.pos(cl))
					}
					es, ok := body[1].(*ast.ExprStmt)
					if !ok {
						die("%s: unexpected MarshalJSON body", p.pos(fd))
					}
					ce, ok := es.X.(*ast.CallExpr)
					if !ok || len(ce.Args) != 2 {
						die("%s: unexpected MarshalJSON body", p.pos(fd))
					}
					fn, ok := ce.Fun.(*ast.Ident)
					if !ok {
						die("%s: unexpected encoder call", p.pos(fd))
					}
					if a, ok := ce.Args[1].(*ast.Ident); !ok || a.Name != recv {
						die("%s: encoder is not applied to the receiver", p.pos(fd))
					}
					rs, ok := body[2].(*ast.ReturnStmt)
					if !ok || len(rs.Results) != 2 {
						die("%s: unexpected MarshalJSON return", p.pos(fd))
					}
					var b bytes.Buffer
					for _, r := range rs.Results {
						b.WriteString(exprText(r) + ";")
					}
					if b.String() != "w.Buffer.BuildBytes();w.Error;" {
						die("%s: unexpected MarshalJSON return %s", p.pos(fd), b.String())
					}
					return "easy:" + fn.Name
				}
			}
		}
	}
	// reflective: type J ScanResult; return json.Marshal(J(*r))
	if len(body) == 2 {
		ds, ok := body[0].(*ast.DeclStmt)
		rs, ok2 := body[1].(*ast.ReturnStmt)
		if ok && ok2 && len(rs.Results) == 1 {
			gd := ds.Decl.(*ast.GenDecl)
			if gd.Tok == token.TYPE && len(gd.Specs) == 1 {
				ts := gd.Specs[0].(*ast.TypeSpec)
				if id, ok := ts.Type.(*ast.Ident); ok && id.Name == "ScanResult" && ts.Assign == token.NoPos {
					want := fmt.Sprintf("json.Marshal(%s(*%s))", ts.Name.Name, recv)
					if exprText(rs.Results[0]) == want {
						return "std"
					}
				}
			}
		}
	}
	die("%s: unsupported MarshalJSON body", p.pos(fd))
	return ""
}

func exprText(e ast.Expr) string {
	switch x := e.(type) {
	case *ast.Ident:
		return x.Name
	case *ast.SelectorExpr:
		return exprText(x.X) + "." + x.Sel.Name
	case *ast.StarExpr:
		return "*" + exprText(x.X)
	case *ast.CallExpr:
		var a []string
		for _, y := range x.Args {
			a = append(a, exprText(y))
		}
		return exprText(x.Fun) + "(" + strings.Join(a, ",") + ")"
	case *ast.BasicLit:
		return x.Value
	}
	return fmt.Sprintf("<%T>", e)
}

// idParts translates ScanResult.ID(): `return r.F` or `return fmt.Sprintf("%s:%d", r.F, r.G)`.
func idParts(p *pkgFiles, keyOf map[string]string) string {
	fd := p.findFunc("ScanResult", "ID")
	if len(fd.Body.List) != 1 || len(fd.Recv.List[0].Names) != 1 {
		die("%s: unsupported ID body", p.pos(fd))
	}
	recv := fd.Recv.List[0].Names[0].Name
	rs, ok := fd.Body.List[0].(*ast.ReturnStmt)
	if !ok || len(rs.Results) != 1 {
		die("%s: unsupported ID body", p.pos(fd))
	}
	field := func(e ast.Expr) string {
		se, ok := e.(*ast.SelectorExpr)
		if !ok {
			die("%s: ID uses something that is not a field", p.pos(e))
		}
		if id, ok := se.X.(*ast.Ident); !ok || id.Name != recv {
			die("%s: ID uses something that is not a field of the receiver", p.pos(e))
		}
		k, ok := keyOf[se.Sel.Name]
		if !ok {
			die("%s: ID uses field %s which has no scalar json member", p.pos(e), se.Sel.Name)
		}
		return "IdField (str " + coqString(k) + ")"
	}
	switch r := rs.Results[0].(type) {
	case *ast.SelectorExpr:
		return "[" + field(r) + "]"
	case *ast.CallExpr:
		if exprText(r.Fun) != "fmt.Sprintf" || len(r.Args) < 1 {
			die("%s: unsupported ID expression", p.pos(r))
		}
		format, ok := charLit(r.Args[0])
		if !ok {
			die("%s: ID format is not a literal", p.pos(r))
		}
		var parts []string
		arg := 1
		lit := ""
		flush := func() {
			if lit != "" {
				parts = append(parts, "IdLit (str "+coqString(lit)+")")
				lit = ""
			}
		}
		for i := 0; i < len(format); i++ {
			if format[i] != '%' {
				lit += string(format[i])
				continue
			}
			if i+1 >= len(format) || (format[i+1] != 's' && format[i+1] != 'd') || arg >= len(r.Args) {
				die("%s: unsupported ID format %q", p.pos(r), format)
			}
			flush()
			parts = append(parts, field(r.Args[arg]))
			arg++
			i++
		}
		flush()
		if arg != len(r.Args) {
			die("%s: ID format %q does not use all arguments", p.pos(r), format)
		}
		return "[" + strings.Join(parts, "; ") + "]"
	}
	die("%s: unsupported ID expression", p.pos(rs))
	return ""
}

func genSchemas() {
	type rt struct{ name, dir string }
	types := []rt{{"arp", "pkg/scan/arp"}, {"tcp", "pkg/scan/tcp"}, {"icmp", "pkg/scan/icmp"},
		{"socks", "pkg/scan/socks5"}, {"elastic", "pkg/scan/elastic"}, {"docker", "pkg/scan/docker"}}
	var b bytes.Buffer
	b.WriteString("(* GENERATED by tools/gen from the result types of pkg/scan/{arp,tcp,icmp,socks5,elastic,docker}\n" +
		"   (struct tags, generated easyjson encoders, MarshalJSON and ID methods). Do not edit. *)\n")
	b.WriteString("From Coq Require Import ZArith Bool Ascii String List.\nFrom SX Require Import Base.Bytes Model.Json.\n" +
		"Import ListNotations.\nLocal Open Scope Z_scope.\nLocal Open Scope string_scope.\n\n")
	var names, pairs []string
	for _, t := range types {
		p := parseDir(filepath.Join(*repo, t.dir))
		tags := structTagFields(p, "ScanResult", false)
		keyOf := map[string]string{}
		var tagJs []jsField
		for _, tf := range tags {
			tagJs = append(tagJs, tf.jsField)
			if tf.scalar != "" {
				keyOf[tf.goName] = tf.key
			}
		}
		kind := marshalKind(p)
		flavour := "Std"
		fmt.Fprintf(&b, "(* %s: members declared by the struct tags of %s.ScanResult *)\n", t.name, t.dir)
		fmt.Fprintf(&b, "Definition %s_tag_fields : list field :=\n  %s.\n", t.name, coqFields(tagJs))
		fieldsName := t.name + "_tag_fields"
		if strings.HasPrefix(kind, "easy:") {
			flavour = "Easy"
			enc := easyEncoderFields(p, kind[5:], false)
			var encJs []jsField
			for _, ef := range enc {
				encJs = append(encJs, ef.jsField)
			}
			fmt.Fprintf(&b, "(* %s: members written by the generated encoder %s *)\n", t.name, kind[5:])
			fmt.Fprintf(&b, "Definition %s_enc_fields : list field :=\n  %s.\n", t.name, coqFields(encJs))
			fieldsName = t.name + "_enc_fields"
			pairs = append(pairs, fmt.Sprintf("(%s_enc_fields, %s_tag_fields)", t.name, t.name))
			// the Go field each member reads must be the one carrying that tag
			if len(enc) == len(tags) {
				for i := range enc {
					if enc[i].goName != tags[i].goName {
						die("%s: encoder member %q reads field %s, the tag is on %s", t.dir, enc[i].key, enc[i].goName, tags[i].goName)
					}
				}
			}
		}
		fmt.Fprintf(&b, "Definition %s_schema : schema :=\n  {| sc_name := str %s; sc_flavour := %s; sc_fields := %s;\n     sc_id := %s |}.\n\n",
			t.name, coqString(t.name), flavour, fieldsName, idParts(p, keyOf))
		names = append(names, t.name+"_schema")
	}
	fmt.Fprintf(&b, "Definition schemas : list schema :=\n  [%s].\n\n", strings.Join(names, "; "))
	fmt.Fprintf(&b, "(* (written by the encoder, declared by the tags) for the easyjson types *)\n"+
		"Definition enc_tag_pairs : list (list field * list field) :=\n  [%s].\n", strings.Join(pairs, "; "))
	writeIfChanged("Schemas.v", b.Bytes())
}
