module verifgen

go 1.19
