package main

import (
	"bytes"
	"fmt"
	"go/ast"
	"go/printer"
	"go/token"
	"path/filepath"
	"strconv"
	"strings"
)

func init() { register("LiveWiring", genLiveWiring) }

// genLiveWiring translates how command/arp.go wires live mode: the chain of request generator
// constructors newARPScanMethod applies (with the guard of each), what consumes the resulting
// generator, the logger chain of getLogger, how RunE uses both, and the --live flag. Output:
// coq/Gen/LiveWiring.v, consumed by Spec/C19.v (live_wiring_ok) and a theorem of Properties/C19.v.
func genLiveWiring() {
	p := parseDir(filepath.Join(*repo, "command"))

	// ---- newARPScanMethod: assignments to the scan.RequestGenerator variable, its consumer
	fm := p.findFunc("arpCmdOpts", "newARPScanMethod")
	recv := lw_recvName(p, fm)
	genVar := ""
	for _, st := range fm.Body.List {
		if ds, ok := st.(*ast.DeclStmt); ok {
			gd := ds.Decl.(*ast.GenDecl)
			if gd.Tok != token.VAR {
				continue
			}
			for _, sp := range gd.Specs {
				vs := sp.(*ast.ValueSpec)
				if lw_text(p, vs.Type) == "scan.RequestGenerator" && len(vs.Names) == 1 {
					if genVar != "" {
						die("%s: newARPScanMethod: two scan.RequestGenerator variables", p.pos(vs))
					}
					genVar = vs.Names[0].Name
				}
			}
		}
	}
	if genVar == "" {
		die("%s: newARPScanMethod: no `var X scan.RequestGenerator = ...` found", p.pos(fm))
	}
	chain := lw_assignments(p, fm.Body, genVar, "newARPScanMethod")
	// every other mention of the variable must be as an argument of exactly one constructor call
	consumer, consumerArg := "", -1
	assignedIn := map[ast.Node]bool{}
	for _, a := range chain {
		assignedIn[a.node] = true
	}
	var walk func(n ast.Node, inAssign bool)
	walk = func(n ast.Node, inAssign bool) {
		ast.Inspect(n, func(x ast.Node) bool {
			if x == nil {
				return true
			}
			if assignedIn[x] {
				return false // mentions inside the recorded assignments are the w_wraps_prev arguments
			}
			if call, ok := x.(*ast.CallExpr); ok {
				for i, arg := range call.Args {
					if lw_isIdent(arg, genVar) {
						if consumer != "" {
							die("%s: newARPScanMethod: %s is passed on more than once", p.pos(call), genVar)
						}
						consumer, consumerArg = lw_text(p, call.Fun), i
					}
				}
			}
			return true
		})
	}
	walk(fm.Body, false)
	mentions := 0
	ast.Inspect(fm.Body, func(x ast.Node) bool {
		if lw_isIdent(x, genVar) {
			mentions++
		}
		return true
	})
	expected := 1 // the declaration
	for _, a := range chain {
		if !a.decl {
			expected++ // left-hand side
		}
		if a.wrapsPrev {
			expected++
		}
	}
	if consumer != "" {
		expected++
	}
	if mentions != expected {
		die("%s: newARPScanMethod: %s is mentioned %d times, %d understood (an unrecognised use)", p.pos(fm), genVar, mentions, expected)
	}

	// ---- getLogger: assignments to the logger result
	fl := p.findFunc("arpCmdOpts", "getLogger")
	lrecv := lw_recvName(p, fl)
	logVar := ""
	if fl.Type.Results != nil {
		for _, f := range fl.Type.Results.List {
			if lw_text(p, f.Type) == "log.Logger" && len(f.Names) == 1 {
				logVar = f.Names[0].Name
			}
		}
	}
	if logVar == "" {
		die("%s: arpCmdOpts.getLogger: no named log.Logger result", p.pos(fl))
	}
	logChain := lw_assignments(p, fl.Body, logVar, "getLogger")
	// the function must end by returning that variable (bare return with named results, or explicitly)
	lastSt := fl.Body.List[len(fl.Body.List)-1]
	rs, ok := lastSt.(*ast.ReturnStmt)
	if !ok || !(len(rs.Results) == 0 || (len(rs.Results) >= 1 && lw_isIdent(rs.Results[0], logVar))) {
		die("%s: arpCmdOpts.getLogger: does not end by returning %s", p.pos(lastSt), logVar)
	}

	// ---- newARPCmd (RunE): the logger of getLogger goes to withLogger, the method of
	// newARPScanMethod goes to withPacketScanMethod
	fc := p.findFunc("", "newARPCmd")
	runLogger, runMethod := "", ""
	usesLogger, usesMethod := false, false
	ast.Inspect(fc.Body, func(x ast.Node) bool {
		as, ok := x.(*ast.AssignStmt)
		if !ok || len(as.Rhs) != 1 {
			return true
		}
		call, ok := as.Rhs[0].(*ast.CallExpr)
		if !ok {
			return true
		}
		switch lw_text(p, call.Fun) {
		case "c.opts.getLogger":
			runLogger = lw_identName(as.Lhs[0])
		case "c.opts.newARPScanMethod":
			runMethod = lw_identName(as.Lhs[0])
		}
		return true
	})
	ast.Inspect(fc.Body, func(x ast.Node) bool {
		call, ok := x.(*ast.CallExpr)
		if !ok || len(call.Args) != 1 {
			return true
		}
		switch lw_text(p, call.Fun) {
		case "withLogger":
			if usesLogger {
				die("%s: newARPCmd: withLogger is called twice", p.pos(call))
			}
			usesLogger = runLogger != "" && lw_isIdent(call.Args[0], runLogger)
		case "withPacketScanMethod":
			if usesMethod {
				die("%s: newARPCmd: withPacketScanMethod is called twice", p.pos(call))
			}
			usesMethod = runMethod != "" && lw_isIdent(call.Args[0], runMethod)
		}
		return true
	})

	// ---- the flag: cmd.Flags().DurationVar(&o.liveTimeout, "live", 0, ...)
	fi := p.findFunc("arpCmdOpts", "initCliFlags")
	irecv := lw_recvName(p, fi)
	flagName, flagField, flagDefault := "", "", ""
	ast.Inspect(fi.Body, func(x ast.Node) bool {
		call, ok := x.(*ast.CallExpr)
		if !ok || len(call.Args) != 4 {
			return true
		}
		se, ok := call.Fun.(*ast.SelectorExpr)
		if !ok || se.Sel.Name != "DurationVar" {
			return true
		}
		ue, ok := call.Args[0].(*ast.UnaryExpr)
		if !ok || ue.Op != token.AND {
			return true
		}
		field := lw_text(p, ue.X)
		if !strings.HasSuffix(field, ".liveTimeout") {
			return true
		}
		lit, ok := call.Args[1].(*ast.BasicLit)
		if !ok || lit.Kind != token.STRING {
			die("%s: initCliFlags: flag name is not a string literal", p.pos(call))
		}
		n, err := strconv.Unquote(lit.Value)
		if err != nil {
			die("%s: %v", p.pos(lit), err)
		}
		if flagName != "" {
			die("%s: initCliFlags: liveTimeout is bound to two flags", p.pos(call))
		}
		flagName, flagField = n, strings.Replace(field, irecv+".", "o.", 1)
		flagDefault = zlit(evalInt(p, call.Args[2], nil))
		return true
	})
	if flagName == "" {
		die("%s: initCliFlags: no DurationVar flag bound to liveTimeout", p.pos(fi))
	}

	norm := func(recvName, s string) string {
		// receiver-independent text: the receiver is always written `o`
		if recvName == "o" || recvName == "" {
			return s
		}
		return strings.ReplaceAll(s, recvName+".", "o.")
	}
	var b bytes.Buffer
	b.WriteString("(* GENERATED by tools/gen from command/arp.go (newARPScanMethod, getLogger, newARPCmd, initCliFlags).\n")
	b.WriteString("   Do not edit. *)\n")
	b.WriteString("From Coq Require Import String List ZArith.\nFrom SX Require Import Model.Live.\nImport ListNotations.\nLocal Open Scope string_scope.\n\n")
	emit := func(name string, recvName string, l []lwAssign) {
		fmt.Fprintf(&b, "Definition %s : list wrap := [\n", name)
		for i, a := range l {
			args := make([]string, len(a.args))
			for j, x := range a.args {
				args[j] = coqString(norm(recvName, x))
			}
			sep := ";"
			if i == len(l)-1 {
				sep = ""
			}
			fmt.Fprintf(&b, "  {| w_ctor := %s; w_wraps_prev := %v; w_guard := %s; w_args := [%s] |}%s\n",
				coqString(norm(recvName, a.ctor)), a.wrapsPrev, coqString(norm(recvName, a.guard)), strings.Join(args, "; "), sep)
		}
		b.WriteString("].\n")
	}
	b.WriteString("(* newARPScanMethod: the assignments to the request generator, in program order *)\n")
	emit("arp_reqgen_chain", recv, chain)
	b.WriteString("(* what the final generator is handed to, and as which argument *)\n")
	fmt.Fprintf(&b, "Definition arp_reqgen_consumer : string := %s.\n", coqString(consumer))
	fmt.Fprintf(&b, "Definition arp_reqgen_consumer_arg : Z := %d.\n", consumerArg)
	b.WriteString("(* arpCmdOpts.getLogger: the assignments to the logger it returns *)\n")
	emit("arp_logger_chain", lrecv, logChain)
	b.WriteString("(* newARPCmd: getLogger's logger reaches withLogger, newARPScanMethod's method reaches withPacketScanMethod *)\n")
	fmt.Fprintf(&b, "Definition arp_run_uses_logger : bool := %v.\n", usesLogger)
	fmt.Fprintf(&b, "Definition arp_run_uses_method : bool := %v.\n", usesMethod)
	b.WriteString("(* the flag bound to the live interval *)\n")
	fmt.Fprintf(&b, "Definition arp_live_flag : string := %s.\n", coqString(flagName))
	fmt.Fprintf(&b, "Definition arp_live_flag_field : string := %s.\n", coqString(flagField))
	fmt.Fprintf(&b, "Definition arp_live_flag_default : Z := %s.\n", flagDefault)
	writeIfChanged("LiveWiring.v", b.Bytes())
}

type lwAssign struct {
	node      ast.Node
	decl      bool
	ctor      string
	wrapsPrev bool
	guard     string
	args      []string
}

// lw_assignments collects, in program order, every assignment to variable v in the top-level
// statements of body: `var v T = f(...)`, `v = f(...)`, `v, err = f(...)` (also as the init of an
// if), and `if cond { v = f(...) }` (single statement, no else). Any other assignment shape dies.
func lw_assignments(p *pkgFiles, body *ast.BlockStmt, v, where string) []lwAssign {
	var out []lwAssign
	mk := func(n ast.Node, decl bool, rhs ast.Expr, guard string) lwAssign {
		call, ok := rhs.(*ast.CallExpr)
		if !ok {
			die("%s: %s: %s is assigned something that is not a call", p.pos(n), where, v)
		}
		a := lwAssign{node: n, decl: decl, ctor: lw_text(p, call.Fun), guard: guard}
		for i, arg := range call.Args {
			if i == 0 && lw_isIdent(arg, v) {
				a.wrapsPrev = true
				continue
			}
			if lw_mentions(arg, v) {
				die("%s: %s: %s is used inside an argument in an unrecognised way", p.pos(arg), where, v)
			}
			a.args = append(a.args, lw_text(p, arg))
		}
		return a
	}
	assignTo := func(st ast.Stmt) (*ast.AssignStmt, bool) {
		as, ok := st.(*ast.AssignStmt)
		if !ok || len(as.Lhs) < 1 || !lw_isIdent(as.Lhs[0], v) {
			return nil, false
		}
		if len(as.Rhs) != 1 || (as.Tok != token.ASSIGN && as.Tok != token.DEFINE) {
			die("%s: %s: unrecognised assignment to %s", p.pos(as), where, v)
		}
		return as, true
	}
	handled := map[ast.Node]bool{}
	for _, st := range body.List {
		switch x := st.(type) {
		case *ast.DeclStmt:
			gd := x.Decl.(*ast.GenDecl)
			for _, sp := range gd.Specs {
				vs, ok := sp.(*ast.ValueSpec)
				if !ok || len(vs.Names) != 1 || vs.Names[0].Name != v {
					continue
				}
				if len(vs.Values) != 1 {
					die("%s: %s: %s is declared without a single initial value", p.pos(vs), where, v)
				}
				out = append(out, mk(x, true, vs.Values[0], ""))
				handled[x] = true
			}
		case *ast.AssignStmt:
			if as, ok := assignTo(x); ok {
				out = append(out, mk(as, false, as.Rhs[0], ""))
				handled[as] = true
			}
		case *ast.IfStmt:
			if x.Init != nil {
				if as, ok := assignTo(x.Init); ok {
					out = append(out, mk(as, false, as.Rhs[0], ""))
					handled[as] = true
				}
			}
			if len(x.Body.List) == 1 {
				if as, ok := assignTo(x.Body.List[0]); ok {
					if x.Else != nil {
						die("%s: %s: guarded assignment to %s has an else branch", p.pos(x), where, v)
					}
					out = append(out, mk(as, false, as.Rhs[0], lw_text(p, x.Cond)))
					handled[as] = true
				}
			}
		}
	}
	// no assignment to v anywhere else (deeper nesting, loops, closures, else branches)
	ast.Inspect(body, func(n ast.Node) bool {
		if as, ok := n.(*ast.AssignStmt); ok && !handled[as] {
			for _, l := range as.Lhs {
				if lw_isIdent(l, v) {
					die("%s: %s: assignment to %s in a place the translator does not understand", p.pos(as), where, v)
				}
			}
		}
		if ue, ok := n.(*ast.UnaryExpr); ok && ue.Op == token.AND && lw_isIdent(ue.X, v) {
			die("%s: %s: the address of %s is taken", p.pos(ue), where, v)
		}
		return true
	})
	if len(out) == 0 {
		die("%s: %s: no assignment to %s found", p.pos(body), where, v)
	}
	return out
}

func lw_text(p *pkgFiles, n ast.Node) string {
	if n == nil {
		return ""
	}
	var b bytes.Buffer
	if err := printer.Fprint(&b, p.fset, n); err != nil {
		die("%s: cannot print expression: %v", p.pos(n), err)
	}
	return strings.Join(strings.Fields(b.String()), " ")
}

func lw_isIdent(n ast.Node, name string) bool {
	id, ok := n.(*ast.Ident)
	return ok && id.Name == name
}

func lw_identName(e ast.Expr) string {
	if id, ok := e.(*ast.Ident); ok {
		return id.Name
	}
	return ""
}

func lw_mentions(n ast.Node, name string) bool {
	found := false
	ast.Inspect(n, func(x ast.Node) bool {
		if lw_isIdent(x, name) {
			found = true
		}
		return true
	})
	return found
}

func lw_recvName(p *pkgFiles, fd *ast.FuncDecl) string {
	if fd.Recv == nil || len(fd.Recv.List) != 1 || len(fd.Recv.List[0].Names) != 1 {
		die("%s: %s: expected a named receiver", p.pos(fd), fd.Name.Name)
	}
	return fd.Recv.List[0].Names[0].Name
}
