package main

// Translator piece for C09 (pkg/scan/socks5, command/socks.go) -> coq/Gen/SocksConsts.v.
//
// What is transcribed: the protocol constants, the arguments of the greeting, the comparison that
// decides a report, the layout of the reply struct, where the fields of the record come from, the
// default timeouts and how the --timeout flag is wired to the two scanner options.  Shapes that do
// not mean the same thing any more (a comparison that is not a conjunction of equalities with
// constants, a record field that is not taken from the request, ...) abort the translation.
// Statement order, deadlines and cancellation are behaviour: they are tied by the harness.

import (
	"bytes"
	"fmt"
	"go/ast"
	"go/constant"
	"go/token"
	"path/filepath"
	"strings"
)

func init() { register("SocksConsts", genSocksConsts) }

// socksDurUnits are the time package's duration units in nanoseconds.
var socksDurUnits = map[string]int64{
	"Nanosecond": 1, "Microsecond": 1e3, "Millisecond": 1e6, "Second": 1e9, "Minute": 60e9, "Hour": 3600e9,
}

// probeEvalConst evaluates an integer/duration constant expression: literals, + - * /, parentheses,
// conversions, time.<Unit>, and package-level constants of p (recursively).
func probeEvalConst(p *pkgFiles, e ast.Expr, depth int) constant.Value {
	if depth > 20 {
		die("%s: constant expression too deep", p.pos(e))
	}
	switch x := e.(type) {
	case *ast.BasicLit:
		if x.Kind != token.INT {
			die("%s: non-integer literal %s in constant expression", p.pos(e), x.Value)
		}
		return constant.MakeFromLiteral(x.Value, x.Kind, 0)
	case *ast.ParenExpr:
		return probeEvalConst(p, x.X, depth+1)
	case *ast.UnaryExpr:
		return constant.UnaryOp(x.Op, probeEvalConst(p, x.X, depth+1), 0)
	case *ast.BinaryExpr:
		a, b := probeEvalConst(p, x.X, depth+1), probeEvalConst(p, x.Y, depth+1)
		switch x.Op {
		case token.ADD, token.SUB, token.MUL:
			return constant.BinaryOp(a, x.Op, b)
		case token.QUO:
			return constant.BinaryOp(a, token.QUO_ASSIGN, b) // integer division
		}
		die("%s: unsupported operator %s in constant expression", p.pos(e), x.Op)
	case *ast.SelectorExpr:
		if id, ok := x.X.(*ast.Ident); ok && id.Name == "time" {
			if u, ok := socksDurUnits[x.Sel.Name]; ok {
				return constant.MakeInt64(u)
			}
		}
		die("%s: unsupported selector in constant expression", p.pos(e))
	case *ast.Ident:
		return probeEvalConst(p, p.findConst(x.Name), depth+1)
	case *ast.CallExpr:
		if len(x.Args) == 1 {
			switch f := x.Fun.(type) {
			case *ast.Ident:
				switch f.Name {
				case "byte", "uint8", "uint16", "int", "int64":
					return probeEvalConst(p, x.Args[0], depth+1)
				}
			case *ast.SelectorExpr:
				if id, ok := f.X.(*ast.Ident); ok && id.Name == "time" && f.Sel.Name == "Duration" {
					return probeEvalConst(p, x.Args[0], depth+1)
				}
			}
		}
		die("%s: unsupported call in constant expression", p.pos(e))
	}
	die("%s: unsupported constant expression %T", p.pos(e), e)
	return nil
}

func probeStringConst(p *pkgFiles, name string) string {
	e := p.findConst(name)
	bl, ok := e.(*ast.BasicLit)
	if !ok || bl.Kind != token.STRING {
		die("%s: constant %s is not a string literal", p.pos(e), name)
	}
	return constant.StringVal(constant.MakeFromLiteral(bl.Value, bl.Kind, 0))
}

// probeExprString renders a small expression (identifiers, selectors, calls without arguments)
// as text, e.g. "r.DstIP.String()"; used to recognise where a record field comes from.
func probeExprString(e ast.Expr) string {
	switch x := e.(type) {
	case *ast.Ident:
		if r, ok := probeRename[x.Name]; ok {
			return r
		}
		return x.Name
	case *ast.SelectorExpr:
		return probeExprString(x.X) + "." + x.Sel.Name
	case *ast.CallExpr:
		args := make([]string, len(x.Args))
		for i, a := range x.Args {
			args[i] = probeExprString(a)
		}
		return probeExprString(x.Fun) + "(" + strings.Join(args, ",") + ")"
	case *ast.StarExpr:
		return "*" + probeExprString(x.X)
	case *ast.UnaryExpr:
		return x.Op.String() + probeExprString(x.X)
	case *ast.BasicLit:
		return x.Value
	case *ast.ParenExpr:
		return "(" + probeExprString(x.X) + ")"
	}
	return fmt.Sprintf("<%T>", e)
}

// probeRename maps local names (receivers, parameters) to canonical ones while rendering, so that
// renaming a variable in the sources does not change the generated text.
var probeRename = map[string]string{}

func probeWithNames(m map[string]string, f func()) {
	old := probeRename
	probeRename = m
	defer func() { probeRename = old }()
	f()
}

func probeRecvName(fd *ast.FuncDecl) string {
	if fd.Recv != nil && len(fd.Recv.List) == 1 && len(fd.Recv.List[0].Names) == 1 {
		return fd.Recv.List[0].Names[0].Name
	}
	return ""
}

// probeFindCalls returns every call in n whose callee renders (probeExprString) with the given suffix.
func probeFindCalls(n ast.Node, suffix string) []*ast.CallExpr {
	var out []*ast.CallExpr
	ast.Inspect(n, func(m ast.Node) bool {
		if c, ok := m.(*ast.CallExpr); ok {
			s := probeExprString(c.Fun)
			if s == suffix || strings.HasSuffix(s, "."+suffix) {
				out = append(out, c)
			}
		}
		return true
	})
	return out
}

// probeResolveLocal follows `x := e` / `x = e` (single assignment in fn) when e is a bare identifier
// that is not a parameter, so that naming an intermediate value does not change the translation.
func probeResolveLocal(fn *ast.FuncDecl, e ast.Expr) ast.Expr {
	for depth := 0; depth < 5; depth++ {
		id, ok := e.(*ast.Ident)
		if !ok {
			return e
		}
		var found []ast.Expr
		ast.Inspect(fn, func(n ast.Node) bool {
			if as, ok := n.(*ast.AssignStmt); ok && len(as.Lhs) == len(as.Rhs) {
				for i, l := range as.Lhs {
					if li, ok := l.(*ast.Ident); ok && li.Name == id.Name {
						found = append(found, as.Rhs[i])
					}
				}
			}
			return true
		})
		if len(found) != 1 {
			return e
		}
		e = found[0]
	}
	return e
}

// probeRecvMutations inspects a method body for shared mutable state of its receiver, which all
// workers of scan.GenericEngine share: (writes) assignments / inc-dec whose target is rooted at the
// receiver (recv.f = ..., recv.f.g++, recv.f[i] = ...), (addrs) address-of expressions rooted at the
// receiver (&recv.f) -- handing out a pointer into the shared object.
func probeRecvMutations(fd *ast.FuncDecl) (writes, addrs []string) {
	recv := probeRecvName(fd)
	if recv == "" {
		return nil, nil
	}
	var root func(e ast.Expr) (string, bool) // root identifier, and whether e goes through a field of it
	root = func(e ast.Expr) (string, bool) {
		switch x := e.(type) {
		case *ast.Ident:
			return x.Name, false
		case *ast.SelectorExpr:
			r, _ := root(x.X)
			return r, true
		case *ast.IndexExpr:
			return root(x.X)
		case *ast.StarExpr:
			return root(x.X)
		case *ast.ParenExpr:
			return root(x.X)
		}
		return "", false
	}
	ast.Inspect(fd.Body, func(n ast.Node) bool {
		switch x := n.(type) {
		case *ast.AssignStmt:
			for _, l := range x.Lhs {
				if r, viaField := root(l); r == recv && viaField {
					writes = append(writes, probeExprString(l))
				}
			}
		case *ast.IncDecStmt:
			if r, viaField := root(x.X); r == recv && viaField {
				writes = append(writes, probeExprString(x.X))
			}
		case *ast.UnaryExpr:
			if x.Op == token.AND {
				if r, viaField := root(x.X); r == recv && viaField {
					addrs = append(addrs, probeExprString(x))
				}
			}
		}
		return true
	})
	return
}

// probeFreshLocal: is the variable v of fn bound exactly once, to a freshly allocated value of type
// typ (&typ{...}, new(typ), or `var v typ` / v := typ{...})?
func probeFreshLocal(fn *ast.FuncDecl, v, typ string) bool {
	isFresh := func(e ast.Expr) bool {
		switch x := e.(type) {
		case *ast.UnaryExpr:
			if cl, ok := x.X.(*ast.CompositeLit); ok && x.Op == token.AND && cl.Type != nil {
				return probeExprString(cl.Type) == typ
			}
		case *ast.CompositeLit:
			return x.Type != nil && probeExprString(x.Type) == typ
		case *ast.CallExpr:
			if id, ok := x.Fun.(*ast.Ident); ok && id.Name == "new" && len(x.Args) == 1 {
				return probeExprString(x.Args[0]) == typ
			}
		}
		return false
	}
	bindings, fresh := 0, 0
	ast.Inspect(fn.Body, func(n ast.Node) bool {
		switch x := n.(type) {
		case *ast.AssignStmt:
			if len(x.Lhs) == len(x.Rhs) {
				for i, l := range x.Lhs {
					if id, ok := l.(*ast.Ident); ok && id.Name == v {
						bindings++
						if isFresh(x.Rhs[i]) {
							fresh++
						}
					}
				}
			} else {
				for _, l := range x.Lhs {
					if id, ok := l.(*ast.Ident); ok && id.Name == v {
						bindings++
					}
				}
			}
		case *ast.ValueSpec:
			for i, id := range x.Names {
				if id.Name == v {
					bindings++
					if len(x.Values) == 0 && x.Type != nil && probeExprString(x.Type) == typ {
						fresh++
					} else if i < len(x.Values) && isFresh(x.Values[i]) {
						fresh++
					}
				}
			}
		}
		return true
	})
	return bindings == 1 && fresh == 1
}

// probeFindLit returns the composite literals of the named type inside n.
func probeFindLit(n ast.Node, typ string) []*ast.CompositeLit {
	var out []*ast.CompositeLit
	ast.Inspect(n, func(m ast.Node) bool {
		if c, ok := m.(*ast.CompositeLit); ok && c.Type != nil && probeExprString(c.Type) == typ {
			out = append(out, c)
		}
		return true
	})
	return out
}

func probeLitFields(p *pkgFiles, c *ast.CompositeLit) map[string]ast.Expr {
	m := map[string]ast.Expr{}
	for _, el := range c.Elts {
		kv, ok := el.(*ast.KeyValueExpr)
		if !ok {
			die("%s: positional composite literal", p.pos(el))
		}
		k, ok := kv.Key.(*ast.Ident)
		if !ok {
			die("%s: bad key", p.pos(el))
		}
		m[k.Name] = kv.Value
	}
	return m
}

// probeStructFields returns the field names and type strings of a package-level struct type.
func probeStructFields(p *pkgFiles, name string) (names, types []string) {
	for _, f := range p.files {
		for _, d := range f.Decls {
			gd, ok := d.(*ast.GenDecl)
			if !ok || gd.Tok != token.TYPE {
				continue
			}
			for _, s := range gd.Specs {
				ts := s.(*ast.TypeSpec)
				if ts.Name.Name != name {
					continue
				}
				st, ok := ts.Type.(*ast.StructType)
				if !ok {
					die("%s: %s is not a struct", p.pos(ts), name)
				}
				for _, fl := range st.Fields.List {
					for _, n := range fl.Names {
						names = append(names, n.Name)
						types = append(types, probeExprString(fl.Type))
					}
				}
				return
			}
		}
	}
	die("struct type %s not found", name)
	return
}

// socksDisjuncts flattens a || b || c.
func socksDisjuncts(e ast.Expr) []ast.Expr {
	if pe, ok := e.(*ast.ParenExpr); ok {
		return socksDisjuncts(pe.X)
	}
	if be, ok := e.(*ast.BinaryExpr); ok && be.Op == token.LOR {
		return append(socksDisjuncts(be.X), socksDisjuncts(be.Y)...)
	}
	return []ast.Expr{e}
}

// socksConjuncts flattens a && b && c.
func socksConjuncts(e ast.Expr) []ast.Expr {
	if pe, ok := e.(*ast.ParenExpr); ok {
		return socksConjuncts(pe.X)
	}
	if be, ok := e.(*ast.BinaryExpr); ok && be.Op == token.LAND {
		return append(socksConjuncts(be.X), socksConjuncts(be.Y)...)
	}
	return []ast.Expr{e}
}

func coqStringList(l []string) string {
	q := make([]string, len(l))
	for i, s := range l {
		q[i] = coqString(s)
	}
	return "[" + strings.Join(q, "; ") + "]"
}

func posOf(cs []*ast.CallExpr) token.Pos {
	if len(cs) == 0 {
		return token.NoPos
	}
	return cs[0].Pos()
}

func genSocksConsts() {
	p := parseDir(filepath.Join(*repo, "pkg/scan/socks5"))
	var b bytes.Buffer
	b.WriteString("(* GENERATED by tools/gen from pkg/scan/socks5/{socks5,message}.go and command/socks.go. Do not edit. *)\n")
	b.WriteString("From Coq Require Import ZArith List String.\nImport ListNotations.\nOpen Scope Z_scope.\n\n")

	cval := func(name string) string { return zlit(probeEvalConst(p, p.findConst(name), 0)) }
	fmt.Fprintf(&b, "Definition socks_version : Z := %s.\n", cval("SOCKSVersion"))
	fmt.Fprintf(&b, "Definition socks_method_no_auth : Z := %s.\n", cval("MethodNoAuth"))
	fmt.Fprintf(&b, "Definition socks_scan_type : string := %s%%string.\n", coqString(probeStringConst(p, "ScanType")))
	fmt.Fprintf(&b, "Definition socks_default_dial_timeout_ns : Z := %s.\n", cval("defaultDialTimeout"))
	fmt.Fprintf(&b, "Definition socks_default_data_timeout_ns : Z := %s.\n", cval("defaultDataTimeout"))

	// NewScanner: which defaults go where
	ns := p.findFunc("", "NewScanner")
	dl := probeFindLit(ns, "net.Dialer")
	sl := probeFindLit(ns, "Scanner")
	if len(dl) != 1 || len(sl) != 1 {
		die("%s: NewScanner does not build exactly one net.Dialer and one Scanner", p.pos(ns))
	}
	dt, ok1 := probeLitFields(p, dl[0])["Timeout"]
	dd, ok2 := probeLitFields(p, sl[0])["dataTimeout"]
	if !ok1 || !ok2 {
		die("%s: NewScanner does not set Dialer.Timeout and Scanner.dataTimeout", p.pos(ns))
	}
	fmt.Fprintf(&b, "Definition socks_new_dial_timeout_ns : Z := %s.\n", zlit(probeEvalConst(p, dt, 0)))
	fmt.Fprintf(&b, "Definition socks_new_data_timeout_ns : Z := %s.\n", zlit(probeEvalConst(p, dd, 0)))

	// the two options assign their argument to the dial / data timeout
	optTarget := func(fn string) string {
		fd := p.findFunc("", fn)
		if fd.Type.Params == nil || len(fd.Type.Params.List) != 1 || len(fd.Type.Params.List[0].Names) != 1 {
			die("%s: %s does not take one parameter", p.pos(fd), fn)
		}
		param := fd.Type.Params.List[0].Names[0].Name
		var targets []string
		ast.Inspect(fd, func(n ast.Node) bool {
			if as, ok := n.(*ast.AssignStmt); ok && len(as.Lhs) == 1 && len(as.Rhs) == 1 {
				if id, ok := as.Rhs[0].(*ast.Ident); ok && id.Name == param {
					t := probeExprString(as.Lhs[0])
					if i := strings.Index(t, "."); i >= 0 {
						t = "scanner" + t[i:]
					}
					targets = append(targets, t)
				}
			}
			return true
		})
		if len(targets) != 1 {
			die("%s: %s does not assign its parameter exactly once", p.pos(fd), fn)
		}
		return targets[0]
	}
	fmt.Fprintf(&b, "Definition socks_opt_dial_target : string := %s%%string.\n", coqString(optTarget("WithDialTimeout")))
	fmt.Fprintf(&b, "Definition socks_opt_data_target : string := %s%%string.\n", coqString(optTarget("WithDataTimeout")))

	// Scan: greeting arguments
	scan := p.findFunc("Scanner", "Scan")
	nm := probeFindCalls(scan, "NewMethodRequest")
	if len(nm) != 1 || len(nm[0].Args) < 1 {
		die("%s: Scan does not call NewMethodRequest exactly once", p.pos(scan))
	}
	fmt.Fprintf(&b, "Definition socks_greet_version : Z := %s.\n", zlit(probeEvalConst(p, nm[0].Args[0], 0)))
	var ms []string
	for _, a := range nm[0].Args[1:] {
		ms = append(ms, zlit(probeEvalConst(p, a, 0)))
	}
	if nm[0].Ellipsis != token.NoPos {
		die("%s: NewMethodRequest called with a spread argument", p.pos(nm[0]))
	}
	fmt.Fprintf(&b, "Definition socks_greet_methods : list Z := [%s].\n", strings.Join(ms, "; "))

	// NewMethodRequest / WriteTo: Ver, NMethods = byte(len(methods)), Methods; written in this order
	nmr := p.findFunc("", "NewMethodRequest")
	ml := probeFindLit(nmr, "MethodRequest")
	if len(ml) != 1 {
		die("%s: NewMethodRequest does not build one MethodRequest", p.pos(nmr))
	}
	mf := probeLitFields(p, ml[0])
	var ctor []string
	pren := map[string]string{}
	for _, f := range nmr.Type.Params.List {
		for _, n := range f.Names {
			pren[n.Name] = fmt.Sprintf("arg%d", len(pren))
		}
	}
	probeWithNames(pren, func() {
		for _, k := range []string{"Ver", "NMethods", "Methods"} {
			v, ok := mf[k]
			if !ok {
				die("%s: MethodRequest literal lacks %s", p.pos(ml[0]), k)
			}
			ctor = append(ctor, k+"="+probeExprString(v))
		}
	})
	fmt.Fprintf(&b, "Definition socks_request_ctor : list string := %s%%string.\n", coqStringList(ctor))
	wt := p.findFunc("MethodRequest", "WriteTo")
	var appended []string
	nWrites := 0
	probeRename = map[string]string{probeRecvName(wt): "recv"}
	ast.Inspect(wt, func(n ast.Node) bool {
		c, ok := n.(*ast.CallExpr)
		if !ok {
			return true
		}
		if id, ok := c.Fun.(*ast.Ident); ok && id.Name == "append" && len(c.Args) == 2 {
			s := probeExprString(c.Args[1])
			if c.Ellipsis != token.NoPos {
				s += "..."
			}
			appended = append(appended, s)
		}
		if s := probeExprString(c.Fun); strings.HasSuffix(s, ".Write") {
			nWrites++
		}
		return true
	})
	probeRename = map[string]string{}
	fmt.Fprintf(&b, "Definition socks_request_wire : list string := %s%%string.\n", coqStringList(appended))
	fmt.Fprintf(&b, "Definition socks_request_writes : Z := %d.\n", nWrites)

	// MethodReply layout, Len, decoding
	rn, rt := probeStructFields(p, "MethodReply")
	fmt.Fprintf(&b, "Definition socks_reply_fields : list string := %s%%string.\n", coqStringList(rn))
	fmt.Fprintf(&b, "Definition socks_reply_field_types : list string := %s%%string.\n", coqStringList(rt))
	rl := p.findFunc("MethodReply", "Len")
	if len(rl.Body.List) != 1 {
		die("%s: MethodReply.Len is not a single return", p.pos(rl))
	}
	rs, ok := rl.Body.List[0].(*ast.ReturnStmt)
	if !ok || len(rs.Results) != 1 {
		die("%s: MethodReply.Len is not a single return", p.pos(rl))
	}
	fmt.Fprintf(&b, "Definition socks_reply_len : Z := %s.\n", zlit(probeEvalConst(p, rs.Results[0], 0)))
	rf := p.findFunc("MethodReply", "ReadFrom")
	br := probeFindCalls(rf, "binary.Read")
	if len(br) != 1 || len(br[0].Args) != 3 {
		die("%s: MethodReply.ReadFrom does not call binary.Read once", p.pos(rf))
	}
	recvName := ""
	if rf.Recv != nil && len(rf.Recv.List) == 1 && len(rf.Recv.List[0].Names) == 1 {
		recvName = rf.Recv.List[0].Names[0].Name
	}
	into := probeExprString(br[0].Args[2])
	if into == recvName {
		into = "receiver"
	}
	fmt.Fprintf(&b, "Definition socks_reply_decode : list string := %s%%string.\n",
		coqStringList([]string{probeExprString(br[0].Args[1]), into}))

	// Scan: the comparison that decides a report, and the record.  Either inline in Scan
	//     if reply.F == c && ... { result = &ScanResult{...} }
	// or in a package-level helper that Scan calls and that contains the literal
	//     if reply.F != c || ... { return nil }; return &ScanResult{...}
	// which is DESCRIBED (socks_decision_shape, socks_result_typed_nil_hazard) rather than refused: a helper whose
	// declared result is a pointer type makes `result = helper(...)` store a TYPED nil in the scan.Result interface,
	// which the engine's `result != nil` takes for a record.
	decFn := scan // the function that holds the literal and the comparison
	shape, hazard := "inline", false
	rls := probeFindLit(scan, "ScanResult")
	if len(rls) == 0 {
		for _, f := range p.files {
			for _, d := range f.Decls {
				fd, ok := d.(*ast.FuncDecl)
				if !ok || fd.Recv != nil || fd.Body == nil || len(probeFindCalls(scan, fd.Name.Name)) == 0 {
					continue
				}
				if l := probeFindLit(fd, "ScanResult"); len(l) == 1 {
					decFn, rls = fd, l
					rt := ""
					if fd.Type.Results != nil && len(fd.Type.Results.List) == 1 {
						rt = probeExprString(fd.Type.Results.List[0].Type)
					}
					shape = "helper " + fd.Name.Name + " returning " + rt
					hazard = strings.HasPrefix(rt, "*")
				}
			}
		}
	}
	if len(rls) != 1 {
		die("%s: neither Scan nor a helper it calls builds exactly one ScanResult", p.pos(scan))
	}
	var cond ast.Expr
	negated := false // cond is the condition under which NOTHING is reported (a disjunction of !=)
	ast.Inspect(decFn, func(n ast.Node) bool {
		is, ok := n.(*ast.IfStmt)
		if !ok {
			return true
		}
		if is.Body.Pos() <= rls[0].Pos() && rls[0].End() <= is.Body.End() {
			if cond != nil || is.Init != nil || is.Else != nil {
				die("%s: the record is built under more than one plain if", p.pos(is))
			}
			cond = is.Cond
		}
		return true
	})
	if cond == nil && decFn != scan {
		// early return of nil before the literal
		for _, st := range decFn.Body.List {
			is, ok := st.(*ast.IfStmt)
			if !ok || is.Init != nil || is.Else != nil || len(is.Body.List) != 1 || is.End() > rls[0].Pos() {
				continue
			}
			if rs, ok := is.Body.List[0].(*ast.ReturnStmt); ok && len(rs.Results) == 1 && probeExprString(rs.Results[0]) == "nil" {
				if cond != nil {
					die("%s: more than one early return before the record", p.pos(is))
				}
				cond, negated = is.Cond, true
			}
		}
	}
	if cond == nil {
		die("%s: the record is not built under an if (nor after an early `return nil`)", p.pos(decFn))
	}
	// the variable holding the reply: the receiver of the ReadFrom call
	rfc := probeFindCalls(scan, "ReadFrom")
	if len(rfc) != 1 {
		die("%s: Scan does not call ReadFrom exactly once", p.pos(scan))
	}
	replyVar := probeExprString(rfc[0].Fun.(*ast.SelectorExpr).X)
	decReply := replyVar // the name of the reply inside decFn
	decReq := ""         // the name of the request inside decFn
	for _, f := range decFn.Type.Params.List {
		for _, n := range f.Names {
			switch probeExprString(f.Type) {
			case "*MethodReply":
				if decFn != scan {
					decReply = n.Name
				}
			case "*scan.Request":
				decReq = n.Name
			}
		}
	}
	if decReq == "" {
		die("%s: no *scan.Request parameter", p.pos(decFn))
	}
	fmt.Fprintf(&b, "Definition socks_decision_shape : string := %s%%string.\n", coqString(shape))
	fmt.Fprintf(&b, "Definition socks_result_typed_nil_hazard : bool := %s.\n", coqBool(hazard))
	// GenericEngine shares one Scanner between all workers: the reply must be decoded into a value that
	// belongs to this call alone, and Scan must not write to (or hand out pointers into) the Scanner
	fmt.Fprintf(&b, "Definition socks_reply_fresh_local : bool := %s.\n",
		coqBool(probeFreshLocal(scan, strings.TrimPrefix(strings.Trim(replyVar, "()"), "&"), "MethodReply")))
	sw, sa := probeRecvMutations(scan)
	fmt.Fprintf(&b, "Definition socks_scan_writes_scanner : list string := %s%%string.\n", coqStringList(sw))
	fmt.Fprintf(&b, "Definition socks_scan_scanner_field_addrs : list string := %s%%string.\n", coqStringList(sa))
	accept := map[string]string{}
	parts, wantOp := socksConjuncts(cond), token.EQL
	if negated {
		parts, wantOp = socksDisjuncts(cond), token.NEQ
	}
	for _, c := range parts {
		be, ok := c.(*ast.BinaryExpr)
		if !ok || be.Op != wantOp {
			die("%s: report condition is not a conjunction of equalities (or an early return on a disjunction of inequalities)", p.pos(c))
		}
		l, r := be.X, be.Y
		if !strings.HasPrefix(probeExprString(l), decReply+".") {
			l, r = r, l
		}
		ls := probeExprString(l)
		if !strings.HasPrefix(ls, decReply+".") {
			die("%s: report condition does not test a field of %s", p.pos(c), decReply)
		}
		f := strings.TrimPrefix(ls, decReply+".")
		if _, dup := accept[f]; dup {
			die("%s: field %s tested twice", p.pos(c), f)
		}
		accept[f] = zlit(probeEvalConst(p, r, 0))
	}
	var acc []string
	for _, f := range rn {
		v, ok := accept[f]
		if !ok {
			die("%s: report condition does not constrain reply field %s", p.pos(cond), f)
		}
		acc = append(acc, v)
		delete(accept, f)
	}
	if len(accept) != 0 {
		die("%s: report condition tests unknown fields %v", p.pos(cond), accept)
	}
	fmt.Fprintf(&b, "(* required value of each reply field, in struct order *)\nDefinition socks_accept : list Z := [%s].\n", strings.Join(acc, "; "))

	// request parameter name of Scan
	if len(scan.Type.Params.List) != 2 || len(scan.Type.Params.List[1].Names) != 1 {
		die("%s: unexpected Scan signature", p.pos(scan))
	}
	req := scan.Type.Params.List[1].Names[0].Name
	rfs := probeLitFields(p, rls[0])
	// inside a helper the request has the helper's parameter name; the helper must be called with Scan's request
	if decFn != scan {
		call := probeFindCalls(scan, decFn.Name.Name)[0]
		passed := false
		for _, a := range call.Args {
			if probeExprString(a) == req {
				passed = true
			}
		}
		if !passed {
			die("%s: the helper is not called with Scan's request", p.pos(call))
		}
	}
	need := map[string]bool{"ScanType": true, "Version": true, "IP": true, "Port": true}
	for k := range rfs {
		if !need[k] {
			die("%s: unexpected record field %s", p.pos(rls[0]), k)
		}
	}
	for k := range need {
		if _, ok := rfs[k]; !ok {
			die("%s: record field %s is not set", p.pos(rls[0]), k)
		}
	}
	fmt.Fprintf(&b, "Definition socks_result_version : Z := %s.\n", zlit(probeEvalConst(p, rfs["Version"], 0)))
	st := probeExprString(rfs["ScanType"])
	if st != "ScanType" {
		die("%s: record ScanType is %s", p.pos(rfs["ScanType"]), st)
	}
	norm := func(e ast.Expr) string {
		return strings.Replace(probeExprString(probeResolveLocal(decFn, e)), decReq+".", "request.", 1)
	}
	fmt.Fprintf(&b, "Definition socks_result_ip_from : string := %s%%string.\n", coqString(norm(rfs["IP"])))
	fmt.Fprintf(&b, "Definition socks_result_port_from : string := %s%%string.\n", coqString(norm(rfs["Port"])))

	// dial target and network
	dc := probeFindCalls(scan, "DialContext")
	if len(dc) != 1 || len(dc[0].Args) != 3 {
		die("%s: Scan does not call DialContext once", p.pos(scan))
	}
	fmt.Fprintf(&b, "Definition socks_dial_network : string := %s%%string.\n", coqString(strings.Trim(probeExprString(dc[0].Args[1]), "\"")))
	fmt.Fprintf(&b, "Definition socks_dial_target : string := %s%%string.\n",
		coqString(strings.ReplaceAll(strings.ReplaceAll(probeExprString(probeResolveLocal(scan, dc[0].Args[2])), req+".", "request."), "\"", "'")))

	// socksConn is built with the scanner's data timeout
	scl := probeFindLit(scan, "socksConn")
	if len(scl) != 1 {
		die("%s: Scan does not build one socksConn", p.pos(scan))
	}
	tmo, ok := probeLitFields(p, scl[0])["timeout"]
	if !ok {
		die("%s: socksConn literal lacks timeout", p.pos(scl[0]))
	}
	probeWithNames(map[string]string{probeRecvName(scan): "scanner"}, func() {
		fmt.Fprintf(&b, "Definition socks_conn_timeout_from : string := %s%%string.\n", coqString(probeExprString(tmo)))
	})

	// SO_LINGER: SetLinger takes SECONDS; the final conn.Close() may block that long when the FIN is not acknowledged
	lng := probeFindCalls(scan, "SetLinger")
	if len(lng) != 1 || len(lng[0].Args) != 1 {
		die("%s: Scan does not call SetLinger(seconds) exactly once", p.pos(scan))
	}
	fmt.Fprintf(&b, "Definition socks_linger_seconds : Z := %s.\n", zlit(probeEvalConst(p, lng[0].Args[0], 0)))
	// socksConn.Read / Write: a fresh deadline now + timeout before EVERY operation, whatever the timeout's sign
	// (a zero or negative timeout is an already expired deadline, never "no deadline")
	for _, m := range []struct{ meth, set string }{{"Read", "SetReadDeadline"}, {"Write", "SetWriteDeadline"}} {
		fd := p.findFunc("socksConn", m.meth)
		cs := probeFindCalls(fd, m.set)
		arg := "missing"
		if len(cs) == 1 && len(cs[0].Args) == 1 {
			probeWithNames(map[string]string{probeRecvName(fd): "recv"}, func() {
				arg = probeExprString(probeResolveLocal(fd, cs[0].Args[0]))
			})
		}
		// the deadline call must be the first statement and unconditional
		first := len(fd.Body.List) > 0 && fd.Body.List[0].Pos() <= posOf(cs) && posOf(cs) <= fd.Body.List[0].End()
		if !first {
			arg = "not-first:" + arg
		}
		fmt.Fprintf(&b, "Definition socks_%s_deadline : string := %s%%string.\n", strings.ToLower(m.meth), coqString(arg))
	}

	// command/socks.go: flag default and wiring of --timeout
	cp := parseDir(filepath.Join(*repo, "command"))
	icf := cp.findFunc("socksCmdOpts", "initCliFlags")
	dv := probeFindCalls(icf, "DurationVarP")
	if len(dv) != 1 || len(dv[0].Args) != 5 {
		die("%s: socks initCliFlags does not declare exactly one duration flag", cp.pos(icf))
	}
	probeRename = map[string]string{probeRecvName(icf): "opts"}
	fmt.Fprintf(&b, "Definition socks_cli_timeout_flag : string := %s%%string.\n", coqString(strings.Trim(probeExprString(dv[0].Args[1]), "\"")))
	fmt.Fprintf(&b, "Definition socks_cli_timeout_var : string := %s%%string.\n", coqString(strings.TrimPrefix(probeExprString(dv[0].Args[0]), "&")))
	fmt.Fprintf(&b, "Definition socks_cli_default_timeout_ns : Z := %s.\n", zlit(probeEvalConst(cp, dv[0].Args[3], 0)))
	eng := cp.findFunc("socksCmdOpts", "newSOCKSScanEngine")
	nsc := probeFindCalls(eng, "socks5.NewScanner")
	if len(nsc) != 1 {
		die("%s: newSOCKSScanEngine does not call socks5.NewScanner once", cp.pos(eng))
	}
	var wiring []string
	probeRename = map[string]string{probeRecvName(eng): "opts"}
	for _, a := range nsc[0].Args {
		wiring = append(wiring, probeExprString(a))
	}
	fmt.Fprintf(&b, "Definition socks_cli_scanner_opts : list string := %s%%string.\n", coqStringList(wiring))

	probeRename = map[string]string{}
	writeIfChanged("SocksConsts.v", b.Bytes())
}
