package main

// genAll runs the remaining translators (added as the model grows).
func genAll() {
}
