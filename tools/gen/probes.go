package main

// Translator piece for C10 (pkg/scan/elastic, pkg/scan/docker, command/{elastic,docker,config}.go)
// -> coq/Gen/ProbeConsts.v.  Uses the probe* helpers of socks.go.
//
// Transcribed: scan types, default timeouts, which call is fatal and which is best effort, whether
// a nil info map is rejected, the URL / host formats, where the record's fields come from, which
// context carries the timeout, the moby client options, and the CLI wiring of --proto / --timeout.

import (
	"bytes"
	"fmt"
	"go/ast"
	"go/token"
	"path/filepath"
	"sort"
	"strings"
)

func init() { register("ProbeConsts", genProbeConsts) }

func coqBool(b bool) string {
	if b {
		return "true"
	}
	return "false"
}

// probeCallUse describes how the (value, error) results of the single call to callee in fn are used.
type probeCallUse struct {
	valueVar string // name the first result is bound to
	fatal    bool   // `if v, err = call; err != nil { return }` or equivalent following if
	ignored  bool   // second result bound to _
}

func probeFindCallUse(p *pkgFiles, fn *ast.FuncDecl, callee string) probeCallUse {
	var use probeCallUse
	n := 0
	var visit func(stmts []ast.Stmt)
	check := func(as *ast.AssignStmt, enclosingIf *ast.IfStmt, next ast.Stmt) {
		if len(as.Rhs) != 1 || len(as.Lhs) != 2 {
			return
		}
		c, ok := as.Rhs[0].(*ast.CallExpr)
		if !ok {
			return
		}
		s := probeExprString(c.Fun)
		if s != callee && !strings.HasSuffix(s, "."+callee) {
			return
		}
		n++
		use.valueVar = probeExprString(as.Lhs[0])
		errVar := probeExprString(as.Lhs[1])
		if errVar == "_" {
			use.ignored = true
			return
		}
		isErrCheck := func(is *ast.IfStmt) bool {
			be, ok := is.Cond.(*ast.BinaryExpr)
			if !ok || be.Op != token.NEQ {
				return false
			}
			l, r := probeExprString(be.X), probeExprString(be.Y)
			if !((l == errVar && r == "nil") || (r == errVar && l == "nil")) {
				return false
			}
			for _, st := range is.Body.List {
				if _, ok := st.(*ast.ReturnStmt); ok {
					return true
				}
			}
			return false
		}
		if enclosingIf != nil && isErrCheck(enclosingIf) {
			use.fatal = true
		}
		if is, ok := next.(*ast.IfStmt); ok && is.Init == nil && isErrCheck(is) {
			use.fatal = true
		}
	}
	visit = func(stmts []ast.Stmt) {
		for i, st := range stmts {
			var next ast.Stmt
			if i+1 < len(stmts) {
				next = stmts[i+1]
			}
			switch x := st.(type) {
			case *ast.AssignStmt:
				check(x, nil, next)
			case *ast.IfStmt:
				if as, ok := x.Init.(*ast.AssignStmt); ok {
					check(as, x, nil)
				}
				visit(x.Body.List)
				if eb, ok := x.Else.(*ast.BlockStmt); ok {
					visit(eb.List)
				}
			case *ast.BlockStmt:
				visit(x.List)
			}
		}
	}
	visit(fn.Body.List)
	if n != 1 {
		die("%s: %s is called %d times in %s (expected once, as a two-result assignment)", p.pos(fn), callee, n, fn.Name.Name)
	}
	return use
}

// probeRejectsNil: is there an `if <v> == nil { ... return ... }` (with err set or returned) in fn?
func probeRejectsNil(fn *ast.FuncDecl, v string) bool {
	found := false
	ast.Inspect(fn, func(n ast.Node) bool {
		is, ok := n.(*ast.IfStmt)
		if !ok {
			return true
		}
		conds := socksConjuncts(is.Cond)
		if len(conds) != 1 {
			return true
		}
		be, ok := conds[0].(*ast.BinaryExpr)
		if !ok || be.Op != token.EQL {
			return true
		}
		l, r := probeExprString(be.X), probeExprString(be.Y)
		if !((l == v && r == "nil") || (r == v && l == "nil")) {
			return true
		}
		setsErr, returns := false, false
		for _, st := range is.Body.List {
			switch x := st.(type) {
			case *ast.AssignStmt:
				for _, lh := range x.Lhs {
					if probeExprString(lh) == "err" {
						setsErr = true
					}
				}
			case *ast.ReturnStmt:
				returns = true
				if len(x.Results) == 2 && probeExprString(x.Results[1]) != "nil" {
					setsErr = true
				}
			}
		}
		if setsErr && returns {
			found = true
		}
		return true
	})
	return found
}

func probeSprintf(p *pkgFiles, fn ast.Node, e ast.Expr) string {
	if fd, ok := fn.(*ast.FuncDecl); ok {
		e = probeResolveLocal(fd, e)
	}
	return strings.ReplaceAll(probeExprString(e), "\"", "'")
}

func probeWithTimeoutArg(p *pkgFiles, fn *ast.FuncDecl) (string, int) {
	cs := probeFindCalls(fn, "context.WithTimeout")
	if len(cs) != 1 || len(cs[0].Args) != 2 {
		die("%s: %s does not call context.WithTimeout exactly once", p.pos(fn), fn.Name.Name)
	}
	// position of the statement within the body (0 = first statement)
	idx := -1
	for i, st := range fn.Body.List {
		if st.Pos() <= cs[0].Pos() && cs[0].End() <= st.End() {
			idx = i
		}
	}
	return probeExprString(cs[0].Args[1]), idx
}

func probeRecordFields(p *pkgFiles, fn *ast.FuncDecl, want []string) map[string]string {
	ls := probeFindLit(fn, "ScanResult")
	if len(ls) != 1 {
		die("%s: Scan does not build exactly one ScanResult", p.pos(fn))
	}
	fs := probeLitFields(p, ls[0])
	out := map[string]string{}
	for _, k := range want {
		v, ok := fs[k]
		if !ok {
			die("%s: record field %s is not set", p.pos(ls[0]), k)
		}
		out[k] = probeSprintf(p, fn, v)
		delete(fs, k)
	}
	if len(fs) != 0 {
		die("%s: unexpected record fields", p.pos(ls[0]))
	}
	return out
}

// probeLiteralTimeouts lists every `...Timeout` / `...Deadline` field set in a composite literal inside fn
// (http.Client, http.Transport, net.Dialer, tls.Config, ...): time limits other than the configured one.
func probeLiteralTimeouts(fn *ast.FuncDecl) []string {
	var out []string
	ast.Inspect(fn, func(n ast.Node) bool {
		cl, ok := n.(*ast.CompositeLit)
		if !ok || cl.Type == nil {
			return true
		}
		for _, el := range cl.Elts {
			kv, ok := el.(*ast.KeyValueExpr)
			if !ok {
				continue
			}
			k, ok := kv.Key.(*ast.Ident)
			if ok && (strings.Contains(k.Name, "Timeout") || strings.Contains(k.Name, "Deadline")) && k.Name != "dataTimeout" {
				out = append(out, probeExprString(cl.Type)+"."+k.Name+"="+probeExprString(kv.Value))
			}
		}
		return true
	})
	return out
}

func genProbeConsts() {
	var b bytes.Buffer
	b.WriteString("(* GENERATED by tools/gen from pkg/scan/{elastic,docker}/*.go and command/{elastic,docker,config}.go. Do not edit. *)\n")
	b.WriteString("From Coq Require Import ZArith List String Bool.\nImport ListNotations.\nOpen Scope Z_scope.\n\n")
	str := func(name, v string) { fmt.Fprintf(&b, "Definition %s : string := %s%%string.\n", name, coqString(v)) }
	boolean := func(name string, v bool) { fmt.Fprintf(&b, "Definition %s : bool := %s.\n", name, coqBool(v)) }

	// ---------------- elastic
	ep := parseDir(filepath.Join(*repo, "pkg/scan/elastic"))
	str("elastic_scan_type", probeStringConst(ep, "ScanType"))
	fmt.Fprintf(&b, "Definition elastic_default_timeout_ns : Z := %s.\n", zlit(probeEvalConst(ep, ep.findConst("defaultDataTimeout"), 0)))
	escan := ep.findFunc("Scanner", "Scan")
	recv := probeRecvName(escan)
	req := escan.Type.Params.List[1].Names[0].Name
	probeWithNames(map[string]string{recv: "scanner", req: "request"}, func() {
		info := probeFindCallUse(ep, escan, "GetInfo")
		idx := probeFindCallUse(ep, escan, "GetIndexes")
		boolean("elastic_info_err_fatal", info.fatal && !info.ignored)
		boolean("elastic_indexes_err_ignored", idx.ignored)
		boolean("elastic_rejects_nil_info", probeRejectsNil(escan, info.valueVar))
		rf := probeRecordFields(ep, escan, []string{"ScanType", "Proto", "Host", "Info", "Indexes"})
		str("elastic_rec_scantype", rf["ScanType"])
		str("elastic_rec_proto", rf["Proto"])
		str("elastic_rec_host", rf["Host"])
		boolean("elastic_rec_info_is_getinfo", rf["Info"] == info.valueVar)
		boolean("elastic_rec_indexes_is_getindexes", rf["Indexes"] == idx.valueVar)
		// both calls get the same host argument, which is the record's host
		gi := probeFindCalls(escan, "GetInfo")[0]
		gx := probeFindCalls(escan, "GetIndexes")[0]
		if len(gi.Args) != 2 || len(gx.Args) != 2 {
			die("%s: GetInfo/GetIndexes do not take (ctx, host)", ep.pos(escan))
		}
		boolean("elastic_calls_use_rec_host", probeSprintf(ep, escan, gi.Args[1]) == rf["Host"] && probeSprintf(ep, escan, gx.Args[1]) == rf["Host"])
		ew, ea := probeRecvMutations(escan)
		fmt.Fprintf(&b, "Definition elastic_scan_shared_state : list string := %s%%string.\n", coqStringList(append(ew, ea...)))
		boolean("elastic_calls_use_scan_ctx", probeExprString(gi.Args[0]) == "ctx" && probeExprString(gx.Args[0]) == "ctx")
	})
	for _, nm := range []string{"GetInfo", "GetIndexes"} {
		fd := ep.findFunc("elasticClient", nm)
		cs := probeFindCalls(fd, "Get")
		if len(cs) != 1 || len(cs[0].Args) != 2 {
			die("%s: %s does not call Get(ctx, url) once", ep.pos(fd), nm)
		}
		probeWithNames(map[string]string{probeRecvName(fd): "client"}, func() {
			str("elastic_url_"+strings.ToLower(nm), probeSprintf(ep, fd, cs[0].Args[1]))
		})
	}
	eget := ep.findFunc("elasticClient", "Get")
	probeWithNames(map[string]string{probeRecvName(eget): "client"}, func() {
		arg, idx := probeWithTimeoutArg(ep, eget)
		str("elastic_get_timeout_from", arg)
		boolean("elastic_get_timeout_first", idx == 0)
		dec := probeFindCalls(eget, "Decode")
		nrc := probeFindCalls(eget, "http.NewRequestWithContext")
		if len(dec) != 1 || len(nrc) != 1 || len(nrc[0].Args) != 4 {
			die("%s: Get does not build one request with context and decode once", ep.pos(eget))
		}
		gw, ga := probeRecvMutations(eget)
		fmt.Fprintf(&b, "Definition elastic_get_shared_state : list string := %s%%string.\n", coqStringList(append(gw, ga...)))
		str("elastic_get_method", strings.Trim(probeExprString(nrc[0].Args[1]), "\""))
		boolean("elastic_get_checks_status", len(probeFindCalls(eget, "StatusCode")) > 0 || strings.Contains(nodeText(eget), "StatusCode"))
	})
	ens := ep.findFunc("", "NewScanner")
	ecl := probeFindLit(ens, "elasticClient")
	if len(ecl) != 1 {
		die("%s: elastic NewScanner does not build one elasticClient", ep.pos(ens))
	}
	ef := probeLitFields(ep, ecl[0])
	if ef["dataTimeout"] == nil || ef["proto"] == nil {
		die("%s: elasticClient literal lacks proto/dataTimeout", ep.pos(ecl[0]))
	}
	fmt.Fprintf(&b, "Definition elastic_new_timeout_ns : Z := %s.\n", zlit(probeEvalConst(ep, ef["dataTimeout"], 0)))
	str("elastic_new_proto_from", probeExprString(ef["proto"]))
	fmt.Fprintf(&b, "Definition elastic_new_literal_timeouts : list string := %s%%string.\n", coqStringList(probeLiteralTimeouts(ens)))

	// ---------------- docker
	dp := parseDir(filepath.Join(*repo, "pkg/scan/docker"))
	str("docker_scan_type", probeStringConst(dp, "ScanType"))
	fmt.Fprintf(&b, "Definition docker_default_timeout_ns : Z := %s.\n", zlit(probeEvalConst(dp, dp.findConst("defaultDataTimeout"), 0)))
	dscan := dp.findFunc("Scanner", "Scan")
	drecv := probeRecvName(dscan)
	dreq := dscan.Type.Params.List[1].Names[0].Name
	probeWithNames(map[string]string{drecv: "scanner", dreq: "request"}, func() {
		info := probeFindCallUse(dp, dscan, "Info")
		ver := probeFindCallUse(dp, dscan, "ServerVersion")
		boolean("docker_info_err_fatal", info.fatal && !info.ignored)
		boolean("docker_version_err_ignored", ver.ignored)
		rf := probeRecordFields(dp, dscan, []string{"ScanType", "Proto", "Host", "Info", "Version"})
		str("docker_rec_scantype", rf["ScanType"])
		str("docker_rec_proto", rf["Proto"])
		str("docker_rec_host", rf["Host"])
		boolean("docker_rec_info_is_info", rf["Info"] == info.valueVar)
		boolean("docker_rec_version_is_version", rf["Version"] == ver.valueVar)
		arg, idx := probeWithTimeoutArg(dp, dscan)
		str("docker_timeout_from", arg)
		boolean("docker_timeout_first", idx == 0)
		nc := probeFindCalls(dscan, "NewClientWithOpts")
		if len(nc) != 1 {
			die("%s: docker Scan does not create exactly one moby client", dp.pos(dscan))
		}
		var opts []string
		httpClientCopy := ""
		for _, a := range nc[0].Args {
			c, ok := a.(*ast.CallExpr)
			if !ok {
				die("%s: unexpected client option", dp.pos(a))
			}
			name := probeExprString(c.Fun)
			if i := strings.LastIndex(name, "."); i >= 0 {
				name = name[i+1:]
			}
			args := make([]string, len(c.Args))
			for i, x := range c.Args {
				args[i] = probeSprintf(dp, dscan, x)
				// &v where v is bound once to *scanner.f: the probe's own copy of that object
				if u, ok := x.(*ast.UnaryExpr); ok && u.Op == token.AND {
					if id, ok := u.X.(*ast.Ident); ok {
						if st, ok := probeResolveLocal(dscan, id).(*ast.StarExpr); ok {
							args[i] = "copy(" + probeExprString(st.X) + ")"
							httpClientCopy = id.Name
						}
					}
				}
			}
			opts = append(opts, name+"("+strings.Join(args, ",")+")")
		}
		fmt.Fprintf(&b, "Definition docker_client_opts : list string := %s%%string.\n", coqStringList(opts))
		// The moby options configure the *http.Transport they are given from the environment (WithHost ->
		// sockets.ConfigureTransport: Proxy = ProxyFromEnvironment, Dial = a dialer from ALL_PROXY).  So (1) the
		// transport handed to moby must be the probe's own: <copy>.Transport = V where V = <something>.Clone() and
		// that something comes from scanner.client.Transport; (2) after the options ran, V.Proxy and V.Dial(Context)
		// are set back to nil, so that the connection goes to the probed host itself.
		transport, resets := "shared", []string{}
		if httpClientCopy != "" {
			cloned := map[string]string{} // variable -> what it is a clone of
			ast.Inspect(dscan, func(n ast.Node) bool {
				as, ok := n.(*ast.AssignStmt)
				if !ok || len(as.Lhs) != len(as.Rhs) {
					return true
				}
				for i, l := range as.Lhs {
					id, ok := l.(*ast.Ident)
					call, ok2 := as.Rhs[i].(*ast.CallExpr)
					if ok && ok2 {
						if sel, ok := call.Fun.(*ast.SelectorExpr); ok && sel.Sel.Name == "Clone" && len(call.Args) == 0 {
							src := probeExprString(sel.X)
							// follow `x, _ := scanner.client.Transport.(*http.Transport)`
							ast.Inspect(dscan, func(m ast.Node) bool {
								if a2, ok := m.(*ast.AssignStmt); ok && len(a2.Rhs) == 1 {
									if ta, ok := a2.Rhs[0].(*ast.TypeAssertExpr); ok && len(a2.Lhs) >= 1 && probeExprString(a2.Lhs[0]) == src {
										src = probeExprString(ta.X)
									}
								}
								return true
							})
							cloned[id.Name] = src
						}
					}
				}
				return true
			})
			ast.Inspect(dscan, func(n ast.Node) bool {
				as, ok := n.(*ast.AssignStmt)
				if !ok || len(as.Lhs) != 1 || len(as.Rhs) != 1 {
					return true
				}
				l := probeExprString(as.Lhs[0])
				r := probeExprString(as.Rhs[0])
				if l == httpClientCopy+".Transport" {
					if src, ok := cloned[r]; ok {
						transport = "clone(" + src + ")"
						// resets after the client was created
						ast.Inspect(dscan, func(m ast.Node) bool {
							a2, ok := m.(*ast.AssignStmt)
							if ok && len(a2.Lhs) == 1 && len(a2.Rhs) == 1 && a2.Pos() > nc[0].End() &&
								strings.HasPrefix(probeExprString(a2.Lhs[0]), r+".") && probeExprString(a2.Rhs[0]) == "nil" {
								resets = append(resets, strings.TrimPrefix(probeExprString(a2.Lhs[0]), r+"."))
							}
							return true
						})
					}
				}
				return true
			})
		}
		sort.Strings(resets)
		str("docker_probe_transport", transport)
		fmt.Fprintf(&b, "Definition docker_transport_resets : list string := %s%%string.\n", coqStringList(resets))
		ic := probeFindCalls(dscan, "Info")[0]
		vc := probeFindCalls(dscan, "ServerVersion")[0]
		dw, da := probeRecvMutations(dscan)
		fmt.Fprintf(&b, "Definition docker_scan_shared_state : list string := %s%%string.\n", coqStringList(append(dw, da...)))
		boolean("docker_calls_use_timeout_ctx", len(ic.Args) == 1 && len(vc.Args) == 1 &&
			probeExprString(ic.Args[0]) == "ctx" && probeExprString(vc.Args[0]) == "ctx")
	})
	dns := dp.findFunc("", "NewScanner")
	dsl := probeFindLit(dns, "Scanner")
	if len(dsl) != 1 {
		die("%s: docker NewScanner does not build one Scanner", dp.pos(dns))
	}
	df := probeLitFields(dp, dsl[0])
	if df["dataTimeout"] == nil || df["proto"] == nil {
		die("%s: docker Scanner literal lacks proto/dataTimeout", dp.pos(dsl[0]))
	}
	fmt.Fprintf(&b, "Definition docker_new_timeout_ns : Z := %s.\n", zlit(probeEvalConst(dp, df["dataTimeout"], 0)))
	str("docker_new_proto_from", probeExprString(df["proto"]))
	fmt.Fprintf(&b, "Definition docker_new_literal_timeouts : list string := %s%%string.\n", coqStringList(probeLiteralTimeouts(dns)))

	// ---------------- CLI
	cp := parseDir(filepath.Join(*repo, "command"))
	for _, k := range []struct{ name, opts, eng, ctor string }{
		{"elastic", "elasticCmdOpts", "newElasticScanEngine", "elastic.NewScanner"},
		{"docker", "dockerCmdOpts", "newDockerScanEngine", "docker.NewScanner"}} {
		icf := cp.findFunc(k.opts, "initCliFlags")
		probeRename = map[string]string{probeRecvName(icf): "opts"}
		dv := probeFindCalls(icf, "DurationVarP")
		sv := probeFindCalls(icf, "StringVar")
		if len(dv) != 1 || len(dv[0].Args) != 5 || len(sv) != 1 || len(sv[0].Args) != 4 {
			die("%s: %s.initCliFlags: unexpected flags", cp.pos(icf), k.opts)
		}
		fmt.Fprintf(&b, "Definition %s_cli_default_timeout_ns : Z := %s.\n", k.name, zlit(probeEvalConst(cp, dv[0].Args[3], 0)))
		str(k.name+"_cli_timeout_var", strings.TrimPrefix(probeExprString(dv[0].Args[0]), "&"))
		str(k.name+"_cli_proto_var", strings.TrimPrefix(probeExprString(sv[0].Args[0]), "&"))
		pd, ok := sv[0].Args[2].(*ast.Ident)
		if !ok {
			die("%s: proto default is not a constant", cp.pos(sv[0]))
		}
		str(k.name+"_cli_default_proto", probeStringConst(cp, pd.Name))
		eng := cp.findFunc(k.opts, k.eng)
		probeRename = map[string]string{probeRecvName(eng): "opts"}
		nsc := probeFindCalls(eng, k.ctor)
		if len(nsc) != 1 {
			die("%s: %s does not call %s once", cp.pos(eng), k.eng, k.ctor)
		}
		var w []string
		for _, a := range nsc[0].Args {
			w = append(w, probeExprString(a))
		}
		fmt.Fprintf(&b, "Definition %s_cli_scanner_args : list string := %s%%string.\n", k.name, coqStringList(w))
		// parseRawOptions admits exactly the two protocol constants
		pro := cp.findFunc(k.opts, "parseRawOptions")
		probeRename = map[string]string{probeRecvName(pro): "opts"}
		var allowed []string
		ast.Inspect(pro, func(n ast.Node) bool {
			be, ok := n.(*ast.BinaryExpr)
			if ok && be.Op == token.NEQ && probeExprString(be.X) == "opts.proto" {
				if id, ok := be.Y.(*ast.Ident); ok {
					allowed = append(allowed, probeStringConst(cp, id.Name))
				}
			}
			return true
		})
		fmt.Fprintf(&b, "Definition %s_cli_protos : list string := %s%%string.\n", k.name, coqStringList(allowed))
		probeRename = map[string]string{}
	}
	writeIfChanged("ProbeConsts.v", b.Bytes())
}

// nodeText renders the identifiers of a node (cheap containment test).
func nodeText(n ast.Node) string {
	var sb strings.Builder
	ast.Inspect(n, func(m ast.Node) bool {
		if id, ok := m.(*ast.Ident); ok {
			sb.WriteString(id.Name)
			sb.WriteByte(' ')
		}
		return true
	})
	return sb.String()
}
