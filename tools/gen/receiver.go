package main

import (
	"bytes"
	"fmt"
	"go/ast"
	"go/token"
	"path/filepath"
	"strconv"
	"strings"
)

func init() { register("ReceiverTable", genReceiverTable) }

// genReceiverTable translates the error classification of pkg/packet/receiver.go
// (isTemporaryError, isUnrecoverableError) and the capacity of the error channel of
// ReceivePackets into coq/Gen/ReceiverTable.v. The model's classification functions are defined
// over these generated lists, so the C20 theorems are re-checked against what the code says now.
func genReceiverTable() {
	p := parseDir(filepath.Join(*repo, "pkg/packet"))

	// ---- isTemporaryError(err): `if errors.Is(err, A) || errors.Is(err, B) ... { return true }`
	//      `nerr, ok := err.(net.Error)` `return ok && nerr.Timeout()`
	ft := p.findFunc("", "isTemporaryError")
	errName := rcv_soleParam(p, ft)
	var isTargets []string
	neterrTimeout := false
	stmts := ft.Body.List
	i := 0
	for ; i < len(stmts); i++ {
		ifs, ok := stmts[i].(*ast.IfStmt)
		if !ok {
			break
		}
		if ifs.Init != nil || ifs.Else != nil || !rcv_returnsBool(ifs.Body, true) {
			die("%s: isTemporaryError: unexpected if statement shape", p.pos(ifs))
		}
		for _, leaf := range rcv_orLeaves(ifs.Cond) {
			isTargets = append(isTargets, rcv_errorsIsTarget(p, leaf, errName))
		}
	}
	rest := stmts[i:]
	switch {
	case len(rest) == 1 && rcv_returnsBool(&ast.BlockStmt{List: rest}, false):
		// no net.Error clause at all
	case len(rest) == 2:
		as, ok := rest[0].(*ast.AssignStmt)
		if !ok || as.Tok != token.DEFINE || len(as.Lhs) != 2 || len(as.Rhs) != 1 {
			die("%s: isTemporaryError: expected `nerr, ok := %s.(net.Error)`", p.pos(rest[0]), errName)
		}
		ta, ok := as.Rhs[0].(*ast.TypeAssertExpr)
		if !ok || !rcv_isIdent(ta.X, errName) || rcv_selName(ta.Type) != "net.Error" {
			die("%s: isTemporaryError: expected a type assertion of %s to net.Error", p.pos(as), errName)
		}
		nerr, okv := rcv_identName(as.Lhs[0]), rcv_identName(as.Lhs[1])
		rs, ok := rest[1].(*ast.ReturnStmt)
		if !ok || len(rs.Results) != 1 {
			die("%s: isTemporaryError: expected a final return", p.pos(rest[1]))
		}
		be, ok := rs.Results[0].(*ast.BinaryExpr)
		if !ok || be.Op != token.LAND || !rcv_isIdent(be.X, okv) {
			die("%s: isTemporaryError: expected `return %s && %s.Timeout()`", p.pos(rs), okv, nerr)
		}
		call, ok := be.Y.(*ast.CallExpr)
		if !ok || len(call.Args) != 0 || rcv_selName(call.Fun) != nerr+".Timeout" {
			die("%s: isTemporaryError: expected `%s.Timeout()`", p.pos(rs), nerr)
		}
		neterrTimeout = true
	default:
		die("%s: isTemporaryError: unexpected statement sequence (%d trailing statements)", p.pos(ft), len(rest))
	}

	// ---- isUnrecoverableError(err): `switch err { case A, B, ...: return true; default: return
	//      strings.Contains(err.Error(), "text") }`
	fu := p.findFunc("", "isUnrecoverableError")
	uName := rcv_soleParam(p, fu)
	if len(fu.Body.List) != 1 {
		die("%s: isUnrecoverableError: expected a single switch statement", p.pos(fu))
	}
	sw, ok := fu.Body.List[0].(*ast.SwitchStmt)
	if !ok || sw.Init != nil || !rcv_isIdent(sw.Tag, uName) {
		die("%s: isUnrecoverableError: expected `switch %s {...}`", p.pos(fu), uName)
	}
	var eqValues []string
	text := ""
	haveText, haveDefault := false, false
	for _, c := range sw.Body.List {
		cc := c.(*ast.CaseClause)
		if cc.List == nil {
			if haveDefault {
				die("%s: two default clauses", p.pos(cc))
			}
			haveDefault = true
			if rcv_returnsBool(&ast.BlockStmt{List: cc.Body}, false) {
				continue
			}
			if len(cc.Body) != 1 {
				die("%s: isUnrecoverableError: unexpected default clause", p.pos(cc))
			}
			rs, ok := cc.Body[0].(*ast.ReturnStmt)
			if !ok || len(rs.Results) != 1 {
				die("%s: isUnrecoverableError: unexpected default clause", p.pos(cc))
			}
			call, ok := rs.Results[0].(*ast.CallExpr)
			if !ok || rcv_selName(call.Fun) != "strings.Contains" || len(call.Args) != 2 {
				die("%s: isUnrecoverableError: expected strings.Contains(%s.Error(), \"...\")", p.pos(rs), uName)
			}
			inner, ok := call.Args[0].(*ast.CallExpr)
			if !ok || len(inner.Args) != 0 || rcv_selName(inner.Fun) != uName+".Error" {
				die("%s: isUnrecoverableError: expected %s.Error() as the searched text", p.pos(rs), uName)
			}
			lit, ok := call.Args[1].(*ast.BasicLit)
			if !ok || lit.Kind != token.STRING {
				die("%s: isUnrecoverableError: the needle is not a string literal", p.pos(rs))
			}
			s, err := strconv.Unquote(lit.Value)
			if err != nil {
				die("%s: %v", p.pos(lit), err)
			}
			text, haveText = s, true
			continue
		}
		if !rcv_returnsBool(&ast.BlockStmt{List: cc.Body}, true) {
			die("%s: isUnrecoverableError: a case clause does not `return true`", p.pos(cc))
		}
		for _, e := range cc.List {
			n := rcv_selName(e)
			if n == "" {
				die("%s: isUnrecoverableError: case value is not a package-level selector", p.pos(e))
			}
			eqValues = append(eqValues, n)
		}
	}
	if !haveDefault {
		die("%s: isUnrecoverableError: no default clause", p.pos(sw))
	}

	// ---- ReceivePackets: capacity of the error channel; the channel returned is that channel
	fr := p.findFunc("receiver", "ReceivePackets")
	capacity := -1
	chanVar := ""
	ast.Inspect(fr.Body, func(n ast.Node) bool {
		as, ok := n.(*ast.AssignStmt)
		if !ok || len(as.Lhs) != 1 || len(as.Rhs) != 1 {
			return true
		}
		call, ok := as.Rhs[0].(*ast.CallExpr)
		if !ok || !rcv_isIdent(call.Fun, "make") || len(call.Args) < 1 {
			return true
		}
		ct, ok := call.Args[0].(*ast.ChanType)
		if !ok || !rcv_isIdent(ct.Value, "error") {
			return true
		}
		if capacity >= 0 {
			die("%s: ReceivePackets: more than one error channel is made", p.pos(as))
		}
		capacity = 0
		if len(call.Args) == 2 {
			v := evalInt(p, call.Args[1], nil)
			c, err := strconv.Atoi(v.ExactString())
			if err != nil || c < 0 || c > 1000000 {
				die("%s: ReceivePackets: bad channel capacity %s", p.pos(as), v.ExactString())
			}
			capacity = c
		}
		chanVar = rcv_identName(as.Lhs[0])
		return true
	})
	if capacity < 0 {
		die("%s: ReceivePackets: no `make(chan error, N)` found", p.pos(fr))
	}
	last, ok := fr.Body.List[len(fr.Body.List)-1].(*ast.ReturnStmt)
	if !ok || len(last.Results) != 1 || !rcv_isIdent(last.Results[0], chanVar) {
		die("%s: ReceivePackets: the error channel %s is not what is returned", p.pos(fr), chanVar)
	}

	var b bytes.Buffer
	b.WriteString("(* GENERATED by tools/gen from pkg/packet/receiver.go (isTemporaryError, isUnrecoverableError,\n")
	b.WriteString("   ReceivePackets). Do not edit. *)\n")
	b.WriteString("From Coq Require Import String List.\nImport ListNotations.\nLocal Open Scope string_scope.\n\n")
	b.WriteString("(* targets t of `errors.Is(err, t)` that make an error temporary *)\n")
	fmt.Fprintf(&b, "Definition temporary_is_targets : list string := [%s].\n", strings.Join(rcv_mapStr(isTargets, coqString), "; "))
	b.WriteString("(* whether a net.Error with Timeout() is temporary *)\n")
	fmt.Fprintf(&b, "Definition temporary_neterr_timeout : bool := %v.\n", neterrTimeout)
	b.WriteString("(* values v of `case v:` (==) that make an error unrecoverable *)\n")
	fmt.Fprintf(&b, "Definition unrecoverable_values : list string := [%s].\n", strings.Join(rcv_mapStr(eqValues, coqString), "; "))
	b.WriteString("(* strings.Contains(err.Error(), text) makes an error unrecoverable (None: no such clause) *)\n")
	if haveText {
		fmt.Fprintf(&b, "Definition unrecoverable_text : option string := Some %s.\n", coqString(text))
	} else {
		b.WriteString("Definition unrecoverable_text : option string := None.\n")
	}
	b.WriteString("(* capacity of the error channel returned by ReceivePackets *)\n")
	fmt.Fprintf(&b, "Definition errc_capacity : nat := %d.\n", capacity)
	writeIfChanged("ReceiverTable.v", b.Bytes())
}

func rcv_mapStr(l []string, f func(string) string) []string {
	out := make([]string, len(l))
	for i, s := range l {
		out[i] = f(s)
	}
	return out
}

func rcv_soleParam(p *pkgFiles, fd *ast.FuncDecl) string {
	if fd.Type.Params == nil || len(fd.Type.Params.List) != 1 || len(fd.Type.Params.List[0].Names) != 1 {
		die("%s: %s: expected exactly one parameter", p.pos(fd), fd.Name.Name)
	}
	return fd.Type.Params.List[0].Names[0].Name
}

func rcv_isIdent(e ast.Expr, name string) bool {
	id, ok := e.(*ast.Ident)
	return ok && id.Name == name
}

func rcv_identName(e ast.Expr) string {
	if id, ok := e.(*ast.Ident); ok {
		return id.Name
	}
	return ""
}

// rcv_selName renders `pkg.Name` selectors ("" for anything else).
func rcv_selName(e ast.Expr) string {
	se, ok := e.(*ast.SelectorExpr)
	if !ok {
		return ""
	}
	x, ok := se.X.(*ast.Ident)
	if !ok {
		return ""
	}
	return x.Name + "." + se.Sel.Name
}

// rcv_returnsBool: the block is exactly `return true` / `return false`.
func rcv_returnsBool(b *ast.BlockStmt, v bool) bool {
	if b == nil || len(b.List) != 1 {
		return false
	}
	rs, ok := b.List[0].(*ast.ReturnStmt)
	if !ok || len(rs.Results) != 1 {
		return false
	}
	want := "false"
	if v {
		want = "true"
	}
	return rcv_isIdent(rs.Results[0], want)
}

func rcv_orLeaves(e ast.Expr) []ast.Expr {
	switch x := e.(type) {
	case *ast.ParenExpr:
		return rcv_orLeaves(x.X)
	case *ast.BinaryExpr:
		if x.Op == token.LOR {
			return append(rcv_orLeaves(x.X), rcv_orLeaves(x.Y)...)
		}
	}
	return []ast.Expr{e}
}

func rcv_errorsIsTarget(p *pkgFiles, e ast.Expr, errName string) string {
	call, ok := e.(*ast.CallExpr)
	if !ok || rcv_selName(call.Fun) != "errors.Is" || len(call.Args) != 2 || !rcv_isIdent(call.Args[0], errName) {
		die("%s: isTemporaryError: expected errors.Is(%s, <pkg.Value>)", p.pos(e), errName)
	}
	n := rcv_selName(call.Args[1])
	if n == "" {
		die("%s: isTemporaryError: errors.Is target is not a package-level selector", p.pos(e))
	}
	return n
}
