(* C15 -- Rate limit: probes never leave faster than the configured rate.

   FULL STATEMENT (properties.jsonl): with a rate limit of N probes per window W, any k consecutive
   probes take at least (k-1-b)*W/N to leave, b the limiter's fixed burst allowance; every probe is
   charged to the limiter exactly once; receiving is never slowed by it.  For all rates accepted by
   --rate (N >= 1; N = 0 means "no limiter"), all windows, all commands, worker counts, probe counts.

   What is proved, about the executable model Model/Limiter.v of go.uber.org/ratelimit v0.2.0
   (atomic limiter), rateLimitReadWriter and rateLimitScanner, with b = 10 (the library default, sx
   passes no slack option) and perRequest = floor(W/N):
     * the bound holds with floor(W/N) in place of W/N, which is what the library implements; the
       difference is below one nanosecond per probe (C15_spacing_rational states the bound against
       the rational W/N without division:  N*(g_k - g_i) > (k-1-10)*(W-N));
     * "leave" is the time at which Take returns under an ideal clock (the grant); the real write
       happens after Take returned (real time and scheduling are not modelled: label partial).
   Times are Z nanoseconds, int64 overflow of time.Duration (292 years) is not modelled. *)
From Coq Require Import ZArith List Bool String Lia.
From SX Require Import Model.Limiter Proofs.LimiterProofs Gen.RateWiring Spec.C15.
Import ListNotations.
Open Scope Z_scope.

(* For EVERY sequence of clock readings [nows] (the i-th successful compare-and-swap of Take read
   the clock at nows[i]; no monotonicity is assumed, which covers concurrent callers whose reads
   and swaps interleave), the grants of ratelimit.New(N, Per(W)) satisfy: the k consecutive grants
   starting at the i-th span at least (k-1-10) * floor(W/N). *)
Theorem C15_spacing : forall N W nows i k gi gk,
  1 <= N -> 0 <= W -> (1 <= k)%nat ->
  nth_error (grants (mk_conf N W) Fresh nows) i = Some gi ->
  nth_error (grants (mk_conf N W) Fresh nows) (i + k - 1) = Some gk ->
  (Z.of_nat k - 1 - 10) * (W / N) <= gk - gi.
Proof. exact spacing_rate. Qed.

(* the same against the rational rate W/N, stated without division *)
Theorem C15_spacing_rational : forall N W nows i k gi gk,
  1 <= N -> 0 <= W -> (12 <= k)%nat ->
  nth_error (grants (mk_conf N W) Fresh nows) i = Some gi ->
  nth_error (grants (mk_conf N W) Fresh nows) (i + k - 1) = Some gk ->
  (Z.of_nat k - 1 - 10) * (W - N) < N * (gk - gi).
Proof. exact spacing_rate_rational. Qed.

(* from any state the limiter can be in, for any slack b *)
Theorem C15_spacing_any_state : forall c b nows st i j gi gj,
  conf_slack c b -> st_ok c st -> (i <= j)%nat ->
  nth_error (grants c st nows) i = Some gi ->
  nth_error (grants c st nows) j = Some gj ->
  (Z.of_nat j - Z.of_nat i - b) * perRequest c <= gj - gi.
Proof. exact spacing_slack. Qed.

(* a probe is never granted before it asked, Take sleeps exactly until the grant *)
Theorem C15_grant_not_before_call : forall c st now, conf_ok c -> st_ok c st ->
  now <= t_grant (take c st now) /\ t_sleep (take c st now) = t_grant (take c st now) - now.
Proof. exact take_grant_ge_now. Qed.

(* and not later than necessary (so the bound is not met by sleeping for ever) *)
Theorem C15_grant_not_late : forall c last sf now, conf_ok c -> maxSlack c <= sf <= 0 ->
  t_grant (take c (Running last sf) now) <= Z.max now (last + perRequest c).
Proof. exact take_grant_upper. Qed.

(* every write/scan through the wrappers is exactly one Take and one delegate call *)
Theorem C15_charged_once : forall ops,
  count is_take (rl_trace ops) = count is_probe_op ops /\
  count is_probe (rl_trace ops) = count is_probe_op ops.
Proof. exact charged_once. Qed.

(* ... with the Take immediately before its delegate call *)
Theorem C15_take_before_probe : forall ops, blocks (rl_trace ops).
Proof. exact trace_blocks. Qed.

(* the delegate sees exactly the caller's operations *)
Theorem C15_delegate_unchanged : forall ops,
  filter (fun c => negb (is_take c)) (rl_trace ops) = map call_of_op ops.
Proof. exact delegate_sees_ops. Qed.

(* reads never touch the limiter *)
Theorem C15_reads_free : forall ops, forallb (fun o => negb (is_probe_op o)) ops = true ->
  count is_take (rl_trace ops) = 0%nat.
Proof. exact reads_free. Qed.

(* the same in the order of TIME rather than of calls: any closed time window [lo, hi] contains at
   most (hi-lo)/perRequest + b + 1 grants (here: n grants in the window force (n-1-b)*p <= hi-lo) *)
Theorem C15_window : forall c b st nows lo hi, conf_slack c b -> st_ok c st ->
  (1 <= count_in lo hi (grants c st nows))%nat ->
  (Z.of_nat (count_in lo hi (grants c st nows)) - 1 - b) * perRequest c <= hi - lo.
Proof. exact window_count. Qed.

(* the moments the frames actually leave, for ONE goroutine writing through the limited ReadWriter
   (the sender of pkg/packet), with reads and pauses of any length anywhere and the frame leaving at
   any moment during the delegate call: burst allowance b + 1 (one more than on the grants, because
   the limiter measures when Take is called, not when the write happens) *)
Theorem C15_leave_sequential : forall c b steps st clock i j li lj,
  conf_slack c b -> st_ok c st -> steps_ok steps -> (i <= j)%nat ->
  nth_error (leaves c st clock steps) i = Some li ->
  nth_error (leaves c st clock steps) j = Some lj ->
  (Z.of_nat j - Z.of_nat i - (b + 1)) * perRequest c <= lj - li.
Proof. exact leave_spacing_slack. Qed.

(* receiving is never slowed: a read returns after exactly the delegate's own duration and leaves
   the limiter state untouched, whatever the state *)
Theorem C15_reads_not_delayed : forall c st clock s rest, s_op s = OpRead ->
  run_steps c st clock (s :: rest) =
    TReadDone (clock + s_gap s) (clock + s_gap s + s_dur s) :: run_steps c st (clock + s_gap s + s_dur s) rest.
Proof. exact read_done_exact. Qed.

(* concurrent callers (the workers of the application-scan engine share one limiter): EVERY
   interleaving of the lock-free loop of Take (read clock / load state / compare-and-swap, any number
   of goroutines, any schedule, lost races retried) yields a history of successful swaps that is a
   serial run of [take] over the clock readings of the winners ... *)
Theorem C15_concurrent_serialises : forall c n sched,
  let evs := conc_run c (repeat GIdle n) {| sh_ver := 0; sh_st := Fresh |} sched in
  map ev_taken evs = run_takes c Fresh (map ev_now evs).
Proof. intros c n sched. exact (conc_serialises c sched _ _ (conc_inv_init n Fresh)). Qed.

(* ... hence the spacing bound holds for every schedule *)
Theorem C15_spacing_concurrent : forall c b n sched i j ei ej,
  conf_slack c b -> (i <= j)%nat ->
  let evs := conc_run c (repeat GIdle n) {| sh_ver := 0; sh_st := Fresh |} sched in
  nth_error evs i = Some ei -> nth_error evs j = Some ej ->
  (Z.of_nat j - Z.of_nat i - b) * perRequest c <= t_grant (ev_taken ej) - t_grant (ev_taken ei).
Proof. exact conc_spacing. Qed.

(* Chunked port scans.  startPortScanEngine runs startPacketScanEngine once per 200 port ranges and
   every run constructs its own limiter (Gen: port_scan_chunk_loop_calls, ratelimit_new_sites).
   FULL STATEMENT: the bound with b = 10 holds over ALL probes of the scan, across chunk boundaries.
   It is FALSE of the faithful model when the next chunk starts less than perRequest after the last
   probe of the previous one (possible when --exit-delay < W/N and the sender was idle before):
   witness 1/s, chunk one = a probe at 0 s and eleven at 20 s (all granted at 20 s, the slack of ten),
   chunk two = a probe 0.3 s later: 12 consecutive probes within 0.3 s < (12-1-10) * 1 s. *)
Theorem C15_chunked_scan_refuted :
  exists N W chunks i k gi gk,
    1 <= N /\ 0 <= W /\ (1 <= k)%nat /\
    nth_error (chunk_grants (mk_conf N W) chunks) i = Some gi /\
    nth_error (chunk_grants (mk_conf N W) chunks) (i + k - 1) = Some gk /\
    gk - gi < (Z.of_nat k - 1 - 10) * (W / N).
Proof.
  exists 1, 1000000000,
    [[0; 20000000000; 20000000000; 20000000000; 20000000000; 20000000000; 20000000000; 20000000000;
      20000000000; 20000000000; 20000000000; 20000000000]; [20300000000]], 1%nat, 12%nat, 20000000000, 20300000000.
  repeat split; try lia; vm_compute; reflexivity.
Qed.

(* what holds: across a boundary the bound keeps b = 10 whenever the first probe of the next chunk
   is granted at least perRequest after the last probe of the previous chunk (in particular when
   --exit-delay >= W/N, because the next chunk starts after done + exit delay) *)
Theorem C15_chunked_scan_partial : forall c b nows1 nows2 i m gi glast g0 gm,
  conf_slack c b ->
  nth_error (grants c Fresh nows1) i = Some gi ->
  nth_error (grants c Fresh nows1) (List.length nows1 - 1) = Some glast -> (i <= List.length nows1 - 1)%nat ->
  nth_error (grants c Fresh nows2) 0 = Some g0 ->
  nth_error (grants c Fresh nows2) m = Some gm ->
  glast + perRequest c <= g0 ->
  (Z.of_nat (List.length nows1 - 1 - i) + 1 + Z.of_nat m - b) * perRequest c <= gm - gi.
Proof. exact chunk_boundary. Qed.

(* wiring, over Gen/RateWiring.v regenerated from command/*.go on every run *)
Theorem C15_wiring : rate_wiring_ok = true.
Proof. vm_compute. reflexivity. Qed.

(* the build uses the library version the model was written for (go.mod, go.sum; defaults read from
   the module cache when present): slack 10, window default 1 s, New = the atomic limiter *)
Theorem C15_library_pinned : rate_lib_ok = true.
Proof. vm_compute. reflexivity. Qed.

(* both construction sites build the limiter iff count > 0, as ratelimit.New(count, Per(window)) *)
Theorem C15_limiter_iff_positive : forall count window, 0 <= count ->
  site_limiter packet_rate_site count window
    = (if 0 <? count then Some (Some (mk_conf count window)) else Some None) /\
  site_limiter generic_rate_site count window
    = (if 0 <? count then Some (Some (mk_conf count window)) else Some None).
Proof.
  intros count window H. split; apply site_limiter_spec; try exact H; vm_compute; reflexivity.
Qed.

(* non-vacuity *)
Example C15_ex_burst :   (* 1000/s: after 20 ms of silence 11 calls pass at once, the 12th waits 1 ms *)
  grants (mk_conf 1000 1000000000) Fresh
         [0; 20000000; 20000000; 20000000; 20000000; 20000000; 20000000; 20000000; 20000000; 20000000;
          20000000; 20000000; 20000000]
  = [0; 20000000; 20000000; 20000000; 20000000; 20000000; 20000000; 20000000; 20000000; 20000000;
     20000000; 20000000; 21000000].
Proof. vm_compute. reflexivity. Qed.
Example C15_ex_steady :  (* 500/7s back to back: one grant every 14 ms *)
  grants (mk_conf 500 7000000000) Fresh [5; 5; 5; 5] = [5; 14000005; 28000005; 42000005].
Proof. vm_compute. reflexivity. Qed.
Example C15_ex_concurrent :  (* goroutine 1 reads the clock first (at 5) but swaps second: readings out of order *)
  map (fun e => (fst (fst e), ev_now e, t_grant (ev_taken e)))
      (conc_run (mk_conf 1000 1000000000) [GIdle; GIdle] {| sh_ver := 0; sh_st := Fresh |}
                [SNow 1 5; SNow 0 7; SLoad 0; SLoad 1; SCas 0; SCas 1; SNow 1 9; SLoad 1; SCas 1])
  = [(0%nat, 7, 7); (1%nat, 9, 1000007)].
Proof. vm_compute. reflexivity. Qed.
Example C15_ex_sender :   (* 100/s, writes of 1 ms each, a read in between: frames leave 10 ms apart *)
  leaves (mk_conf 100 1000000000) Fresh 0
         [{| s_gap := 0; s_op := OpWrite 1; s_leave := 500000; s_dur := 1000000 |};
          {| s_gap := 0; s_op := OpRead; s_leave := 0; s_dur := 3000000 |};
          {| s_gap := 0; s_op := OpWrite 2; s_leave := 500000; s_dur := 1000000 |};
          {| s_gap := 0; s_op := OpWrite 3; s_leave := 500000; s_dur := 1000000 |}]
  = [500000; 10500000; 20500000].
Proof. vm_compute. reflexivity. Qed.
Example C15_ex_trace :
  rl_trace [OpWrite 7; OpRead; OpScan 9] = [CTake; CWrite 7; CRead; CTake; CScan 9].
Proof. reflexivity. Qed.
Example C15_ex_sites :
  site_limiter packet_rate_site 0 1000000000 = Some None /\
  site_limiter generic_rate_site 3 1000000000 = Some (Some {| perRequest := 333333333; maxSlack := -3333333330 |}).
Proof. vm_compute. split; reflexivity. Qed.

Print Assumptions C15_spacing.
Print Assumptions C15_spacing_rational.
Print Assumptions C15_spacing_any_state.
Print Assumptions C15_grant_not_before_call.
Print Assumptions C15_grant_not_late.
Print Assumptions C15_window.
Print Assumptions C15_leave_sequential.
Print Assumptions C15_reads_not_delayed.
Print Assumptions C15_concurrent_serialises.
Print Assumptions C15_spacing_concurrent.
Print Assumptions C15_chunked_scan_refuted.
Print Assumptions C15_chunked_scan_partial.
Print Assumptions C15_charged_once.
Print Assumptions C15_take_before_probe.
Print Assumptions C15_delegate_unchanged.
Print Assumptions C15_reads_free.
Print Assumptions C15_wiring.
Print Assumptions C15_library_pinned.
Print Assumptions C15_limiter_iff_positive.
