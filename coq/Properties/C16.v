(* C16 -- Exit delay is honoured: late replies are still reported, then it exits.

   FULL STATEMENT (properties.jsonl): after the last probe has left, the scan keeps listening for the
   configured exit delay: a reply-shaped frame arriving within that time is reported, and the program
   does not exit before the delay has elapsed.  When the delay is over it does exit, within bounded
   time, with every record it printed complete.  For all exit delays, reply latencies below the
   delay, all scan commands (per chunk for chunked port scans), any number of probes.

   What is proved, about Model/ScanCall.v (timed model of command/root.go startScanEngine, logical
   clock in Z ns, the environment = ANY time-ordered list of events: done closed, caller cancel,
   results, errors, channel closes):  partial, because real time and scheduling latency are not
   modelled (goroutines react instantly = the fairness assumption) and two assumptions about the
   ENGINE are explicit hypotheses, proved for the real engines elsewhere (C12):
     (E1) the engine closes errc after its context is cancelled  (hypothesis of C16_then_exits)
     (E2) the engine closes Results() only after its context is cancelled (hypothesis of
          C16_return_not_before; true of scan.NewResultChan)
   "done" is the engine's done channel (closed when the sender has handed the last probe to the
   wire); that frames reach the logger as results is C03/C06/C07's business. *)
From Coq Require Import ZArith List Bool String Lia.
From SX Require Import Model.ScanCall Proofs.ScanCallProofs Gen.ExitDelayWiring Spec.C16.
Import ListNotations.
Open Scope Z_scope.

(* the delay goroutine calls cancel() only exitDelay (0 if negative) after a close of done; in
   particular never if done is never closed *)
Theorem C16_not_before : forall delay evs c, sorted evs ->
  st_internal (run delay evs) = Some c ->
  exists d, In (d, EvDone) evs /\ c = d + Z.max delay 0 /\ d + delay <= c.
Proof. exact internal_cancel_not_before. Qed.

(* the context the engine, the receiver and the logger run under is cancelled only by the caller
   (SIGINT) or exitDelay after done *)
Theorem C16_ctx_not_before : forall delay evs c, sorted evs ->
  st_ctx (run delay evs) = Some c ->
  (exists d, In (d, EvDone) evs /\ d + delay <= c) \/ (exists p, In (p, EvParentCancel) evs /\ p <= c).
Proof. exact ctx_cancel_explained. Qed.

(* the call (hence the program) does not return before done + exitDelay unless the caller cancels --
   under (E2) *)
Theorem C16_return_not_before : forall delay evs r, sorted evs ->
  (forall q, In (q, EvResultsClosed) evs ->
     (exists d, In (d, EvDone) evs /\ d + delay <= q) \/ (exists p, In (p, EvParentCancel) evs /\ p <= q)) ->
  return_time (run delay evs) = Some r ->
  (exists d, In (d, EvDone) evs /\ d + delay <= r) \/ (exists p, In (p, EvParentCancel) evs /\ p <= r).
Proof. exact return_not_before. Qed.

(* then it exits, within bounded time: once done is closed (or the caller cancels) and -- (E1) -- the
   engine closes errc at te, the call returns no later than max(cancellation time, te) *)
Theorem C16_then_exits : forall delay evs te, sorted evs ->
  (exists d, In (d, EvDone) evs) \/ (exists p, In (p, EvParentCancel) evs) ->
  In (te, EvErrcClosed) evs ->
  exists c r, st_ctx (run delay evs) = Some c /\ return_time (run delay evs) = Some r /\ r <= Z.max c te.
Proof. exact then_exits. Qed.

(* a result the engine delivers at time t strictly before done + exitDelay (and before any caller
   cancellation / close of Results()) is written by the logger -- under the model's fairness
   assumption (the logger goroutine is scheduled when a result is ready) *)
Theorem C16_late_reply_reported : forall delay evs t id, sorted evs ->
  In (t, EvResult id) evs ->
  (forall d, In (d, EvDone) evs -> t < d + delay) ->
  (forall p, In (p, EvParentCancel) evs -> t < p) ->
  (forall q, In (q, EvResultsClosed) evs -> t < q) ->
  In id (written (run delay evs)).
Proof. exact late_reply_reported. Qed.

(* the same counted from the moment the reply is ON THE WIRE: the AF_PACKET ring hands it to the
   receiver at most [block_timeout_ns] later (the value NewPacketSource passes to afp.NewTPacket, else
   gopacket's default; Gen/RecvLatency.v).  A reply on the wire at least that long before
   done + exitDelay is written (fairness assumption as above; decoding/processing is C03/C06) *)
Theorem C16_late_reply_on_wire_reported : forall delay evs w t id, sorted evs ->
  In (t, EvResult id) evs -> w <= t <= w + block_timeout_ns ->
  (forall d, In (d, EvDone) evs -> w + block_timeout_ns < d + delay) ->
  (forall p, In (p, EvParentCancel) evs -> w + block_timeout_ns < p) ->
  (forall q, In (q, EvResultsClosed) evs -> w + block_timeout_ns < q) ->
  In id (written (run delay evs)).
Proof. intros delay evs w t id. exact (late_reply_on_wire delay evs w block_timeout_ns t id). Qed.

(* obligation on the receive path, over Gen/RecvLatency.v regenerated from pkg/packet/afpacket on
   every run: the socket is opened once, only with known options, reads time out within 100 ms, and
   the kernel hand-over latency (block timeout) is below the 100 ms margin that the end-to-end stage
   of the check tests (replies 110..150 ms before the end of the exit delay must be reported) *)
Theorem C16_receive_latency_bound :
  recv_latency_ok = true /\ 0 < block_timeout_ns < recv_latency_bound_ns.
Proof. split; [vm_compute; reflexivity|split; vm_compute; reflexivity]. Qed.

(* what is written is a subsequence of what the engine delivered: no phantom and no duplicate record *)
Theorem C16_written_faithful : forall delay evs, subseq (written (run delay evs)) (result_ids evs).
Proof. exact written_faithful. Qed.

(* wiring, over Gen/ExitDelayWiring.v regenerated from command/*.go on every run: the flag
   --exit-delay (default defaultExitDelay = 300 ms) of both option structs; every command hands
   withExitDelay(<opts>.exitDelay) to newEngineConfig exactly once and that configuration reaches
   startScanEngine, for port scans through startPortScanEngine's per-chunk copy; the three
   goroutines of startScanEngine have the shape the model describes *)
Theorem C16_wiring : exit_delay_wiring_ok = true.
Proof. vm_compute. reflexivity. Qed.

Theorem C16_wiring_forall : Forall (fun c => cmd_ok c = true) ed_cmds /\ default_exit_delay_ns = 300000000.
Proof.
  split; [|vm_compute; reflexivity]. apply Forall_forall. intros c Hc.
  assert (H : forallb cmd_ok ed_cmds = true) by (vm_compute; reflexivity).
  rewrite forallb_forall in H. exact (H c Hc).
Qed.

(* non-vacuity *)
Definition ex_evs : list tev :=
  [(100, EvResult 1); (1000, EvDone); (1150, EvResult 2); (1300, EvErrcClosed); (1400, EvResult 3)].
Example C16_ex_run :
  let s := run 300 ex_evs in
  (st_internal s, st_ctx s, written s, return_time s) = (Some 1300, Some 1300, [1; 2], Some 1300).
Proof. vm_compute. reflexivity. Qed.
Example C16_ex_sigint :   (* caller cancels at 1100: no internal cancel is needed, reply 2 is lost *)
  let s := run 300 [(1000, EvDone); (1100, EvParentCancel); (1150, EvResult 2); (1200, EvErrcClosed)] in
  (st_ctx s, written s, return_time s) = (Some 1100, [], Some 1200).
Proof. vm_compute. reflexivity. Qed.
Example C16_ex_never_done :   (* done never closed: no cancellation, the call does not return *)
  let s := run 300 [(100, EvResult 1); (5000, EvErrcClosed)] in
  (st_internal s, st_ctx s, written s, return_time s) = (None, None, [1], None).
Proof. vm_compute. reflexivity. Qed.
Example C16_ex_script :
  script_events {| k_delay := 50; k_done := Some 100; k_parent := None; k_results := [(120, 7); (170, 8)];
                   k_errs := [(10, 1)]; k_errc_lag := Some 5; k_resclose_lag := Some 5 |}
  = [(10, EvErr 1); (100, EvDone); (120, EvResult 7); (155, EvErrcClosed); (155, EvResultsClosed); (170, EvResult 8)].
Proof. vm_compute. reflexivity. Qed.

Print Assumptions C16_not_before.
Print Assumptions C16_ctx_not_before.
Print Assumptions C16_return_not_before.
Print Assumptions C16_then_exits.
Print Assumptions C16_late_reply_reported.
Print Assumptions C16_late_reply_on_wire_reported.
Print Assumptions C16_receive_latency_bound.
Print Assumptions C16_written_faithful.
Print Assumptions C16_wiring.
Print Assumptions C16_wiring_forall.
