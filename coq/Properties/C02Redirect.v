(* C02 -- confinement of the application scans under HTTP redirects.  Only statements.  The model is
   Model/Redirect.v; the redirect policy of the two HTTP scanners is Gen.RedirectPolicy, read off
   pkg/scan/elastic/elastic.go and pkg/scan/docker/docker.go on every run (tools/gen/redirects.go).
   These theorems are about the code WITH the fixes da228ec / 497565e; the code as found had the policy "follow"
   for both scanners (C02_redirects_unfixed_refuted). *)
From Coq Require Import List String Bool.
From SX Require Import Model.Redirect Gen.RedirectPolicy Proofs.RedirectProofs.
Import ListNotations.

(* the tie: both scanners hand a 3xx answer back as it is, and nothing else in the two packages sets a redirect policy *)
Theorem C02_redirect_policy :
  policy_of elastic_redirect_policy = UseLastResponse /\
  policy_of docker_redirect_policy = UseLastResponse /\
  redirect_other_writes = [].
Proof. repeat split; reflexivity. Qed.

(* whatever the peers answer to the requests of a probe -- any status, any Location, at any of the requests --
   every connection of the probe goes to the probed target, one connection per request *)
Theorem C02_redirects_confined : forall (host : Type) (ps : list (peer host)) (t x : host),
  (In x (probe_contacts (policy_of elastic_redirect_policy) ps t) -> x = t) /\
  (In x (probe_contacts (policy_of docker_redirect_policy) ps t) -> x = t) /\
  List.length (probe_contacts (policy_of elastic_redirect_policy) ps t) = List.length ps /\
  List.length (probe_contacts (policy_of docker_redirect_policy) ps t) = List.length ps.
Proof.
  intros host ps t x. destruct C02_redirect_policy as (He & Hd & _). rewrite He, Hd.
  repeat split; try exact (probe_confined ps t x); exact (probe_one_connection_per_request ps t).
Qed.

(* the code as found (no CheckRedirect: the library follows), and any policy the translator does not recognise:
   for every host d the world can make a probe of t connect to d *)
Theorem C02_redirects_unfixed_refuted : forall (host : Type) (t d : host),
  exists p, In d (request_contacts (policy_of "follow") p t) /\ In d (request_contacts Unrecognised p t).
Proof.
  intros host t d. exists (fun _ _ => Some d). split; apply follow_reaches; reflexivity.
Qed.

(* non-vacuity: a probe of three requests against a world that redirects every request to host 9 *)
Example C02_redirects_example :
  probe_contacts (policy_of elastic_redirect_policy) [fun _ _ => Some 9; fun _ _ => None; fun _ _ => Some 9] 1 = [1; 1; 1] /\
  request_contacts Follow (fun h k => if Nat.eqb k 0 then Some 9 else None) 1 = [1; 9].
Proof. split; reflexivity. Qed.

Print Assumptions C02_redirect_policy.
Print Assumptions C02_redirects_confined.
Print Assumptions C02_redirects_unfixed_refuted.
