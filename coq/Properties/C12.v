(* C12 -- Cancellation at any moment ends the scan cleanly and promptly.
   Both engines are goroutine networks over Base/Net.v (Model/Pipeline.v, Model/AppEngine.v); the
   step relation lets the context be cancelled in ANY state ([NCancel]), so "reachable" already
   quantifies over every cancellation point and every schedule.  Promptness in real time and the
   fairness of Go's select are not modelled: what is proved is that the call CAN always return. *)
From stdpp Require Import gmultiset list.
From SX Require Import Base.Net Base.NetExec Model.Pipeline Model.AppEngine Model.PipelineShape Model.AppEngineShape
                       Proofs.PipelineProofs Proofs.AppEngineProofs Proofs.EngineCancel Proofs.PipelineCancel.

(* no crash: no send on a closed channel and no double close, wherever the cancellation falls *)
Theorem C12_no_panic_packet : forall N fill_ok write_ok cap reqs n,
  reachable (Pipeline.beh N fill_ok write_ok) (Pipeline.init N cap reqs) n -> panicked n = false.
Proof. exact pipeline_no_panic. Qed.

Theorem C12_no_panic_app : forall W scan_out cap reqs n,
  reachable (AppEngine.beh W scan_out) (AppEngine.init W cap reqs) n -> panicked n = false.
Proof. exact engine_no_panic. Qed.

(* stronger: whenever a channel is closed, no goroutine will ever send on it or close it again *)
Theorem C12_closed_is_dead_packet : forall N fill_ok write_ok cap reqs n,
  reachable (Pipeline.beh N fill_ok write_ok) (Pipeline.init N cap reqs) n ->
  closed_dead (PipelineProofs.live N) n.
Proof. intros N f w cap reqs n Hr. destruct (pipeline_safe N f w cap reqs n Hr) as (_ & _ & H & _). exact H. Qed.

Theorem C12_closed_is_dead_app : forall W scan_out cap reqs n,
  reachable (AppEngine.beh W scan_out) (AppEngine.init W cap reqs) n ->
  closed_dead AppEngineProofs.live n.
Proof. intros W s cap reqs n Hr. destruct (engine_safe W s cap reqs n Hr) as (_ & _ & H & _). exact H. Qed.

(* application scans: from every reachable cancelled state the call can return: the logger and the
   error drain it waits for finish (so the result and error streams it drains have ended), without
   a panic *)
Theorem C12_app_call_can_return : forall W scan_out reqs cap n,
  reachable (AppEngine.beh W scan_out) (AppEngine.init W cap reqs) n -> cancelled n = true ->
  exists n', reachable (AppEngine.beh W scan_out) n n' /\
             procs n' !! EngineCancel.p_caller W = Some (AppEngine.End AppEngine.RCaller) /\
             procs n' !! p_logger W = Some (AppEngine.End AppEngine.RLogger) /\
             procs n' !! AppEngine.p_drain W = Some (AppEngine.End AppEngine.RDrain) /\
             panicked n' = false.
Proof. exact engine_can_return. Qed.

(* packet scans: from every reachable cancelled state the merged error stream can be closed and
   the error drain can finish -- although the sender's error sends are unconditional and the sender
   goroutine itself may stay blocked (nobody waits for it) *)
Theorem C12_packet_streams_end : forall N fill_ok write_ok reqs cap n,
  reachable (Pipeline.beh N fill_ok write_ok) (Pipeline.init N cap reqs) n -> cancelled n = true ->
  exists n', reachable (Pipeline.beh N fill_ok write_ok) n n' /\
             procs n' !! PipelineCancel.p_drain N = Some (Pipeline.End Pipeline.RDrain) /\
             (exists ch, chans n' !! c_eout N = Some ch /\ cclosed ch = true) /\
             panicked n' = false.
Proof. exact pipeline_errors_end. Qed.

(* the same at full strength: the continuation in which the call comes back moves ONLY the two error
   multiplexers, the closer of the merged error stream and the error drain.  Every other goroutine --
   the request source, the N generator workers, the N packet multiplexers, their closer, the SENDER and
   the receiver -- is in n' exactly where the cancellation found it in n: the scan call does not depend
   on the sender making one more step (it may be asleep in the rate limiter waiting for a slot that is
   30 s away, or inside a device write that blocks), nor on the sender's done ever being closed. *)
Theorem C12_packet_call_returns_sender_frozen : forall N fill_ok write_ok reqs cap n,
  reachable (Pipeline.beh N fill_ok write_ok) (Pipeline.init N cap reqs) n -> cancelled n = true ->
  exists n', reachable (Pipeline.beh N fill_ok write_ok) n n' /\
             procs n' !! PipelineCancel.p_drain N = Some (Pipeline.End Pipeline.RDrain) /\
             (exists ch, chans n' !! c_eout N = Some ch /\ cclosed ch = true) /\
             panicked n' = false /\
             (forall j, j <> p_em N 0 -> j <> p_em N 1 -> j <> PipelineCancel.p_ecloser N -> j <> PipelineCancel.p_drain N ->
                        procs n' !! j = procs n !! j).
Proof. exact pipeline_errors_end_frozen. Qed.

(* in particular the sender (goroutine 2N+2 of the layout: source, N workers, N multiplexers, closer, sender, ...) *)
Definition p_sender (N : nat) : nat := 2 * N + 2.
Theorem C12_sender_not_waited_for : forall N fill_ok write_ok reqs cap n,
  reachable (Pipeline.beh N fill_ok write_ok) (Pipeline.init N cap reqs) n -> cancelled n = true ->
  exists n', reachable (Pipeline.beh N fill_ok write_ok) n n' /\
             procs n' !! PipelineCancel.p_drain N = Some (Pipeline.End Pipeline.RDrain) /\
             procs n' !! p_sender N = procs n !! p_sender N /\ panicked n' = false.
Proof.
  intros N f w reqs cap n Hr Hc.
  destruct (pipeline_errors_end_frozen N f w reqs cap n Hr Hc) as (n' & H1 & H2 & _ & H4 & H5).
  exists n'. split; [exact H1|]. split; [exact H2|]. split; [|exact H4].
  apply H5; unfold p_sender, p_em, PipelineCancel.p_ecloser, PipelineCancel.p_drain; lia.
Qed.
Example C12_sender_is_the_sender : forall N, Pipeline.layout N !! p_sender N = Some Pipeline.RSender.
Proof.
  intros N. unfold p_sender, Pipeline.layout. rewrite lookup_app_r by (simpl; lia).
  rewrite lookup_app_r by (simpl; rewrite fmap_length, seq_length; lia).
  rewrite lookup_app_r by (simpl; rewrite !fmap_length, !seq_length; lia).
  cbn [length app]. rewrite !fmap_length, !seq_length. replace (2 * N + 2 - 1 - N - N) with 1 by lia. reflexivity.
Qed.

Theorem C12_shape : PipelineShape.shape_ok = true /\ AppEngineShape.shape_ok = true.
Proof. split; vm_compute; reflexivity. Qed.

(* ---- non-vacuity: a run of the application engine cancelled in the middle (after 7 rounds) ---- *)
(* scheduling policy of the example run: the request source's input never stalls *)
Definition no_stall (l : AppEngine.loc) : bool := match l with AppEngine.Src _ => true | _ => false end.
Definition ex_reqs := [(0, false); (1, true); (2, false); (3, false); (4, false); (5, false)].
Definition ex_out (id : nat) := match id with 0 | 4 => SPos | 3 => SFail | _ => SNeg end.
Definition ex_mid := exec (AppEngine.beh 3 ex_out) (fun _ => 0) no_stall (rounds 7 9 ++ [Cancel]) (AppEngine.init 3 1 ex_reqs).
Definition ex_end := exec (AppEngine.beh 3 ex_out) (fun _ => 0) no_stall (rounds 30 9) ex_mid.
Example C12_ex_cancelled_midway :
  reachable (AppEngine.beh 3 ex_out) (AppEngine.init 3 1 ex_reqs) ex_mid /\ cancelled ex_mid = true /\
  procs ex_mid !! EngineCancel.p_caller 3 = Some MWait.
Proof. split; [apply exec_reachable; apply R0|]. vm_compute. split; reflexivity. Qed.
Example C12_ex_returns :
  procs ex_end !! EngineCancel.p_caller 3 = Some (AppEngine.End AppEngine.RCaller) /\ panicked ex_end = false.
Proof. vm_compute. split; reflexivity. Qed.

(* ---- non-vacuity of the frozen-sender statement: a 2-worker pipeline on 8 requests, cancelled after 4 rounds
   while the sender is INSIDE the write of frame 0 (SWrite 0); from then on only the two error multiplexers (8, 9),
   the closer of the merged stream (10) and the drain (11) are scheduled: the drain ends, the merged stream is
   closed, and the sender, the source, the workers and the multiplexers are where the cancellation found them ---- *)
Definition pk_all_ok (_ : nat) := true.
Definition pk_no_stall (l : Pipeline.loc) : bool := match l with Pipeline.Src _ => true | _ => false end.
Definition pk_reqs := [(0, false); (1, false); (2, true); (3, false); (4, false); (5, false); (6, false); (7, false)].
Definition pk_mid := exec (Pipeline.beh 2 pk_all_ok pk_all_ok) (fun _ => 0) pk_no_stall (rounds 4 12 ++ [Cancel]) (Pipeline.init 2 1 pk_reqs).
Fixpoint pk_rep (k : nat) (l : list action) : list action := match k with 0 => [] | S k => l ++ pk_rep k l end.
Definition pk_end := exec (Pipeline.beh 2 pk_all_ok pk_all_ok) (fun _ => 0) pk_no_stall (pk_rep 30 [Run 8; Run 9; Run 10; Run 11]) pk_mid.
Example C12_ex_sender_mid_write :
  reachable (Pipeline.beh 2 pk_all_ok pk_all_ok) (Pipeline.init 2 1 pk_reqs) pk_mid /\ cancelled pk_mid = true /\
  procs pk_mid !! p_sender 2 = Some (Pipeline.SWrite 0).
Proof. split; [apply exec_reachable; apply R0|]. vm_compute. split; reflexivity. Qed.
Example C12_ex_returns_sender_frozen :
  procs pk_end !! PipelineCancel.p_drain 2 = Some (Pipeline.End Pipeline.RDrain) /\
  procs pk_end !! p_sender 2 = Some (Pipeline.SWrite 0) /\
  take 8 (procs pk_end) = take 8 (procs pk_mid) /\ panicked pk_end = false.
Proof. vm_compute. repeat split; reflexivity. Qed.

Print Assumptions C12_no_panic_packet.
Print Assumptions C12_no_panic_app.
Print Assumptions C12_closed_is_dead_packet.
Print Assumptions C12_closed_is_dead_app.
Print Assumptions C12_app_call_can_return.
Print Assumptions C12_packet_streams_end.
Print Assumptions C12_packet_call_returns_sender_frozen.
Print Assumptions C12_sender_not_waited_for.
Print Assumptions C12_shape.
