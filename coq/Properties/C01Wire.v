(* C01, end to end in the model: the generator chain of a command (Gen/TargetWiring.v, C01) feeding the
   engine that the command starts (packet pipeline: Model/Pipeline.v, C07; generic engine:
   Model/AppEngine.v, C08).  "One scan pass puts on the wire exactly one probe for each (address, port)
   that the specification denotes": for every command, option setting, valid specification, all random
   draws, every number of pipeline workers, every request-channel capacity and EVERY schedule of every
   engine run (one run per chunk of port ranges for the chunked commands).

   Definitions used (Proofs/WireCoverage.v, Proofs/ScanCoverage.v):
     engine_runs ..       = the event lists of the engine runs of the command (run_command before concat)
     to_reqs evs          = request k of the engine's input stream is event k; it carries an error iff
                            event k is not a probe
     wire_outcome evs ws  = ws are the (address, port) of the frames handed to the wire, in write order,
                            in SOME complete (quiescent) uncancelled run of the packet pipeline on
                            to_reqs evs in which Fill and WritePacketData succeed
     scan_outcome evs ws  = ws are the targets handed to Scanner.Scan, in call order, in SOME uncancelled
                            run of the generic engine on to_reqs evs that has signalled completion *)
From stdpp Require Import list.
From SX Require Import Base.Net Base.NetExec Proofs.PipelineOrder Proofs.PipelineWire Proofs.AppEngineScans.
From SX Require Model.Pipeline Model.AppEngine Model.PipelineShape Model.AppEngineShape.
From Coq Require Import ZArith.
From SX Require Import Model.IPNet Model.Targets Model.TargetWiring Proofs.WiringProofs Proofs.WireCoverage
  Proofs.ScanCoverage Gen.GroupsTable Gen.TargetWiring Proofs.TargetsTable Properties.C01.
Local Open Scope nat_scope.

(* packet scans: arp, icmp, tcp syn/fin/null/xmas/flags, udp *)
Theorem C01_on_the_wire : forall cmd, In cmd commands -> forall k f inp n,
  class_of cmd = Some k -> c_engine cmd <> EGeneric -> valid_spec k f inp n ->
  exists runs, engine_runs cyclic_groups chunk_size empty_runs_once cmd f inp = Some runs /\
    forall wss, Forall2 wire_outcome runs wss -> concat wss ≡ₚ spec_denote k f inp n.
Proof.
  intros cmd _ k f inp n Hc _ V.
  exact (wire_coverage cyclic_groups groups_ok chunk_size (proj1 C01_chunk_loop) cmd k f inp n Hc V).
Qed.

(* application scans: socks, docker, elastic *)
Theorem C01_scanned : forall cmd, In cmd commands -> forall k f inp n,
  class_of cmd = Some k -> c_engine cmd = EGeneric -> valid_spec k f inp n ->
  exists runs, engine_runs cyclic_groups chunk_size empty_runs_once cmd f inp = Some runs /\
    forall wss, Forall2 scan_outcome runs wss -> concat wss ≡ₚ spec_denote k f inp n.
Proof.
  intros cmd _ k f inp n Hc _ V.
  exact (scan_coverage cyclic_groups groups_ok chunk_size (proj1 C01_chunk_loop) cmd k f inp n Hc V).
Qed.

(* the run lists concatenate to what C01_all_commands speaks about *)
Theorem C01_runs_are_the_scan : forall cmd f inp,
  run_command cyclic_groups chunk_size empty_runs_once cmd f inp =
  option_map (@concat event) (engine_runs cyclic_groups chunk_size empty_runs_once cmd f inp).
Proof. intros. apply engine_runs_concat. Qed.

(* the goroutine structure of both engines in the current sources is the one the two models were written
   against (the pins of C07_shape and C08_shape; here because the theorems above speak about those models) *)
Theorem C01_engine_shapes : PipelineShape.shape_ok = true /\ AppEngineShape.shape_ok = true.
Proof. split; vm_compute; reflexivity. Qed.

(* ---- non-vacuity: the concrete `sx tcp syn` specification of C01_ex_valid_spec, run through a
   2-worker pipeline under a round-robin schedule: a complete uncancelled run exists and hands
   exactly the two denoted probes to the wire ---- *)
Definition ex_runs : list (list event) :=
  match engine_runs cyclic_groups chunk_size empty_runs_once ex_cmd ex_cfg ex_inp with Some r => r | None => [] end.
Definition ex_evs : list event := nth 0 ex_runs [].
Definition no_stall (l : Pipeline.loc) : bool := match l with Pipeline.Src _ => true | _ => false end.
Definition ex_state := exec (Pipeline.beh 2 all_ok all_ok) (fun _ => 0) no_stall (rounds 40 12)
                            (Pipeline.init 2 1 (to_reqs ex_evs)).
Example C01_ex_runs : length ex_runs = 1 /\ to_reqs ex_evs = [(0, false); (1, false)].
Proof. vm_compute. split; reflexivity. Qed.
Example C01_ex_wire : wire_outcome ex_evs [([10;0;0;8], 81); ([10;0;0;8], 80)]%Z.
Proof.
  exists 2, 1, ex_state. split; [apply exec_reachable; apply R0|].
  split; [vm_compute; reflexivity|]. split.
  - split.
    + intros l Hl. assert (H : Forall (fun l => Pipeline.weight l = ∅) (procs ex_state)).
      { apply (bool_decide_unpack _). vm_compute. exact I. }
      rewrite Forall_forall in H. exact (H l Hl).
    + intros ch Hch. assert (H : Forall (fun ch : chan Pipeline.val => cbuf ch = []) (chans ex_state)).
      { apply (bool_decide_unpack _). vm_compute. exact I. }
      rewrite Forall_forall in H. exact (H ch Hch).
  - vm_compute. reflexivity.
Qed.
Example C01_ex_denote : spec_denote KPortPacket ex_cfg ex_inp ([10;0;0;8], [255;255;255;254])%Z
                        = [([10;0;0;8], 80); ([10;0;0;8], 81)]%Z.
Proof. vm_compute. reflexivity. Qed.

Print Assumptions C01_engine_shapes.
Print Assumptions C01_on_the_wire.
Print Assumptions C01_scanned.
Print Assumptions C01_runs_are_the_scan.
