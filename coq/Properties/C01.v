(* C01 -- Coverage: every specified target is probed exactly once per pass.
   Only statements; proofs live in Proofs/.  Models: Model/IPNet.v, Targets.v, FileTargets.v (hand-written,
   tied by the correspondence harness), Model/TargetWiring.v (meaning of the chains).  Generated from the
   sources on every run: Gen.GroupsTable (pkg/scan/range.go) and Gen.TargetWiring (command/*.go: the chain
   each command builds, its engine start function, the chunk loop of startPortScanEngine).
   These theorems are about the code WITH the fixes of defects D1 (startPortScanEngine runs one engine for an
   empty port list), D2 (stdin address list is recorded and replayed for every port) and D3 (ParseIPNet
   accepts IPv4 only). *)
From Coq Require Import ZArith List Bool Permutation Lia.
From Coq Require Strings.String.
From SX Require Import Base.Bytes Model.RangeIter Model.IPNet Model.Exclude Model.Targets Model.FileTargets
  Model.TargetWiring Gen.GroupsTable Gen.TargetWiring
  Proofs.RangeIterProofs Proofs.IPNetProofs Proofs.StagesProofs Proofs.TargetsProofs Proofs.FileTargetsProofs
  Proofs.CoverageProofs Proofs.WiringProofs Proofs.TargetsTable.
Import ListNotations.
Open Scope Z_scope.

(* ---------- the tie to command/*.go, recomputed from the generated table ---------- *)
(* every command registered in newRootCmd builds one of the four expected chains (decorator order
   cache(filter(base)), file / stdin openers, port-less vs port scans) with the matching engine start *)
Theorem C01_wiring :
  forallb (fun cmd => match class_of cmd with Some _ => true | None => false end) commands = true.
Proof. vm_compute. reflexivity. Qed.

(* the chunk loop of startPortScanEngine has a positive chunk size and runs one engine for an empty list *)
Theorem C01_chunk_loop : 0 < chunk_size /\ empty_runs_once = true.
Proof. split; reflexivity. Qed.

Lemma command_class cmd : In cmd commands -> exists k, class_of cmd = Some k.
Proof.
  intros H. pose proof C01_wiring as W. rewrite forallb_forall in W. specialize (W cmd H).
  destruct (class_of cmd) as [k|]; [exists k; reflexivity|discriminate].
Qed.

(* ---------- the property, for every command ---------- *)
(* For every command of newRootCmd, every option setting and every valid IPv4 target specification
   ([valid_spec]: a net /0../32 accepted by ParseIPNet or an openable well-formed file, any list of valid port
   ranges - chunked when the command chunks -, any exclusion list, a MAC known for every destination when
   the ARP stage is on) and ALL values of the random draws: the scan is defined, its probes are as a
   multiset exactly what the specification denotes minus excluded addresses (none missing, none extra, none
   repeated), there is no error record and no generator dies. *)
Theorem C01_all_commands : forall cmd, In cmd commands -> forall k f inp n,
  class_of cmd = Some k -> valid_spec k f inp n ->
  exists evs, run_command cyclic_groups chunk_size empty_runs_once cmd f inp = Some evs /\
              Permutation (probes evs) (spec_denote k f inp n) /\ errors evs = [] /\ normal evs = true.
Proof.
  intros cmd _ k f inp n Hc V.
  exact (command_coverage cyclic_groups groups_ok chunk_size (proj1 C01_chunk_loop) cmd k f inp n Hc V).
Qed.

(* the hypothesis "accepted by ParseIPNet" of [valid_spec], discharged: whatever ParseIPNet accepts (under
   the library shape assumptions of C02) is an IPv4 net in the sense the coverage theorems need *)
Theorem C01_target_accepted : forall cidr addr n,
  lib_cidr_ok cidr = true -> lib_addr_ok addr = true -> parse_ipnet cidr addr = POk n -> exists pl, ipv4_net n pl.
Proof.
  intros cidr addr n Hc Ha H. apply is_ipv4_net_sound. exact (parse_ipnet_ipv4 cidr addr n Hc Ha H).
Qed.

(* ---------- the same, stated directly on the generator chains ---------- *)
(* subnet x port ranges through the chunk loop (tcp*, udp): all nets /0../32, all non-empty lists of valid
   ranges (more than chunk_size ranges included), all exclusion lists, all draws *)
Theorem C01_subnet_ports : forall n pl rs st dp di,
  ipv4_net n pl -> rs <> [] -> Forall valid_range rs -> cache_total st ->
  (forall c, nonneg (dp c)) -> (forall c, nonneg (di c)) ->
  let evs := packet_port_scan cyclic_groups chunk_size empty_runs_once dp di (fun _ => TSubnet (Some n)) st rs in
  Permutation (probes evs) (denote_subnet_ports n rs st) /\ errors evs = [] /\ normal evs = true.
Proof.
  intros n pl rs st dp di Hn Hne Hv Ht Hdp Hdi.
  exact (subnet_ports_chunked cyclic_groups groups_ok chunk_size empty_runs_once dp di n pl st rs
           (proj1 C01_chunk_loop) Hn Hdp Hdi Hne Hv Ht).
Qed.

(* the same through one application-scan engine (socks, docker, elastic): no chunking *)
Theorem C01_subnet_ports_generic : forall n pl rs st dp di,
  ipv4_net n pl -> rs <> [] -> Forall valid_range rs -> cache_total st -> nonneg dp -> nonneg di ->
  let evs := generic_port_scan cyclic_groups dp di (TSubnet (Some n)) st rs in
  Permutation (probes evs) (denote_subnet_ports n rs st) /\ errors evs = [] /\ normal evs = true.
Proof.
  intros n pl rs st dp di Hn Hne Hv Ht Hdp Hdi.
  exact (subnet_ports_run cyclic_groups groups_ok dp di n pl st rs Hn Hdp Hdi Hne Hv Ht).
Qed.

(* a file of ip/port pairs (no -p): through the chunk loop with its EMPTY port list, and through one engine *)
Theorem C01_file_pairs : forall (op : nat -> opener) ls st dp di,
  op 0%nat 0%nat = Some ls -> forallb wf_pair_line ls = true -> cache_total st ->
  let evs := packet_port_scan cyclic_groups chunk_size empty_runs_once dp di (fun c => TFilePairs (op c)) st [] in
  probes evs = denote_file_pairs ls st /\ errors evs = [] /\ normal evs = true.
Proof.
  intros op ls st dp di Hop Hwf Ht.
  exact (file_pairs_chunked cyclic_groups chunk_size dp di op ls st Hop Hwf Ht).
Qed.

Theorem C01_file_pairs_generic : forall op ls st dp di ports,
  op 0%nat = Some ls -> forallb wf_pair_line ls = true -> cache_total st ->
  let evs := generic_port_scan cyclic_groups dp di (TFilePairs op) st ports in
  probes evs = denote_file_pairs ls st /\ errors evs = [] /\ normal evs = true.
Proof.
  intros op ls st dp di ports Hop Hwf Ht.
  exact (file_pairs_run cyclic_groups dp di op ls st ports Hop Hwf Ht).
Qed.

(* a file of addresses x port ranges; every open of the source yields the same content: a regular file, or
   standard input through the recorder (C01_stdin_replay) *)
Theorem C01_file_times_ports : forall (op : nat -> opener) ls rs st dp di,
  (forall c k, op c k = Some ls) -> forallb wf_addr_line ls = true ->
  rs <> [] -> Forall valid_range rs -> cache_total st -> (forall c, nonneg (dp c)) ->
  let evs := packet_port_scan cyclic_groups chunk_size empty_runs_once dp di (fun c => TFileIPs (op c)) st rs in
  Permutation (probes evs) (denote_file_ports ls rs st) /\ errors evs = [] /\ normal evs = true.
Proof.
  intros op ls rs st dp di Hop Hwf Hne Hv Ht Hdp.
  exact (file_ports_chunked cyclic_groups groups_ok chunk_size empty_runs_once dp di op ls st rs
           (proj1 C01_chunk_loop) Hop Hwf Hdp Hne Hv Ht).
Qed.

Theorem C01_file_times_ports_generic : forall op ls rs st dp di,
  (forall k, op k = Some ls) -> forallb wf_addr_line ls = true ->
  rs <> [] -> Forall valid_range rs -> cache_total st -> nonneg dp ->
  let evs := generic_port_scan cyclic_groups dp di (TFileIPs op) st rs in
  Permutation (probes evs) (denote_file_ports ls rs st) /\ errors evs = [] /\ normal evs = true.
Proof.
  intros op ls rs st dp di Hop Hwf Hne Hv Ht Hdp.
  exact (file_ports_run cyclic_groups groups_ok dp di op ls st rs Hop Hwf Hdp Hne Hv Ht).
Qed.

(* standard input: whatever the streaming first reader has or has not consumed (any interleaving of reads
   and opens), every open of the recorder offers the whole of stdin *)
Theorem C01_stdin_replay : forall (A : Type) (stdin : list A) ops,
  Forall (eq stdin) (replay_run ops (replay_new stdin)).
Proof. intros A stdin ops. exact (replay_run_all stdin ops _ (replay_new_inv stdin)). Qed.

(* port-less scans: arp (subnet), icmp (subnet or address file) *)
Theorem C01_portless : forall n pl st di,
  ipv4_net n pl -> nonneg di -> cache_total st ->
  let evs := portless_scan cyclic_groups di (TSubnet (Some n)) st in
  Permutation (probes evs) (denote_subnet n st) /\ errors evs = [] /\ normal evs = true.
Proof.
  intros n pl st di Hn Hdi Ht. exact (subnet_portless_run cyclic_groups groups_ok di n pl st Hn Hdi Ht).
Qed.

Theorem C01_portless_file : forall op ls st di,
  op 0%nat = Some ls -> forallb wf_addr_line ls = true -> cache_total st ->
  let evs := portless_scan cyclic_groups di (TFileIPs op) st in
  probes evs = denote_file_addrs ls st /\ errors evs = [] /\ normal evs = true.
Proof. intros op ls st di Hop Hwf Ht. exact (file_portless_run cyclic_groups di op ls st Hop Hwf Ht). Qed.

(* the chunking lemma: a loop of engine runs over chunks of any positive size yields, as a multiset, what
   one run over the whole list would, for every additive reading D of the list *)
Theorem C01_chunking : forall (B : Type) (run : nat -> list prange -> list event) (proj : list event -> list B)
    (D : list prange -> list B) size once ports,
  (forall a b, proj (a ++ b)%list = (proj a ++ proj b)%list) -> (forall a b, D (a ++ b)%list = (D a ++ D b)%list) ->
  0 < size -> ports <> [] ->
  (forall c chunk, chunk <> [] -> incl chunk ports -> Permutation (proj (run c chunk)) (D chunk)) ->
  Permutation (proj (port_scan_engine size once run ports)) (D ports).
Proof. intros B run proj D size once ports H1 H2. exact (port_scan_engine_perm run proj D H1 H2 size once ports). Qed.

Theorem C01_chunks_partition : forall (A : Type) size (l : list A), (0 < size)%nat ->
  concat (chunks size l) = l /\ Forall (fun c => c <> []) (chunks size l).
Proof. intros A size l H. exact (chunks_concat size l H). Qed.

(* the defect D1, on the model of the loop as it was: with no guard, an empty port list runs no engine *)
Theorem C01_D1_unfixed_refuted : forall dp di t st,
  packet_port_scan cyclic_groups chunk_size false dp di t st [] = [].
Proof. intros. reflexivity. Qed.

(* the defect D2, on the chain as it was wired (stdin handed to every reader without a recorder): with two
   ports the second pass over the address list finds stdin empty - one probe where two are due *)
Theorem C01_D2_unfixed_refuted : exists f inp,
  let g := GIPPort (GFileIPs GOpenStdinRaw) GPorts in
  f_stdin f = true /\
  option_map (fun o => length (probes (events o))) (interp_req cyclic_groups f inp 0 g (i_ports inp)) = Some 1%nat /\
  length (denote_file_ports (i_file inp) (i_ports inp) {| st_filter := None; st_cache := None |}) = 2%nat.
Proof.
  exists {| f_file := true; f_ports := true; f_exclude := false; f_cache := false; f_live := false; f_stdin := true |}.
  exists {| i_dst := None; i_file := [LJson (Some (Some [10;0;0;1])) None]; i_openable := true; i_nets := [];
            i_cache := {| ac_entries := []; ac_gateway := [] |}; i_ports := [(80, 81)];
            i_dp := fun _ _ => (1, 1); i_di := fun _ _ => (1, 1) |}.
  vm_compute. repeat split.
Qed.

(* non-vacuity: concrete instances *)
Example C01_ex_subnet :
  probes (packet_port_scan cyclic_groups 200 true (fun _ _ => (5, 7)) (fun _ _ => (3, 9))
            (fun _ => TSubnet (Some ([10;0;0;8], [255;255;255;254]))) {| st_filter := None; st_cache := None |} [(80, 81)])
  = [([10;0;0;9], 81); ([10;0;0;8], 81); ([10;0;0;9], 80); ([10;0;0;8], 80)].
Proof. vm_compute. reflexivity. Qed.
Example C01_ex_pairs :
  probes (packet_port_scan cyclic_groups 200 true (fun _ _ => (0, 0)) (fun _ _ => (0, 0))
            (fun _ => TFilePairs (fun _ => Some [LJson (Some (Some [1;2;3;4])) (Some 80); LJson (Some (Some [1;2;3;5])) (Some 443)]))
            {| st_filter := Some [([1;2;3;5], [255;255;255;255])]; st_cache := None |} [])
  = [([1;2;3;4], 80)].
Proof. vm_compute. reflexivity. Qed.
Example C01_ex_classes : map class_of commands =
  [Some KArp; Some KPortGeneric; Some KPortGeneric; Some KIcmp; Some KPortGeneric; Some KPortPacket; Some KPortPacket;
   Some KPortPacket; Some KPortPacket; Some KPortPacket; Some KPortPacket].
Proof. vm_compute. reflexivity. Qed.

(* the hypotheses of C01_all_commands are satisfiable: a concrete valid specification for `sx tcp syn`
   (10.0.0.8/31, ports 80-81, exclusion list and ARP stage on, gateway MAC known) and what the command does with it *)
Definition ex_inp : inputs :=
  {| i_dst := Some ([10;0;0;8], [255;255;255;254]); i_file := []; i_openable := false;
     i_nets := [([10;0;0;9], [255;255;255;255])]; i_cache := {| ac_entries := []; ac_gateway := [2;0;0;0;0;1] |};
     i_ports := [(80, 81)]; i_dp := fun _ _ => (5, 7); i_di := fun _ _ => (3, 9) |}.
Definition ex_cfg : cfg :=
  {| f_file := false; f_ports := true; f_exclude := true; f_cache := true; f_live := false; f_stdin := false |}.
Definition ex_cmd : command := nth 8 commands {| c_name := Strings.String.EmptyString; c_gen := GPorts; c_engine := EGeneric |}.
Example C01_ex_valid_spec : class_of ex_cmd = Some KPortPacket /\
  valid_spec KPortPacket ex_cfg ex_inp ([10;0;0;8], [255;255;255;254]).
Proof.
  split; [vm_compute; reflexivity|].
  constructor.
  - reflexivity.
  - intros H; discriminate.
  - intros H; discriminate.
  - intros _. split; [reflexivity|]. exists 31. unfold ipv4_net. cbn. repeat split; try reflexivity; lia.
  - split; [intros _; discriminate|intros _; reflexivity].
  - constructor; [unfold valid_range; cbn; lia|constructor].
  - intros _ _; reflexivity.
  - intros _ H; discriminate.
  - intros [H _]; discriminate.
  - intros _; discriminate.
  - intros c i. cbn. lia.
  - intros c i. cbn. lia.
Qed.
Example C01_ex_command :
  option_map probes (run_command cyclic_groups chunk_size empty_runs_once ex_cmd ex_cfg ex_inp)
  = Some [([10;0;0;8], 81); ([10;0;0;8], 80)].
Proof. vm_compute. reflexivity. Qed.

Print Assumptions C01_wiring.
Print Assumptions C01_chunk_loop.
Print Assumptions C01_all_commands.
Print Assumptions C01_target_accepted.
Print Assumptions C01_subnet_ports.
Print Assumptions C01_subnet_ports_generic.
Print Assumptions C01_file_pairs.
Print Assumptions C01_file_pairs_generic.
Print Assumptions C01_file_times_ports.
Print Assumptions C01_file_times_ports_generic.
Print Assumptions C01_stdin_replay.
Print Assumptions C01_portless.
Print Assumptions C01_portless_file.
Print Assumptions C01_chunking.
Print Assumptions C01_chunks_partition.
Print Assumptions C01_D1_unfixed_refuted.
Print Assumptions C01_D2_unfixed_refuted.
