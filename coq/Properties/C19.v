(* C19 -- Live mode: complete passes repeat until cancelled.

   Statements only; proofs are in Proofs/LiveProofs.v.  The model is Model/Live.v: the goroutine of
   liveRequestGenerator (pkg/scan/request.go) as a transition system; a schedule is a list of moves
   (which select case fires, when the delegate / the consumer / the clock / the context move).  Every
   theorem below holds for EVERY schedule ([reach]: any state reachable by any list of moves from the
   start on any script of delegate results), so for unbounded histories of passes, cancellation at
   any point in or between passes, and a delegate that fails on some pass.  "Each pass probes every
   address exactly once" is C01 applied to what the delegate generates in one pass; here a pass is
   the list of requests one delegate call delivers.  The wiring of `sx arp --live` is
   Gen/LiveWiring.v, regenerated from command/arp.go on every run. *)
From Coq Require Import String List ZArith Bool Arith.
From SX Require Import Model.Live Gen.LiveWiring Spec.C19 Proofs.LiveProofs.
Import ListNotations.
Local Open Scope Z_scope.

(* ---- the output is the concatenation of the passes in order, each pass complete: until the context
   is cancelled, [sent on out] ++ [held by the goroutine] ++ [still to come from the current pass] is
   exactly the concatenation of the passes generated so far -- nothing lost, duplicated or reordered *)
Theorem C19_output_is_passes_in_order : forall rescan script s,
  reach rescan script s -> cancelled s = false ->
  outl s ++ inflight s ++ cur_rest s = total (calls s) script.
Proof. exact live_out_prefix. Qed.

(* ---- ... and a pass only starts when every earlier pass has been sent completely *)
Theorem C19_pass_complete_before_next : forall rescan script s,
  reach rescan script s ->
  forall k t n ok, In (EStart k t n ok false) (log s) -> n = length (total k script).
Proof. exact live_pass_complete_before_next. Qed.

(* ---- with or without cancellation, what is sent on out is a subsequence of the passes generated:
   even the select races after a cancellation cannot duplicate, reorder or invent a request *)
Theorem C19_output_subsequence_always : forall rescan script s,
  reach rescan script s -> subseq (outl s) (total (calls s) script) = true.
Proof. exact live_out_subseq. Qed.

(* ---- the next pass starts no earlier than the rescan interval after the goroutine saw the
   previous one end (logical clock); the hypothesis 0 < rescan is what the wiring guarantees
   (C19_wiring: the generator is only built under `o.liveTimeout > 0`, with that interval) *)
Theorem C19_interval : forall rescan script s, 0 < rescan ->
  reach rescan script s ->
  forall k t' n ok c, In (EStart (S k) t' n ok c) (log s) ->
  exists t, In (EEnd k t) (log s) /\ t + rescan <= t'.
Proof. intros rescan script s P. exact (live_interval rescan script P s). Qed.

(* ---- passes keep coming until the scan is cancelled: an uncancelled generator whose last
   re-generation did not fail is never stuck (some move other than the cancellation is enabled) *)
Theorem C19_passes_keep_coming : forall rescan script s,
  reach rescan script s -> cancelled s = false -> cur s <> None -> future s <> [] ->
  exists m s', m <> MCancel /\ lstep rescan s m = Some s'.
Proof. exact live_progress. Qed.

(* ---- cancellation ends the stream: in every state with the context cancelled, ctx.Done can fire
   at the current select and at most three such steps later the goroutine has returned and closed
   out, without sending anything more or calling the delegate again; and once out is closed
   nothing changes any more *)
Theorem C19_cancel_ends : forall rescan s, cancelled s = true ->
  exists s', finish rescan s = Some s' /\ pc s' = Ended /\ outl s' = outl s /\ calls s' = calls s.
Proof. exact live_cancel_ends. Qed.

Theorem C19_closed_is_final : forall rescan s m s', pc s = Ended -> lstep rescan s m = Some s' ->
  m = MCancel /\ pc s' = Ended /\ outl s' = outl s /\ calls s' = calls s.
Proof. exact live_ended_final. Qed.

(* ---- a pass that fails to start ends live mode with neither a crash nor a busy loop: after a
   failed re-generation the goroutine sits in readRequest on a nil channel; the only moves are the
   cancellation and then ctx.Done, which closes out; no delegate call, no output, no other step *)
Theorem C19_fail_no_crash_no_spin : forall rescan script s, 0 < rescan ->
  reach rescan script s -> cur s = None -> pc s <> Ended ->
  pc s = AtRead /\
  forall m s', lstep rescan s m = Some s' ->
    (m = MCancel \/ (m = MDone /\ cancelled s = true /\ pc s' = Ended)) /\
    calls s' = calls s /\ outl s' = outl s /\ cur s' = None.
Proof. intros rescan script s P. exact (live_fail_blocks rescan script P s). Qed.

(* ---- the tie: a trace of the real generator that the oracle accepts IS a schedule of the model
   (same script, out closed at the end, exactly the received requests sent), so all of the above
   applies to the observed behaviour *)
Theorem C19_accepted_trace_is_a_run : forall c, check_trace c = [] -> t_start_err c = false ->
  exists s0 ms s, live_start (t_script c) = Started s0 /\ run (t_rescan c) s0 ms = Some s /\
                  pc s = Ended /\ nat_list_eqb (outl s) (t_outs c) = true.
Proof. exact accepted_trace_is_a_run. Qed.

(* ---- `sx arp --live`: the request generator chain of newARPScanMethod is linear, its outermost
   (last) wrapper is scan.NewLiveRequestGenerator around everything else (so exclusions apply inside
   every pass), built only under `o.liveTimeout > 0` with interval o.liveTimeout, and handed to
   scan.NewPacketSource; getLogger wraps the logger in log.NewUniqueLogger under the same guard;
   RunE uses both; the flag is --live with default 0 (off) *)
Theorem C19_wiring : live_wiring_ok = true.
Proof. exact live_wiring_holds. Qed.

(* ---- non-vacuity *)
Definition ex_script : list pass := [Pass [1; 2]%nat; Pass [3]%nat; Fail; Pass [9]%nat].
Definition ex_start : lstate :=
  match live_start ex_script with Started s => s | _ => set_pc {| pc := Ended; cur := None; future := []; calls := 0;
    outl := []; cancelled := false; now := 0; log := [] |} Ended end.

(* two complete passes 10 time units apart, then the failing re-generation: blocked until cancel *)
Definition ex_moves : list move :=
  [MDeliver; MAccept; MDeliver; MAccept; MEndPass 5; MTick 15; MDeliver; MAccept; MEndPass 20; MTick 30].

Example C19_ex_run :
  match run 10 ex_start ex_moves with
  | Some s => (outl s, calls s, cur s, pc s) = ([1; 2; 3]%nat, 3%nat, None, AtRead)
  | None => False
  end.
Proof. vm_compute. reflexivity. Qed.

Example C19_ex_too_early : run 10 ex_start [MDeliver; MAccept; MDeliver; MAccept; MEndPass 5; MTick 14] = None.
Proof. vm_compute. reflexivity. Qed.

Example C19_ex_blocked_after_fail :
  match run 10 ex_start ex_moves with
  | Some s => (lstep 10 s MDeliver, lstep 10 s (MEndPass 99), lstep 10 s (MTick 99), lstep 10 s MAccept, lstep 10 s MDone)
              = (None, None, None, None, None)
  | None => False
  end.
Proof. vm_compute. reflexivity. Qed.

Example C19_ex_cancel_after_fail :
  match run 10 ex_start (ex_moves ++ [MCancel; MDone]) with
  | Some s => (pc s, outl s) = (Ended, [1; 2; 3]%nat)
  | None => False
  end.
Proof. vm_compute. reflexivity. Qed.

Example C19_ex_trace_accepted :
  check_trace {| t_script := ex_script; t_rescan := 10; t_start_err := false;
                 t_trace := [VD 1; VO 1; VD 2; VC 4; VO 2; VG 1 15; VD 3; VC 18; VO 3; VG 2 30; VK; VX];
                 t_outs := [1; 2; 3]%nat |} = [].
Proof. vm_compute. reflexivity. Qed.

Example C19_ex_trace_rejected_early_pass :
  check_trace {| t_script := ex_script; t_rescan := 10; t_start_err := false;
                 t_trace := [VD 1; VO 1; VD 2; VC 4; VO 2; VG 1 13]; t_outs := [1; 2]%nat |} = [1005].
Proof. vm_compute. reflexivity. Qed.

Print Assumptions C19_output_is_passes_in_order.
Print Assumptions C19_pass_complete_before_next.
Print Assumptions C19_output_subsequence_always.
Print Assumptions C19_interval.
Print Assumptions C19_passes_keep_coming.
Print Assumptions C19_cancel_ends.
Print Assumptions C19_closed_is_final.
Print Assumptions C19_fail_no_crash_no_spin.
Print Assumptions C19_accepted_trace_is_a_run.
Print Assumptions C19_wiring.
