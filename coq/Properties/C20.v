(* C20 -- The receiver survives every sequence of read faults as specified.

   Statements only, each closed by [exact]; proofs are in Proofs/ReceiverProofs.v.  The model is
   Model/Receiver.v ([receive P s]: the ReceivePackets goroutine of pkg/packet/receiver.go run on the
   script [s] of read outcomes -- each frame carrying the outcome the Processor returns for it --
   under the parameters [P]: capacity of the error channel, whether the channel is received from,
   the outcome of the select race a cancellation can produce, the cancellation position).  All
   theorems hold for EVERY finite script (induction), every capacity, both consumers and both
   outcomes of the race unless a hypothesis says otherwise.  The error classification and the
   capacity the code uses are Gen.ReceiverTable, regenerated from receiver.go on every run. *)
From Coq Require Import String Ascii Bool Arith Lia List.
From SX Require Import Gen.ReceiverTable Model.Receiver Spec.C20 Proofs.ReceiverProofs.
Import ListNotations.

(* ---- every successfully read frame is processed exactly once and in order: the ids handed to
   the Processor are exactly the frames among the read calls made, in script order (nothing lost,
   duplicated, reordered or invented), whatever faults surround them, wherever a cancellation
   falls, drained or not *)
Theorem C20_frames_once_in_order : forall P s,
  o_frames (receive P s) = frames_of (firstn (o_reads (receive P s)) s).
Proof. exact receive_frames. Qed.

(* "exactly once", spelled out: distinct frames are never processed twice, and every frame that was
   read is processed *)
Theorem C20_no_frame_twice : forall P s, NoDup (frames_of s) -> NoDup (o_frames (receive P s)).
Proof. exact receive_frames_nodup. Qed.

Theorem C20_every_read_frame_processed : forall P s id k perr,
  nth_error s k = Some (SFrame id perr) -> k < o_reads (receive P s) -> In id (o_frames (receive P s)).
Proof. exact receive_frames_all. Qed.

(* ---- transient failures are retried silently: deleting all of them from the history changes
   neither the frames processed, nor the errors reported, nor how the run ends *)
Theorem C20_transient_silent : forall P s, p_cancel P = NoCancel ->
  o_frames (receive P (filter not_transient s)) = o_frames (receive P s) /\
  map report_key (o_errs (receive P (filter not_transient s))) = map report_key (o_errs (receive P s)) /\
  o_final (receive P (filter not_transient s)) = o_final (receive P s).
Proof. intros P s C. exact (receive_transient_silent P C s). Qed.

(* ---- unknown read failures and processing errors are each reported exactly once, in order, and
   nothing else is reported: with a consumer that receives and no cancellation the errors on the
   channel are exactly the reports of the read calls made ([reports_from]: one per unknown read
   error, one per processor error, none for frames, transient or unrecoverable errors) *)
Theorem C20_unknown_and_proc_errors_reported_once : forall P s,
  p_drained P = true -> p_cancel P = NoCancel ->
  o_errs (receive P s) = reports_from 0 (firstn (o_reads (receive P s)) s).
Proof. intros P s D C. exact (receive_errs_exact P D C s). Qed.

(* ---- in general (any consumer, cancellation anywhere): the errors on the channel are the reports
   of the read calls made, in order, each once, except that the very last one may be missing -- and
   then only because the goroutine is blocked on the full channel or because the context was
   cancelled during the last read call and the select took ctx.Done *)
Theorem C20_errors_once_in_order_any_schedule : forall P s,
  exists rest,
    reports_from 0 (firstn (o_reads (receive P s)) s) = o_errs (receive P s) ++ rest /\
    length rest <= 1 /\
    (rest <> [] -> o_final (receive P s) = BlockedSend \/
                   (p_cancel P = CancelDuring (o_reads (receive P s) - 1) /\ p_send_wins P = false)).
Proof. exact receive_errs. Qed.

(* ---- reading continues after frames, transient failures, unknown failures and processing
   errors, and only a closed or broken socket ends it: without cancellation the receiver makes
   exactly [consumed s] read calls = everything up to and including the first unrecoverable error,
   closes the channel iff there is one, and otherwise sits in the next read call *)
Theorem C20_continues_until_closed : forall P s,
  p_drained P = true -> p_cancel P = NoCancel ->
  o_reads (receive P s) = consumed s /\
  o_final (receive P s) = if existsb is_unrec_step s then Closed else AwaitRead.
Proof. intros P s D C. exact (receive_progress P D C s). Qed.

(* ---- a closed or broken socket ends reading: no read call is ever made after an unrecoverable
   error, and the run that reads it closes the channel (any parameters) *)
Theorem C20_closed_ends : forall P s k st,
  nth_error s k = Some st -> is_unrec_step st = true ->
  o_reads (receive P s) <= k + 1 /\ (o_reads (receive P s) = k + 1 -> o_final (receive P s) = Closed).
Proof. exact receive_closed_ends. Qed.

(* ---- cancellation ends reading: cancelled before the start, nothing is read; cancelled during
   read call k, that call is the last one, the channel is closed, and the receiver does not wait
   for more input *)
Theorem C20_cancel_before_start : forall P s, p_cancel P = PreCancel -> receive P s = stop 0 Closed.
Proof. intros P s C. exact (receive_precancel P C s). Qed.

Theorem C20_cancel_ends : forall P s k, p_cancel P = CancelDuring k ->
  o_reads (receive P s) <= k + 1 /\
  (o_reads (receive P s) = k + 1 -> o_final (receive P s) = Closed) /\
  (k < length s -> o_final (receive P s) <> AwaitRead).
Proof. intros P s k C. exact (receive_cancel_ends P k C s). Qed.

(* ---- error bursts beyond the buffer: while somebody receives, the receiver never blocks; if
   nobody does, at most [p_cap] errors are sent, the receiver blocks exactly when the buffer is
   full (nothing is dropped or overwritten), runs as if drained while the reports fit, and a
   cancellation releases it with the same frames and errors and a closed channel *)
Theorem C20_drained_never_blocks : forall P s, p_drained P = true -> o_final (receive P s) <> BlockedSend.
Proof. intros P s D. exact (receive_drained_never_blocks P D s). Qed.

Theorem C20_burst_blocks_at_capacity : forall P s, p_drained P = false -> p_cancel P = NoCancel ->
  length (o_errs (receive P s)) <= p_cap P /\
  (o_final (receive P s) = BlockedSend -> length (o_errs (receive P s)) = p_cap P).
Proof. intros P s D C. exact (receive_buffer P D C s). Qed.

Theorem C20_undrained_same_while_it_fits : forall P s, p_cancel P = NoCancel ->
  length (reports_from 0 (firstn (consumed s) s)) <= p_cap P ->
  receive (with_drained P false) s = receive (with_drained P true) s.
Proof. intros P s C. exact (receive_undrained_same P C s). Qed.

Theorem C20_blocked_released_by_cancel : forall P s, p_cancel P = NoCancel ->
  o_final (receive P s) = BlockedSend ->
  receive (with_cancel P false (CancelDuring (o_reads (receive P s) - 1))) s = set_final (receive P s) Closed.
Proof. intros P s C. exact (receive_blocked_released P C s). Qed.

(* ---- which failures are transient / end reading, in the vocabulary of the property, for the
   classification lists the code has NOW (Gen.ReceiverTable): would-block and connection reset
   (bare or wrapped at any depth: errors.Is), and every net.Error that reports a timeout, are
   transient -- and nothing else is; io.EOF, io.ErrUnexpectedEOF, io.ErrNoProgress, io.ErrClosedPipe,
   io.ErrShortBuffer, syscall.EBADF (the values themselves) and every non-transient error whose text
   contains "use of closed file" end reading -- and nothing else does *)
Theorem C20_would_block_transient : forall e, errors_is e "syscall.EAGAIN" = true -> classify e = Transient.
Proof. exact classify_is_eagain. Qed.

Theorem C20_conn_reset_transient : forall e, errors_is e "syscall.ECONNRESET" = true -> classify e = Transient.
Proof. exact classify_is_econnreset. Qed.

Theorem C20_timeout_transient : forall e, is_neterr e = true -> timeout_m e = true -> classify e = Transient.
Proof. exact classify_timeout. Qed.

Theorem C20_transient_only : forall e, classify e = Transient ->
  errors_is e "syscall.EAGAIN" = true \/ errors_is e "syscall.ECONNRESET" = true \/
  (is_neterr e = true /\ timeout_m e = true).
Proof. exact classify_transient_only. Qed.

Theorem C20_closed_socket_ends : forall v, In v closed_values -> classify (ESent v) = Unrecoverable.
Proof. exact classify_closed_values. Qed.

Theorem C20_closed_file_text_ends : forall e, is_temporary e = false ->
  contains "use of closed file" (err_text e) = true -> classify e = Unrecoverable.
Proof. exact classify_closed_text. Qed.

Theorem C20_unrecoverable_only : forall e, classify e = Unrecoverable ->
  (exists v, In v closed_values /\ e = ESent v) \/ contains "use of closed file" (err_text e) = true.
Proof. exact classify_unrecoverable_only. Qed.

(* ---- non-vacuity: concrete runs of the model (the same inputs are played on the real code) *)
Local Open Scope string_scope.

Definition ex_params (drained : bool) (c : cancel) : params := code_params drained true c.
Definition eagain := ESent "syscall.EAGAIN".
Definition reset := EWrapOp (EWrapSys (ESent "syscall.ECONNRESET")).
Definition odd := ENew "some failure".
Definition eof := ESent "io.EOF".

(* frame, would-block, frame whose processing fails, reset, unknown failure, frame, EOF, frame *)
Definition ex_script : list step :=
  [SFrame 0 None; SErr eagain; SFrame 2 (Some odd); SErr reset; SErr odd; SFrame 5 None; SErr eof; SFrame 7 None].

Example C20_ex_run : receive (ex_params true NoCancel) ex_script =
  {| o_frames := [0; 2; 5]; o_errs := [RProc 2 odd; RRead 4 odd]; o_reads := 7; o_final := Closed |}.
Proof. vm_compute. reflexivity. Qed.

Example C20_ex_cancel : receive (ex_params true (CancelDuring 2)) ex_script =
  {| o_frames := [0; 2]; o_errs := [RProc 2 odd]; o_reads := 3; o_final := Closed |}.
Proof. vm_compute. reflexivity. Qed.

Example C20_ex_burst :
  let o := receive {| p_cap := 100; p_drained := false; p_send_wins := true; p_cancel := NoCancel |}
                   (repeat (SErr odd) 150) in
  (length (o_errs o), o_reads o, o_final o) = (100, 101, BlockedSend).
Proof. vm_compute. reflexivity. Qed.

(* what the code does with errors the statement does not settle (== instead of errors.Is, a
   net.Error test on the outermost value only): a wrapped io.EOF, a wrapped EBADF and a timeout
   hidden behind fmt.Errorf are "unknown": reported, and reading continues *)
Example C20_ex_wrapped_eof_unknown : classify (EWrapFmt "read" (ESent "io.EOF")) = Unknown.
Proof. vm_compute. reflexivity. Qed.
Example C20_ex_wrapped_ebadf_unknown : classify (EWrapOp (ESent "syscall.EBADF")) = Unknown.
Proof. vm_compute. reflexivity. Qed.
Example C20_ex_hidden_timeout_unknown : classify (EWrapFmt "read" (ENetErr true)) = Unknown.
Proof. vm_compute. reflexivity. Qed.
Example C20_ex_closed_text : classify (EWrapOp (ENew "use of closed file")) = Unrecoverable.
Proof. vm_compute. reflexivity. Qed.
(* the temporary test comes first: a would-block whose text mentions a closed file is retried *)
Example C20_ex_temporary_first : classify (EWrapFmt "use of closed file" (ESent "syscall.EAGAIN")) = Transient.
Proof. vm_compute. reflexivity. Qed.

Print Assumptions C20_frames_once_in_order.
Print Assumptions C20_no_frame_twice.
Print Assumptions C20_every_read_frame_processed.
Print Assumptions C20_transient_silent.
Print Assumptions C20_unknown_and_proc_errors_reported_once.
Print Assumptions C20_errors_once_in_order_any_schedule.
Print Assumptions C20_continues_until_closed.
Print Assumptions C20_closed_ends.
Print Assumptions C20_cancel_before_start.
Print Assumptions C20_cancel_ends.
Print Assumptions C20_drained_never_blocks.
Print Assumptions C20_burst_blocks_at_capacity.
Print Assumptions C20_undrained_same_while_it_fits.
Print Assumptions C20_blocked_released_by_cancel.
Print Assumptions C20_would_block_transient.
Print Assumptions C20_conn_reset_transient.
Print Assumptions C20_timeout_transient.
Print Assumptions C20_transient_only.
Print Assumptions C20_closed_socket_ends.
Print Assumptions C20_closed_file_text_ends.
Print Assumptions C20_unrecoverable_only.
