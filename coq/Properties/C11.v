(* C11 -- stub while the proofs are being written *)
From Coq Require Import ZArith List.
From SX Require Import Base.Bytes Model.Json Model.ArpCache.
Import ListNotations.
Open Scope Z_scope.
Theorem C11_stub : cache_stage [] None [] = [].
Proof. reflexivity. Qed.
Print Assumptions C11_stub.
