(* C11 -- ARP output is a valid ARP cache; probes use the right destination MAC.
   Statements only; proofs are in Proofs/ArpCacheProofs.v (and Proofs/JsonProofs.v for the JSON
   line).  The ARP result schema is Gen.Schemas.arp_schema, regenerated from pkg/scan/arp on every
   run. *)
From Coq Require Import ZArith Bool Ascii String List Lia.
From SX Require Import Base.Bytes Model.Json Gen.Schemas Model.ArpCache Proofs.JsonProofs Proofs.ArpCacheProofs.
Import ListNotations.
Open Scope Z_scope.

(* per-byte text round trips, all 256 values: the decimal text of IP.String ... *)
Theorem C11_byte_decimal : forall b, 0 <= b < 256 ->
  enc_uint b = byte_digits b /\ forallb is_digit (enc_uint b) = true /\ parse_uint (enc_uint b) = Some b.
Proof.
  intros b H. split; [apply enc_uint_byte, H|]. split; [apply enc_uint_digits, H|].
  apply enc_uint_parse. assert (256 < 2 ^ 64) by reflexivity. lia.
Qed.

(* ... and the two hex digits of HardwareAddr.String *)
Theorem C11_byte_hex : forall b, 0 <= b < 256 ->
  match hex2 b with [h; l] => xtoi2 h l = Some b | _ => False end.
Proof. intros b H. apply xtoi2_hex2, H. Qed.

(* net.ParseIP inverts IP.String on every IPv4 address; the 16-byte form it returns prints the same *)
Theorem C11_ip_text_roundtrip : forall ip, is_ip4 ip ->
  parse_ip_text (ip_text ip) = Some (v4_prefix ++ ip) /\ ip_text (v4_prefix ++ ip) = ip_text ip.
Proof.
  intros ip H. rewrite (ip_text_v4 ip H). split; [apply parse_ip_text_v4, H|apply ip_text_mapped, H].
Qed.

(* net.ParseMAC inverts HardwareAddr.String on every 6-byte MAC *)
Theorem C11_mac_text_roundtrip : forall m, is_mac6 m -> parse_mac_text (mac_text m) = Some m.
Proof. exact parse_mac_text_6. Qed.

(* every line the ARP scan prints -- any 4-byte address, any 6-byte MAC, ANY vendor string -- is
   accepted by the loader and maps exactly the printed address to the printed MAC; a later probe
   for that address finds it whichever form (4-byte, 16-byte) its destination has *)
Theorem C11_line_loads : forall ip mac vendor,
  is_ip4 ip -> is_mac6 mac -> wf_bytes vendor = true ->
  fill_cache [arp_object ip mac vendor] = inl [(ip_text ip, mac)] /\
  cache_get [(ip_text ip, mac)] ip = Some mac /\
  cache_get [(ip_text ip, mac)] (v4_prefix ++ ip) = Some mac.
Proof.
  intros ip mac vendor Hip Hmac Hv. unfold fill_cache. cbn [fill_cache_from].
  rewrite load_arp_object by assumption. rewrite (ip_text_v4 ip Hip). split; [reflexivity|].
  unfold cache_get. rewrite (ip_text_mapped ip Hip), (ip_text_v4 ip Hip). cbn [cache_lookup].
  rewrite bytes_eqb_refl. split; reflexivity.
Qed.

(* the whole output of an ARP scan (any number of replies, repeated addresses) fed to FillCache as
   the bytes of a file: it loads, and the cache holds one binding per line, newest first.  The
   line-length hypothesis is bufio.Scanner's 64 KiB limit (vendor strings of gopacket's table
   are below 100 bytes). *)
Theorem C11_scan_output_loads : forall rs, Forall reply_ok rs ->
  fill_cache_text (flat_map reply_line rs) = inl (rev (map reply_binding rs)).
Proof.
  intros rs H. unfold fill_cache_text. rewrite (scan_output_loads rs H []). rewrite app_nil_r. reflexivity.
Qed.

(* ALL cache files (any lines: other spellings, extra members, duplicates, garbage): the file loads
   iff every line is good, and then every key holds the MAC of the LAST line that binds it *)
Theorem C11_file_loads_iff : forall lines c,
  fill_cache lines = inl c <-> exists bs, map binding lines = map Some bs /\ c = rev bs.
Proof.
  intros lines c. unfold fill_cache. rewrite fill_from_spec. split; intros [bs [H1 H2]]; exists bs; split; try exact H1.
  - rewrite app_nil_r in H2. exact H2.
  - rewrite app_nil_r. exact H2.
Qed.

Theorem C11_last_wins : forall lines c, fill_cache lines = inl c ->
  forall k, cache_lookup k c = last_binding k lines.
Proof. exact last_wins. Qed.

(* the cache stage, for every cache, gateway setting and request: DstMAC := the cache entry of the
   request's OWN destination if there is one, else the gateway MAC if there is one, else the request
   is replaced by an error (DstMAC untouched); destination and port never change *)
Theorem C11_dst_mac : forall c gw r,
  ((exists m, cache_get c (rq_dst r) = Some m /\ rq_dstmac (cache_stage1 c gw r) = m /\
              rq_err (cache_stage1 c gw r) = rq_err r) \/
   (cache_get c (rq_dst r) = None /\ exists g, gw = Some g /\ rq_dstmac (cache_stage1 c gw r) = g /\
              rq_err (cache_stage1 c gw r) = rq_err r) \/
   (cache_get c (rq_dst r) = None /\ gw = None /\ rq_err (cache_stage1 c gw r) = true /\
              rq_dstmac (cache_stage1 c gw r) = rq_dstmac r)) /\
  rq_dst (cache_stage1 c gw r) = rq_dst r /\ rq_port (cache_stage1 c gw r) = rq_port r.
Proof. intros c gw r. split; [apply stage_cases|apply stage_keeps]. Qed.

(* never another host's MAC: for every loaded file and every IPv4 destination (4-byte or
   IPv4-mapped 16-byte form) the cache answers with the MAC of the LAST line whose address is that
   same IPv4 address -- whatever other lines (other hosts, IPv6 addresses, other spellings of the
   same address) the file contains -- and with nothing if there is no such line *)
Theorem C11_never_other_host : forall lines c d,
  fill_cache lines = inl c -> is_ipv4 d = true -> cache_get c d = last_for d lines.
Proof. exact never_other_host. Qed.

(* what ParseIP accepts is always a 16-byte value (so cache keys are always canonical texts) *)
Theorem C11_parse_ip_16 : forall s ip, parse_ip_text s = Some ip -> wf_bytes ip = true /\ length ip = 16%nat.
Proof. exact parse_ip_text_out. Qed.

(* non-vacuity *)
Open Scope string_scope.
Example C11_ex_line :
  arp_line [192; 168; 0; 1] [176; 190; 118; 64; 5; 141] (str "TP-LINK TECHNOLOGIES CO.,LTD.")
  = (str "{""ip"":""192.168.0.1"",""mac"":""b0:be:76:40:05:8d"",""vendor"":""TP-LINK TECHNOLOGIES CO.,LTD.""}" ++ [10])%list.
Proof. vm_compute. reflexivity. Qed.
Example C11_ex_file :
  let file := (arp_line [10; 0; 0; 1] [0; 17; 34; 51; 68; 85] (str "A&B ""<x>""") ++
               str "{""mac"":""AA-BB-CC-DD-EE-FF"",""x"":[1,{}],""ip"":""::ffff:a00:1""}" ++ [13; 10] ++
               arp_line [10; 0; 0; 2] [2; 0; 0; 0; 0; 2] [])%list in
  match fill_cache_text file with
  | inl c => cache_get c [10; 0; 0; 1] = Some [170; 187; 204; 221; 238; 255] /\
             cache_get c (v4_prefix ++ [10; 0; 0; 2]) = Some [2; 0; 0; 0; 0; 2] /\
             dst_mac c None [10; 0; 0; 3] = None /\
             dst_mac c (Some [1; 1; 1; 1; 1; 1]) [10; 0; 0; 3] = Some [1; 1; 1; 1; 1; 1]
  | inr _ => False
  end.
Proof. vm_compute. repeat split; reflexivity. Qed.
Example C11_ex_bad : fill_cache_text (str "{""ip"":""1.2.3.04"",""mac"":""00:11:22:33:44:55""}") = inr BadIP.
Proof. vm_compute. reflexivity. Qed.

Print Assumptions C11_byte_decimal.
Print Assumptions C11_byte_hex.
Print Assumptions C11_ip_text_roundtrip.
Print Assumptions C11_mac_text_roundtrip.
Print Assumptions C11_line_loads.
Print Assumptions C11_scan_output_loads.
Print Assumptions C11_file_loads_iff.
Print Assumptions C11_last_wins.
Print Assumptions C11_dst_mac.
Print Assumptions C11_never_other_host.
Print Assumptions C11_parse_ip_16.
