(* C02 -- Confinement: nothing outside the target set or inside exclusions is probed; a target that is not
   IPv4 is refused.  Only statements; proofs live in Proofs/.  The models are Model/IPNet.v (ParseIPNet over
   the results of the two library parsers, ipGenerator), Model/Exclude.v, Model/Targets.v (filter stage);
   the group table is Gen.GroupsTable, regenerated from pkg/scan/range.go on every run.
   These theorems are about the code WITH the fix of defect D3 (ParseIPNet refuses non-IPv4 nets). *)
From Coq Require Import ZArith List Bool.
From SX Require Import Base.Bytes Model.RangeIter Model.IPNet Model.Exclude Model.Targets Model.FileTargets Model.TargetWiring
  Model.ExcludeShape Gen.GroupsTable Gen.TargetWiring Gen.ExcludeShape
  Proofs.RangeIterProofs Proofs.IPNetProofs Proofs.StagesProofs Proofs.TargetsProofs Proofs.CoverageProofs Proofs.WiringProofs
  Proofs.ConfinementProofs Proofs.TargetsTable.
Import ListNotations.
Open Scope Z_scope.

(* cidr = result of net.ParseCIDR(s), addr = netip.ParseAddr(s).AsSlice(); lib_*_ok = what the library
   guarantees about them (4-byte net with canonical 4-byte mask, or 16-byte net with canonical 16-byte mask;
   4 or 16 address bytes) - checked on every oracle value by the correspondence harness *)

(* whatever is accepted is an IPv4 net, and it is what the string says: either exactly the CIDR block the
   library parsed, or the /32 of the 4-byte address the library parsed *)
Theorem C02_accept_is_ipv4 : forall cidr addr n,
  lib_cidr_ok cidr = true -> lib_addr_ok addr = true ->
  parse_ipnet cidr addr = POk n ->
  is_ipv4_net n = true /\
  (cidr = Some n \/ (cidr = None /\ exists b, addr = Some b /\ len b = 4 /\ n = (b, cidr_mask 32 32))).
Proof.
  intros cidr addr n Hc Ha H. split; [exact (parse_ipnet_ipv4 cidr addr n Hc Ha H)|].
  apply parse_ipnet_ok in H. destruct H as [[H _]|H]; [left; exact H|right; exact H].
Qed.

(* every IPv6 form is refused: an IPv6 CIDR block (16-byte mask: plain, IPv4-mapped, any host part size),
   an IPv6 address (16 bytes: plain, IPv4-mapped, with zone); and so is every string neither parser reads *)
Theorem C02_non_ipv4_refused : forall cidr addr,
  lib_cidr_ok cidr = true -> lib_addr_ok addr = true ->
  (exists n, cidr = Some n /\ len (snd n) = 16) \/
  (cidr = None /\ exists b, addr = Some b /\ len b = 16) \/
  (cidr = None /\ addr = None) ->
  parse_ipnet cidr addr = PErr.
Proof. exact parse_ipnet_refuses. Qed.

(* for every accepted net and all values of the random draws the address generator neither fails nor
   crashes, ends normally, and every address it yields is a 4-byte address inside the net (IPNet.Contains) *)
Theorem C02_no_crash_no_foreign : forall n d,
  is_ipv4_net n = true -> 0 <= fst d -> 0 <= snd d ->
  exists l, ips_gen cyclic_groups d (Some n) = Emit l Done /\
            Forall (fun y => contains n y = true /\ length y = 4%nat /\ wf_bytes y = true) l.
Proof.
  intros n d Hn H1 H2. destruct (is_ipv4_net_sound n Hn) as [k Hk].
  destruct (ips_gen_ipv4 cyclic_groups groups_ok n k d Hk H1 H2) as (l & Hgen & Hperm & _).
  eexists. split; [exact Hgen|]. apply Forall_forall. intros y Hy. apply in_map_iff in Hy.
  destruct Hy as [i [<- Hi]]. exact (ips_gen_inside n k l Hk Hperm i Hi).
Qed.

(* ... and it yields every address of the net exactly once (the other half of confinement: the target set
   is the whole net, not a part of it) *)
Theorem C02_generator_exact : forall n d,
  is_ipv4_net n = true -> 0 <= fst d -> 0 <= snd d ->
  exists l, ips_gen cyclic_groups d (Some n) = Emit l Done /\ Permutation.Permutation l (net_addrs n).
Proof.
  intros n d Hn H1 H2. destruct (is_ipv4_net_sound n Hn) as [k Hk].
  exact (ips_gen_perm cyclic_groups groups_ok n k d Hk H1 H2).
Qed.

(* whatever leaves the exclusion filter as a probe request is not covered by the exclusion list *)
Theorem C02_excluded_never_probed : forall nets o l en r,
  filter_stage nets o = Emit l en -> In r l -> rerr r = None -> excluded nets (rip r) = false.
Proof. exact filter_never_excluded. Qed.

(* the filter is exact: on requests that carry an address it keeps, in order and unchanged, exactly the
   error requests and the requests whose address is not covered; membership is "some listed net contains
   the address" *)
Theorem C02_exclusion_exact : forall nets l en,
  Forall (fun r => rerr r = None -> addr_ok (rip r)) l ->
  filter_stage nets (Emit l en) = Emit (filter (fun r => has_err r || negb (excluded nets (rip r))) l) en.
Proof. exact filter_stage_exact. Qed.

Theorem C02_excluded_meaning : forall nets a, addr_ok a ->
  (excluded nets a = true <-> exists n, In n nets /\ contains n a = true).
Proof. exact excluded_spec. Qed.

(* the tie of Model/Exclude.v to the source: the statement skeleton of parseExcludeFile extracted from the
   current command/config.go (regenerated on every run) is exactly the one the model was written against -
   per line: comment strip, trim, blank skip, ParseIPNet, Insert, and nothing else that touches the trie *)
Theorem C02_exclude_shape : exclude_shape = expected_exclude_shape.
Proof. reflexivity. Qed.

(* an exclusion file is accepted only if every entry is an IPv4 host or block (blank and comment lines
   aside): the networks inserted are IPv4 nets, and one entry that is not refuses the whole file *)
Theorem C02_exclude_file_ipv4 : forall cidr_of addr_of lines nets,
  (forall s, lib_cidr_ok (cidr_of s) = true) -> (forall s, lib_addr_ok (addr_of s) = true) ->
  parse_exclude cidr_of addr_of lines = Some nets -> Forall (fun n => is_ipv4_net n = true) nets.
Proof. intros cidr_of addr_of lines nets H1 H2. exact (parse_exclude_ipv4 cidr_of addr_of H1 H2 lines nets). Qed.

(* through whole commands: for EVERY command of the generated wiring table, every option setting and every
   valid subnet specification, all draws - every probe the scan makes is addressed inside the net and to an
   address the exclusion list does not cover *)
Theorem C02_all_commands_confined : forall cmd, In cmd commands -> forall k f inp n evs a p,
  class_of cmd = Some k -> valid_spec k f inp n -> f_file f = false ->
  run_command cyclic_groups chunk_size empty_runs_once cmd f inp = Some evs ->
  In (a, p) (probes evs) ->
  contains n a = true /\ kept (class_stages k f inp) a = true.
Proof.
  intros cmd Hcmd k f inp n evs a p Hc V Ef Hrun Hin.
  destruct (command_coverage cyclic_groups groups_ok chunk_size (eq_refl : 0 < chunk_size) cmd k f inp n Hc V)
    as (evs' & Hrun' & Hperm & _).
  (* a subnet scan never meets the empty-list case of the chunk loop *)
  rewrite (run_command_once cyclic_groups chunk_size true empty_runs_once cmd f inp) in Hrun'.
  2:{ intros He. destruct (class_of_sound cmd k Hc) as [He' _]. rewrite He in He'.
      assert (k = KPortPacket) by (destruct k; cbn in He'; congruence). subst k.
      apply (proj1 (vs_ports _ _ _ _ V)). apply (vs_need_ports _ _ _ _ V); [left; reflexivity|exact Ef]. }
  rewrite Hrun in Hrun'. inversion Hrun'; subst evs'.
  destruct (vs_dst _ _ _ _ V Ef) as [_ [pl Hn]].
  apply (spec_denote_subnet_inside k f inp n pl a p Ef Hn).
  eapply Permutation.Permutation_in; [exact Hperm|exact Hin].
Qed.

(* non-vacuity *)
Example C02_ex_accept : parse_ipnet (Some ([192;168;0;0], [255;255;255;0])) None = POk ([192;168;0;0], [255;255;255;0]).
Proof. reflexivity. Qed.
Example C02_ex_host : parse_ipnet None (Some [10;0;0;1]) = POk ([10;0;0;1], [255;255;255;255]).
Proof. reflexivity. Qed.
(* "::1", "::ffff:1.2.3.4", "::/96", "2001:db8::/120" *)
Example C02_ex_v6_host : parse_ipnet None (Some [0;0;0;0;0;0;0;0;0;0;0;0;0;0;0;1]) = PErr.
Proof. reflexivity. Qed.
Example C02_ex_mapped : parse_ipnet None (Some [0;0;0;0;0;0;0;0;0;0;255;255;1;2;3;4]) = PErr.
Proof. reflexivity. Qed.
Example C02_ex_v6_96 :
  parse_ipnet (Some ([0;0;0;0;0;0;0;0;0;0;0;0;0;0;0;0], [255;255;255;255;255;255;255;255;255;255;255;255;0;0;0;0])) None = PErr.
Proof. reflexivity. Qed.
(* what the unrepaired code did with those nets: the generator walks all of IPv4 for ::/96 and crashes on
   2001:db8::/120 (the model of the generator is unchanged; the fix keeps such nets away from it) *)
Example C02_ex_crash :
  ips_gen cyclic_groups (1, 1)
    (Some ([32;1;13;184;0;0;0;0;0;0;0;0;0;0;0;0], [255;255;255;255;255;255;255;255;255;255;255;255;255;255;255;0]))
  = Emit [] Crashed.
Proof. vm_compute. reflexivity. Qed.
Example C02_ex_gen :
  ips_gen cyclic_groups (5, 7) (Some ([10;0;0;8], [255;255;255;252])) = Emit [[10;0;0;9]; [10;0;0;11]; [10;0;0;10]; [10;0;0;8]] Done.
Proof. vm_compute. reflexivity. Qed.
Example C02_ex_filter :
  filter_stage [([10;0;0;8], [255;255;255;254])] (Emit [mk_req [10;0;0;8] 80; mk_req [10;0;0;10] 80; err_req GIP] Done)
  = Emit [mk_req [10;0;0;10] 80; err_req GIP] Done.
Proof. vm_compute. reflexivity. Qed.

Print Assumptions C02_accept_is_ipv4.
Print Assumptions C02_non_ipv4_refused.
Print Assumptions C02_no_crash_no_foreign.
Print Assumptions C02_generator_exact.
Print Assumptions C02_excluded_never_probed.
Print Assumptions C02_exclusion_exact.
Print Assumptions C02_excluded_meaning.
Print Assumptions C02_exclude_shape.
Print Assumptions C02_exclude_file_ipv4.
Print Assumptions C02_all_commands_confined.
