(* C13, through the packet engine: what the error stream and the wire show for a target list.
   The generator chain of the command (Properties/C13.v: its events are the per-entry outcomes of the
   file, a bad entry being exactly one error event with its cause) feeds the packet pipeline of C07
   (Model/Pipeline.v).  For every number of pipeline workers, request-channel capacity and EVERY
   schedule, in a complete uncancelled run in which Fill and WritePacketData succeed:
     - the causes of the request errors logged by the error drain are, as a multiset, exactly the
       error events of the chain (one record per bad entry, stating that entry's cause),
     - the frames handed to the wire are exactly the probe events (no bad entry ever becomes a frame).
   [run_outcome evs ws es] (Proofs/WireCoverage.v): ws / es are the (address, port) of the frames written
   and the causes of the errors logged, in log order, in SOME such run on the request stream [to_reqs evs]. *)
From stdpp Require Import list.
From SX Require Model.PipelineShape.
From SX Require Import Base.Net Proofs.PipelineOrder Proofs.PipelineWire.
From Coq Require Import ZArith.
From SX Require Import Model.IPNet Model.Targets Model.FileTargets Model.TargetWiring Proofs.FileTargetsProofs Proofs.WiringProofs
  Proofs.WireCoverage Proofs.ScanCoverage Gen.GroupsTable Gen.TargetWiring Proofs.TargetsTable Properties.C13.
Local Open Scope nat_scope.

(* any request stream: the engine adds, drops, duplicates or rewrites nothing on either side *)
Theorem C13_engine_faithful : forall evs ws es,
  run_outcome evs ws es -> ws ≡ₚ probes evs /\ es ≡ₚ errors evs.
Proof. exact run_outcome_exact. Qed.

(* a command's whole scan (one engine run per chunk of port ranges) *)
Theorem C13_scan_faithful : forall cmd f inp evs,
  run_command cyclic_groups chunk_size empty_runs_once cmd f inp = Some evs ->
  exists runs, engine_runs cyclic_groups chunk_size empty_runs_once cmd f inp = Some runs /\
    forall wss ess, Forall3 run_outcome runs wss ess ->
      concat wss ≡ₚ probes evs /\ concat ess ≡ₚ errors evs.
Proof.
  intros cmd f inp evs H. rewrite engine_runs_concat in H.
  destruct (engine_runs cyclic_groups chunk_size empty_runs_once cmd f inp) as [runs|]; [|discriminate].
  injection H as <-. exists runs. split; [reflexivity|]. intros wss ess. apply run_outcomes_concat.
Qed.

(* ip/port pair files through tcp/udp: the error records are the causes of the bad entries read, the
   frames are the probes of the good ones (per-entry outcomes: C13_pairs_per_entry, C13_one_error_per_bad_entry) *)
Theorem C13_pairs_error_records : forall cmd, In cmd commands -> forall f inp,
  class_of cmd = Some KPortPacket ->
  f_file f = true -> f_ports f = false -> i_ports inp = [] -> i_openable inp = true ->
  exists runs, engine_runs cyclic_groups chunk_size empty_runs_once cmd f inp = Some runs /\
    forall wss ess, Forall3 run_outcome runs wss ess ->
      concat wss ≡ₚ probes (run_pairs (class_stages KPortPacket f inp) (i_file inp)) /\
      concat ess ≡ₚ errors (run_pairs (class_stages KPortPacket f inp) (i_file inp)).
Proof.
  intros cmd Hin f inp Hc Hf Hp Hports Hopen.
  apply C13_scan_faithful. apply (C13_commands_pairs cmd Hin KPortPacket f inp Hc); auto.
Qed.

(* the same through the generic engine of the application scans (socks, docker, elastic) under startScanEngine:
   [app_outcome evs ws es] (Proofs/ScanCoverage.v) = ws / es are the targets handed to Scan and the causes of the
   error records logged, in SOME uncancelled run -- any worker count, capacity, schedule; no probe fails -- that
   has signalled completion and whose error stream is drained *)
Theorem C13_app_engine_faithful : forall evs ws es,
  app_outcome evs ws es -> ws ≡ₚ probes evs /\ es ≡ₚ errors evs.
Proof. exact app_outcome_exact. Qed.

(* the goroutine structure of the packet pipeline in the current sources is the one Model/Pipeline.v was
   written against (the same pin as C07_shape; here because the theorems above speak about that model) *)
Theorem C13_pipeline_shape : PipelineShape.shape_ok = true.
Proof. vm_compute. reflexivity. Qed.

(* ---- non-vacuity: a pair file [good; port 70000; good] through a 2-worker pipeline under a round-robin
   schedule: a complete uncancelled run exists; two frames, one error record "invalid port" ---- *)
From SX Require Import Base.NetExec.
From SX Require Model.Pipeline.
Definition ex_file : list line :=
  [LJson (Some (Some [1;2;3;4]%Z)) (Some 80%Z); LJson (Some (Some [1;2;3;5]%Z)) (Some 70000%Z);
   LJson (Some (Some [1;2;3;6]%Z)) (Some 443%Z)].
Definition ex_evs : list event := run_pairs {| st_filter := None; st_cache := None |} ex_file.
Definition no_stall (l : Pipeline.loc) : bool := match l with Pipeline.Src _ => true | _ => false end.
Definition ex_state := exec (Pipeline.beh 2 all_ok all_ok) (fun _ => 0) no_stall (rounds 40 12)
                            (Pipeline.init 2 1 (to_reqs ex_evs)).
Example C13_ex_reqs : to_reqs ex_evs = [(0, false); (1, true); (2, false)].
Proof. vm_compute. reflexivity. Qed.
Example C13_ex_run : run_outcome ex_evs [([1;2;3;4], 80); ([1;2;3;6], 443)]%Z [GPort].
Proof.
  exists 2, 1, ex_state. split; [apply exec_reachable; apply R0|].
  split; [vm_compute; reflexivity|]. split; [|split; vm_compute; reflexivity].
  split.
  - intros l Hl. assert (H : Forall (fun l => Pipeline.weight l = ∅) (procs ex_state)).
    { apply (bool_decide_unpack _). vm_compute. exact I. }
    rewrite Forall_forall in H. exact (H l Hl).
  - intros ch Hch. assert (H : Forall (fun ch : chan Pipeline.val => cbuf ch = []) (chans ex_state)).
    { apply (bool_decide_unpack _). vm_compute. exact I. }
    rewrite Forall_forall in H. exact (H ch Hch).
Qed.

Print Assumptions C13_pipeline_shape.
Print Assumptions C13_app_engine_faithful.
Print Assumptions C13_engine_faithful.
Print Assumptions C13_scan_faithful.
Print Assumptions C13_pairs_error_records.
