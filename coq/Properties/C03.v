(* C03 -- Detection exactness (work in progress: the wiring theorem first). *)
From Coq Require Import ZArith List Bool String.
From SX Require Import Base.Bytes Model.Decode Model.Process Model.Bpf Gen.Wiring Spec.C06 Spec.C03.
Import ListNotations.
Open Scope Z_scope.

(* every packet-scan command composes the scan method, result filter, flag printer, capture filter,
   engine and VPN flag that its scan needs (the table is regenerated from command/*.go) *)
Theorem C03_wiring_ok : forallb cmd_wiring_ok wirings = true /\ List.length wirings = 8%nat.
Proof. vm_compute. split; reflexivity. Qed.

Print Assumptions C03_wiring_ok.
