(* C03 -- Detection exactness: a frame is reported iff it is reply-shaped.

   Statements only; proofs live in Proofs/.  [wirings] (Gen/Wiring.v) is regenerated from command/*.go on
   every run, [code_valid] (Gen/ValidPacket.v) from pkg/scan/{tcp,icmp,arp}.  [reported w vpn r st f] =
   the capture filter the command attaches for range r (libpcap's meaning of the filter expression, on the
   link type of the packet source) accepts frame f AND ProcessPacketData of the command's scan method
   emits a record for f CUT TO THE SNAPSHOT LENGTH the filter builder hands to the kernel, from decoder state st (= any history of earlier frames).  r ranges over ALL ranges,
   in particular over the range of every chunk of <= 200 port ranges that startPortScanEngine scans
   with its own engine and filter.  PARTIAL: libpcap's compiler and the kernel's BPF interpreter are
   exercised by the correspondence check, not proved. *)
From Coq Require Import ZArith List Bool String.
From SX Require Import Base.Bytes Model.Decode Model.Process Model.Bpf Gen.ValidPacket Gen.Wiring Spec.C06 Spec.C03
  Proofs.DecodeProofs Proofs.ProcessProofs Proofs.ValidPacketProofs Proofs.BpfProofs.
Import ListNotations.
Open Scope Z_scope.

(* every packet-scan command composes the scan method, result filter, flag printer, capture filter,
   engine and VPN flag that its scan needs: by computation over the translated table (for the SYN
   scan: kernel filter tcp[13] == 18 together with the result filter accept exactly SYN+ACK among all
   512 flag sets) *)
Theorem C03_wiring_ok : forallb cmd_wiring_ok wirings = true /\ List.length wirings = 8%nat.
Proof. vm_compute. split; reflexivity. Qed.

Lemma wiring_in_ok w : In w wirings -> cmd_wiring_ok w = true.
Proof. intros H. exact (proj1 (forallb_forall _ _) (proj1 C03_wiring_ok) w H). Qed.

(* THE PROPERTY: for every command, link mode, range, decoder state and unfragmented well-formed frame,
   the frame is reported iff it has the reply shape of that scan *)
Theorem C03_iff : forall w c vpn r st f,
  In w wirings -> class_of_cmd (w_cmd w) = Some c ->
  wf_unfrag (source_raw w vpn) f = true ->
  (reported w vpn r st f = true <-> reply_shape c (source_raw w vpn) r f = true).
Proof.
  intros w c vpn r st f Hin Hc Hwf.
  rewrite (reported_iff w c vpn r st f (wiring_in_ok w Hin) Hc Hwf). reflexivity.
Qed.

(* every command of the table is one of the scans of the property *)
Theorem C03_every_command_classified : forall w, In w wirings -> exists c, class_of_cmd (w_cmd w) = Some c.
Proof.
  intros w Hin. pose proof (wiring_in_ok w Hin) as H. unfold cmd_wiring_ok in H.
  apply andb_true_iff in H. destruct H as [_ H].
  destruct (class_of_cmd (w_cmd w)) as [c|]; [exists c; reflexivity|discriminate].
Qed.

(* a reported frame yields a record that carries that frame's own source address, source port and
   flag letters / ICMP type, code and TTL / sender IP and MAC *)
Theorem C03_record_faithful : forall w vpn r st f,
  In w wirings -> wf_unfrag (source_raw w vpn) f = true -> reported w vpn r st f = true ->
  snd (process (kind_of_method (w_method w)) (method_raw w vpn) (code_valid (kind_of_method (w_method w))) st
               (take (snaplen_of (w_filter w)) f))
  = ORecord (fields_of (kind_of_method (w_method w)) (method_raw w vpn) f).
Proof. intros w vpn r st f Hin. exact (reported_record w vpn r st f (wiring_in_ok w Hin)). Qed.

(* the snapshot length each builder hands to the kernel covers the largest header chain its scan method
   decodes (Ethernet 14 + IPv4 <= 60 + TCP <= 60 / ICMP 8; Ethernet + ARP 28), so cutting accepted frames
   to it loses nothing the record needs: part of C03_wiring_ok, used by C03_iff and C03_record_faithful;
   restated here over the translated constants *)
Theorem C03_snaplen_covers_headers :
  14 + 60 + 60 <= tcp_snaplen /\ 14 + 60 + 60 <= synack_snaplen /\ 14 + 60 + 8 <= icmp_snaplen /\ 14 + 28 <= arp_snaplen.
Proof. vm_compute. repeat split; discriminate. Qed.

(* each reply-shaped frame yields exactly one record (a call has one outcome), no other frame yields one *)
Theorem C03_one_record : forall w c vpn r st f,
  In w wirings -> class_of_cmd (w_cmd w) = Some c -> wf_unfrag (source_raw w vpn) f = true ->
  reply_shape c (source_raw w vpn) r f = true ->
  exists rec, snd (process (kind_of_method (w_method w)) (method_raw w vpn)
                           (code_valid (kind_of_method (w_method w))) st
                           (take (snaplen_of (w_filter w)) f)) = ORecord rec.
Proof.
  intros w c vpn r st f Hin Hc Hwf Hs. apply (C03_iff w c vpn r st f Hin Hc Hwf) in Hs.
  eexists. exact (C03_record_faithful w vpn r st f Hin Hwf Hs).
Qed.

(* the tcp.AllFlags printer of the sources prints the letters the model prints *)
Theorem C03_flag_letters : forall fl,
  flag_letters fl = flat_map (fun bc => if bit fl (fst bc) then [snd bc] else []) all_flags_table.
Proof. intros fl. unfold flag_letters, all_flags_table. cbn [flat_map fst snd]. rewrite app_nil_r. reflexivity. Qed.

(* ------------------------------------------------------------------ non-vacuity *)
Definition ex_eth : bytes := [2; 0; 0; 0; 0; 1; 2; 0; 0; 0; 0; 2; 8; 0].
Definition ex_ip : bytes := [69; 0; 0; 40; 0; 1; 64; 0; 64; 6; 0; 0; 10; 0; 0; 1; 192; 168; 0; 9].
(* SYN+ACK (byte 13 = 18) and SYN+ACK+NS (byte 12 bit 0 set) from 10.0.0.1:80 *)
Definition ex_synack : bytes := ex_eth ++ ex_ip ++ [0; 80; 156; 64; 0; 0; 0; 1; 0; 0; 0; 2; 80; 18; 250; 240; 0; 0; 0; 0].
Definition ex_synack_ns : bytes := ex_eth ++ ex_ip ++ [0; 80; 156; 64; 0; 0; 0; 1; 0; 0; 0; 2; 81; 18; 250; 240; 0; 0; 0; 0].
Definition ex_range : range := {| r_subnet := Some (167772160, 24); r_ports := [(22, 22); (80, 90)] |}.
Definition syn_wiring : wiring := nth 1 wirings (nth 0 wirings (Build_wiring "" MArp FArpBPF false false)).

Example C03_ex_reported :
  w_cmd syn_wiring = "tcp syn"%string /\
  wf_unfrag false ex_synack = true /\ reported syn_wiring false ex_range init_state ex_synack = true /\
  wf_unfrag false ex_synack_ns = true /\ reported syn_wiring false ex_range init_state ex_synack_ns = false /\
  reported syn_wiring false {| r_subnet := Some (167772160, 24); r_ports := [(22, 22)] |} init_state ex_synack = false /\
  reported syn_wiring false {| r_subnet := Some (167772416, 24); r_ports := [] |} init_state ex_synack = false.
Proof. vm_compute. repeat split; reflexivity. Qed.

Example C03_ex_text :
  synack_text ex_range = map (fun c => Z.of_nat (Ascii.nat_of_ascii c))
    (list_ascii_of_string "tcp and ip src net 10.0.0.0/24 and (src portrange 22-22 or src portrange 80-90) and tcp[13] == 18").
Proof. vm_compute. reflexivity. Qed.

(* ------------------------------------------------------------------ the code as found violates C03 *)
(* the SYN scan as found (result filter SYN && ACK): the kernel filter looks at byte 13 only and the
   result filter does not look at NS, so SYN+ACK+NS is reported although the flags are not exactly
   SYN+ACK *)
Definition syn_wiring_orig : wiring :=
  {| w_cmd := "tcp syn"; w_method := MTcp pf_syn_ack false; w_filter := FTcpSynAckBPF; w_chunked := true; w_vpn_source := true |}.

Theorem C03_syn_ns_refuted_orig : exists r f,
  cmd_wiring_ok syn_wiring_orig = false /\ wf_unfrag false f = true /\
  reported syn_wiring_orig false r init_state f = true /\ reply_shape STcpSyn false r f = false.
Proof. exists ex_range, ex_synack_ns. vm_compute. repeat split; reflexivity. Qed.

Print Assumptions C03_wiring_ok.
Print Assumptions C03_iff.
Print Assumptions C03_every_command_classified.
Print Assumptions C03_record_faithful.
Print Assumptions C03_snaplen_covers_headers.
Print Assumptions C03_one_record.
Print Assumptions C03_flag_letters.
Print Assumptions C03_syn_ns_refuted_orig.
