(* C04 -- Randomised iteration is a permutation for every range size up to 2^32.
   Only statements, each closed by [exact]; proofs live in Proofs/.  The table is Gen.GroupsTable,
   regenerated from pkg/scan/range.go on every run. *)
From Coq Require Import ZArith List.
From SX Require Import Model.RangeIter Model.RangeIterShape Gen.GroupsTable Proofs.RangeIterProofs.
Import ListNotations.
Open Scope Z_scope.

(* the certificate of the generated table, checked by the kernel's VM: every row has 2 < P, a full
   factorisation of P-1 into numbers proved prime by trial division, G^(P-1) = 1, G^((P-1)/q) <> 1
   for each prime q | P-1, gcd(N, P-1) = 1; every P <= the last P = 2^32+61; table non-empty *)
Theorem C04_table_certificate : check_table cyclic_groups = true.
Proof. vm_compute. reflexivity. Qed.

Lemma table_good : table_ok cyclic_groups.
Proof. exact (check_table_sound cyclic_groups C04_table_certificate). Qed.

(* for every n in [1, 2^32] and all values of the two random draws (math/rand.Int63 is >= 0), the
   caller's Int()/Next() loop yields a duplicate-free list whose elements are exactly 1..n, then
   stops; the out-of-fuel outcome is excluded by the statement *)
Theorem C04_permutation : forall n r1 r2,
  1 <= n <= 2 ^ 32 -> 0 <= r1 -> 0 <= r2 ->
  exists l, run cyclic_groups n r1 r2 = Ok (Complete l) /\
            NoDup l /\ (forall x, In x l <-> 1 <= x <= n) /\ length l = Z.to_nat n.
Proof.
  intros n r1 r2 Hn H1 H2.
  destruct (run_permutation cyclic_groups n r1 r2 table_good Hn H1 H2) as [l [Hrun Hperm]].
  exists l. split; [exact Hrun|]. destruct Hperm as [Hnd Hin]. split; [exact Hnd|]. split; [exact Hin|].
  apply perm_length; [|split; assumption]. destruct Hn as [Hn _]. apply Z.le_trans with 1; [discriminate|exact Hn].
Qed.

(* sizes outside 1..2^32+60 are rejected instead of iterating, sizes inside are accepted *)
Theorem C04_reject : forall n r1 r2 fuel,
  n <= 0 \/ 2 ^ 32 + 61 <= n -> run_fuel cyclic_groups fuel n r1 r2 = Err RangeSize.
Proof. intros n r1 r2 fuel H. exact (run_reject cyclic_groups n r1 r2 table_good H fuel). Qed.

Theorem C04_accept : forall n r1 r2 fuel,
  1 <= n <= 2 ^ 32 + 60 -> 0 <= r1 -> 0 <= r2 -> exists o, run_fuel cyclic_groups fuel n r1 r2 = Ok o.
Proof. intros n r1 r2 fuel Hn H1 H2. exact (run_accept cyclic_groups n r1 r2 table_good Hn H1 H2 fuel). Qed.

(* the statement the tie uses, independent of how the code spends its random draws: from ANY
   generator of the group and ANY start that is a power of it, the walk is a permutation of 1..n *)
Theorem C04_any_generator : forall p g a n fuel,
  good_gen p g -> 0 <= a -> 1 <= n < p -> n <= Zpos fuel ->
  exists l, walk_from fuel p g n (g ^ a mod p) = Ok (Complete l) /\ NoDup l /\ (forall x, In x l <-> 1 <= x <= n).
Proof. exact walk_core. Qed.

(* the statements of newRangeIterator, rangeIterator.Next and rangeIterator.Int in the current sources
   (Gen/StmtShapes.v, regenerated on every run; local names canonical) are the ones Model/RangeIter.v was
   written against (Model/RangeIterShape.v) *)
Theorem C04_shape : shape_ok = true.
Proof. vm_compute. reflexivity. Qed.

(* non-vacuity: concrete instances *)
Example C04_ex_small : run cyclic_groups 10 5 7 = Ok (Complete [2; 1; 6; 3; 7; 9; 10; 5; 8; 4]).
Proof. vm_compute. reflexivity. Qed.
Example C04_ex_one : run cyclic_groups 1 0 0 = Ok (Complete [1]).
Proof. vm_compute. reflexivity. Qed.
Example C04_ex_reject : run cyclic_groups (2 ^ 32 + 61) 1 1 = Err RangeSize.
Proof. vm_compute. reflexivity. Qed.

Print Assumptions C04_table_certificate.
Print Assumptions C04_permutation.
Print Assumptions C04_reject.
Print Assumptions C04_accept.
Print Assumptions C04_any_generator.
Print Assumptions C04_shape.
