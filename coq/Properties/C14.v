(* C14 -- JSON output: one complete, faithful JSON object per result, in order.
   Statements only; proofs are in Proofs/JsonProofs.v.  The schemas are Gen.Schemas, regenerated
   from the struct tags, the generated easyjson encoders and the MarshalJSON/ID methods of
   pkg/scan/{arp,tcp,icmp,socks5,elastic,docker} on every run. *)
From Coq Require Import ZArith Bool Ascii String List.
From SX Require Import Base.Bytes Model.Json Gen.Schemas Gen.UniqLoop Gen.PutFresh Proofs.JsonProofs.
Import ListNotations.
Open Scope Z_scope.

(* every generated schema is one the layout theorems apply to: keys are printable ASCII that
   needs no escaping, pairwise different; omitempty only on scalar members *)
Theorem C14_schemas_ok : forallb schema_ok schemas = true.
Proof. vm_compute. reflexivity. Qed.

Lemma schema_in_ok sc : In sc schemas -> schema_ok sc = true.
Proof. intros H. exact (proj1 (forallb_forall schema_ok schemas) C14_schemas_ok sc H). Qed.

(* the members the generated easyjson encoders write are the members the struct tags declare
   (keys, order, omitempty, types, nested object): a stale generated encoder breaks this *)
Theorem C14_schemas_agree : forall p, In p enc_tag_pairs -> fst p = snd p.
Proof. intros p H. repeat (destruct H as [<-|H]; [reflexivity|]). destruct H. Qed.

(* string level, both escapers, ALL byte strings: reading back what String()/appendString wrote
   gives the string with exactly its invalid bytes replaced by U+FFFD, and stops at the closing
   quote *)
Theorem C14_string_roundtrip : forall fl s rest,
  wf_bytes s = true -> lex_str (esc_body fl s ++ 34 :: rest) = Some (sanitize s, rest).
Proof. exact lex_esc_string. Qed.

(* what "sanitize" is, explicitly.  A string is cut, left to right, into: single bytes below 0x80;
   well-formed 2..4 byte sequences ([rune_ok]: lead C2..F4, continuation ranges per lead, so no
   overlong form, no surrogate, nothing above U+10FFFF); and single bytes at which no well-formed
   sequence starts.  [sanitize] keeps the first two kinds and writes EF BF BD for each byte of the
   third kind. *)
Inductive utf8_decomp : list Z -> list chunk -> Prop :=
| UD_nil : utf8_decomp [] []
| UD_ascii b t cs : b < 128 -> utf8_decomp t cs -> utf8_decomp (b :: t) (CAscii b :: cs)
| UD_rune bs t cs : rune_ok bs = true -> utf8_decomp t cs -> utf8_decomp (bs ++ t) (CRune bs :: cs)
| UD_bad b t cs : 128 <= b -> utf8_width b t = 0%nat -> utf8_decomp t cs -> utf8_decomp (b :: t) (CBad b :: cs).

Theorem C14_sanitize_spec : forall s,
  utf8_decomp s (chunks s) /\
  concat (map raw_chunk (chunks s)) = s /\
  sanitize s = concat (map san_chunk (chunks s)).
Proof.
  intros s. split; [|split].
  - pattern s, (chunks s). apply chunks_rel; intros; constructor; assumption.
  - apply chunks_raw.
  - unfold sanitize. apply flat_map_concat_map.
Qed.

Theorem C14_sanitize_valid : forall s, valid_utf8 s = true -> sanitize s = s.
Proof. exact sanitize_valid. Qed.

(* THE round trip: for every schema of the seven result types (udp results use the icmp type),
   for all values the Go types admit -- strings are arbitrary byte strings, numbers in the range of
   their Go type, server supplied trees arbitrary (numbers as literal text) -- decoding the encoded
   record gives back every value, with invalid UTF-8 bytes replaced by U+FFFD and Go maps as their
   key-sorted member list *)
Theorem C14_roundtrip : forall sc vals,
  In sc schemas -> wt_record sc vals = true ->
  dec_record sc (enc_record sc vals) = Some (map san_fval vals).
Proof. intros sc vals Hin H. apply record_roundtrip; [apply schema_in_ok, Hin|exact H]. Qed.

(* ... and exactly the values themselves when all strings are valid UTF-8 (of any content:
   quotes, backslashes, control characters, line feeds, U+2028, <>&, any length) *)
Theorem C14_roundtrip_valid_utf8 : forall sc vals,
  In sc schemas -> wt_record sc vals = true -> forallb fval_utf8 vals = true ->
  dec_record sc (enc_record sc vals) = Some vals.
Proof. intros sc vals Hin H Hu. apply record_roundtrip_utf8; [apply schema_in_ok, Hin|exact H|exact Hu]. Qed.

(* one line: the encoding contains no line feed (and only bytes), and it is one complete JSON
   object: the strict decoder consumes all of it and yields an object *)
Theorem C14_one_line : forall sc vals,
  In sc schemas -> wt_record sc vals = true ->
  ~ In 10 (enc_record sc vals) /\ wf_bytes (enc_record sc vals) = true /\
  exists es, dec_json (enc_record sc vals) = Some (JObj es).
Proof. intros sc vals Hin H. apply record_one_line; [apply schema_in_ok, Hin|exact H]. Qed.

(* order: for EVERY history of the LogResults select loop (results, flush ticks, cancellation,
   channel closed) the Write calls on the underlying writer are exactly the lines of the results
   taken off the channel, one call per result, in channel order; nothing is merged or split *)
Theorem C14_order : forall (R : Type) (ln : R -> list Z) (evs : list (log_ev R)),
  log_results (fun r => Some (ln r)) evs = map ln (log_taken evs).
Proof. intros R ln evs. apply log_results_total. Qed.

Theorem C14_order_complete : forall (R : Type) (ln : R -> list Z) (rs : list R),
  concat (log_results (fun r => Some (ln r)) (map (@LResult R) rs ++ [@LClosed R])) = concat (map ln rs).
Proof. intros R ln rs. rewrite log_results_total, log_taken_all. reflexivity. Qed.

(* de-duplication: for EVERY history of the uniqResults loop, what is passed on is the list of
   first sightings (an element is kept iff no earlier received element has its ID), hence every
   ID at most once, and every received ID is printed *)
Theorem C14_uniq : forall (R : Type) (id : R -> list Z) (evs : list (uniq_ev R)),
  let out := uniq_run id [] evs in
  let taken := uniq_taken id [] evs in
  out = firsts id [] taken /\
  NoDup (map id out) /\
  (forall r, In r out -> In r taken) /\
  (forall r, In r taken -> In (id r) (map id out)).
Proof.
  intros R id evs out taken.
  assert (E : out = firsts id [] taken).
  { apply uniq_run_spec. intros k. cbn. split; [discriminate|tauto]. }
  destruct (firsts_nodup id taken []) as [N [S C]].
  split; [exact E|]. rewrite E. split; [exact N|]. split.
  - intros r Hr. apply S, Hr.
  - intros r Hr. destruct (C r Hr) as [H|H]; [discriminate|exact H].
Qed.

(* the real loop (Gen.UniqLoop, translated from uniqResults on every run) has the shape of
   [uniq_run]: the set of seen IDs is keyed by STRINGS and the key of a received result is exactly
   result.ID() -- no digest, prefix or other derived (lossy) key --, membership is tested before
   the insertion, and the received result itself is what is forwarded *)
Theorem C14_uniq_loop_shape : uniq_loop_ok uniq_loop = true.
Proof. vm_compute. reflexivity. Qed.

(* the three packet processors (Gen.PutFresh, translated from ProcessPacketData of arp, tcp, icmp on
   every run) queue `&ScanResult{...}` allocated for that packet, and every reference inside it
   (icmp's *Response) is allocated for it too: a queued result is a value nobody can rewrite while it
   waits in the buffered result channel -- the premise under which [log_results] and [uniq_run],
   which work on values, describe what is printed for what was produced *)
Theorem C14_results_are_fresh : put_sites_ok put_sites = true.
Proof. vm_compute. reflexivity. Qed.

(* what the live ARP scan de-duplicates on is the printed address *)
Theorem C14_arp_id_is_ip : forall ip mac vendor,
  result_id arp_schema [VS (VStr ip); VS (VStr mac); VS (VStr vendor)] = ip.
Proof. intros. cbn. apply app_nil_r. Qed.

(* non-vacuity: the README's lines *)
Open Scope string_scope.
Example C14_ex_arp :
  enc_record arp_schema [VS (VStr (str "192.168.0.1")); VS (VStr (str "b0:be:76:40:05:8d"));
                         VS (VStr (str "TP-LINK TECHNOLOGIES CO.,LTD."))]
  = str "{""ip"":""192.168.0.1"",""mac"":""b0:be:76:40:05:8d"",""vendor"":""TP-LINK TECHNOLOGIES CO.,LTD.""}".
Proof. vm_compute. reflexivity. Qed.
Example C14_ex_tcp :
  enc_record tcp_schema [VS (VStr (str "tcpfin")); VS (VStr (str "192.168.0.171")); VS (VNum 23); VS (VStr (str "ar"))]
  = str "{""scan"":""tcpfin"",""ip"":""192.168.0.171"",""port"":23,""flags"":""ar""}".
Proof. vm_compute. reflexivity. Qed.
Example C14_ex_tcp_omit :
  enc_record tcp_schema [VS (VStr (str "tcpsyn")); VS (VStr (str "192.168.0.171")); VS (VNum 22); VS (VStr [])]
  = str "{""scan"":""tcpsyn"",""ip"":""192.168.0.171"",""port"":22}".
Proof. vm_compute. reflexivity. Qed.
Example C14_ex_udp :
  enc_record icmp_schema [VS (VStr (str "udp")); VS (VStr (str "192.168.0.171")); VS (VNum 64);
                          VPtr (Some [VNum 3; VNum 3])]
  = str "{""scan"":""udp"",""ip"":""192.168.0.171"",""ttl"":64,""icmp"":{""type"":3,""code"":3}}".
Proof. vm_compute. reflexivity. Qed.
(* a hostile value: quote, backslash, LF, a broken byte, U+2028, <, and it still is one line
   that decodes back (the broken byte as U+FFFD) *)
Example C14_ex_hostile :
  let v := [VS (VStr (str "a""\" ++ [10; 255; 226; 128; 168; 60])); VS (VStr []); VS (VStr [])] in
  wt_record arp_schema v = true /\
  enc_record arp_schema v = str "{""ip"":""a\""\\\n\ufffd\u2028\u003c"",""mac"":"""",""vendor"":""""}" /\
  dec_record arp_schema (enc_record arp_schema v)
  = Some [VS (VStr (str "a""\" ++ [10; 239; 191; 189; 226; 128; 168; 60])); VS (VStr []); VS (VStr [])].
Proof. vm_compute. repeat split; reflexivity. Qed.
Example C14_ex_uniq :
  uniq_run (fun x : list Z => x) []
    [UResult (str "a") true; UResult (str "b") true; UResult (str "a") true; UResult (str "c") true; UClosed]
  = [str "a"; str "b"; str "c"].
Proof. vm_compute. reflexivity. Qed.

Print Assumptions C14_schemas_ok.
Print Assumptions C14_schemas_agree.
Print Assumptions C14_string_roundtrip.
Print Assumptions C14_sanitize_spec.
Print Assumptions C14_sanitize_valid.
Print Assumptions C14_roundtrip.
Print Assumptions C14_roundtrip_valid_utf8.
Print Assumptions C14_one_line.
Print Assumptions C14_order.
Print Assumptions C14_order_complete.
Print Assumptions C14_uniq.
Print Assumptions C14_uniq_loop_shape.
Print Assumptions C14_results_are_fresh.
Print Assumptions C14_arp_id_is_ip.
