(* C13 -- Bad target-list entries become one faithful error each, never a probe.
   Only statements; proofs live in Proofs/.  A target file is a list of line outcomes (Model/FileTargets.v);
   [pair_outcome st l] / [addr_outcome st p l] is what ONE entry becomes under the stage stack [st]
   (exclusion filter on/off, ARP-cache stage on/off): it is a function of that entry alone.
   These theorems are about the code WITH the fix of defect D5 (filter and ARP-cache stages pass error
   requests through unchanged; fileIPGenerator clears the decoded entry before every line). *)
From Coq Require Import ZArith List Bool Permutation.
From SX Require Import Base.Bytes Model.RangeIter Model.IPNet Model.Exclude Model.Targets Model.FileTargets
  Model.TargetWiring Gen.GroupsTable Gen.TargetWiring
  Proofs.RangeIterProofs Proofs.IPNetProofs Proofs.StagesProofs Proofs.TargetsProofs Proofs.FileTargetsProofs
  Proofs.CoverageProofs Proofs.WiringProofs Proofs.TargetsTable.
Import ListNotations.
Open Scope Z_scope.

(* ---------- whole files: the events are the per-entry outcomes of the lines read, in file order ---------- *)
(* file of ip/port pairs, every stack of stages, every port list; reading stops after the first line that is
   not JSON or is too long, and continues after a bad address or port *)
Theorem C13_pairs_per_entry : forall dp di op st ports ls, op 0%nat = Some ls ->
  events (ipport_requests cyclic_groups dp di (TFilePairs op) st ports) = flat_map (pair_outcome st) (processed pair_stops ls).
Proof. intros dp di op st ports ls H. exact (file_pairs_events cyclic_groups dp di op st ports ls H). Qed.

(* file of addresses x port ranges (regular file, or stdin through the recorder: every open yields the same
   lines): one pass over the file per port - an address entry stands for one target per port, so a bad entry
   yields one error per port pass; reading stops at the first bad line of any kind *)
Theorem C13_addrs_per_entry : forall dp di op st rs ls,
  (forall k, op k = Some ls) -> nonneg dp -> rs <> [] -> Forall valid_range rs ->
  exists ps, Permutation ps (all_ports rs) /\
    events (ipport_requests cyclic_groups dp di (TFileIPs op) st rs)
    = flat_map (fun p => flat_map (addr_outcome st p) (processed addr_stops ls)) ps.
Proof. intros dp di op st rs ls. exact (file_ports_events cyclic_groups groups_ok dp di op st rs ls). Qed.

(* port-less scan of an address file (icmp -f) *)
Theorem C13_addrs_portless : forall di op st ls, op 0%nat = Some ls ->
  events (ip_requests cyclic_groups di (TFileIPs op) st) = flat_map (addr_outcome st 0) (processed addr_stops ls).
Proof. intros di op st ls H. exact (file_addrs_events cyclic_groups di op st ls H). Qed.

(* ---------- one entry ---------- *)
(* a bad entry (missing or unparseable address, port outside 1..65535 or missing, not JSON, line too long):
   exactly one error record, stating that cause, no probe - for EVERY stack of stages *)
Theorem C13_one_error_per_bad_entry : forall st l e,
  (pair_cause l = Some e -> pair_outcome st l = [EError e]) /\
  (addr_cause l = Some e -> forall p, addr_outcome st p l = [EError e]).
Proof.
  intros st l e. split; [exact (pair_outcome_bad st l e)|]. intros H p. exact (addr_outcome_bad st p l e H).
Qed.

(* which entries are bad, and with which cause *)
Theorem C13_causes : forall ipf portf,
  pair_cause LBad = Some GJSON /\ pair_cause LTooLong = Some GTooLong /\
  pair_cause (LJson None portf) = Some GIP /\ pair_cause (LJson (Some None) portf) = Some GIP /\
  (forall a, pair_cause (LJson (Some (Some a)) None) = Some GPort) /\
  (forall a p, pair_cause (LJson (Some (Some a)) (Some p)) = if valid_port p then None else Some GPort) /\
  addr_cause LBad = Some GJSON /\ addr_cause LTooLong = Some GTooLong /\
  addr_cause (LJson None portf) = Some GIP /\ addr_cause (LJson (Some None) portf) = Some GIP /\
  (forall a, addr_cause (LJson (Some (Some a)) ipf) = None).
Proof.
  intros ipf portf. repeat split; try reflexivity.
  intros a p. unfold pair_cause. cbn [pair_line]. destruct (valid_port p); reflexivity.
Qed.

(* a good entry: nothing when its address is excluded; otherwise exactly one probe carrying its own address
   and port and the MAC the cache knows - or, when no MAC is known for the destination, exactly one
   no-MAC error and no probe *)
Theorem C13_good_entry : forall st a p portf, addr_ok a ->
  (valid_port p = true -> pair_outcome st (LJson (Some (Some a)) (Some p)) = good_outcome st a p) /\
  addr_outcome st p (LJson (Some (Some a)) portf) = good_outcome st a p.
Proof.
  intros st a p portf Ha. split; [exact (pair_outcome_good st a p Ha)|exact (addr_outcome_good st p a portf Ha)].
Qed.

(* ---------- neighbours ---------- *)
(* a bad entry at ANY position of a pairs file: the entries before it are handled as if the file ended
   there, the entry itself is its one error, the entries after it are handled as if it were absent - or not
   at all when it stops the reader *)
Theorem C13_neighbours_unchanged : forall st l1 b l2 e,
  forallb (fun l => negb (pair_stops l)) l1 = true -> pair_cause b = Some e ->
  run_pairs st (l1 ++ b :: l2) = run_pairs st l1 ++ [EError e] ++ (if pair_stops b then [] else run_pairs st l2).
Proof. exact run_pairs_splice. Qed.

(* in an address file every bad entry stops the reader *)
Theorem C13_neighbours_unchanged_addrs : forall st p l1 b l2 e,
  forallb (fun l => negb (addr_stops l)) l1 = true -> addr_cause b = Some e ->
  run_addrs st p (l1 ++ b :: l2) = run_addrs st p l1 ++ [EError e].
Proof. exact run_addrs_splice. Qed.

(* good entries never influence each other: the file is handled entry by entry *)
Theorem C13_entries_independent : forall st l1 l2,
  forallb (fun l => negb (pair_stops l)) l1 = true -> run_pairs st (l1 ++ l2) = run_pairs st l1 ++ run_pairs st l2.
Proof. exact run_pairs_app. Qed.

(* ---------- other things that cannot become probes ---------- *)
(* a target file that cannot be opened: one error *)
Theorem C13_unopenable : forall dp di op st ports, op 0%nat = None ->
  events (ipport_requests cyclic_groups dp di (TFilePairs op) st ports) = [EError GOpen].
Proof. intros dp di op st ports H. exact (file_pairs_unopenable cyclic_groups dp di op st ports H). Qed.

(* an unsupported port range list (empty, or start > end): one error, whatever the address source *)
Theorem C13_bad_ranges : forall dp src st rs, validate_ports rs = false ->
  events (apply_stages st (ip_port_gen (ports_gen cyclic_groups dp rs) src)) = [EError GPortRange].
Proof.
  intros dp src st rs H. unfold ports_gen. rewrite H. cbn [ip_port_gen]. rewrite apply_stages_fail. reflexivity.
Qed.

(* error requests cross every stack of stages untouched (the two decorators, in all four combinations) *)
Theorem C13_stages_keep_errors : forall st r, has_err r = true -> stage_one st r = [r].
Proof. exact stage_one_err. Qed.

(* ---------- through the commands (generated wiring) ---------- *)
Theorem C13_commands_pairs : forall cmd, In cmd commands -> forall k f inp,
  class_of cmd = Some k -> (k = KPortPacket \/ k = KPortGeneric) ->
  f_file f = true -> f_ports f = false -> i_ports inp = [] -> i_openable inp = true ->
  run_command cyclic_groups chunk_size empty_runs_once cmd f inp = Some (run_pairs (class_stages k f inp) (i_file inp)).
Proof. intros cmd _ k f inp. exact (command_file_pairs cyclic_groups chunk_size cmd k f inp). Qed.

Theorem C13_commands_addrs : forall cmd, In cmd commands -> forall k f inp,
  class_of cmd = Some k -> (k = KPortPacket \/ k = KPortGeneric) ->
  f_file f = true -> f_ports f = true -> i_ports inp <> [] -> Forall valid_range (i_ports inp) ->
  i_openable inp = true -> (forall c, nonneg (i_dp inp c)) ->
  exists ps, Permutation ps (all_ports (i_ports inp)) /\
    run_command cyclic_groups chunk_size empty_runs_once cmd f inp =
      Some (flat_map (fun p => run_addrs (class_stages k f inp) p (i_file inp)) ps).
Proof.
  intros cmd _ k f inp. exact (command_file_ports cyclic_groups groups_ok chunk_size (eq_refl : 0 < chunk_size) cmd k f inp).
Qed.

Theorem C13_commands_icmp : forall cmd, In cmd commands -> forall f inp,
  class_of cmd = Some KIcmp -> f_file f = true -> i_openable inp = true ->
  run_command cyclic_groups chunk_size empty_runs_once cmd f inp = Some (run_addrs (class_stages KIcmp f inp) 0 (i_file inp)).
Proof. intros cmd _ f inp. exact (command_file_icmp cyclic_groups chunk_size cmd f inp). Qed.

(* ---------- the defect, on the model of fileIPGenerator as it was (entry not cleared per line) ---------- *)
(* {"ip":"1.2.3.4"} followed by {"port":5}: the second line re-emits the first line's address *)
Theorem C13_D5_unfixed_refuted :
  exists ls, ips_walk false None ls = [inl [1;2;3;4]; inl [1;2;3;4]] /\ ips_walk true None ls = [inl [1;2;3;4]; inr GIP].
Proof. exists [LJson (Some (Some [1;2;3;4])) None; LJson None (Some 5)]. split; reflexivity. Qed.

(* non-vacuity *)
Example C13_ex_pairs :
  events (ipport_requests cyclic_groups (fun _ => (0, 0)) (fun _ => (0, 0))
            (TFilePairs (fun _ => Some [LJson (Some (Some [1;2;3;4])) (Some 80); LJson (Some None) (Some 80);
                                        LJson (Some (Some [1;2;3;5])) (Some 0); LJson (Some (Some [1;2;3;6])) (Some 22);
                                        LBad; LJson (Some (Some [1;2;3;7])) (Some 23)]))
            {| st_filter := Some [([1;2;3;6], [255;255;255;255])];
               st_cache := Some {| ac_entries := [([1;2;3;4], [2;0;0;0;0;1])]; ac_gateway := [] |} |} [])
  = [EProbe [1;2;3;4] 80 [2;0;0;0;0;1]; EError GIP; EError GPort; EError GJSON].
Proof. vm_compute. reflexivity. Qed.
Example C13_ex_nomac :
  pair_outcome {| st_filter := None; st_cache := Some {| ac_entries := []; ac_gateway := [] |} |}
               (LJson (Some (Some [1;2;3;4])) (Some 80)) = [EError GNoMAC].
Proof. vm_compute. reflexivity. Qed.

Print Assumptions C13_pairs_per_entry.
Print Assumptions C13_addrs_per_entry.
Print Assumptions C13_addrs_portless.
Print Assumptions C13_one_error_per_bad_entry.
Print Assumptions C13_causes.
Print Assumptions C13_good_entry.
Print Assumptions C13_neighbours_unchanged.
Print Assumptions C13_neighbours_unchanged_addrs.
Print Assumptions C13_entries_independent.
Print Assumptions C13_unopenable.
Print Assumptions C13_bad_ranges.
Print Assumptions C13_stages_keep_errors.
Print Assumptions C13_commands_pairs.
Print Assumptions C13_commands_addrs.
Print Assumptions C13_commands_icmp.
Print Assumptions C13_D5_unfixed_refuted.
