(* C05 -- Probe frames carry exactly the requested fields and are well formed.

   Statements only; proofs are in Proofs/FramesChecksum.v and Proofs/FramesProofs.v.
   - [tcp_frame], [udp_frame], [icmp_frame], [arp_frame] (Model/Frames.v) are the executable model of the four
     PacketFiller.Fill functions driving gopacket; their constants are Gen/FrameConsts.v, regenerated from the Go
     sources on every run; the model is compared byte for byte with the real code by the harness.
   - [parse_probe], [parse_ipv4], [parse_udp], [parse_icmp], [parse_arp_frame], [csum_ok], [l4_csum_ok]
     (Model/FramesParse.v) are an independent decoder written from the RFC layouts.
   - the expected views ([tcp_probe_view] ...) are Spec/C05.v.
   Quantifiers: every one of the 2^9 flag sets ([tcp_flagset] has exactly 512 inhabitants), every destination port,
   every 4-byte (or 16-byte IPv4-mapped) address, every 6-byte MAC, every TTL / IP flags / type / code value, every
   payload that fits an IPv4 datagram (any length, odd and empty included), every value of the random draws, both
   link modes. *)
From Coq Require Import ZArith List Bool String.
From SX Require Import Base.Bytes Model.FramesBase Model.FramesParse Model.Frames Gen.FrameConsts Spec.C05
  Proofs.FramesChecksum Proofs.FramesProofs.
Import ListNotations.
Open Scope Z_scope.

(* ------------------------------------------------------------------ the Internet checksum, all lengths *)

(* A block [pre ++ ck ++ post] whose checksum field sits at an even offset, preceded by an (already summed) pseudo
   header [ph]: storing gopacket's checksum of the block taken with a zero field makes the RFC 1071 verification
   succeed -- for every content and every length of [post], odd lengths (zero padding) and empty included. *)
Theorem C05_checksum_all_lengths : forall ph pre post,
  Nat.even (List.length ph) = true -> Nat.even (List.length pre) = true ->
  wf_bytes ph = true -> wf_bytes pre = true -> wf_bytes post = true ->
  sum16 ph + sum16 (pre ++ 0 :: 0 :: post) < 4294967296 ->
  csum_ok (ph ++ pre ++ u16_bytes (csum_fin (sum16 ph + sum16 (pre ++ 0 :: 0 :: post))) ++ post) = true.
Proof. exact checksum_verifies. Qed.

(* ------------------------------------------------------------------ TCP *)

(* For every flag set, request, link mode and all draws: Fill succeeds and the frame decodes to exactly the requested
   MACs / addresses / port / flag set, with version 4, IHL 5, total length 52 = 20 + 4 * 8, data offset 8, reserved
   bits 0, a well-formed option block, a valid IPv4 header checksum, a valid TCP checksum over the pseudo header, no
   trailing bytes; id in 1..65535 and source port in 32768..60999. *)
Theorem C05_tcp : forall fl vpn q r src dst,
  wf_addrs q src dst -> hyp_link vpn q -> 0 <= q_dport q < 65536 ->
  let id := spoof16 fc_tcp_ip_id_base fc_tcp_ip_id_mod (d_id r) in
  let sport := spoof16 fc_tcp_sport_base fc_tcp_sport_mod (d_sport r) in
  let sq := d_seq r mod 4294967296 in
  exists frame, tcp_frame fl vpn q r = Some frame /\
                parse_probe vpn frame = Some (tcp_probe_view fl vpn q src dst id sport sq) /\
                1 <= id <= 65535 /\ 32768 <= sport <= 60999.
Proof. exact tcp_probe_full. Qed.

(* tcp.NewPacketFiller(opts...): the filler carries exactly the flags whose With* option was passed, whatever the
   order and repetition (the table With* -> field is Gen.FrameConsts.fc_tcp_with_fields) *)
Theorem C05_tcp_filler_options : forall ws,
  forallb known_opt ws = true -> tcp_filler_of ws = flags_of_opts ws.
Proof. exact tcp_filler_flags. Qed.

(* Fill copies each filler flag into the TCP header field of the same name (table fc_tcp_layer_flag_sources) *)
Theorem C05_tcp_flag_wiring : forall fl, tcp_layer_flags fc_tcp_layer_flag_sources fl = fl.
Proof. exact tcp_layer_flags_id. Qed.

(* the scan commands request these flag sets (table: arguments of withTCPPacketFillerOptions per command file; the
   entry of tcp.go, the --flags command, is the loop over tcpPacketFlagOptions, next theorem) *)
Theorem C05_tcp_scan_commands :
  map (fun e => (fst e, flags_of_opts (snd e)))
      (filter (fun e => negb (has_opt "..." (snd e))) fc_tcp_scan_options) =
  [("tcp_fin.go", flagset_of_Z 1); ("tcp_null.go", flagset_of_Z 0); ("tcp_syn.go", flagset_of_Z 2);
   ("tcp_xmas.go", flagset_of_Z (1 + 8 + 32))]%string.
Proof. vm_compute. reflexivity. Qed.

(* --flags: every accepted name selects the option that sets exactly the flag of that name *)
Theorem C05_tcp_cli_flag_names :
  map (fun e => (fst e, flags_of_opts [snd e])) fc_tcp_cli_flag_options =
  [("ack", flagset_of_Z 16); ("cwr", flagset_of_Z 128); ("ece", flagset_of_Z 64); ("fin", flagset_of_Z 1);
   ("ns", flagset_of_Z 256); ("psh", flagset_of_Z 8); ("rst", flagset_of_Z 4); ("syn", flagset_of_Z 2);
   ("urg", flagset_of_Z 32)]%string.
Proof. vm_compute. reflexivity. Qed.

(* Fill fails exactly on requests outside the domain above *)
Theorem C05_tcp_refuses : forall fl vpn q id sport sq,
  tcp_frame_with fl vpn q id sport sq = None <->
  to4 (q_src_ip q) = None \/ to4 (q_dst_ip q) = None \/
  (vpn = false /\ (List.length (q_dst_mac q) <> 6%nat \/ List.length (q_src_mac q) <> 6%nat)).
Proof. exact tcp_frame_none. Qed.

(* ------------------------------------------------------------------ UDP *)

(* No override (--iplen 0, protocol 17): every TTL, every IP flag value, every payload. Total length 28 + |p|, UDP
   length 8 + |p|, payload verbatim, both checksums valid, Ethernet padding (zeros up to 60 bytes) after the datagram. *)
Theorem C05_udp : forall o p q r src dst,
  wf_addrs q src dst -> hyp_link (o_vpn o) q -> 0 <= q_dport q < 65536 ->
  o_len o = 0 -> o_proto o = 17 -> 0 <= o_ttl o < 256 -> 0 <= o_flags o < 8 ->
  wf_bytes p = true -> 28 + Z.of_nat (List.length p) <= 65535 ->
  let id := spoof16 fc_udp_ip_id_base fc_udp_ip_id_mod (d_id r) in
  let sport := spoof16 fc_udp_sport_base fc_udp_sport_mod (d_sport r) in
  exists frame, udp_frame o p q r = Some frame /\
                parse_probe (o_vpn o) frame =
                Some (udp_probe_view (o_ttl o) (o_flags o) p (o_vpn o) q src dst id sport) /\
                1 <= id <= 65535 /\ 32768 <= sport <= 60999.
Proof. exact udp_probe_full. Qed.

(* Any option combination, explicit total length and protocol included: the overridden fields appear verbatim
   ([ip_with_overrides]), everything else is as requested, the header checksum is valid, and the UDP header that
   follows is consistent (length 8 + |p|, checksum valid over the pseudo header with protocol 17). *)
Theorem C05_udp_any_override : forall o p q r src dst,
  wf_addrs q src dst -> 0 <= q_dport q < 65536 ->
  0 <= o_len o < 65536 -> 0 <= o_proto o < 256 -> 0 <= o_ttl o < 256 -> 0 <= o_flags o < 8 ->
  wf_bytes p = true -> 28 + Z.of_nat (List.length p) <= 65535 ->
  let id := spoof16 fc_udp_ip_id_base fc_udp_ip_id_mod (d_id r) in
  let sport := spoof16 fc_udp_sport_base fc_udp_sport_mod (d_sport r) in
  let dgram := udp_datagram o p src dst (q_dport q) id sport in
  exists seg,
    parse_ipv4 dgram = Some (ip_with_overrides o (28 + Z.of_nat (List.length p)) id src dst, seg) /\
    parse_udp seg = Some {| uv_sport := sport; uv_dport := q_dport q; uv_length := 8 + Z.of_nat (List.length p);
                            uv_payload := p; uv_after := [] |} /\
    l4_csum_ok src dst 17 seg = true.
Proof. exact udp_override_full. Qed.

(* ------------------------------------------------------------------ ICMP *)

(* [popt = None]: no payload option, the payload is the random block drawn by NewPacketFiller *)
Theorem C05_icmp : forall o typ code (popt : option (list Z)) q r src dst,
  wf_addrs q src dst -> hyp_link (o_vpn o) q ->
  o_len o = 0 -> o_proto o = 1 -> 0 <= o_ttl o < 256 -> 0 <= o_flags o < 8 ->
  0 <= typ < 256 -> 0 <= code < 256 ->
  let p := match popt with Some p => p | None => d_payload r end in
  wf_bytes p = true -> 28 + Z.of_nat (List.length p) <= 65535 ->
  let id := spoof16 fc_icmp_ip_id_base fc_icmp_ip_id_mod (d_id r) in
  let icmpid := spoof16 fc_icmp_id_base fc_icmp_id_mod (d_icmp_id r) in
  exists frame, icmp_frame o typ code popt q r = Some frame /\
                parse_probe (o_vpn o) frame =
                Some (icmp_probe_view (o_ttl o) (o_flags o) typ code p (o_vpn o) q src dst id icmpid) /\
                1 <= id <= 65535 /\ 1 <= icmpid <= 65535.
Proof. exact icmp_probe_full. Qed.

Theorem C05_icmp_any_override : forall o typ code p q r src dst,
  wf_addrs q src dst ->
  0 <= o_len o < 65536 -> 0 <= o_proto o < 256 -> 0 <= o_ttl o < 256 -> 0 <= o_flags o < 8 ->
  0 <= typ < 256 -> 0 <= code < 256 ->
  wf_bytes p = true -> 28 + Z.of_nat (List.length p) <= 65535 ->
  let id := spoof16 fc_icmp_ip_id_base fc_icmp_ip_id_mod (d_id r) in
  let icmpid := spoof16 fc_icmp_id_base fc_icmp_id_mod (d_icmp_id r) in
  let dgram := icmp_datagram o typ code p src dst id icmpid in
  exists msg,
    parse_ipv4 dgram = Some (ip_with_overrides o (28 + Z.of_nat (List.length p)) id src dst, msg) /\
    parse_icmp msg = Some {| cv_type := typ; cv_code := code; cv_csum_ok := true; cv_id := icmpid;
                             cv_seq := fc_icmp_seq; cv_payload := p |}.
Proof. exact icmp_override_full. Qed.

(* ------------------------------------------------------------------ command line plumbing of `sx icmp` / `sx udp` *)

(* every packet option flag reaches the filler option of its own meaning (flag definition -> options field -> raw
   string parser where there is one -> With* constructor); --payload is passed only when non-empty.  The tables are
   translated from initCliFlags / parseRawOptions / getICMPOptions / getUDPOptions; that each With* stores into the
   filler field Fill reads for the corresponding header field is checked by the translator itself. *)
Theorem C05_cli_plumbing :
  fc_icmp_cli_chain =
    [("code", "WithCode", "", "always"); ("ipflags", "WithIPFlags", "parseIPFlags", "always");
     ("iplen", "WithIPTotalLength", "", "always"); ("ipproto", "WithIPProtocol", "", "always");
     ("payload", "WithPayload", "parsePacketPayload", "if-nonempty"); ("ttl", "WithTTL", "", "always");
     ("type", "WithType", "", "always")]%string /\
  fc_udp_cli_chain =
    [("ipflags", "WithIPFlags", "parseIPFlags", "always"); ("iplen", "WithIPTotalLength", "", "always");
     ("ipproto", "WithIPProtocol", "", "always"); ("payload", "WithPayload", "parsePacketPayload", "if-nonempty");
     ("ttl", "WithTTL", "", "always")]%string.
Proof. split; reflexivity. Qed.

(* ------------------------------------------------------------------ ARP *)

(* broadcast destination, the request's MAC as Ethernet source and ARP sender, ethertype 0x0806, Ethernet/IPv4 with
   sizes 6/4, opcode request, sender and target protocol addresses as requested, 60 bytes with zero padding *)
Theorem C05_arp : forall q target,
  List.length (q_src_mac q) = 6%nat -> List.length (q_src_ip q) = 4%nat -> to4 (q_dst_ip q) = Some target ->
  exists frame, arp_frame q = Some frame /\ List.length frame = 60%nat /\
    parse_arp_frame frame =
    Some ({| ev_dst := [255; 255; 255; 255; 255; 255]; ev_src := q_src_mac q; ev_type := 2054;
             ev_payload := arp_body q ++ repeat 0 18 |}, arp_request_view q target).
Proof. exact arp_frame_decodes. Qed.

(* ------------------------------------------------------------------ VPN mode *)

(* the frame built without link header is the datagram; with link header it is the Ethernet header, the same
   datagram, and zeros up to 60 bytes *)
Theorem C05_vpn_tcp : forall fl q id sport sq dgram, hyp_link false q ->
  tcp_frame_with fl true q id sport sq = Some dgram ->
  tcp_frame_with fl false q id sport sq = Some (eth_encap q dgram).
Proof. exact tcp_vpn_relation. Qed.

Theorem C05_vpn_udp : forall o p q id sport dgram, hyp_link false q ->
  udp_frame_with (with_vpn o true) p q id sport = Some dgram ->
  udp_frame_with (with_vpn o false) p q id sport = Some (eth_encap q dgram).
Proof. exact udp_vpn_relation. Qed.

Theorem C05_vpn_icmp : forall o typ code p q id icmpid dgram, hyp_link false q ->
  icmp_frame_with (with_vpn o true) typ code p q id icmpid = Some dgram ->
  icmp_frame_with (with_vpn o false) typ code p q id icmpid = Some (eth_encap q dgram).
Proof. exact icmp_vpn_relation. Qed.

(* ------------------------------------------------------------------ non-vacuity *)

(* The inputs below are requests and spoofed field values of frames the real fillers produced in a harness run; where
   the frame does not depend on constants the property leaves open (TCP: TTL, window, option list) the real bytes are
   given literally and the model reproduces them. *)

(* a SYN probe: the hypotheses of C05_tcp are satisfiable and its conclusion is computed, not assumed *)
Example C05_ex_tcp_syn :
  let q := {| q_src_ip := [209; 23; 151; 99]; q_dst_ip := [125; 140; 97; 0]; q_src_mac := [106; 221; 163; 199; 57; 117];
              q_dst_mac := [200; 100; 133; 98; 174; 20]; q_dport := 28069 |} in
  let fl := flags_of_opts ["WithSYN"%string] in
  match tcp_frame_with fl false q 53563 33052 3146026296 with
  | Some frame =>
      List.length frame = 66%nat /\
      firstn 14 frame = [200; 100; 133; 98; 174; 20; 106; 221; 163; 199; 57; 117; 8; 0] /\
      parse_probe false frame =
        Some (tcp_probe_view fl false q [209; 23; 151; 99] [125; 140; 97; 0] 53563 33052 3146026296)
  | None => False
  end.
Proof. vm_compute. repeat split; reflexivity. Qed.

(* UDP without link header, odd payload length (9 bytes: checksum padding); real frame *)
Example C05_ex_udp_odd :
  let q := {| q_src_ip := [155; 237; 220; 63]; q_dst_ip := [6; 12; 185; 198]; q_src_mac := []; q_dst_mac := [];
              q_dport := 80 |} in
  let o := {| o_ttl := 64; o_len := 0; o_proto := 17; o_flags := 2; o_vpn := true |} in
  let p := [200; 6; 213; 244; 128; 119; 191; 156; 222] in
  let frame := [69; 0; 0; 37; 248; 250; 64; 0; 64; 17; 9; 206; 155; 237; 220; 63; 6; 12; 185; 198; 236; 104; 0; 80; 0; 17;
                31; 3; 200; 6; 213; 244; 128; 119; 191; 156; 222] in
  udp_frame_with o p q 63738 60520 = Some frame /\
  parse_probe true frame = Some (udp_probe_view 64 2 p true q [155; 237; 220; 63] [6; 12; 185; 198] 63738 60520).
Proof. vm_compute. split; reflexivity. Qed.

(* ICMP echo with a 3-byte payload: 45 bytes of frame, padded to 60; real frame up to the sequence number constant *)
Example C05_ex_icmp_padded :
  let q := {| q_src_ip := [166; 107; 109; 184]; q_dst_ip := [244; 32; 224; 111]; q_src_mac := [173; 47; 19; 5; 51; 62];
              q_dst_mac := [240; 54; 59; 219; 0; 133]; q_dport := 0 |} in
  let o := {| o_ttl := 64; o_len := 0; o_proto := 1; o_flags := 2; o_vpn := false |} in
  let p := [188; 10; 185] in
  match icmp_frame_with o 8 0 p q 158 5385 with
  | Some frame =>
      List.length frame = 60%nat /\ skipn 45 frame = repeat 0 15 /\
      parse_probe false frame =
        Some (icmp_probe_view 64 2 8 0 p false q [166; 107; 109; 184] [244; 32; 224; 111] 158 5385)
  | None => False
  end.
Proof. vm_compute. repeat split; reflexivity. Qed.

(* explicit --iplen 38 and TTL 255, no DF: the real udp filler (with the UDP length fix) and the model agree *)
Example C05_ex_udp_iplen :
  let q := {| q_src_ip := [3; 223; 42; 38]; q_dst_ip := [245; 123; 88; 218]; q_src_mac := []; q_dst_mac := [];
              q_dport := 57651 |} in
  let o := {| o_ttl := 255; o_len := 38; o_proto := 17; o_flags := 0; o_vpn := true |} in
  udp_frame_with o [237; 68; 237; 243; 30; 25; 26; 112; 77; 157] q 26487 52532 =
  Some [69; 0; 0; 38; 103; 119; 0; 0; 255; 17; 215; 244; 3; 223; 42; 38; 245; 123; 88; 218; 205; 52; 225; 51; 0; 18; 115;
        167; 237; 68; 237; 243; 30; 25; 26; 112; 77; 157].
Proof. vm_compute. reflexivity. Qed.

(* an override that disagrees with the datagram: total length 1500 and protocol 157 appear verbatim *)
Example C05_ex_override_verbatim :
  let o := {| o_ttl := 64; o_len := 1500; o_proto := 157; o_flags := 2; o_vpn := true |} in
  option_map (fun v => (iv_total_len (fst v), iv_proto (fst v), iv_csum_ok (fst v)))
    (parse_ipv4 (udp_datagram o [1; 2; 3] [10; 0; 0; 1] [10; 0; 0; 2] 53 7 40000)) = Some (1500, 157, true).
Proof. vm_compute. reflexivity. Qed.

Example C05_ex_arp :
  let q := {| q_src_ip := [148; 126; 164; 108]; q_dst_ip := [179; 133; 206; 45]; q_src_mac := [46; 45; 169; 180; 104; 172];
              q_dst_mac := []; q_dport := 0 |} in
  arp_frame q =
  Some [255; 255; 255; 255; 255; 255; 46; 45; 169; 180; 104; 172; 8; 6; 0; 1; 8; 0; 6; 4; 0; 1; 46; 45; 169; 180; 104; 172;
        148; 126; 164; 108; 0; 0; 0; 0; 0; 0; 179; 133; 206; 45; 0; 0; 0; 0; 0; 0; 0; 0; 0; 0; 0; 0; 0; 0; 0; 0; 0; 0].
Proof. vm_compute. reflexivity. Qed.

(* the hypotheses are satisfiable for both address forms *)
Example C05_ex_mapped_address : to4 ([0; 0; 0; 0; 0; 0; 0; 0; 0; 0; 255; 255] ++ [10; 1; 2; 3]) = Some [10; 1; 2; 3].
Proof. reflexivity. Qed.

(* a bad MAC or a non-IPv4 address makes Fill fail *)
Example C05_ex_refused :
  tcp_frame_with no_flags false
    {| q_src_ip := [1; 2; 3; 4]; q_dst_ip := [5; 6; 7; 8]; q_src_mac := [1; 2; 3; 4; 5]; q_dst_mac := [1; 2; 3; 4; 5; 6];
       q_dport := 80 |} 1 32768 0 = None.
Proof. reflexivity. Qed.

Print Assumptions C05_checksum_all_lengths.
Print Assumptions C05_tcp.
Print Assumptions C05_tcp_filler_options.
Print Assumptions C05_tcp_flag_wiring.
Print Assumptions C05_tcp_scan_commands.
Print Assumptions C05_tcp_cli_flag_names.
Print Assumptions C05_tcp_refuses.
Print Assumptions C05_udp.
Print Assumptions C05_udp_any_override.
Print Assumptions C05_icmp.
Print Assumptions C05_icmp_any_override.
Print Assumptions C05_cli_plumbing.
Print Assumptions C05_arp.
Print Assumptions C05_vpn_tcp.
Print Assumptions C05_vpn_udp.
Print Assumptions C05_vpn_icmp.
