(* C17 -- Probes leave through the right interface with the right source.

   "Probes are sent on the interface that is directly attached to the target subnet, with that
   interface's own address on that subnet and its MAC as source; if no interface is attached, the
   interface given with --iface, else the one of the lowest-metric default route, is used with its
   first address.  --iface, --srcip and --srcmac always override the automatic choice, an interface
   without a hardware address selects raw-IP (VPN) framing, and if no usable interface or IPv4
   source address exists the scan fails with an error and never sends a frame with an empty or
   foreign source."

   Quantifier: ALL host configurations (any number of interfaces in any enumeration order, any
   addresses of either family in any order, any route list in any order, any combination of failing
   operating-system calls), all targets (any IP/mask byte strings, or none), all 8 combinations of
   the three override flags.  [choose] is the code with fixes/c17/fix-srcip-ipv4.patch applied;
   [choose_orig] is the code as found, for which the last sentence is refuted below.

   Vocabulary (Proofs/IfaceProofs.v): [covers t a] = the network of interface address [a] contains
   the target's base address; [first_cover t i a] = [a] is the first address of [i] (Addrs() order)
   that does; [unattached t i] = none does; [first_ip i] = addrs[0].IP; [best_default rs r] = [r] is
   the default route (no destination, no preferred source) of lowest metric below 2^31-1, the first
   in netlink order among equals; [finish true ov i ip] = what the scan goes out with once interface
   [i] and interface address [ip] are selected: --srcip or [ip], required to be IPv4; --srcmac or
   the MAC of [i]; vpn iff that MAC is nil.

   Only statements; proofs are in Proofs/IfaceProofs.v. *)
From Coq Require Import ZArith List Bool String.
From SX Require Import Model.Iface Proofs.IfaceProofs Proofs.IfaceNetProofs.
Import ListNotations.
Open Scope Z_scope.

(* ------------------------------------------------------------------ attached *)

(* Without --iface the FIRST interface in enumeration order one of whose networks contains the
   target base is used, with the first such address of that interface (its own address on that
   subnet); the interfaces before it must be readable and unattached. *)
Theorem C17_attached : forall cfg t ov pre i post a,
  ov_iface ov = ""%string -> ifaces_err cfg = false ->
  ifaces cfg = pre ++ i :: post ->
  (forall j, In j pre -> if_addrs_err j = false /\ unattached t j) ->
  if_addrs_err i = false -> first_cover t i a ->
  choose cfg (Some t) ov = finish true ov i (Some (a_ip a)).
Proof. exact (choose_attached_auto true). Qed.

(* ... spelled out without override flags: interface, its own IPv4 address on that subnet, its MAC *)
Theorem C17_attached_plain : forall cfg t pre i post a s4,
  ifaces_err cfg = false -> ifaces cfg = pre ++ i :: post ->
  (forall j, In j pre -> if_addrs_err j = false /\ unattached t j) ->
  if_addrs_err i = false -> first_cover t i a -> to4 (a_ip a) = Some s4 ->
  choose cfg (Some t) {| ov_iface := ""; ov_srcip := None; ov_srcmac := None |} =
  Ok {| o_iface := i; o_srcip := Some s4; o_srcmac := if_mac i; o_vpn := is_none (if_mac i) |}.
Proof.
  intros cfg t pre i post a s4 He Hs Hpre Hie Hf H4.
  unfold choose.
  rewrite (choose_attached_auto true cfg t {| ov_iface := ""; ov_srcip := None; ov_srcmac := None |}
             pre i post a eq_refl He Hs Hpre Hie Hf).
  unfold finish, source_of, mac_of. cbn. rewrite H4. reflexivity.
Qed.

(* With --iface only that interface is examined (another attached interface is ignored); when it is
   attached its covering address is used. *)
Theorem C17_attached_iface : forall cfg t ov i a,
  ov_iface ov <> ""%string -> interface_by_name cfg (ov_iface ov) = Ok i ->
  if_addrs_err i = false -> first_cover t i a ->
  choose cfg (Some t) ov = finish true ov i (Some (a_ip a)).
Proof. exact (choose_attached_iface true). Qed.

(* ------------------------------------------------------------------ fallback order *)

(* --iface given, not attached (or no target at all): that interface with its FIRST address *)
Theorem C17_fallback_iface : forall cfg t ov i,
  ov_iface ov <> ""%string -> interface_by_name cfg (ov_iface ov) = Ok i ->
  if_addrs_err i = false -> ipnet_addrs i -> not_attached_opt t i ->
  choose cfg t ov = finish true ov i (first_ip i).
Proof. exact (choose_fallback_iface true). Qed.

(* no --iface, no interface attached: the interface of the lowest-metric default route (first one in
   netlink order among equal metrics), with its first address *)
Theorem C17_fallback_default : forall cfg t ov r i,
  ov_iface ov = ""%string -> none_attached cfg t -> routes_err cfg = false ->
  routes_resolvable cfg -> best_default (routes cfg) r -> interface_by_index cfg (rt_link r) = Ok i ->
  choose cfg t ov = finish true ov i (first_ip i).
Proof. exact (choose_fallback_default true). Qed.

(* no --iface, nothing attached, no default route with metric below 2^31-1: the scan fails *)
Theorem C17_fallback_none : forall cfg t ov,
  ov_iface ov = ""%string -> none_attached cfg t -> routes_err cfg = false -> no_default (routes cfg) ->
  choose cfg t ov = Err ErrSrcInterface.
Proof. exact (choose_no_interface true). Qed.

Theorem C17_fallback_order :
  (forall cfg t ov i,
     ov_iface ov <> ""%string -> interface_by_name cfg (ov_iface ov) = Ok i ->
     if_addrs_err i = false -> ipnet_addrs i -> not_attached_opt t i ->
     choose cfg t ov = finish true ov i (first_ip i)) /\
  (forall cfg t ov r i,
     ov_iface ov = ""%string -> none_attached cfg t -> routes_err cfg = false ->
     routes_resolvable cfg -> best_default (routes cfg) r -> interface_by_index cfg (rt_link r) = Ok i ->
     choose cfg t ov = finish true ov i (first_ip i)) /\
  (forall cfg t ov,
     ov_iface ov = ""%string -> none_attached cfg t -> routes_err cfg = false -> no_default (routes cfg) ->
     choose cfg t ov = Err ErrSrcInterface).
Proof. exact (conj C17_fallback_iface (conj C17_fallback_default C17_fallback_none)). Qed.

(* ------------------------------------------------------------------ overrides *)

(* For EVERY configuration, target and flag combination: whenever the scan goes ahead, --iface is
   the interface used (attached or not, whatever else is attached), --srcip is the source address
   (and is an IPv4 address), --srcmac is the source MAC. *)
Theorem C17_overrides_win : forall cfg t ov o,
  choose cfg t ov = Ok o ->
  (ov_iface ov <> ""%string ->
     interface_by_name cfg (ov_iface ov) = Ok (o_iface o) /\ if_name (o_iface o) = ov_iface ov) /\
  (forall s, ov_srcip ov = Some s -> o_srcip o = to4 s /\ to4 s <> None) /\
  (forall m, ov_srcmac ov = Some m -> o_srcmac o = Some m).
Proof.
  intros cfg t ov o H. destruct (overrides_win true cfg t ov o H) as (H1 & H2 & H3).
  split; [exact H1|split; [|exact H3]]. intros s Hs. destruct (H2 s Hs) as [Ha Hb]. exact (conj Ha (Hb eq_refl)).
Qed.

(* --srcip and --srcmac never influence which interface is used *)
Theorem C17_overrides_keep_interface : forall cfg t ov ov' o o',
  ov_iface ov = ov_iface ov' -> choose cfg t ov = Ok o -> choose cfg t ov' = Ok o' -> o_iface o = o_iface o'.
Proof. exact (choose_iface_indep true). Qed.

(* ------------------------------------------------------------------ VPN framing *)

(* vpn mode is selected exactly when the source MAC is nil, i.e. exactly when --srcmac is absent and
   the interface used has no hardware address; the arp command fails with errSrcMAC in that case *)
Theorem C17_vpn_iff_no_mac : forall cfg t ov o,
  choose cfg t ov = Ok o ->
  (o_vpn o = true <-> o_srcmac o = None) /\
  (o_vpn o = true <-> ov_srcmac ov = None /\ if_mac (o_iface o) = None) /\
  choose_arp cfg t ov = (if o_vpn o then Err ErrSrcMAC else Ok o).
Proof. exact (vpn_iff_no_mac true). Qed.

(* ------------------------------------------------------------------ error, never an empty or foreign source *)

(* For EVERY configuration (including every combination of failing OS calls), target and flags: the
   result is an error, or the interface is one of the host's, the source IP is a 4-byte address that
   is --srcip or (the IPv4 form of) an address of that very interface, and the source MAC is
   --srcmac or that interface's own. *)
Theorem C17_error_not_empty_source : forall cfg t ov,
  match choose cfg t ov with
  | Err _ => True
  | Ok o =>
      In (o_iface o) (ifaces cfg) /\
      (exists s4, o_srcip o = Some s4 /\ List.length s4 = 4%nat /\
         match ov_srcip ov with
         | Some s => to4 s = Some s4
         | None => exists a, In a (if_addrs (o_iface o)) /\ to4 (a_ip a) = Some s4
         end) /\
      o_srcmac o = match ov_srcmac ov with Some m => Some m | None => if_mac (o_iface o) end
  end.
Proof. exact error_or_own_source. Qed.

(* The same statement is FALSE of the code as found: with --iface naming an interface whose only
   address is IPv6 link-local the scan goes ahead with a nil source IP (defect D9; the harness
   replays it in a network namespace and sees ARP requests without sender address on the wire). *)
Definition ll6 : addr :=
  {| a_ip := [254; 128; 0; 0; 0; 0; 0; 0; 0; 0; 0; 0; 0; 0; 0; 5];
     a_mask := [255; 255; 255; 255; 255; 255; 255; 255; 0; 0; 0; 0; 0; 0; 0; 0]; a_ipnet := true |}.
Definition v6only : iface :=
  {| if_index := 5; if_name := "v6only"; if_mac := Some [2; 0; 0; 0; 0; 5]; if_addrs := [ll6]; if_addrs_err := false |}.

Theorem C17_error_not_empty_source_refuted_orig :
  exists cfg t ov o, choose_orig cfg t ov = Ok o /\ o_srcip o = None.
Proof.
  exists {| ifaces := [v6only]; ifaces_err := false; routes := []; routes_err := false |},
         (Some {| t_ip := [10; 1; 2; 0]; t_mask := [255; 255; 255; 0] |}),
         {| ov_iface := "v6only"; ov_srcip := None; ov_srcmac := None |}.
  eexists. split; [vm_compute; reflexivity|reflexivity].
Qed.

(* the repair turns exactly those outcomes into errSrcIP and changes nothing else *)
Theorem C17_fix_conservative : forall cfg t ov,
  match choose_orig cfg t ov with
  | Ok o => match o_srcip o with
            | Some _ => choose cfg t ov = Ok o
            | None => choose cfg t ov = Err ErrSrcIP
            end
  | Err e => choose cfg t ov = Err e
  end.
Proof. exact choose_fix_rel. Qed.

(* ------------------------------------------------------------------ the case analysis is complete *)

(* When every OS call succeeds ([readable]) the cases of the theorems above are exhaustive: with
   --iface exactly one of {no such interface, attached, fallback to its first address} applies ... *)
Theorem C17_selection_complete_iface : forall cfg t ov,
  readable cfg -> ov_iface ov <> ""%string ->
  (interface_by_name cfg (ov_iface ov) = Err ErrIfaceName /\ choose cfg t ov = Err ErrIfaceName) \/
  (exists i, interface_by_name cfg (ov_iface ov) = Ok i /\
     ((exists t' a, t = Some t' /\ first_cover t' i a /\ choose cfg t ov = finish true ov i (Some (a_ip a))) \/
      (not_attached_opt t i /\ choose cfg t ov = finish true ov i (first_ip i)))).
Proof. exact (choose_complete_iface true). Qed.

(* ... and without --iface exactly one of {first attached interface, best default route, error} *)
Theorem C17_selection_complete_auto : forall cfg t ov,
  readable cfg -> routes_resolvable cfg -> ov_iface ov = ""%string ->
  (exists t' pre i post a, t = Some t' /\ ifaces cfg = pre ++ i :: post /\ (forall j, In j pre -> unattached t' j) /\
     first_cover t' i a /\ choose cfg t ov = finish true ov i (Some (a_ip a))) \/
  (none_attached cfg t /\
     ((exists r i, best_default (routes cfg) r /\ interface_by_index cfg (rt_link r) = Ok i /\
                   choose cfg t ov = finish true ov i (first_ip i)) \/
      (no_default (routes cfg) /\ choose cfg t ov = Err ErrSrcInterface))).
Proof. exact (choose_complete_auto true). Qed.

(* The kernel lists the default routes of the main table by ascending metric.  Then only the FIRST
   usable default route is ever looked up and it alone decides -- including the failure when it
   names no interface (blackhole / multipath route) or its addresses cannot be read; nothing is
   assumed about the routes after it or about OS failures elsewhere. *)
Theorem C17_fallback_first_default : forall cfg t ov pre r post,
  ov_iface ov = ""%string -> none_attached cfg t -> routes_err cfg = false ->
  routes cfg = pre ++ r :: post ->
  (forall r', In r' pre -> is_default r' = false) ->
  is_default r = true -> rt_prio r < max_int32 ->
  (forall r', In r' post -> is_default r' = true -> rt_prio r <= rt_prio r') ->
  choose cfg t ov =
  match interface_by_index cfg (rt_link r) with
  | Err e => Err e
  | Ok i => match get_interface_ip i with Err e => Err e | Ok a => finish true ov i a end
  end.
Proof. exact (choose_fallback_first_default true). Qed.

(* ------------------------------------------------------------------ "attached" in arithmetic *)

(* For IPv4 (interface address b/p as Go reports it, target tb/q as ParseIPNet produces it) the
   attachment test [covers] says: b and the target's base address agree on their first p bits ... *)
Theorem C17_covers_v4 : forall tb q b p,
  List.length tb = 4%nat -> List.length b = 4%nat -> bytes tb -> bytes b -> 0 <= q <= 32 -> 0 <= p <= 32 ->
  (covers (v4_target tb q) (v4_addr b p) = true <->
   be b / 2 ^ (32 - p) = (be tb / 2 ^ (32 - q) * 2 ^ (32 - q)) / 2 ^ (32 - p)).
Proof. exact covers_v4. Qed.

(* ... which for a target no larger than the interface's network (q >= p) is membership of the whole
   target in that network; for q < p only the base address is tested (a /8 whose base address lies
   in a connected /24 counts as attached, see C17_ex_supernet_attached) *)
Theorem C17_covers_v4_subnet : forall tb q b p,
  List.length tb = 4%nat -> List.length b = 4%nat -> bytes tb -> bytes b -> 0 <= p <= q -> q <= 32 ->
  (covers (v4_target tb q) (v4_addr b p) = true <-> be b / 2 ^ (32 - p) = be tb / 2 ^ (32 - p)).
Proof. exact covers_v4_subnet. Qed.

(* ------------------------------------------------------------------ gateway (used for the destination MAC) *)

(* GetDefaultGatewayIP: the gateway of the lowest-metric default route through the interface used *)
Theorem C17_gateway_of_best_route : forall cfg o pre r post,
  routes_err cfg = false -> routes cfg = pre ++ r :: post ->
  is_default_via (if_index (o_iface o)) r = true -> rt_prio r < max_int32 ->
  (forall r', In r' pre -> is_default_via (if_index (o_iface o)) r' = true -> rt_prio r < rt_prio r') ->
  (forall r', In r' post -> is_default_via (if_index (o_iface o)) r' = true -> rt_prio r <= rt_prio r') ->
  gateway_of cfg o = Ok (rt_gw r).
Proof.
  intros cfg o pre r post He Hs Hd Hp Hpre Hpost. unfold gateway_of, get_default_gateway_ip. rewrite He, Hs.
  rewrite (gateway_walk_best _ pre r post max_int32 [] Hd Hp Hpre Hpost). reflexivity.
Qed.

(* ------------------------------------------------------------------ the target argument *)

(* A target that is not an IPv4 host address or an IPv4 CIDR block -- every IPv6 notation, the
   IPv4-mapped forms included (ParseCIDR gives them a 16-byte mask, netip.Is4 is false), and text
   that does not parse -- is refused with ip.ErrInvalidAddr and NOTHING else happens: no interface,
   no source is selected, for every host configuration and every flag combination.  The arp command
   parses the target first; the ip-level commands look --iface up first, so a wrong --iface is
   reported instead.  ([non_ipv4_text] is exactly what ParseIPNet refuses: C17_target_refused_iff.) *)
Theorem C17_non_ipv4_target_refused : forall cfg x ov,
  non_ipv4_text x ->
  run_arp cfg (Some x) ov = Err ErrTarget /\
  run cfg (Some x) ov = match resolve_iface cfg ov with Err e => Err e | Ok _ => Err ErrTarget end.
Proof. exact (refused_target true). Qed.

Theorem C17_target_refused_iff : forall x, non_ipv4_text x <-> parse_ipnet x = Err ErrTarget.
Proof. exact parse_ipnet_refuses. Qed.

(* every other argument is accepted with a 4-byte mask and handed unchanged to the selection the
   theorems above are about; without a positional argument the selection runs without target *)
Theorem C17_target_accepted : forall cfg x t ov,
  parse_ipnet x = Ok t ->
  run cfg (Some x) ov = choose cfg (Some t) ov /\ run_arp cfg (Some x) ov = choose_arp cfg (Some t) ov.
Proof. exact (accepted_target true). Qed.

Theorem C17_target_total : forall x, non_ipv4_text x \/ exists t, parse_ipnet x = Ok t /\ len (t_mask t) = 4.
Proof. exact parse_ipnet_total. Qed.

(* ------------------------------------------------------------------ non-vacuity *)

Definition v4 (a b c d : Z) : ip := [0; 0; 0; 0; 0; 0; 0; 0; 0; 0; 255; 255; a; b; c; d].
Definition eth0 : iface :=
  {| if_index := 2; if_name := "eth0"; if_mac := Some [2; 0; 0; 0; 0; 2];
     if_addrs := [ {| a_ip := v4 10 1 2 3; a_mask := [255; 255; 255; 0]; a_ipnet := true |}; ll6 ];
     if_addrs_err := false |}.
Definition eth1 : iface :=
  {| if_index := 3; if_name := "eth1"; if_mac := Some [2; 0; 0; 0; 0; 3];
     if_addrs := [ {| a_ip := v4 10 1 0 1; a_mask := [255; 255; 0; 0]; a_ipnet := true |};
                   {| a_ip := v4 10 0 0 5; a_mask := [255; 255; 255; 0]; a_ipnet := true |} ];
     if_addrs_err := false |}.
Definition tun0 : iface :=
  {| if_index := 4; if_name := "tun0"; if_mac := None;
     if_addrs := [ {| a_ip := v4 10 8 0 2; a_mask := [255; 255; 255; 255]; a_ipnet := true |} ];
     if_addrs_err := false |}.
Definition dflt (link prio : Z) : route :=
  {| rt_dst_nil := true; rt_src_nil := true; rt_link := link; rt_prio := prio; rt_gw := [] |}.
Definition host : config :=
  {| ifaces := [eth0; eth1; tun0; v6only]; ifaces_err := false;
     routes := [dflt 3 100; dflt 4 50; dflt 2 50;
                {| rt_dst_nil := true; rt_src_nil := false; rt_link := 2; rt_prio := 1; rt_gw := [] |}];
     routes_err := false |}.
Definition no_ov : overrides := {| ov_iface := ""; ov_srcip := None; ov_srcmac := None |}.
Definition tnet (a b c d : Z) (m : ip) : option target := Some {| t_ip := [a; b; c; d]; t_mask := m |}.

(* 10.1.2.0/24 is attached to eth0 AND lies in eth1's 10.1.0.0/16: the first in enumeration order wins *)
Example C17_ex_attached :
  choose host (tnet 10 1 2 0 [255; 255; 255; 0]) no_ov =
  Ok {| o_iface := eth0; o_srcip := Some [10; 1; 2; 3]; o_srcmac := Some [2; 0; 0; 0; 0; 2]; o_vpn := false |}.
Proof. vm_compute. reflexivity. Qed.

(* 10.1.3.0/24: only eth1 (10.1.0.1/16) is attached *)
Example C17_ex_attached_second :
  choose host (tnet 10 1 3 0 [255; 255; 255; 0]) no_ov =
  Ok {| o_iface := eth1; o_srcip := Some [10; 1; 0; 1]; o_srcmac := Some [2; 0; 0; 0; 0; 3]; o_vpn := false |}.
Proof. vm_compute. reflexivity. Qed.

(* the target's own mask is applied to the target only: 10.0.0.0/8 counts as attached to eth1
   because its base address 10.0.0.0 lies in eth1's second network 10.0.0.0/24 *)
Example C17_ex_supernet_attached :
  choose host (tnet 10 0 0 0 [255; 0; 0; 0]) no_ov =
  Ok {| o_iface := eth1; o_srcip := Some [10; 0; 0; 5]; o_srcmac := Some [2; 0; 0; 0; 0; 3]; o_vpn := false |}.
Proof. vm_compute. reflexivity. Qed.

(* nothing attached: default routes with metrics 100, 50, 50 and a src-hinted one with metric 1 (not
   considered): the first of the two metric-50 routes wins, its interface tun0 has no MAC => vpn *)
Example C17_ex_default_route :
  choose host (tnet 203 0 113 0 [255; 255; 255; 0]) no_ov =
  Ok {| o_iface := tun0; o_srcip := Some [10; 8; 0; 2]; o_srcmac := None; o_vpn := true |}.
Proof. vm_compute. reflexivity. Qed.

(* --iface wins over an attached interface; not attached itself => its first address *)
Example C17_ex_iface_override :
  choose host (tnet 10 1 2 0 [255; 255; 255; 0]) {| ov_iface := "tun0"; ov_srcip := None; ov_srcmac := None |} =
  Ok {| o_iface := tun0; o_srcip := Some [10; 8; 0; 2]; o_srcmac := None; o_vpn := true |}.
Proof. vm_compute. reflexivity. Qed.

Example C17_ex_all_overrides :
  choose host (tnet 10 1 2 0 [255; 255; 255; 0])
    {| ov_iface := "v6only"; ov_srcip := Some (v4 198 51 100 7); ov_srcmac := Some [2; 9; 9; 9; 9; 9] |} =
  Ok {| o_iface := v6only; o_srcip := Some [198; 51; 100; 7]; o_srcmac := Some [2; 9; 9; 9; 9; 9]; o_vpn := false |}.
Proof. vm_compute. reflexivity. Qed.

(* first address IPv6: the repaired code refuses, the code as found went ahead with a nil source *)
Example C17_ex_v6_first_address :
  choose host (tnet 10 1 2 0 [255; 255; 255; 0]) {| ov_iface := "v6only"; ov_srcip := None; ov_srcmac := None |} = Err ErrSrcIP
  /\ choose_orig host (tnet 10 1 2 0 [255; 255; 255; 0]) {| ov_iface := "v6only"; ov_srcip := None; ov_srcmac := None |} =
     Ok {| o_iface := v6only; o_srcip := None; o_srcmac := Some [2; 0; 0; 0; 0; 5]; o_vpn := false |}.
Proof. split; vm_compute; reflexivity. Qed.

Example C17_ex_arp_needs_mac :
  choose_arp host (tnet 10 8 0 2 [255; 255; 255; 255]) no_ov = Err ErrSrcMAC.
Proof. vm_compute. reflexivity. Qed.

Example C17_ex_no_interface :
  choose {| ifaces := [eth0]; ifaces_err := false; routes := [dflt 2 2147483647]; routes_err := false |}
         (tnet 203 0 113 0 [255; 255; 255; 0]) no_ov = Err ErrSrcInterface.
Proof. vm_compute. reflexivity. Qed.

(* the hypotheses of the general theorems are satisfiable: they apply to [host] *)
Example C17_ex_best_default : best_default (routes host) (dflt 4 50).
Proof.
  exists [dflt 3 100], [dflt 2 50; {| rt_dst_nil := true; rt_src_nil := false; rt_link := 2; rt_prio := 1; rt_gw := [] |}].
  split; [reflexivity|]. split; [reflexivity|]. split; [reflexivity|]. split.
  - intros r' [<-|[]] _. reflexivity.
  - intros r' [<-|[<-|[]]] H; [discriminate|discriminate H].
Qed.

Example C17_ex_first_cover :
  first_cover {| t_ip := [10; 1; 2; 0]; t_mask := [255; 255; 255; 0] |} eth0
              {| a_ip := v4 10 1 2 3; a_mask := [255; 255; 255; 0]; a_ipnet := true |}.
Proof. exists [], [ll6]. split; [reflexivity|]. split; [intros b []|vm_compute; reflexivity]. Qed.

Example C17_ex_cidr_mask : cidr_mask 19 4 = [255; 255; 224; 0] /\ cidr_mask 0 4 = [0; 0; 0; 0] /\ cidr_mask 32 4 = [255; 255; 255; 255].
Proof. repeat split; vm_compute; reflexivity. Qed.

Example C17_ex_covers_arith :
  covers (v4_target [10; 1; 2; 0] 24) (v4_addr [10; 1; 0; 1] 16) = true /\
  be [10; 1; 0; 1] / 2 ^ (32 - 16) = be [10; 1; 2; 0] / 2 ^ (32 - 16).
Proof. split; vm_compute; reflexivity. Qed.

(* fe80::/64 (ParseCIDR: 16-byte mask), ::ffff:10.9.9.0/120 (IPv4-mapped: 16-byte mask), 2001:db8::5 and
   ::ffff:10.1.2.3 (not Is4): refused before [host] is looked at; 10.1.2.0/24 and 10.1.2.77 accepted *)
Example C17_ex_v6_targets_refused :
  run_arp host (Some (TxtCIDR ([254; 128] ++ repeat 0 14) (repeat 255 8 ++ repeat 0 8))) no_ov = Err ErrTarget /\
  run host (Some (TxtCIDR (repeat 0 10 ++ [255; 255; 10; 9; 9; 0]) (repeat 255 15 ++ [0]))) no_ov = Err ErrTarget /\
  run host (Some (TxtAddr false ([32; 1; 13; 184] ++ repeat 0 11 ++ [5]))) no_ov = Err ErrTarget /\
  run host (Some (TxtAddr false (repeat 0 10 ++ [255; 255; 10; 1; 2; 3]))) no_ov = Err ErrTarget /\
  run host (Some TxtJunk) no_ov = Err ErrTarget /\
  run host (Some (TxtAddr false [])) {| ov_iface := "nosuch0"; ov_srcip := None; ov_srcmac := None |} = Err ErrIfaceName.
Proof. repeat split; vm_compute; reflexivity. Qed.

Example C17_ex_v4_targets_accepted :
  run host (Some (TxtCIDR [10; 1; 2; 0] [255; 255; 255; 0])) no_ov = choose host (tnet 10 1 2 0 [255; 255; 255; 0]) no_ov /\
  run host (Some (TxtAddr true [10; 1; 2; 77])) no_ov =
  Ok {| o_iface := eth0; o_srcip := Some [10; 1; 2; 3]; o_srcmac := Some [2; 0; 0; 0; 0; 2]; o_vpn := false |}.
Proof. split; vm_compute; reflexivity. Qed.

Print Assumptions C17_attached.
Print Assumptions C17_attached_plain.
Print Assumptions C17_attached_iface.
Print Assumptions C17_fallback_iface.
Print Assumptions C17_fallback_default.
Print Assumptions C17_fallback_none.
Print Assumptions C17_fallback_order.
Print Assumptions C17_overrides_win.
Print Assumptions C17_overrides_keep_interface.
Print Assumptions C17_vpn_iff_no_mac.
Print Assumptions C17_error_not_empty_source.
Print Assumptions C17_error_not_empty_source_refuted_orig.
Print Assumptions C17_fix_conservative.
Print Assumptions C17_selection_complete_iface.
Print Assumptions C17_selection_complete_auto.
Print Assumptions C17_fallback_first_default.
Print Assumptions C17_covers_v4.
Print Assumptions C17_covers_v4_subnet.
Print Assumptions C17_gateway_of_best_route.
Print Assumptions C17_non_ipv4_target_refused.
Print Assumptions C17_target_refused_iff.
Print Assumptions C17_target_accepted.
Print Assumptions C17_target_total.
