(* C06 -- Receive path: arbitrary frames never crash it and never yield phantom data.

   Statements only; proofs live in Proofs/.  [process k vpn valid st f] is one call of
   ProcessPacketData (Model/Process.v over Model/Decode.v); [code_valid] is the validity test
   translated from the CURRENT sources (Gen/ValidPacket.v, regenerated on every run), so every theorem
   below is about the code as it is now: k ranges over the tcp (both filter/flag wirings), icmp (also
   the udp scan) and arp processors, vpn over both link modes, st over ALL decoder-struct contents
   (= all histories of earlier frames), f / fs over ALL lists of integers (not only bytes).

   On the code as found (acceptance by the NUMBER of decoded layers, [valid_orig]) the property is
   false: see the _refuted_orig theorems at the end; their witnesses are replayed on the real code by
   checks/c06.py. *)
From Coq Require Import ZArith List Bool Lia.
From SX Require Import Base.Bytes Model.Decode Model.Process Gen.ValidPacket Spec.C06
  Proofs.DecodeProofs Proofs.ProcessProofs Proofs.ValidPacketProofs.
Import ListNotations.
Open Scope Z_scope.

(* the tie of the hand-written parts of the model to the sources: validPacket of the three packages,
   as translated from the current sources, accepts only the exact header chain of the scanned
   protocol (ARP: and only address sizes 6/4), accepts every such chain ([valid_fixed], needed for the
   "reported iff" of C03), and looks only at structs of decoded layers; the parsers have exactly the
   modelled decoders and ignore unsupported layer types *)
Theorem C06_valid_packet_translated : forall k,
  valid_sound k (code_valid k) /\ valid_respects (code_valid k) /\
  (forall dec st, valid_fixed k dec st = true -> code_valid k dec st = true).
Proof. intros k. exact (conj (code_valid_sound k) (conj (code_valid_respects k) (code_valid_complete k))). Qed.

Theorem C06_parsers_translated :
  (forall k t, has_dec k t = existsb (ltype_eqb t) (code_decoders k)) /\ code_ignore_unsupported = true.
Proof. exact (conj code_decoders_ok code_ignore_unsupported_ok). Qed.

(* every frame of every sequence is processed (one outcome per frame: the receiver is never killed),
   no call panics outside gopacket's recover, and no call exhausts the model's fuel (termination) *)
Theorem C06_total_no_crash : forall k vpn st fs,
  length (run k vpn (code_valid k) st fs) = length fs /\
  Forall (fun o => o <> OCrash /\ o <> OError EFuel) (run k vpn (code_valid k) st fs).
Proof. intros k vpn st fs. exact (run_total k (code_valid k) (code_valid_sound k) vpn fs st). Qed.

(* at most one record per frame: a call yields exactly one outcome, so a sequence of n frames
   yields at most n records *)
Theorem C06_at_most_one : forall k vpn st fs,
  (length (filter is_record (run k vpn (code_valid k) st fs)) <= length fs)%nat.
Proof.
  intros k vpn st fs.
  destruct (run_total k (code_valid k) (code_valid_sound k) vpn fs st) as [<- _]. apply filter_length_le.
Qed.

(* a record is emitted only if THAT frame has the well-formed header chain of the scanned protocol *)
Theorem C06_only_from_chain : forall k vpn st f st' r,
  process k vpn (code_valid k) st f = (st', ORecord r) -> has_chain k vpn f = true.
Proof.
  intros k vpn st f st' r H. exact (proj1 (process_record k (code_valid k) (code_valid_sound k) vpn st f st' r H)).
Qed.

(* every field of the record is read off that same frame *)
Theorem C06_record_fields : forall k vpn st f st' r,
  process k vpn (code_valid k) st f = (st', ORecord r) -> r = fields_of k vpn f.
Proof.
  intros k vpn st f st' r H. exact (proj2 (process_record k (code_valid k) (code_valid_sound k) vpn st f st' r H)).
Qed.

(* nothing is left over from earlier frames: the outcome of a call is the same from any two
   decoder states ... *)
Theorem C06_no_stale : forall k vpn st1 st2 f,
  snd (process k vpn (code_valid k) st1 f) = snd (process k vpn (code_valid k) st2 f).
Proof. intros k. exact (process_indep k (code_valid k) (code_valid_sound k) (code_valid_respects k)). Qed.

(* ... lifted to sequences: all outcomes of a sequence are independent of the initial state, and
   the i-th outcome is what the i-th frame alone produces on a fresh processor *)
Theorem C06_no_stale_seq : forall k vpn fs st1 st2,
  run k vpn (code_valid k) st1 fs = run k vpn (code_valid k) st2 fs.
Proof. intros k. exact (run_indep k (code_valid k) (code_valid_sound k) (code_valid_respects k)). Qed.

Theorem C06_frame_alone : forall k vpn fs st i, (i < length fs)%nat ->
  nth i (run k vpn (code_valid k) st fs) ONone = snd (process k vpn (code_valid k) init_state (nth i fs [])).
Proof. intros k. exact (run_nth k (code_valid k) (code_valid_sound k) (code_valid_respects k)). Qed.

(* the property in one statement, over histories: whatever was received before, a record at
   position i means frame i has the header chain and the record is frame i's own *)
Theorem C06_sequence : forall k vpn fs st i r,
  nth i (run k vpn (code_valid k) st fs) ONone = ORecord r ->
  has_chain k vpn (nth i fs []) = true /\ r = fields_of k vpn (nth i fs []).
Proof.
  intros k vpn fs st i r H.
  destruct (Nat.lt_ge_cases i (length fs)) as [Hi|Hi].
  - rewrite (run_nth k (code_valid k) (code_valid_sound k) (code_valid_respects k) vpn fs st i Hi) in H.
    destruct (process k vpn (code_valid k) init_state (nth i fs [])) as [st' o] eqn:E. cbn in H. subst o.
    exact (process_record k (code_valid k) (code_valid_sound k) vpn _ _ _ _ E).
  - rewrite nth_overflow in H; [discriminate|].
    destruct (run_total k (code_valid k) (code_valid_sound k) vpn fs st) as [-> _]. exact Hi.
Qed.

(* ------------------------------------------------------------------ non-vacuity *)
Definition ex_eth : bytes := [2; 0; 0; 0; 0; 1; 2; 0; 0; 0; 0; 2; 8; 0].
(* SYN+ACK from 10.0.0.1:80 *)
Definition ex_synack : bytes :=
  ex_eth ++ [69; 0; 0; 40; 0; 1; 64; 0; 64; 6; 0; 0; 10; 0; 0; 1; 192; 168; 0; 9]
         ++ [0; 80; 156; 64; 0; 0; 0; 1; 0; 0; 0; 2; 80; 18; 250; 240; 0; 0; 0; 0].
(* IP-in-IP (protocol 4), inner header from 7.7.7.7 announcing TCP, no TCP header *)
Definition ex_ipip : bytes :=
  ex_eth ++ [69; 0; 0; 40; 0; 2; 0; 0; 64; 4; 0; 0; 10; 0; 0; 2; 192; 168; 0; 9]
         ++ [69; 0; 0; 20; 0; 3; 0; 0; 77; 6; 0; 0; 7; 7; 7; 7; 192; 168; 0; 9].
(* ICMP echo reply from 10.0.0.7, ttl 61 *)
Definition ex_icmp : bytes :=
  ex_eth ++ [69; 0; 0; 28; 0; 1; 0; 0; 61; 1; 0; 0; 10; 0; 0; 7; 192; 168; 0; 9] ++ [0; 0; 255; 255; 0; 1; 0; 1].
Definition ex_eth_arp : bytes := [255; 255; 255; 255; 255; 255; 0; 17; 34; 51; 68; 85; 8; 6].
(* ARP reply: 00:11:22:33:44:55 is at 10.0.0.3 *)
Definition ex_arp : bytes :=
  ex_eth_arp ++ [0; 1; 8; 0; 6; 4; 0; 2; 0; 17; 34; 51; 68; 85; 10; 0; 0; 3; 2; 0; 0; 0; 0; 1; 10; 0; 0; 9].
(* 22-byte ARP frame with hardware and protocol address sizes 0 *)
Definition ex_arp_zero : bytes := ex_eth_arp ++ [0; 1; 8; 0; 0; 0; 0; 2].
(* ARP with 8-byte hardware and 16-byte protocol addresses *)
Definition ex_arp_8_16 : bytes :=
  ex_eth_arp ++ [0; 1; 8; 0; 8; 16; 0; 2] ++ repeat 9 8 ++ repeat 7 16 ++ repeat 0 8 ++ repeat 1 16.

Example C06_ex_tcp :
  run (KTcp pf_true true) false (code_valid (KTcp pf_true true)) init_state [ex_synack; ex_ipip; ex_synack]
  = [ORecord (RTcp [10; 0; 0; 1] 80 [115; 97]); ONone; ORecord (RTcp [10; 0; 0; 1] 80 [115; 97])].
Proof. vm_compute. reflexivity. Qed.
Example C06_ex_tcp_vpn :
  run (KTcp pf_syn_ack false) true (code_valid (KTcp pf_syn_ack false)) init_state [skipn 14 ex_synack; skipn 14 ex_ipip]
  = [ORecord (RTcp [10; 0; 0; 1] 80 []); ONone].
Proof. vm_compute. reflexivity. Qed.
Example C06_ex_icmp :
  run KIcmp false (code_valid KIcmp) init_state [ex_icmp; firstn 40 ex_icmp]
  = [ORecord (RIcmp [10; 0; 0; 7] 61 0 0); OError EIcmpShort].
Proof. vm_compute. reflexivity. Qed.
Example C06_ex_arp :
  run KArp false (code_valid KArp) init_state [ex_arp; ex_arp_zero; ex_arp_8_16]
  = [ORecord (RArp [10; 0; 0; 3] [0; 17; 34; 51; 68; 85] [0; 17; 34]); ONone; ONone].
Proof. vm_compute. reflexivity. Qed.
Example C06_ex_chain : has_chain (KTcp pf_true true) false ex_synack = true /\ has_chain (KTcp pf_true true) false ex_ipip = false
                       /\ has_chain KArp false ex_arp = true /\ has_chain KIcmp false ex_icmp = true.
Proof. vm_compute. repeat split; reflexivity. Qed.

(* ------------------------------------------------------------------ the code as found violates C06 *)
(* acceptance by the number of decoded layers: after a SYN+ACK from 10.0.0.1:80 the IP-in-IP frame,
   which has no TCP header, is reported as "7.7.7.7 port 80 sa" -- a phantom record whose port and
   flags are left over from the earlier frame *)
Theorem C06_no_stale_refuted_orig : exists k vpn fs i r,
  nth i (run k vpn (valid_orig k) init_state fs) ONone = ORecord r /\
  has_chain k vpn (nth i fs []) = false /\
  snd (process k vpn (valid_orig k) init_state (nth i fs [])) <> ORecord r.
Proof.
  exists (KTcp pf_true true), false, [ex_synack; ex_ipip], 1%nat, (RTcp [7; 7; 7; 7] 80 [115; 97]).
  vm_compute. repeat split; try reflexivity. discriminate.
Qed.

(* the 22-byte ARP frame with zero address sizes panics outside gopacket's recover *)
Theorem C06_no_crash_refuted_orig : exists f,
  snd (process KArp false (valid_orig KArp) init_state f) = OCrash.
Proof. exists ex_arp_zero. vm_compute. reflexivity. Qed.

(* ARP with address sizes other than 6/4 is reported *)
Theorem C06_arp_sizes_refuted_orig : exists f r,
  snd (process KArp false (valid_orig KArp) init_state f) = ORecord r /\ has_chain KArp false f = false.
Proof.
  exists ex_arp_8_16, (RArp (repeat 7 16%nat) (repeat 9 8%nat) [9; 9; 9]). vm_compute. split; reflexivity.
Qed.

Print Assumptions C06_valid_packet_translated.
Print Assumptions C06_parsers_translated.
Print Assumptions C06_total_no_crash.
Print Assumptions C06_at_most_one.
Print Assumptions C06_only_from_chain.
Print Assumptions C06_record_fields.
Print Assumptions C06_no_stale.
Print Assumptions C06_no_stale_seq.
Print Assumptions C06_frame_alone.
Print Assumptions C06_sequence.
Print Assumptions C06_no_stale_refuted_orig.
Print Assumptions C06_no_crash_refuted_orig.
Print Assumptions C06_arp_sizes_refuted_orig.
