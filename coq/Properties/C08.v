(* C08 -- Application scans: each target probed once, each outcome reported once.
   The network is Model/AppEngine.v (request source, W workers, supervisor, result copier, logger,
   error drain, the caller of startScanEngine) over Base/Net.v.  Every theorem holds for every
   worker count W, request list, Scan outcome function, request-channel capacity and schedule. *)
From stdpp Require Import gmultiset list.
From SX Require Model.AppWiringShape.
From SX Require Import Base.Net Base.NetExec Model.AppEngine Model.AppEngineShape
                       Proofs.AppEngineProofs Proofs.AppEngineOrder Proofs.AppEngineScans.

(* every generated target is accounted for, in every reachable state that was not cancelled *)
Theorem C08_conservation : forall W scan_out cap reqs n,
  reachable (beh W scan_out) (init W cap reqs) n -> cancelled n = false ->
  potential weight tok_val tok_ev n = ids_of reqs.
Proof. exact engine_conservation. Qed.

(* no target is ever probed twice, and a request that carries an error is never probed *)
Theorem C08_probe_at_most_once : forall W scan_out reqs cap n id,
  reachable (beh W scan_out) (init W cap reqs) n -> cancelled n = false ->
  multiplicity id (scans_of n) <= multiplicity id (good_ids reqs).
Proof. exact engine_probe_at_most_once. Qed.

(* completion is signalled only after all probes have finished: when done is closed, every
   error-free target has been probed exactly once *)
Theorem C08_probe_once : forall W scan_out reqs, NoDup (fst <$> reqs) -> forall cap n id,
  0 < W -> reachable (beh W scan_out) (init W cap reqs) n -> cancelled n = false ->
  chan_closed n c_done -> has reqs id false -> multiplicity id (scans_of n) = 1.
Proof. exact engine_probe_once. Qed.

(* the same as one statement about the whole log: when completion is signalled the targets handed to
   Scan, in call order, are a permutation of the error-free requests -- none missing, none extra,
   none repeated *)
Theorem C08_scans_exact : forall W scan_out reqs, NoDup (fst <$> reqs) -> forall cap n,
  0 < W -> reachable (beh W scan_out) (init W cap reqs) n -> cancelled n = false -> chan_closed n c_done ->
  scan_list n ≡ₚ good_list reqs.
Proof. exact engine_scans_exact. Qed.

(* ... and the error records: once completion is signalled and the error stream is drained, the ids logged by the
   error drain are a permutation of the requests that carried an error or whose probe failed -- each once *)
Theorem C08_errors_exact : forall W scan_out reqs, NoDup (fst <$> reqs) -> forall cap n,
  0 < W -> reachable (beh W scan_out) (init W cap reqs) n -> cancelled n = false -> chan_closed n c_done ->
  (forall ch, chans n !! c_errc = Some ch -> cbuf ch = []) ->
  (forall j l, procs n !! j = Some l -> role_of l = RDrain -> weight l = ∅) ->
  errlog_list n ≡ₚ failed_list scan_out reqs.
Proof. exact engine_errors_exact. Qed.

(* results and errors agree with the fate of their request: a result is printed only for a target
   whose probe detected a service, an error is logged only for a failed request or probe *)
Theorem C08_fates : forall W scan_out reqs cap n,
  reachable (beh W scan_out) (init W cap reqs) n ->
  typed (PL scan_out reqs) (PV scan_out reqs) (PE scan_out reqs) n.
Proof. exact engine_typed. Qed.

(* everything detected before completion is printed (exactly once) if the result queues have been
   drained when the context is cancelled -- the explicit form of "exit delay >= drain time" *)
Theorem C08_printed_if_drained : forall W scan_out reqs, NoDup (fst <$> reqs) -> forall cap n id,
  0 < W -> reachable (beh W scan_out) (init W cap reqs) n -> cancelled n = false -> chan_closed n c_done ->
  (forall ch, chans n !! c_int = Some ch -> cbuf ch = []) ->
  (forall ch, chans n !! c_results = Some ch -> cbuf ch = []) ->
  (forall j l, procs n !! j = Some l -> role_of l = RCopier \/ role_of l = RLogger -> weight l = ∅) ->
  posfate scan_out reqs id ->
  multiplicity id (printed_of n) = 1 /\ multiplicity id (errlog_of n) = 0 /\ multiplicity id (negs_of n) = 0.
Proof. exact engine_printed_if_drained. Qed.

(* each failed probe yields exactly one error record once the error stream is drained *)
Theorem C08_errors_once : forall W scan_out reqs, NoDup (fst <$> reqs) -> forall cap n id,
  0 < W -> reachable (beh W scan_out) (init W cap reqs) n -> cancelled n = false -> chan_closed n c_done ->
  (forall ch, chans n !! c_errc = Some ch -> cbuf ch = []) ->
  (forall j l, procs n !! j = Some l -> role_of l = RDrain -> weight l = ∅) ->
  errfate scan_out reqs id ->
  multiplicity id (errlog_of n) = 1 /\ multiplicity id (printed_of n) = 0.
Proof. exact engine_errors_once. Qed.

Theorem C08_no_panic : forall W scan_out cap reqs n,
  reachable (beh W scan_out) (init W cap reqs) n -> panicked n = false.
Proof. exact engine_no_panic. Qed.

Theorem C08_shape : shape_ok = true.
Proof. vm_compute. reflexivity. Qed.

(* the worker count W of the model is the --workers option (validated > 0 by the option parser; the harness
   runs the engine built from the real option parsing): the statements that carry it from the option struct to
   the engine (genericScanCmdOpts.newScanEngine, scan.WithScanWorkerCount, scan.NewScanEngine; Gen/StmtShapes.v,
   regenerated on every run) are the pinned ones *)
Theorem C08_wiring_shape : AppWiringShape.shape_ok = true.
Proof. vm_compute. reflexivity. Qed.

(* ---- non-vacuity: 3 workers, 6 requests (one carries an error, two positive, one failing) ---- *)
(* scheduling policy of the example run: the request source's input never stalls *)
Definition no_stall (l : loc) : bool := match l with Src _ => true | _ => false end.
Definition ex_reqs := [(0, false); (1, true); (2, false); (3, false); (4, false); (5, false)].
Definition ex_out (id : nat) := match id with 0 | 4 => SPos | 3 => SFail | _ => SNeg end.
Definition ex_final := exec (beh 3 ex_out) (fun _ => 0) no_stall (rounds 60 9) (init 3 1 ex_reqs).
Example C08_ex_reachable : reachable (beh 3 ex_out) (init 3 1 ex_reqs) ex_final.
Proof. apply exec_reachable. apply R0. Qed.
Example C08_ex_state :
  cancelled ex_final = false /\ panicked ex_final = false /\
  (exists ch, chans ex_final !! c_done = Some ch /\ cclosed ch = true) /\
  log ex_final = [EScan 0; EScan 2; ENeg 2; EErrLog (VErr 1); EScan 3; EPrint (VRes 0); EScan 4; EScan 5;
                  ENeg 5; EErrLog (VErr 3); EPrint (VRes 4)].
Proof. vm_compute. repeat split; eauto. Qed.

Print Assumptions C08_conservation.
Print Assumptions C08_probe_at_most_once.
Print Assumptions C08_probe_once.
Print Assumptions C08_scans_exact.
Print Assumptions C08_errors_exact.
Print Assumptions C08_fates.
Print Assumptions C08_printed_if_drained.
Print Assumptions C08_errors_once.
Print Assumptions C08_no_panic.
Print Assumptions C08_shape.
Print Assumptions C08_wiring_shape.
