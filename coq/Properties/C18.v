(* C18 -- Option parsing is total, and exact on everything it accepts.
   Only statements, each closed by [exact]/[apply] of a lemma from Proofs/; the tables and constants come
   from Gen.ParserTables, regenerated from command/config.go, command/tcp.go, pkg/scan/tcp/tcp.go and
   gopacket on every run.  Totality of the model is by construction: every parser below is a total
   Gallina function on all byte strings (no fuel runs out on any input: see the [_total] theorems).
   The models describe the code WITH the fixes of /verif/fixes/c18; the [_v0] definitions describe the
   code before the fixes and are refuted below. *)
From Coq Require Import ZArith List Bool String.
From SX Require Import Base.Bytes Model.Unquote Model.Duration Gen.ParserTables Model.Parsers.
From SX Require Import Proofs.ParsersDecimal Proofs.DurationProofs Proofs.ParsersProofs Proofs.UnquoteProofs.
Import ListNotations.
Open Scope Z_scope.
Local Open Scope list_scope.

(* ---------------------------------------------------------------- ports *)

(* parsePortRange accepts s as (a, b) exactly when s is one decimal number (a = b) or two decimal
   numbers joined by one dash, a and b are the numbers written, and both are at most 65535 *)
Theorem C18_port_range_exact : forall s a b,
  parse_port_range s = Some (a, b) <-> denotes_port_range s a b.
Proof. exact parse_port_range_exact. Qed.

Theorem C18_port_range_in_bounds : forall s a b,
  parse_port_range s = Some (a, b) -> 0 <= a <= 65535 /\ 0 <= b <= 65535.
Proof. intros s a b H. apply (denotes_port_range_bounds s). apply parse_port_range_exact. exact H. Qed.

(* the code before the fix (more than two dash-separated parts were ignored) violates exactness *)
Theorem C18_port_range_v0_refuted :
  exists s a b, parse_port_range_v0 s = Some (a, b) /\ ~ denotes_port_range s a b.
Proof. exact parse_port_range_v0_refuted. Qed.

(* parsePortRanges: accepted iff the string is a comma-joined, non-empty sequence of range strings, and
   then the result is exactly the sequence of denoted ranges, in order *)
Theorem C18_port_ranges_exact : forall s l,
  parse_port_ranges s = Some l <-> denotes_port_ranges s l.
Proof. exact parse_port_ranges_exact. Qed.

(* round trip: every non-empty list of port ranges, each rendered a-b (or as one number when a = b),
   joined by commas, parses back to exactly that list *)
Theorem C18_port_ranges_roundtrip : forall pieces l,
  l <> [] -> Forall port_pair_ok l -> Forall2 renders_range pieces l ->
  parse_port_ranges (join 44 pieces) = Some l.
Proof. exact parse_port_ranges_roundtrip. Qed.

(* validatePorts accepts exactly the non-empty lists whose ranges have start <= end; together with
   exactness: what reaches the scan is a non-empty list of ranges 0 <= start <= end <= 65535 *)
Theorem C18_ports_validated : forall s l,
  parse_port_ranges s = Some l -> validate_ports l = true ->
  l <> [] /\ Forall (fun r => 0 <= fst r <= snd r /\ snd r <= 65535) l.
Proof.
  intros s l H V. apply validate_ports_spec in V. destruct V as [V1 V2]. split; [exact V1|].
  destruct (parse_port_ranges_bounds s l H) as [_ B]. rewrite Forall_forall in *. intros r Hr.
  specialize (B r Hr). specialize (V2 r Hr). destruct B as [[B1 B2] [B3 B4]]. repeat split; assumption.
Qed.

(* ---------------------------------------------------------------- TCP flags *)

(* certificate of the generated tables, checked by the kernel's VM: every key of tcpPacketFlagOptions
   is one of the nine RFC flag names, the option it maps to sets (through the With* constructor, the
   PacketFiller field and the layers.TCP literal in Fill) exactly that flag's header bit, all nine names
   are keys, no constructor clears a field and no header flag is constantly set *)
Theorem C18_tcp_table_certificate : tcp_table_check = true.
Proof. vm_compute. reflexivity. Qed.

(* accepted iff empty (no flags) or a comma-joined sequence of the nine names in any letter case; the
   result is the sequence of lower-cased names in the order written *)
Theorem C18_tcp_flags_exact : forall s names,
  parse_tcp_flags s = Some names <-> denotes_flags rfc_tcp_flags s names.
Proof. exact (parse_tcp_flags_exact C18_tcp_table_certificate). Qed.

(* each named flag sets exactly its own bit: the flag bits of the header built from the parsed names
   are the union of the RFC bits of the names, whatever the order, repetition and letter case *)
Theorem C18_tcp_flags_bits : forall s names,
  parse_tcp_flags s = Some names -> tcp_flag_bits names = rfc_bits rfc_tcp_flags names.
Proof. exact (tcp_flags_bits_exact C18_tcp_table_certificate). Qed.

(* round trip: any sequence of flag names (any subset, order, repetition), each written in any letter
   case, joined by commas, parses to that sequence and sets exactly the union of their bits *)
Theorem C18_tcp_flags_roundtrip : forall pieces names,
  pieces <> [] ->
  Forall2 (fun p n => to_lower p = n /\ mem 44 p = false /\ is_flag_name rfc_tcp_flags n = true) pieces names ->
  parse_tcp_flags (join 44 pieces) = Some names /\ tcp_flag_bits names = rfc_bits rfc_tcp_flags names.
Proof.
  intros pieces names Hne H.
  assert (Hj : join 44 pieces <> []).
  { destruct H as [|p n ps ns [Hl [_ Hn]] Hrest]; [congruence|].
    assert (Hp : p <> []) by (intros ->; subst n; vm_compute in Hn; discriminate).
    destruct ps as [|p' ps']; [exact Hp|]. rewrite join_cons by discriminate.
    destruct p; [congruence|discriminate]. }
  assert (P : parse_tcp_flags (join 44 pieces) = Some names).
  { apply C18_tcp_flags_exact. right. split; [exact Hj|]. exists pieces. repeat split; assumption. }
  split; [exact P|]. exact (C18_tcp_flags_bits _ _ P).
Qed.

(* ---------------------------------------------------------------- IP flags *)

Theorem C18_ip_table_certificate : ip_table_check = true.
Proof. vm_compute. reflexivity. Qed.

(* accepted iff empty (value 0) or a comma-separated list of df / evil / mf in any letter case; the value
   is exactly the union of the header bits of the names written (mf 1, df 2, evil 4) *)
Theorem C18_ip_flags_exact : forall s v,
  parse_ip_flags s = Some v <->
  (s = [] /\ v = 0) \/
  (s <> [] /\ Forall (fun n => is_flag_name rfc_ip_flags n = true) (split_on 44 (to_lower s)) /\
   v = rfc_bits rfc_ip_flags (split_on 44 (to_lower s))).
Proof. exact (parse_ip_flags_exact C18_ip_table_certificate). Qed.

(* round trip: any sequence of df / evil / mf (any subset, order, repetition), each in any ASCII letter
   case, joined by commas, gives exactly the union of their header bits *)
Theorem C18_ip_flags_roundtrip : forall written names,
  names <> [] -> Forall ascii_bytes written ->
  Forall2 (fun w n => map lower_byte w = n /\ is_flag_name rfc_ip_flags n = true) written names ->
  parse_ip_flags (join 44 written) = Some (rfc_bits rfc_ip_flags names).
Proof. exact (parse_ip_flags_roundtrip C18_ip_table_certificate). Qed.

(* ---------------------------------------------------------------- ports file, exclusion file *)

(* parsePortsFile (with scanner.Err() reported): an accepted file accounts for EVERY content line of the
   file (text between newlines, one trailing CR dropped, comment cut at #, blanks trimmed, empty lines
   skipped), however long the lines are, in order; each is a port range string and the result is the
   sequence of denoted ranges *)
Theorem C18_ports_file_exact : forall data l,
  parse_ports_file data = Some l ->
  Forall2 (fun ln r => denotes_port_range ln (fst r) (snd r)) (content_lines 35 32 data) l.
Proof. exact parse_ports_file_exact. Qed.

(* the code before the fix returns what it read before a line of 64 KiB or more, without an error *)
Theorem C18_ports_file_v0_refuted :
  exists data l, parse_ports_file_v0 data = Some l /\
                 ~ Forall2 (fun ln r => denotes_port_range ln (fst r) (snd r)) (content_lines 35 32 data) l.
Proof. exact parse_ports_file_v0_refuted. Qed.

(* round trip: every list of port ranges written one per line parses back to exactly that list *)
Theorem C18_ports_file_roundtrip : forall l,
  Forall port_pair_ok l -> parse_ports_file (render_ports_file l) = Some l.
Proof. exact parse_ports_file_roundtrip. Qed.

(* parseExcludeFile, for ANY behaviour of ip.ParseIPNet (the oracle f): an accepted file has handed every
   content line to ParseIPNet, all were accepted, and the networks inserted are exactly their results in
   order; nothing after an over-long line is dropped *)
Theorem C18_exclude_file_exact : forall f data nets,
  parse_exclude f data = Some nets ->
  Forall2 (fun ln n => f ln = Some n) (content_lines 35 32 data) nets.
Proof. exact parse_exclude_exact. Qed.

Theorem C18_exclude_file_v0_refuted :
  exists f data nets, parse_exclude_v0 f data = Some nets /\
                      ~ Forall2 (fun ln n => f ln = Some n) (content_lines 35 32 data) nets.
Proof. exact parse_exclude_v0_refuted. Qed.

(* ---------------------------------------------------------------- rate limit *)

(* parseRateLimit accepts s as (n, d) exactly when s is a count (decimal digits, optional sign, below
   2^31, a minus only before zero), alone (then d is one second) or followed by one slash and a window
   text w; d is the non-negative duration that Go's duration syntax (Model/Duration.v) assigns to w, where
   a window starting with a unit reads as one such unit *)
Theorem C18_rate_exact : forall s n d,
  parse_rate_limit s = Some (n, d) <-> denotes_rate s n d.
Proof. exact parse_rate_limit_exact. Qed.

(* the code before the fix read the window .5s as 1.5s *)
Theorem C18_rate_v0_refuted :
  exists s n d, parse_rate_limit_v0 s = Some (n, d) /\ ~ denotes_rate s n d.
Proof. exact parse_rate_limit_v0_refuted. Qed.

(* round trips: every count below 2^31 alone, per bare unit (all eight unit names), per k units, and per
   any window of 0 .. 2^63-1 nanoseconds parses back to exactly that count and window *)
Theorem C18_rate_roundtrip_count : forall n,
  0 <= n < 2 ^ 31 -> parse_rate_limit (render_dec n) = Some (n, one_second).
Proof. exact rate_roundtrip_count. Qed.

Theorem C18_rate_roundtrip_unit : forall n u uv,
  0 <= n < 2 ^ 31 -> In (u, uv) unit_table -> parse_rate_limit (render_dec n ++ 47 :: u) = Some (n, uv).
Proof. exact rate_roundtrip_unit. Qed.

Theorem C18_rate_roundtrip_window : forall n k u uv,
  0 <= n < 2 ^ 31 -> In (u, uv) unit_table -> 0 <= k -> k * uv <= two63 - 1 ->
  parse_rate_limit (render_dec n ++ 47 :: render_dec k ++ u) = Some (n, k * uv).
Proof. exact rate_roundtrip_window. Qed.

Theorem C18_rate_roundtrip : forall n d,
  0 <= n < 2 ^ 31 -> 0 <= d <= two63 - 1 ->
  parse_rate_limit (render_dec n ++ 47 :: render_dec d ++ [110; 115]) = Some (n, d).
Proof. exact rate_roundtrip_ns. Qed.

(* ---------------------------------------------------------------- durations (time.ParseDuration model) *)

(* a window without a fraction: an accepted text is an optional sign followed by 0, or by components
   <digits><unit> with units from the table, and the value is the signed sum of digits * unit (the
   running sum is a uint64: it is the exact sum whenever that is below 2^64) *)
Theorem C18_duration_nofrac_exact : forall s d,
  parse_duration s = Some d -> mem 46 s = false ->
  let neg := fst (sign_split s) in
  let s1 := snd (sign_split s) in
  (s1 = [48] /\ d = 0) \/
  exists cs m,
    cs <> [] /\ Forall comp_ok cs /\ Forall (fun c => comp_val c <= two63) cs /\
    s1 = comps_text cs /\
    0 <= m <= two63 /\ m mod two64 = comps_val cs mod two64 /\
    (comps_val cs < two64 -> m = comps_val cs) /\
    d = (if neg then - m else m) /\ (neg = false -> m <= two63 - 1).
Proof. exact parse_duration_nofrac_exact. Qed.

(* every sequence of whole-number components with a total of at most 2^63-1 ns parses to its sum *)
Theorem C18_duration_roundtrip : forall cs,
  cs <> [] -> Forall comp_ok cs -> comps_val cs <= two63 - 1 ->
  parse_duration (comps_text cs) = Some (comps_val cs).
Proof. exact parse_duration_comps. Qed.

(* every accepted duration, fractions included, is an int64 *)
Theorem C18_duration_range : forall s d, parse_duration s = Some d -> - two63 <= d <= two63 - 1.
Proof. exact parse_duration_range. Qed.

(* totality of the model: the loop fuel handed out by parse_duration is always enough (the result does
   not depend on the fuel once it covers the text), so no input is rejected for lack of fuel *)
Theorem C18_duration_total : forall fuel1 fuel2 s d,
  (List.length s <= fuel1)%nat -> (List.length s <= fuel2)%nat -> dur_loop fuel1 s d = dur_loop fuel2 s d.
Proof. exact dur_loop_fuel. Qed.

(* ---------------------------------------------------------------- payload *)

(* parsePacketPayload accepts exactly the sentences of the grammar of Go interpreted-string bodies
   ([denotes_payload]: raw ASCII other than dquote, backslash, newline; well-formed UTF-8 sequences;
   simple escapes; \xHH; \ooo; \uXXXX; \UXXXXXXXX) and returns exactly the bytes denoted *)
Theorem C18_payload_exact : forall s bs,
  wf_bytes s = true -> (parse_payload s = Some bs <-> denotes_payload s bs).
Proof. exact payload_grammar_iff. Qed.

Theorem C18_payload_functional : forall s bs bs',
  denotes_payload s bs -> denotes_payload s bs' -> bs = bs'.
Proof. exact denotes_payload_functional. Qed.

(* round trips: every byte string written as \xHH\xHH... parses back to itself; every string of
   printable ASCII without dquote and backslash denotes itself *)
Theorem C18_payload_hex_roundtrip : forall bs,
  wf_bytes bs = true -> parse_payload (hex_escape bs) = Some bs.
Proof. exact payload_hex_roundtrip. Qed.

Theorem C18_payload_ascii_literal : forall bs,
  (forall b, In b bs -> 32 <= b <= 126 /\ b <> 34 /\ b <> 92) -> parse_payload bs = Some bs.
Proof. exact payload_ascii_literal. Qed.

(* the code before the fix turned a raw byte that is not UTF-8 into U+FFFD (three other bytes) *)
Theorem C18_payload_v0_refuted : parse_payload_v0 [255] = Some [239; 191; 189] /\ parse_payload [255] = None.
Proof. split; [exact payload_v0_replaces_ill_formed|vm_compute; reflexivity]. Qed.

(* ---------------------------------------------------------------- non-vacuity *)

Example C18_ex_range : parse_port_range (str "22-4567") = Some (22, 4567).
Proof. vm_compute. reflexivity. Qed.
Example C18_ex_range_rejects : parse_port_range (str "1-2-3") = None /\ parse_port_range (str "65536") = None.
Proof. vm_compute. split; reflexivity. Qed.
Example C18_ex_ranges : parse_port_ranges (str "80,443,8000-8100") = Some [(80, 80); (443, 443); (8000, 8100)].
Proof. vm_compute. reflexivity. Qed.
Example C18_ex_tcp : parse_tcp_flags (str "FIN,ack") = Some [str "fin"; str "ack"] /\ tcp_flag_bits [str "fin"; str "ack"] = 17.
Proof. vm_compute. split; reflexivity. Qed.
Example C18_ex_ip : parse_ip_flags (str "DF,evil") = Some 6.
Proof. vm_compute. reflexivity. Qed.
Example C18_ex_rate : parse_rate_limit (str "5000/7m") = Some (5000, 420000000000)
  /\ parse_rate_limit (str "1000/s") = Some (1000, 1000000000)
  /\ parse_rate_limit (str "5/.5s") = Some (5, 500000000) /\ parse_rate_limit (str "5//s") = None.
Proof. vm_compute. repeat split; reflexivity. Qed.
Example C18_ex_ports_file : parse_ports_file (str "80" ++ [13; 10] ++ str " 443 # tls" ++ [10; 10] ++ str "8000-8100")
                            = Some [(80, 80); (443, 443); (8000, 8100)].
Proof. vm_compute. reflexivity. Qed.
Example C18_ex_payload : parse_payload (str "\x01\x02ab") = Some [1; 2; 97; 98].
Proof. vm_compute. reflexivity. Qed.

Print Assumptions C18_port_range_exact.
Print Assumptions C18_port_range_in_bounds.
Print Assumptions C18_port_range_v0_refuted.
Print Assumptions C18_port_ranges_exact.
Print Assumptions C18_port_ranges_roundtrip.
Print Assumptions C18_ports_validated.
Print Assumptions C18_tcp_table_certificate.
Print Assumptions C18_tcp_flags_exact.
Print Assumptions C18_tcp_flags_bits.
Print Assumptions C18_tcp_flags_roundtrip.
Print Assumptions C18_ip_table_certificate.
Print Assumptions C18_ip_flags_exact.
Print Assumptions C18_ip_flags_roundtrip.
Print Assumptions C18_ports_file_exact.
Print Assumptions C18_ports_file_v0_refuted.
Print Assumptions C18_ports_file_roundtrip.
Print Assumptions C18_exclude_file_exact.
Print Assumptions C18_exclude_file_v0_refuted.
Print Assumptions C18_rate_exact.
Print Assumptions C18_rate_v0_refuted.
Print Assumptions C18_rate_roundtrip_count.
Print Assumptions C18_rate_roundtrip_unit.
Print Assumptions C18_rate_roundtrip_window.
Print Assumptions C18_rate_roundtrip.
Print Assumptions C18_duration_nofrac_exact.
Print Assumptions C18_duration_roundtrip.
Print Assumptions C18_duration_range.
Print Assumptions C18_duration_total.
Print Assumptions C18_payload_exact.
Print Assumptions C18_payload_functional.
Print Assumptions C18_payload_hex_roundtrip.
Print Assumptions C18_payload_ascii_literal.
Print Assumptions C18_payload_v0_refuted.
