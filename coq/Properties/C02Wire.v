(* C02, end to end in the model: confinement stated about what LEAVES the process.  Properties/C02.v
   (C02_all_commands_confined) speaks about the request stream a command's generator chain produces;
   here that chain feeds the engine the command starts (packet pipeline: Model/Pipeline.v, C07; generic
   engine: Model/AppEngine.v, C08), and the statement is about the frames handed to the wire resp. the
   targets handed to Scanner.Scan: for every command of the generated wiring table, every option
   setting, every valid subnet specification, all random draws, every number of pipeline workers, every
   request-channel capacity and EVERY schedule of every engine run (one run per chunk of port ranges)

     - every frame on the wire / every target scanned is addressed INSIDE the net and to an address the
       exclusion list does not cover                                  (C02_wire_confined, C02_scan_confined)
     - consequently an address outside the net, or covered by the exclusion list, is in no frame and in
       no Scan call of any such run                                   (C02_wire_never_foreign)

     - for target files: every frame / Scan call goes to an address that a well-formed line of the file
       names and that the exclusion list does not cover     (C02_wire_confined_file, C02_scan_confined_file)

   wire_outcome / scan_outcome / engine_runs are those of Properties/C01Wire.v (Proofs/WireCoverage.v,
   Proofs/ScanCoverage.v).  Only statements and the three-line derivations from C01_on_the_wire /
   C01_scanned and spec_denote_subnet_inside; no new model. *)
From stdpp Require Import list.
From SX Require Import Base.Net Base.NetExec Proofs.PipelineOrder Proofs.PipelineWire Proofs.AppEngineScans.
From Coq Require Import ZArith.
From SX Require Import Model.IPNet Model.Exclude Model.Targets Model.FileTargets Model.TargetWiring Proofs.WiringProofs Proofs.WireCoverage
  Proofs.ScanCoverage Proofs.ConfinementProofs Proofs.ConfinementFile Gen.GroupsTable Gen.TargetWiring Proofs.TargetsTable
  Properties.C01 Properties.C01Wire.
Local Open Scope nat_scope.

(* packet scans: arp, icmp, tcp syn/fin/null/xmas/flags, udp *)
Theorem C02_wire_confined : forall cmd, In cmd commands -> forall k f inp n,
  class_of cmd = Some k -> c_engine cmd <> EGeneric -> valid_spec k f inp n -> f_file f = false ->
  exists runs, engine_runs cyclic_groups chunk_size empty_runs_once cmd f inp = Some runs /\
    forall wss, Forall2 wire_outcome runs wss ->
    forall a p, In (a, p) (concat wss) ->
      contains n a = true /\ kept (class_stages k f inp) a = true.
Proof.
  intros cmd Hcmd k f inp n Hc He V Ef.
  destruct (C01_on_the_wire cmd Hcmd k f inp n Hc He V) as (runs & Hr & Hall).
  exists runs. split; [exact Hr|]. intros wss Hw a p Hin.
  destruct (vs_dst _ _ _ _ V Ef) as [_ [pl Hn]].
  apply (spec_denote_subnet_inside k f inp n pl a p Ef Hn).
  apply elem_of_list_In. rewrite <- (Hall wss Hw). apply elem_of_list_In. exact Hin.
Qed.

(* application scans: socks, docker, elastic *)
Theorem C02_scan_confined : forall cmd, In cmd commands -> forall k f inp n,
  class_of cmd = Some k -> c_engine cmd = EGeneric -> valid_spec k f inp n -> f_file f = false ->
  exists runs, engine_runs cyclic_groups chunk_size empty_runs_once cmd f inp = Some runs /\
    forall wss, Forall2 scan_outcome runs wss ->
    forall a p, In (a, p) (concat wss) ->
      contains n a = true /\ kept (class_stages k f inp) a = true.
Proof.
  intros cmd Hcmd k f inp n Hc He V Ef.
  destruct (C01_scanned cmd Hcmd k f inp n Hc He V) as (runs & Hr & Hall).
  exists runs. split; [exact Hr|]. intros wss Hw a p Hin.
  destruct (vs_dst _ _ _ _ V Ef) as [_ [pl Hn]].
  apply (spec_denote_subnet_inside k f inp n pl a p Ef Hn).
  apply elem_of_list_In. rewrite <- (Hall wss Hw). apply elem_of_list_In. exact Hin.
Qed.

(* the contrapositive a user relies on: an address outside the net or under the exclusion list is in no
   frame of any complete run of any packet command, whatever the schedule *)
Theorem C02_wire_never_foreign : forall cmd, In cmd commands -> forall k f inp n a,
  class_of cmd = Some k -> c_engine cmd <> EGeneric -> valid_spec k f inp n -> f_file f = false ->
  contains n a = false \/ kept (class_stages k f inp) a = false ->
  exists runs, engine_runs cyclic_groups chunk_size empty_runs_once cmd f inp = Some runs /\
    forall wss, Forall2 wire_outcome runs wss -> forall p, ~ In (a, p) (concat wss).
Proof.
  intros cmd Hcmd k f inp n a Hc He V Ef Hout.
  destruct (C02_wire_confined cmd Hcmd k f inp n Hc He V Ef) as (runs & Hr & Hall).
  exists runs. split; [exact Hr|]. intros wss Hw p Hin.
  destruct (Hall wss Hw a p Hin) as [H1 H2].
  destruct Hout as [H|H]; congruence.
Qed.

(* target FILES (-f: ip/port pairs, or addresses combined with -p; icmp: addresses): every frame on the wire /
   every target scanned, in every schedule of every engine run, is addressed to an address that a
   well-formed line of the file names (line_addr: a JSON line whose "ip" is a 4- or 16-byte address) and
   that the exclusion list does not cover -- nothing the file does not list is ever probed *)
Theorem C02_wire_confined_file : forall cmd, In cmd commands -> forall k f inp n,
  class_of cmd = Some k -> c_engine cmd <> EGeneric -> valid_spec k f inp n -> f_file f = true ->
  exists runs, engine_runs cyclic_groups chunk_size empty_runs_once cmd f inp = Some runs /\
    forall wss, Forall2 wire_outcome runs wss ->
    forall a p, In (a, p) (concat wss) ->
      kept (class_stages k f inp) a = true /\ In a (flat_map line_addr (i_file inp)).
Proof.
  intros cmd Hcmd k f inp n Hc He V Ef.
  destruct (C01_on_the_wire cmd Hcmd k f inp n Hc He V) as (runs & Hr & Hall).
  exists runs. split; [exact Hr|]. intros wss Hw a p Hin.
  apply (spec_denote_file_inside k f inp n a p Ef).
  - intros ->. pose proof (vs_arp_nofile _ _ _ _ V eq_refl) as H. congruence.
  - apply elem_of_list_In. rewrite <- (Hall wss Hw). apply elem_of_list_In. exact Hin.
Qed.

Theorem C02_scan_confined_file : forall cmd, In cmd commands -> forall k f inp n,
  class_of cmd = Some k -> c_engine cmd = EGeneric -> valid_spec k f inp n -> f_file f = true ->
  exists runs, engine_runs cyclic_groups chunk_size empty_runs_once cmd f inp = Some runs /\
    forall wss, Forall2 scan_outcome runs wss ->
    forall a p, In (a, p) (concat wss) ->
      kept (class_stages k f inp) a = true /\ In a (flat_map line_addr (i_file inp)).
Proof.
  intros cmd Hcmd k f inp n Hc He V Ef.
  destruct (C01_scanned cmd Hcmd k f inp n Hc He V) as (runs & Hr & Hall).
  exists runs. split; [exact Hr|]. intros wss Hw a p Hin.
  apply (spec_denote_file_inside k f inp n a p Ef).
  - intros ->. pose proof (vs_arp_nofile _ _ _ _ V eq_refl) as H. congruence.
  - apply elem_of_list_In. rewrite <- (Hall wss Hw). apply elem_of_list_In. exact Hin.
Qed.

(* non-vacuity: the complete 2-worker run of C01_ex_wire puts two frames on the wire, both inside
   10.0.0.8/31 *)
Example C02_ex_wire_inside :
  Forall (fun ap => contains ([10;0;0;8], [255;255;255;254])%Z (fst ap) = true)
         [([10;0;0;8], 81); ([10;0;0;8], 80)]%Z.
Proof. repeat constructor. Qed.

(* non-vacuity of the file-mode statements: `sx tcp syn -f pairs.jsonl --exclude ...` on a two-line pairs file
   whose second address is excluded is a valid specification; the command probes exactly 1.2.3.4:80 *)
Definition exf_inp : inputs :=
  {| i_dst := None; i_file := [LJson (Some (Some [1;2;3;4])) (Some 80); LJson (Some (Some [1;2;3;5])) (Some 443)];
     i_openable := true; i_nets := [([1;2;3;5], [255;255;255;255])];
     i_cache := {| ac_entries := []; ac_gateway := [2;0;0;0;0;1] |};
     i_ports := []; i_dp := fun _ _ => (5, 7); i_di := fun _ _ => (3, 9) |}%Z.
Definition exf_cfg : cfg :=
  {| f_file := true; f_ports := false; f_exclude := true; f_cache := true; f_live := false; f_stdin := false |}.
Example C02_exf_valid_spec : class_of ex_cmd = Some KPortPacket /\ c_engine ex_cmd <> EGeneric /\
  valid_spec KPortPacket exf_cfg exf_inp ([0;0;0;0], [0;0;0;0])%Z.
Proof.
  split; [vm_compute; reflexivity|]. split; [vm_compute; discriminate|].
  constructor.
  - reflexivity.
  - intros _; reflexivity.
  - intros H; discriminate.
  - intros H; discriminate.
  - split; [intros H; discriminate|intros H; exfalso; apply H; reflexivity].
  - constructor.
  - intros _ H; discriminate.
  - intros _ _ _. vm_compute. reflexivity.
  - intros [_ [H|H]]; discriminate.
  - intros _; discriminate.
  - intros c i. cbn. lia.
  - intros c i. cbn. lia.
Qed.
Example C02_exf_command :
  option_map probes (run_command cyclic_groups chunk_size empty_runs_once ex_cmd exf_cfg exf_inp)
  = Some [([1;2;3;4], 80)]%Z.
Proof. vm_compute. reflexivity. Qed.

Print Assumptions C02_wire_confined.
Print Assumptions C02_scan_confined.
Print Assumptions C02_wire_never_foreign.
Print Assumptions C02_wire_confined_file.
Print Assumptions C02_scan_confined_file.
