(* C07 -- Packet pipeline: nothing lost, duplicated or altered before the wire.
   The network is Model/Pipeline.v (source, N packetGenerator workers, N multiplexers + closer,
   sender, receiver, error mergers, error drain) over the interleaving semantics Base/Net.v.
   Every theorem holds for every number of workers N, every request list, every outcome of Fill
   and WritePacketData per request, every channel capacity of the request channel, and every
   schedule ([reachable] = any interleaving, cancellation possible at any moment). *)
From stdpp Require Import gmultiset list.
From SX Require Import Base.Net Base.NetExec Model.Pipeline Model.PipelineShape Proofs.PipelineProofs Proofs.PipelineOrder
                       Proofs.PipelineWire.

(* nothing lost, nothing duplicated, in every reachable state that was not cancelled: request ids
   held by goroutines + sitting in channel buffers + handed to the wire + logged as errors
   = the ids of the request stream (multisets) *)
Theorem C07_conservation : forall N fill_ok write_ok cap reqs n,
  reachable (beh N fill_ok write_ok) (init N cap reqs) n -> cancelled n = false ->
  potential weight tok_val tok_ev n = ids_of reqs.
Proof. exact pipeline_conservation. Qed.

(* no send on a closed channel, no double close, under every schedule and cancellation point *)
Theorem C07_no_panic : forall N fill_ok write_ok cap reqs n,
  reachable (beh N fill_ok write_ok) (init N cap reqs) n -> panicked n = false.
Proof. exact pipeline_no_panic. Qed.

(* every value in flight, local state and logged event agrees with the fate of its request: Fill
   is called only for error-free requests; a frame reaches the wire only for a request that is
   error-free, filled and written successfully; an error is logged only for a failed request *)
Theorem C07_fates : forall N fill_ok write_ok reqs cap n,
  reachable (beh N fill_ok write_ok) (init N cap reqs) n ->
  typed (PL N fill_ok write_ok reqs) (PV N fill_ok write_ok reqs) (PE fill_ok write_ok reqs) n.
Proof. exact pipeline_typed. Qed.

(* completion is signalled only after the last frame has been handed to the wire *)
Theorem C07_done_after_last_write : forall N fill_ok write_ok reqs,
  NoDup (fst <$> reqs) -> forall cap n id,
  0 < N -> reachable (beh N fill_ok write_ok) (init N cap reqs) n -> cancelled n = false ->
  chan_closed n (c_done N) -> wirefate fill_ok write_ok reqs id ->
  multiplicity id (wire_of n) = 1.
Proof. exact pipeline_done_after_last_write. Qed.

(* terminal state: frames written = frames of the error-free requests that filled and were written
   successfully, once each; every other request yields exactly one error; nothing else *)
Theorem C07_terminal : forall N fill_ok write_ok reqs,
  NoDup (fst <$> reqs) -> forall cap n id b,
  reachable (beh N fill_ok write_ok) (init N cap reqs) n -> cancelled n = false -> quiescent n ->
  has reqs id b ->
  (wirefate fill_ok write_ok reqs id -> multiplicity id (wire_of n) = 1 /\ multiplicity id (errs_of n) = 0) /\
  (~ wirefate fill_ok write_ok reqs id -> multiplicity id (wire_of n) = 0 /\ multiplicity id (errs_of n) = 1).
Proof. exact pipeline_terminal. Qed.

(* the same as one statement about the whole wire log: the ids of the frames handed to the wire, in
   write order, are a permutation of the ids of the requests that carry no error and whose Fill and
   WritePacketData succeed ([due]) -- none missing, none extra, none repeated *)
Theorem C07_wire_exact : forall N fill_ok write_ok reqs,
  NoDup (fst <$> reqs) -> forall cap n,
  reachable (beh N fill_ok write_ok) (init N cap reqs) n -> cancelled n = false -> quiescent n ->
  wire_list n ≡ₚ due fill_ok write_ok reqs.
Proof. exact pipeline_wire_exact. Qed.

(* ... and the error stream: the request errors logged by the drain are exactly the requests that did not
   become a frame (error attached, Fill failed, or the write failed), each exactly once *)
Theorem C07_errors_exact : forall N fill_ok write_ok reqs,
  NoDup (fst <$> reqs) -> forall cap n,
  reachable (beh N fill_ok write_ok) (init N cap reqs) n -> cancelled n = false -> quiescent n ->
  err_list n ≡ₚ errdue fill_ok write_ok reqs.
Proof. exact pipeline_errors_exact. Qed.

(* the goroutine structure of the current sources (Gen/Skeletons.v, regenerated on every run) is the
   one the behaviours of Model/Pipeline.v were written against (Model/PipelineShape.v) *)
Theorem C07_shape : shape_ok = true.
Proof. vm_compute. reflexivity. Qed.

(* ---- non-vacuity: a concrete run (2 workers, 5 requests: one carries an error, one fails to
   fill, one fails to write) reaches a state where done is closed, nothing was cancelled, and the
   log is as the theorems say ---- *)
(* scheduling policy of the example run: the request source's input never stalls *)
Definition no_stall (l : loc) : bool := match l with Src _ => true | _ => false end.
Definition ex_reqs := [(0, false); (1, true); (2, false); (3, false); (4, false)].
Definition ex_fill (id : nat) := negb (Nat.eqb id 2).
Definition ex_write (id : nat) := negb (Nat.eqb id 3).
Definition ex_final := exec (beh 2 ex_fill ex_write) (fun _ => 0) no_stall (rounds 40 12) (init 2 1 ex_reqs).

Example C07_ex_reachable : reachable (beh 2 ex_fill ex_write) (init 2 1 ex_reqs) ex_final.
Proof. apply exec_reachable. apply R0. Qed.
Example C07_ex_state :
  cancelled ex_final = false /\ panicked ex_final = false /\
  (exists ch, chans ex_final !! c_done 2 = Some ch /\ cclosed ch = true) /\
  log ex_final = [EFill 0; EFill 2; EWire 0; EFill 3; EFill 4; EErrOut (VErr 1); EWriteFail 3;
                  EErrOut (VErr 2); EWire 4; EErrOut (VErr 3)].
Proof. vm_compute. repeat split; eauto. Qed.

Print Assumptions C07_conservation.
Print Assumptions C07_no_panic.
Print Assumptions C07_fates.
Print Assumptions C07_done_after_last_write.
Print Assumptions C07_terminal.
Print Assumptions C07_wire_exact.
Print Assumptions C07_errors_exact.
Print Assumptions C07_shape.
