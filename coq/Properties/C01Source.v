(* C01 -- source tie of the hand-written model: the statements of the 249 functions this property's model, theorem
   hypotheses and harness scope rely on (Model/C01SourceShape.v; list in checks/source_pins.json) are, in the current
   sources (Gen/SourceShapes.v, regenerated on every run, local names canonical), the ones the model was validated
   against.  A change of any of these statements breaks this obligation; the check then searches the implementation
   for an input on which the property fails and reports no-failing-input-found when it finds none. *)
From SX Require Import Model.C01SourceShape.

Theorem C01_source_shape : shape_ok = true.
Proof. vm_compute. reflexivity. Qed.

Print Assumptions C01_source_shape.
