(* C10 -- Elasticsearch/Docker probes: reported iff JSON info was served; time-bounded.

   Statements only; proofs live in Proofs/HttpProbeProofs.v.  Gen.ProbeConsts is regenerated from
   pkg/scan/{elastic,docker} and command/{elastic,docker,config}.go on every run; in particular
   [elastic_rejects_nil_info] says whether Scan rejects a nil info map.

   Quantification: ALL scripts = for each request of a probe an arbitrary delay and either a
   transport failure or a response with an arbitrary status and a body of any class (object,
   object followed by other data, ill-typed object, null, other JSON value, empty, truncated, not
   JSON, endless, stalling), or no answer at all; every timeout; every cancellation time or none;
   both schemes, every address and port.

   What "a body that parses as a JSON object" means here (noted for the reader): the decoder reads
   ONE JSON value, so an object followed by arbitrary data counts as an object (BObjectTrailing);
   the elastic probe ignores the HTTP status (a 404 whose body is an object is reported -- the
   property statement does not mention the status); the docker probe requires 2xx/3xx.

   DEFECTS.  (1) elastic: the body "null" decodes into a nil map without an error, so the unrepaired
   code reports a record with "info":null.  Repaired by fixes/c09/fix-elastic-null.patch (Scan treats
   a nil info map as an error); C10_elastic_iff below is about the repaired code and does not compile
   against the unrepaired sources ([elastic_rejects_nil_info] = false there);
   C10_elastic_null_refuted_without_fix records the failing input.
   (2) docker: moby's client.Info decodes "null" into a zero types.Info without an error, so a peer
   answering /info with null is reported.  Not repaired (the decoding happens inside the moby
   client); the full statement
        forall T tg s, is_preport (p_out (docker_scan T None tg s)) = true <->
                       call_answers DObject (time left after the version negotiation) (d_info s)
   is FALSE of the faithful model: C10_docker_iff_refuted; C10_docker_iff_partial proves it for all
   scripts whose /info body is not null; C10_docker_iff gives the exact rule including null. *)
From Coq Require Import ZArith List Bool Lia.
From SX Require Import Model.Socks Model.HttpProbe Gen.ProbeConsts Spec.C10 Proofs.HttpProbeProofs.
Import ListNotations.
Open Scope Z_scope.

Theorem C10_wiring : probe_wiring_ok = true.
Proof. vm_compute. reflexivity. Qed.

(* ---------------------------------------------------------------- elastic *)
(* reported iff GET / is answered within the request timeout by a response (any status) whose body
   decodes as a JSON object; and then the record's info is that object *)
Theorem C10_elastic_iff : forall T tg s,
  is_preport (p_out (elastic_scan elastic_rejects_nil_info T None tg s)) = true <->
  answers_object decode_map (Z.max 0 T) (e_info s).
Proof. intros T tg s. exact (elastic_report_iff T tg s). Qed.

Theorem C10_elastic_info_is_object : forall T cancel tg s tg' k b,
  p_out (elastic_scan elastic_rejects_nil_info T cancel tg s) = PReport tg' k b -> k = IObject.
Proof. intros T cancel tg s tg' k b. exact (elastic_report_info_object T cancel tg s tg' k b). Qed.

(* the unrepaired code (no nil check) reports the body null *)
Theorem C10_elastic_null_refuted_without_fix :
  exists T tg s,
    is_preport (p_out (elastic_scan false T None tg s)) = true /\
    ~ answers_object decode_map (Z.max 0 T) (e_info s).
Proof.
  exists 100, (Target false [127;0;0;1] 9200),
         {| e_info := After 3 (EResp 200 BNull); e_indexes := After 3 (EResp 200 BObject) |}.
  split; [vm_compute; reflexivity|].
  intros [d [st [b [H [_ [_ Hd]]]]]]. cbn in H. injection H as _ _ <-. discriminate.
Qed.

(* ---------------------------------------------------------------- docker *)
(* exact rule of the code as it is: reported iff /info -- issued when the API version negotiation
   (/_ping) is over, with the time that is left of the probe's single timeout -- is answered 2xx/3xx
   with a body that decodes into types.Info: an object, or null *)
Theorem C10_docker_iff : forall T tg s,
  let limit := Z.max 0 (Z.max 0 T - docker_t0 T None s) in
  is_preport (p_out (docker_scan T None tg s)) = true <->
  call_answers DObject limit (d_info s) \/ call_answers DNull limit (d_info s).
Proof. exact docker_report_iff. Qed.

Theorem C10_docker_iff_partial : forall T tg s,
  (forall d st, d_info s <> After d (EResp st BNull)) ->
  let limit := Z.max 0 (Z.max 0 T - docker_t0 T None s) in
  is_preport (p_out (docker_scan T None tg s)) = true <-> call_answers DObject limit (d_info s).
Proof. exact docker_report_iff_partial. Qed.

Theorem C10_docker_iff_refuted :
  exists T tg s,
    is_preport (p_out (docker_scan T None tg s)) = true /\
    ~ call_answers DObject (Z.max 0 (Z.max 0 T - docker_t0 T None s)) (d_info s).
Proof.
  exists 100, (Target false [127;0;0;1] 2375),
         {| d_ping_head := After 1 (EResp 200 BEmpty); d_ping_get := Never;
            d_info := After 3 (EResp 200 BNull); d_version := After 3 (EResp 200 BObject) |}.
  split; [vm_compute; reflexivity|].
  intros [d [st [b [H [_ [_ [_ Hd]]]]]]]. cbn in H. injection H as _ _ <-. discriminate.
Qed.

(* the negotiation cannot take the probe beyond its deadline, and leaves what it did not use *)
Theorem C10_docker_negotiation_time : forall T cancel s, 0 <= docker_t0 T cancel s <= Z.max 0 T.
Proof. exact docker_t0_bounds. Qed.

(* ---------------------------------------------------------------- both *)
(* a failing (or succeeding, or different) secondary request never suppresses or falsifies the
   record: decision, target and info are the same whatever the index-list / version request does *)
Theorem C10_secondary_harmless_elastic : forall T cancel tg info idx1 idx2,
  same_primary (p_out (elastic_scan elastic_rejects_nil_info T cancel tg {| e_info := info; e_indexes := idx1 |}))
               (p_out (elastic_scan elastic_rejects_nil_info T cancel tg {| e_info := info; e_indexes := idx2 |})).
Proof. intros. apply elastic_secondary_harmless. Qed.

Theorem C10_secondary_harmless_docker : forall T cancel tg ph pg info v1 v2,
  same_primary
    (p_out (docker_scan T cancel tg {| d_ping_head := ph; d_ping_get := pg; d_info := info; d_version := v1 |}))
    (p_out (docker_scan T cancel tg {| d_ping_head := ph; d_ping_get := pg; d_info := info; d_version := v2 |})).
Proof. exact docker_secondary_harmless. Qed.

(* the index list is attached exactly when that request too was answered in time with an object *)
Theorem C10_elastic_indexes_iff : forall T tg s,
  (exists k, p_out (elastic_scan elastic_rejects_nil_info T None tg s) = PReport tg k true) <->
  answers_object decode_map (Z.max 0 T) (e_info s) /\ answers_object decode_map (Z.max 0 T) (e_indexes s).
Proof. intros T tg s. exact (elastic_secondary_iff T tg s). Qed.

(* scheme, address and port of the record are those of the probed target (also under cancellation) *)
Theorem C10_fields : forall T cancel tg tg' k b,
  (forall s, p_out (elastic_scan elastic_rejects_nil_info T cancel tg s) = PReport tg' k b -> tg' = tg) /\
  (forall s, p_out (docker_scan T cancel tg s) = PReport tg' k b -> tg' = tg).
Proof.
  intros. split; intros s H; [eapply elastic_fields|eapply docker_fields]; eassumption.
Qed.

(* TIME: elastic makes two requests, each under its own timeout; docker has one timeout for the whole
   probe.  For every script and every cancellation time; non-positive timeouts count as 0. *)
Theorem C10_time : forall T cancel tg,
  (forall s, 0 <= p_fin (elastic_scan elastic_rejects_nil_info T cancel tg s) <= 2 * Z.max 0 T) /\
  (forall s, 0 <= p_fin (docker_scan T cancel tg s) <= Z.max 0 T).
Proof. intros. split; intros s; [apply elastic_time|apply docker_time]. Qed.

Theorem C10_cancel_prompt : forall T tc tg,
  (forall s, p_fin (elastic_scan elastic_rejects_nil_info T (Some tc) tg s) <= Z.max 0 tc) /\
  (forall s, p_fin (docker_scan T (Some tc) tg s) <= Z.max 0 tc).
Proof. intros. split; intros s; [apply elastic_cancel_prompt|apply docker_cancel_prompt]. Qed.

(* defaults: 5 s per request from the CLI for both commands (NewScanner's own defaults are 5 s / 10 s) *)
Theorem C10_default_bounds : forall cancel tg,
  (forall s, p_fin (elastic_scan elastic_rejects_nil_info elastic_cli_default_timeout_ns cancel tg s) <= 10000000000) /\
  (forall s, p_fin (docker_scan docker_cli_default_timeout_ns cancel tg s) <= 5000000000).
Proof.
  intros. split; intros s.
  - pose proof (elastic_time elastic_rejects_nil_info elastic_cli_default_timeout_ns cancel tg s) as H.
    change (Z.max 0 elastic_cli_default_timeout_ns) with 5000000000 in H. lia.
  - pose proof (docker_time docker_cli_default_timeout_ns cancel tg s) as H.
    change (Z.max 0 docker_cli_default_timeout_ns) with 5000000000 in H. lia.
Qed.

(* ---------------------------------------------------------------- non-vacuity *)
Definition tg9200 := Target true [10;0;0;7] 9200.
Definition okr (b : body) := After 5 (EResp 200 b).

Example C10_ex_elastic_report :
  elastic_scan elastic_rejects_nil_info 100 None tg9200 {| e_info := okr BObject; e_indexes := okr BObject |}
  = {| p_out := PReport tg9200 IObject true; p_fin := 10; p_reqs := [SInfo; SIndexes] |}.
Proof. vm_compute. reflexivity. Qed.
(* a 404 with an object body, and an object followed by garbage, are reported; indexes may fail *)
Example C10_ex_elastic_404 :
  p_out (elastic_scan elastic_rejects_nil_info 100 None tg9200
           {| e_info := After 5 (EResp 404 BObjectTrailing); e_indexes := Never |})
  = PReport tg9200 IObject false.
Proof. vm_compute. reflexivity. Qed.
Example C10_ex_elastic_null :
  p_out (elastic_scan elastic_rejects_nil_info 100 None tg9200 {| e_info := okr BNull; e_indexes := okr BObject |})
  = PError.
Proof. vm_compute. reflexivity. Qed.
Example C10_ex_elastic_array_endless_stall :
  map (fun b => elastic_scan elastic_rejects_nil_info 100 None tg9200 {| e_info := okr b; e_indexes := okr BObject |})
      [BNonObject; BEndless; BTruncated]
  = [ {| p_out := PError; p_fin := 5; p_reqs := [SInfo] |};
      {| p_out := PError; p_fin := 100; p_reqs := [SInfo] |};
      {| p_out := PError; p_fin := 5; p_reqs := [SInfo] |} ].
Proof. vm_compute. reflexivity. Qed.
(* the bound 2T is attained: info just in time, index list stalls *)
Example C10_ex_elastic_tight :
  p_fin (elastic_scan elastic_rejects_nil_info 100 None tg9200
           {| e_info := After 99 (EResp 200 BObject); e_indexes := okr BStall |}) = 199.
Proof. vm_compute. reflexivity. Qed.
Example C10_ex_docker_report :
  docker_scan 100 None tg9200 {| d_ping_head := After 2 (EResp 200 BEmpty); d_ping_get := Never;
                                 d_info := okr BObject; d_version := okr BObject |}
  = {| p_out := PReport tg9200 IObject true; p_fin := 12; p_reqs := [SPingHead; SInfo; SVersion] |}.
Proof. vm_compute. reflexivity. Qed.
(* HEAD /_ping answered 404: GET /_ping follows; a stalling /_ping eats the whole timeout *)
Example C10_ex_docker_ping_fallback :
  p_reqs (docker_scan 100 None tg9200 {| d_ping_head := After 2 (EResp 404 BEmpty); d_ping_get := okr BGarbage;
                                         d_info := okr BObject; d_version := After 5 (EConnErr COther) |})
  = [SPingHead; SPingGet; SInfo; SVersion].
Proof. vm_compute. reflexivity. Qed.
Example C10_ex_docker_ping_stall :
  docker_scan 100 None tg9200 {| d_ping_head := Never; d_ping_get := Never; d_info := okr BObject; d_version := okr BObject |}
  = {| p_out := PError; p_fin := 100; p_reqs := [SPingHead] |}.
Proof. vm_compute. reflexivity. Qed.
Example C10_ex_docker_status :
  p_out (docker_scan 100 None tg9200 {| d_ping_head := After 2 (EResp 200 BEmpty); d_ping_get := Never;
                                        d_info := After 5 (EResp 404 BObject); d_version := okr BObject |}) = PError.
Proof. vm_compute. reflexivity. Qed.
Example C10_ex_answers_object : answers_object decode_map 100 (okr BObjectTrailing) /\ call_answers DObject 100 (okr BObject).
Proof. split; [exists 5, 200, BObjectTrailing|exists 5, 200, BObject]; cbn; repeat split; lia. Qed.

Print Assumptions C10_wiring.
Print Assumptions C10_elastic_iff.
Print Assumptions C10_elastic_info_is_object.
Print Assumptions C10_elastic_null_refuted_without_fix.
Print Assumptions C10_docker_iff.
Print Assumptions C10_docker_iff_partial.
Print Assumptions C10_docker_iff_refuted.
Print Assumptions C10_docker_negotiation_time.
Print Assumptions C10_secondary_harmless_elastic.
Print Assumptions C10_secondary_harmless_docker.
Print Assumptions C10_elastic_indexes_iff.
Print Assumptions C10_fields.
Print Assumptions C10_time.
Print Assumptions C10_cancel_prompt.
Print Assumptions C10_default_bounds.
