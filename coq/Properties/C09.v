(* C09 -- SOCKS5 probe: reported iff the server answers 05 00; always time-bounded.

   Statements only; proofs live in Proofs/SocksProofs.v.  [socks_proto] (Spec/C09.v) is the model
   instantiated with the constants tools/gen reads from pkg/scan/socks5 and command/socks.go on
   every run, so every theorem below is re-checked against what the sources say now.

   Quantification: ALL scripts = every dial outcome and delay (or a connection attempt that never
   completes), SetLinger failing or not, every write outcome and delay (or a write that blocks for
   ever), every finite sequence of read events (non-empty segments of arbitrary bytes, EOF, reset,
   each after an arbitrary delay; then silence for ever), every pair of timeouts, every
   cancellation time or none, every address and port. *)
From Coq Require Import ZArith List Bool Lia.
From SX Require Import Model.Socks Gen.SocksConsts Spec.C09 Proofs.SocksProofs.
Import ListNotations.
Open Scope Z_scope.

(* the sources still have the structure the model was written for (reply = two bytes Ver, Method
   decoded big-endian; request = Ver, NMethods, Methods in one Write; record fields taken from the
   request; --timeout wired to both the dial and the data timeout; and -- because scan.GenericEngine
   drives ONE Scanner from all its workers, while the model is of one probe -- the reply is decoded
   into a fresh local of Scan and Scan neither writes to the Scanner nor takes the address of one of
   its fields, so concurrent probes cannot see each other's bytes) *)
Theorem C09_wiring : socks_wiring_ok = true.
Proof. vm_compute. reflexivity. Qed.

(* the greeting is RFC 1928's 05 01 00, and a successful write hands exactly these bytes over *)
Theorem C09_greeting : greeting socks_proto = [5; 1; 0].
Proof. vm_compute. reflexivity. Qed.

Theorem C09_greeting_sent : forall t_dial t_data cancel ip port s l,
  r_sent (scan socks_proto t_dial t_data cancel ip port s) = Some l -> l = [5; 1; 0].
Proof. intros. rewrite <- C09_greeting. eapply scan_sent. eassumption. Qed.

(* THE DECISION RULE.  Without cancellation, for every script: the probe reports iff the connection
   is established (within the dial timeout, or without one when it is 0), SetLinger succeeds, the
   greeting is written within the data timeout, and the first two bytes of the stream the peer
   delivers -- the concatenation of the segments that arrive, each within one data timeout of the
   previous one, before any EOF / reset / over-long silence -- are 05 00.  The stream may be split
   into segments in any way and may continue with any bytes. *)
Theorem C09_iff : forall t_dial t_data ip port s,
  r_out (scan socks_proto t_dial t_data None ip port s) = Report ip port 5 <->
  dial_connects t_dial (s_dial s) /\ s_linger s = true /\ write_succeeds t_data (s_write s) /\
  firstn 2 (delivered (Z.max 0 t_data) (s_reads s)) = [5; 0].
Proof.
  intros. pose proof (scan_report_iff socks_proto t_dial t_data ip port s) as H. cbv zeta in H.
  change (p_result_version socks_proto) with 5 in H. rewrite H.
  pose proof (accepts_first_two socks_proto (delivered (Z.max 0 t_data) (s_reads s)) eq_refl) as A.
  change (p_accept_ver socks_proto) with 5 in A. change (p_accept_method socks_proto) with 0 in A.
  change (p_reply_len socks_proto) with 2%nat in *. tauto.
Qed.

(* the record carries the probed address and port (and version 5), also under cancellation; in
   particular nothing else is ever reported *)
Theorem C09_record : forall t_dial t_data cancel ip port s ip' port' v,
  r_out (scan socks_proto t_dial t_data cancel ip port s) = Report ip' port' v ->
  ip' = ip /\ port' = port /\ v = 5.
Proof. intros. eapply (scan_report_fields socks_proto). eassumption. Qed.

(* all 65536 two-byte replies, however the two bytes and whatever follows them are split into
   segments: a server that accepts, takes the greeting and delivers a stream starting with a, b in
   time is reported iff a = 5 and b = 0 *)
Theorem C09_all_replies : forall a b t_dial t_data ip port s tail,
  dial_connects t_dial (s_dial s) -> s_linger s = true -> write_succeeds t_data (s_write s) ->
  delivered (Z.max 0 t_data) (s_reads s) = a :: b :: tail ->
  (r_out (scan socks_proto t_dial t_data None ip port s) = Report ip port 5 <-> a = 5 /\ b = 0).
Proof.
  intros a b t_dial t_data ip port s tail Hd Hl Hw HD. rewrite C09_iff, HD. cbn [firstn].
  split.
  - intros [_ [_ [_ H]]]. injection H as -> ->. auto.
  - intros [-> ->]. auto.
Qed.

(* a stream that ends (EOF, reset, silence) before its second byte is never reported *)
Theorem C09_short_reply : forall t_dial t_data ip port s,
  (length (delivered (Z.max 0 t_data) (s_reads s)) < 2)%nat ->
  r_out (scan socks_proto t_dial t_data None ip port s) <> Report ip port 5.
Proof.
  intros t_dial t_data ip port s Hlen H. apply C09_iff in H. destruct H as [_ [_ [_ H]]].
  apply (f_equal (@length Z)) in H. rewrite firstn_length in H. cbn [length] in H. lia.
Qed.

(* "no record and no error" happens exactly when two bytes arrived and they are not 05 00; in every
   other case in which nothing is reported Scan returns an error (or, with dial timeout 0 only, hangs) *)
Theorem C09_nothing_iff : forall t_dial t_data ip port s,
  let D := delivered (Z.max 0 t_data) (s_reads s) in
  r_out (scan socks_proto t_dial t_data None ip port s) = Nothing <->
  dial_connects t_dial (s_dial s) /\ s_linger s = true /\ write_succeeds t_data (s_write s) /\
  (2 <= length D)%nat /\ firstn 2 D <> [5; 0].
Proof.
  intros. subst D. pose proof (scan_nothing_iff socks_proto t_dial t_data ip port s) as H. cbv zeta in H.
  rewrite H. change (p_reply_len socks_proto) with 2%nat.
  set (D := delivered (Z.max 0 t_data) (s_reads s)).
  pose proof (accepts_first_two socks_proto D eq_refl) as A.
  change (p_accept_ver socks_proto) with 5 in A. change (p_accept_method socks_proto) with 0 in A.
  change (p_reply_len socks_proto) with 2%nat in A.
  destruct (accepts socks_proto (firstn 2 D)) eqn:E.
  - split; [intros [_ [_ [_ [_ X]]]]; discriminate|].
    intros [_ [_ [_ [HL X]]]]. exfalso. apply X. apply A. auto.
  - split; intros [H1 [H2 [H3 [H4 _]]]]; repeat split; auto.
    intros X. apply A in X. destruct X as [_ X]. congruence.
Qed.

(* TIME.  For every script and every cancellation time, if the dial timeout is not 0 (0 means "no
   timeout" to net.Dialer), Scan returns, and it returns within the dial timeout plus three data
   timeouts: one write and at most two reads.  Negative timeouts count as 0. *)
Theorem C09_time : forall t_dial t_data cancel ip port s,
  t_dial <> 0 ->
  let r := scan socks_proto t_dial t_data cancel ip port s in
  r_out r <> Hang /\ r_out r <> OutOfFuel /\
  0 <= r_fin r <= Z.max 0 t_dial + 3 * Z.max 0 t_data /\ (r_reads r <= 2)%nat.
Proof.
  intros t_dial t_data cancel ip port s H.
  exact (scan_time socks_proto t_dial t_data cancel ip port s H).
Qed.

(* the hypothesis t_dial <> 0 of C09_time is necessary: with `--timeout 0` the connect phase has no
   deadline at all, so no bound B in terms of the configured timeouts holds for every network *)
Theorem C09_time_zero_dial_unbounded : forall t_data ip port B,
  exists s, B < r_fin (scan socks_proto 0 t_data None ip port s).
Proof. intros. apply scan_zero_dial_unbounded. Qed.

(* the fuelled ReadFull loop never runs out of fuel, whatever the timeouts *)
Theorem C09_total : forall t_dial t_data cancel ip port s,
  r_out (scan socks_proto t_dial t_data cancel ip port s) <> OutOfFuel.
Proof. intros. apply scan_total. Qed.

(* CANCELLATION.  (a) A probe whose context is cancelled at time tc returns by max(0, tc), for all
   timeouts (even a dial timeout of 0) and all scripts (even a peer that never answers). *)
Theorem C09_cancel_prompt : forall t_dial t_data tc ip port s,
  let r := scan socks_proto t_dial t_data (Some tc) ip port s in
  r_out r <> Hang /\ r_fin r <= Z.max 0 tc.
Proof. intros. exact (scan_cancel_bound socks_proto t_dial t_data tc ip port s). Qed.

(* (b) Cancellation fabricates nothing: the outcome is that of the uncancelled probe, or the
   cancellation error.  (c) A cancellation after the probe has ended changes nothing. *)
Theorem C09_cancel_sound : forall t_dial t_data tc ip port s,
  r_out (scan socks_proto t_dial t_data (Some tc) ip port s) =
    r_out (scan socks_proto t_dial t_data None ip port s) \/
  r_out (scan socks_proto t_dial t_data (Some tc) ip port s) = Error ECancelled.
Proof. intros. exact (scan_cancel_cases socks_proto t_dial t_data tc ip port s). Qed.

Theorem C09_cancel_late : forall t_dial t_data tc ip port s,
  r_out (scan socks_proto t_dial t_data None ip port s) <> Hang ->
  r_fin (scan socks_proto t_dial t_data None ip port s) < tc ->
  scan socks_proto t_dial t_data (Some tc) ip port s = scan socks_proto t_dial t_data None ip port s.
Proof. intros. apply scan_late_cancel; assumption. Qed.

(* the defaults: NewScanner without options and the CLI default both give 2 s / 2 s, hence a bound
   of 8 s per probe (in nanoseconds) *)
Theorem C09_default_bound : forall cancel ip port s,
  r_fin (scan socks_proto socks_default_dial_timeout_ns socks_default_data_timeout_ns cancel ip port s)
    <= 8000000000 /\
  socks_cli_default_timeout_ns = 2000000000.
Proof.
  intros. split; [|reflexivity].
  assert (H : socks_default_dial_timeout_ns <> 0) by discriminate.
  pose proof (scan_time socks_proto socks_default_dial_timeout_ns socks_default_data_timeout_ns
                cancel ip port s H) as T. cbv zeta in T. destruct T as [_ [_ [T _]]].
  change (Z.max 0 socks_default_dial_timeout_ns) with 2000000000 in T.
  change (Z.max 0 socks_default_data_timeout_ns) with 2000000000 in T.
  change (Z.of_nat (p_reply_len socks_proto)) with 2 in T. lia.
Qed.

(* ---------------------------------------------------------------- non-vacuity *)
Definition ex_ok (reads : list (Z * read_ev)) : script :=
  {| s_dial := After 1 DConnected; s_linger := true; s_write := After 0 WOk; s_reads := reads |}.

(* 05 00 in one segment, in two segments, followed by garbage: reported with the probed address *)
Example C09_ex_report :
  r_out (scan socks_proto 50 40 None [10;0;0;7] 1080 (ex_ok [(3, RData 5 [0])])) = Report [10;0;0;7] 1080 5.
Proof. vm_compute. reflexivity. Qed.
Example C09_ex_split :
  scan socks_proto 50 40 None [10;0;0;7] 1080 (ex_ok [(3, RData 5 []); (39, RData 0 [9;9;9])])
  = {| r_out := Report [10;0;0;7] 1080 5; r_fin := 43; r_sent := Some [5;1;0]; r_reads := 2 |}.
Proof. vm_compute. reflexivity. Qed.
(* wrong method, one byte then silence, one byte then EOF, immediate EOF, reset, late second byte *)
Example C09_ex_wrong : r_out (scan socks_proto 50 40 None [] 1 (ex_ok [(0, RData 5 [2])])) = Nothing.
Proof. vm_compute. reflexivity. Qed.
Example C09_ex_stall :
  scan socks_proto 50 40 None [] 1 (ex_ok [(0, RData 5 [])])
  = {| r_out := Error EReadTimeout; r_fin := 41; r_sent := Some [5;1;0]; r_reads := 2 |}.
Proof. vm_compute. reflexivity. Qed.
Example C09_ex_unexpected_eof :
  r_out (scan socks_proto 50 40 None [] 1 (ex_ok [(0, RData 5 []); (7, REOF)])) = Error EReadUnexpectedEOF.
Proof. vm_compute. reflexivity. Qed.
Example C09_ex_eof : r_out (scan socks_proto 50 40 None [] 1 (ex_ok [(7, REOF)])) = Error EReadEOF.
Proof. vm_compute. reflexivity. Qed.
Example C09_ex_reset : r_out (scan socks_proto 50 40 None [] 1 (ex_ok [(7, RReset)])) = Error EReadReset.
Proof. vm_compute. reflexivity. Qed.
Example C09_ex_late :
  r_out (scan socks_proto 50 40 None [] 1 (ex_ok [(0, RData 5 []); (40, RData 0 [])])) = Error EReadTimeout.
Proof. vm_compute. reflexivity. Qed.
(* the worst case of the bound is attained: dial just in time, write just in time, two slow reads *)
Example C09_ex_bound_tight :
  r_fin (scan socks_proto 50 40 None [] 1
           {| s_dial := After 49 DConnected; s_linger := true; s_write := After 39 WOk;
              s_reads := [(39, RData 5 [])] |}) = 49 + 39 + 39 + 40.
Proof. vm_compute. reflexivity. Qed.
(* a dial timeout of 0 is no timeout: against a peer that never answers the probe does not return
   by itself (in reality the operating system gives up after its own SYN retry limit); hence the
   hypothesis of C09_time.  A cancellation still ends it. *)
Example C09_ex_zero_dial_timeout :
  r_out (scan socks_proto 0 40 None [] 1
           {| s_dial := Never; s_linger := true; s_write := Never; s_reads := [] |}) = Hang.
Proof. vm_compute. reflexivity. Qed.
Example C09_ex_cancel :
  scan socks_proto 0 40 (Some 25) [] 1
       {| s_dial := Never; s_linger := true; s_write := Never; s_reads := [] |}
  = {| r_out := Error ECancelled; r_fin := 25; r_sent := None; r_reads := 0 |}.
Proof. vm_compute. reflexivity. Qed.
(* the hypotheses of C09_iff are satisfiable and the right-hand side is not always true *)
Example C09_ex_iff_rhs :
  dial_connects 50 (After 1 DConnected) /\ write_succeeds 40 (After 0 WOk) /\
  firstn 2 (delivered 40 [(3, RData 5 []); (39, RData 0 [9])]) = [5; 0] /\
  firstn 2 (delivered 40 [(3, RData 5 []); (40, RData 0 [9])]) = [5].
Proof.
  split; [exists 1; split; [reflexivity|right; lia]|].
  split; [exists 0; split; [reflexivity|lia]|]. split; reflexivity.
Qed.

Print Assumptions C09_wiring.
Print Assumptions C09_greeting.
Print Assumptions C09_greeting_sent.
Print Assumptions C09_iff.
Print Assumptions C09_record.
Print Assumptions C09_all_replies.
Print Assumptions C09_short_reply.
Print Assumptions C09_nothing_iff.
Print Assumptions C09_time.
Print Assumptions C09_time_zero_dial_unbounded.
Print Assumptions C09_total.
Print Assumptions C09_cancel_prompt.
Print Assumptions C09_cancel_sound.
Print Assumptions C09_cancel_late.
Print Assumptions C09_default_bound.
