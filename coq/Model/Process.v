(* Model of ProcessPacketData of pkg/scan/tcp/tcp.go:150, pkg/scan/icmp/icmp.go:84 (also used by the
   udp scan) and pkg/scan/arp/arp.go:59.  Executable definitions only.

   [process k vpn valid st f] = one call on frame [f] with decoder structs in state [st]:
   the new decoder state and what the call does: emits one record (results.Put), emits nothing,
   returns an error, or panics OUTSIDE gopacket's recover (= the process crashes).

   The validity test between DecodeLayers and the Put ("validPacket") is the parameter [valid]:
   [valid_orig] is the code as found (acceptance by NUMBER of decoded layers), [valid_fixed] the
   repaired code (acceptance by the decoded layer TYPES; ARP additionally by address sizes);
   Gen/ValidPacket.v carries the predicate translated from the current sources. *)
From Coq Require Import ZArith List Bool.
From SX Require Import Base.Bytes Model.Decode.
Import ListNotations.
Open Scope Z_scope.

(* which processor: tcp with its two plug-in functions as the commands wire them
   (pktFilter: a predicate on the nine flag bits, 256 * NS + byte 13; pktFlags: AllFlags or
   EmptyFlags), icmp, arp *)
Inductive kind := KTcp (pf : Z -> bool) (allflags : bool) | KIcmp | KArp.

(* the decoders handed to NewDecodingLayerParser *)
Definition has_dec (k : kind) (t : ltype) : bool :=
  match k, t with
  | KTcp _ _, (LEth | LIPv4 | LTCP) => true
  | KIcmp, (LEth | LIPv4 | LICMP) => true
  | KArp, (LEth | LARP) => true
  | _, _ => false
  end.

(* first layer type: Ethernet, or IPv4 in VPN mode; the ARP scan has no VPN mode *)
Definition first_layer (k : kind) (vpn : bool) : ltype :=
  match k with
  | KArp => LEth
  | _ => if vpn then LIPv4 else LEth
  end.

Definition transport (k : kind) : ltype :=
  match k with KTcp _ _ => LTCP | KIcmp => LICMP | KArp => LARP end.

Inductive record :=
| RTcp (ip : bytes) (port : Z) (flags : list Z)           (* IP, Port, Flags (ASCII letters) *)
| RIcmp (ip : bytes) (ttl ty code : Z)
| RArp (ip mac pfx : bytes).                              (* IP, MAC, the vendor lookup key *)

Inductive outcome :=
| ORecord (r : record)
| ONone
| OError (e : derr)
| OCrash.

Fixpoint ltypes_eqb (a b : list ltype) : bool :=
  match a, b with
  | [], [] => true
  | x :: a', y :: b' => ltype_eqb x y && ltypes_eqb a' b'
  | _, _ => false
  end.

Definition validity := list ltype -> dstate -> bool.

(* the code as found: tcp.go:169 / icmp.go:104  len==3 || (len==2 && decoded[0]==IPv4);
   arp.go:63 len(decoded) == 2 *)
Definition valid_orig (k : kind) : validity := fun dec _ =>
  match k with
  | KArp => (length dec =? 2)%nat
  | _ => (length dec =? 3)%nat
         || ((length dec =? 2)%nat && match dec with LIPv4 :: _ => true | _ => false end)
  end.

(* the repaired code: exactly the header chain of the scanned protocol was decoded; for ARP also
   6-byte hardware and 4-byte protocol addresses and at least 3 bytes of sender MAC *)
Definition valid_fixed (k : kind) : validity := fun dec st =>
  match k with
  | KArp => ltypes_eqb dec [LEth; LARP]
            && (ar_hw (s_arp st) =? 6) && (ar_pr (s_arp st) =? 4)
            && (3 <=? Zlength (ar_sha (s_arp st)))
  | _ => ltypes_eqb dec [LEth; LIPv4; transport k] || ltypes_eqb dec [LIPv4; transport k]
  end.

(* tcp.AllFlags: letters in the order s a f r p u e c n *)
Definition bit (v : Z) (k : Z) : bool := negb ((v / 2 ^ k) mod 2 =? 0).
Definition flag_letters (fl : Z) : list Z :=
  (if bit fl 1 then [115] else []) ++ (if bit fl 4 then [97] else []) ++
  (if bit fl 0 then [102] else []) ++ (if bit fl 2 then [114] else []) ++
  (if bit fl 3 then [112] else []) ++ (if bit fl 5 then [117] else []) ++
  (if bit fl 6 then [101] else []) ++ (if bit fl 7 then [99] else []) ++
  (if bit fl 8 then [110] else []).

(* tcp.TrueFilter, and the SYN scan's result filter as command/tcp_syn.go had it originally *)
Definition pf_true (fl : Z) : bool := true.
Definition pf_syn_ack (fl : Z) : bool := bit fl 1 && bit fl 4.

Definition process (k : kind) (vpn : bool) (valid : validity) (st : dstate) (f : bytes)
  : dstate * outcome :=
  match decode_layers (has_dec k) (first_layer k vpn) st f with
  | (st', _, Some e) => (st', OError e)
  | (st', dec, None) =>
      if negb (valid dec st') then (st', ONone) else
      match k with
      | KTcp pf allflags =>
          let fl := tcp_flags (s_tcp st') in
          if negb (pf fl) then (st', ONone)
          else (st', ORecord (RTcp (ip_src (s_ip st')) (tcp_sport (s_tcp st'))
                                   (if allflags then flag_letters fl else [])))
      | KIcmp =>
          (st', ORecord (RIcmp (ip_src (s_ip st')) (ip_ttl (s_ip st'))
                               (ic_type (s_icmp st')) (ic_code (s_icmp st'))))
      | KArp =>
          (* copy(rcvMacPrefix[:], SourceHwAddress[:3]) panics when cap(SourceHwAddress) < 3 *)
          if Zlength (ar_sha_cap (s_arp st')) <? 3 then (st', OCrash)
          else (st', ORecord (RArp (ar_spa (s_arp st')) (ar_sha (s_arp st'))
                                   (take 3 (ar_sha_cap (s_arp st')))))
      end
  end.

Definition is_crash (o : outcome) : bool := match o with OCrash => true | _ => false end.
Definition is_record (o : outcome) : bool := match o with ORecord _ => true | _ => false end.

(* a receiver feeding a sequence of frames to one processor; a crash ends the process *)
Fixpoint run (k : kind) (vpn : bool) (valid : validity) (st : dstate) (fs : list bytes)
  : list outcome :=
  match fs with
  | [] => []
  | f :: fs' =>
      let r := process k vpn valid st f in
      snd r :: (if is_crash (snd r) then [] else run k vpn valid (fst r) fs')
  end.
