(* Executable model of pkg/packet/receiver.go (the whole file): error classification
   (isTemporaryError / isUnrecoverableError) over a structural model of Go error values, and the
   ReceivePackets goroutine as a function of the script of read outcomes, the processor outcome of
   each frame, the cancellation position, the consumer of the error channel and the outcome of the
   one select race that a cancellation can produce.  Definitions only; proofs are in
   Proofs/ReceiverProofs.v.  The classification lists and the channel capacity are
   Gen.ReceiverTable, regenerated from receiver.go on every run. *)
From Coq Require Import List String Ascii Bool Arith.
From SX Require Import Gen.ReceiverTable.
Import ListNotations.
Local Open Scope string_scope.

(* ------------------------------------------------------------------------------------------
   Go error values, as far as receiver.go can tell them apart: identity (==), the Unwrap chain
   (errors.Is), the dynamic type's net.Error/Timeout() methods, and the Error() text. *)
Inductive err_val : Type :=
| ESent (name : string)        (* a package-level error value, e.g. "syscall.EAGAIN", "io.EOF" *)
| EWrapFmt (prefix : string) (inner : err_val)
                               (* fmt.Errorf(prefix + ": %w", inner): Unwrap, no other method *)
| EWrapOp (inner : err_val)    (* &net.OpError{Op: "read", Net: "packet", Err: inner}: Unwrap, net.Error *)
| EWrapSys (inner : err_val)   (* os.NewSyscallError("recvfrom", inner): Unwrap, Timeout, not a net.Error *)
| ENetErr (timeout : bool)     (* a net.Error of the harness with Timeout() = timeout, text "i/o timeout" *)
| ENew (text : string).        (* errors.New(text) *)

(* what the standard library says about the package-level values used (modelled; the harness
   reports the real Error() text / net.Error-ness / Timeout() of each and Spec.C20 compares) *)
Record sent_attr := { sa_name : string; sa_text : string; sa_neterr : bool; sa_timeout : bool }.

Definition sentinels : list sent_attr := [
  {| sa_name := "syscall.EAGAIN";      sa_text := "resource temporarily unavailable"; sa_neterr := true; sa_timeout := true |};
  {| sa_name := "syscall.ECONNRESET";  sa_text := "connection reset by peer";         sa_neterr := true; sa_timeout := false |};
  {| sa_name := "syscall.EBADF";       sa_text := "bad file descriptor";              sa_neterr := true; sa_timeout := false |};
  {| sa_name := "syscall.EINVAL";      sa_text := "invalid argument";                 sa_neterr := true; sa_timeout := false |};
  {| sa_name := "syscall.EINTR";       sa_text := "interrupted system call";          sa_neterr := true; sa_timeout := false |};
  {| sa_name := "syscall.ETIMEDOUT";   sa_text := "connection timed out";             sa_neterr := true; sa_timeout := true |};
  {| sa_name := "syscall.ENETDOWN";    sa_text := "network is down";                  sa_neterr := true; sa_timeout := false |};
  {| sa_name := "syscall.ENOBUFS";     sa_text := "no buffer space available";        sa_neterr := true; sa_timeout := false |};
  {| sa_name := "io.EOF";              sa_text := "EOF";                              sa_neterr := false; sa_timeout := false |};
  {| sa_name := "io.ErrUnexpectedEOF"; sa_text := "unexpected EOF";                   sa_neterr := false; sa_timeout := false |};
  {| sa_name := "io.ErrNoProgress";    sa_text := "multiple Read calls return no data or error"; sa_neterr := false; sa_timeout := false |};
  {| sa_name := "io.ErrClosedPipe";    sa_text := "io: read/write on closed pipe";    sa_neterr := false; sa_timeout := false |};
  {| sa_name := "io.ErrShortBuffer";   sa_text := "short buffer";                     sa_neterr := false; sa_timeout := false |};
  {| sa_name := "io.ErrShortWrite";    sa_text := "short write";                      sa_neterr := false; sa_timeout := false |};
  {| sa_name := "os.ErrClosed";        sa_text := "file already closed";              sa_neterr := false; sa_timeout := false |};
  {| sa_name := "net.ErrClosed";       sa_text := "use of closed network connection"; sa_neterr := true; sa_timeout := false |};
  {| sa_name := "os.ErrDeadlineExceeded"; sa_text := "i/o timeout";                   sa_neterr := true; sa_timeout := true |};
  {| sa_name := "context.DeadlineExceeded"; sa_text := "context deadline exceeded";   sa_neterr := true; sa_timeout := true |};
  {| sa_name := "context.Canceled";    sa_text := "context canceled";                 sa_neterr := false; sa_timeout := false |};
  (* gopacket/afpacket: what the real socket of pkg/packet/afpacket returns when its poll times out / fails *)
  {| sa_name := "afpacket.ErrTimeout"; sa_text := "packet poll timeout expired";      sa_neterr := false; sa_timeout := false |};
  {| sa_name := "afpacket.ErrPoll";    sa_text := "packet poll failed";               sa_neterr := false; sa_timeout := false |}
].

Definition find_sent (name : string) : option sent_attr :=
  find (fun a => String.eqb (sa_name a) name) sentinels.

Definition sent_text (name : string) : string :=
  match find_sent name with Some a => sa_text a | None => name end.
Definition sent_neterr (name : string) : bool :=
  match find_sent name with Some a => sa_neterr a | None => false end.
Definition sent_timeout (name : string) : bool :=
  match find_sent name with Some a => sa_timeout a | None => false end.

(* err.Error() *)
Fixpoint err_text (e : err_val) : string :=
  match e with
  | ESent n => sent_text n
  | EWrapFmt p i => p ++ ": " ++ err_text i
  | EWrapOp i => "read packet: " ++ err_text i
  | EWrapSys i => "recvfrom: " ++ err_text i
  | ENetErr _ => "i/o timeout"
  | ENew t => t
  end.

(* the value has a Timeout() method that returns true.  net.OpError.Timeout looks at the direct
   inner error (through one os.SyscallError, whose own Timeout does the same look-up). *)
Fixpoint timeout_m (e : err_val) : bool :=
  match e with
  | ESent n => sent_timeout n
  | EWrapFmt _ _ => false
  | EWrapOp i => timeout_m i
  | EWrapSys i => timeout_m i
  | ENetErr t => t
  | ENew _ => false
  end.

(* the dynamic type implements net.Error (Error, Timeout, Temporary) *)
Definition is_neterr (e : err_val) : bool :=
  match e with
  | ESent n => sent_neterr n
  | EWrapOp _ => true
  | ENetErr _ => true
  | _ => false
  end.

(* errors.Is(e, target) for a package-level target: == along the Unwrap chain *)
Fixpoint errors_is (e : err_val) (target : string) : bool :=
  match e with
  | ESent n => String.eqb n target
  | EWrapFmt _ i | EWrapOp i | EWrapSys i => errors_is i target
  | _ => false
  end.

(* e == v for a package-level value v (interface comparison: only the very same value) *)
Definition err_eq_sent (e : err_val) (v : string) : bool :=
  match e with ESent n => String.eqb n v | _ => false end.

(* strings.Contains *)
Fixpoint is_prefix (p s : string) : bool :=
  match p with
  | EmptyString => true
  | String a p' => match s with
                   | EmptyString => false
                   | String b s' => Ascii.eqb a b && is_prefix p' s'
                   end
  end.

Fixpoint contains (needle s : string) : bool :=
  is_prefix needle s || match s with EmptyString => false | String _ s' => contains needle s' end.

(* ------------------------------------------------------------------------------------------
   receiver.go:38-54 *)
Definition is_temporary (e : err_val) : bool :=
  existsb (errors_is e) temporary_is_targets
  || (temporary_neterr_timeout && is_neterr e && timeout_m e).

Definition is_unrecoverable (e : err_val) : bool :=
  existsb (err_eq_sent e) unrecoverable_values
  || match unrecoverable_text with
     | Some t => contains t (err_text e)
     | None => false
     end.

Inductive eclass := Transient | Unrecoverable | Unknown.

(* the order of the two tests in the loop: temporary first *)
Definition classify (e : err_val) : eclass :=
  if is_temporary e then Transient else if is_unrecoverable e then Unrecoverable else Unknown.

(* ------------------------------------------------------------------------------------------
   receiver.go:56-95, ReceivePackets.

   One [step] is the outcome of one ReadPacketData call: a frame (with the identity [id] of its
   bytes and the outcome the Processor will return for it) or an error.  The script is a finite
   prefix of the history of the wire. *)
Inductive step :=
| SFrame (id : nat) (perr : option err_val)
| SErr (e : err_val).

(* an error sent on the error channel: a read error (with the index of the read call) or the
   error the processor returned for frame [id] *)
Inductive report :=
| RRead (pos : nat) (e : err_val)
| RProc (id : nat) (e : err_val).

(* when the context is cancelled: never (within this history), before ReceivePackets is called,
   or while the read call number k (0-based) is in progress, i.e. after the check at the top of
   iteration k and before the check at the top of iteration k+1.  A cancellation that arrives
   while the goroutine is blocked in a send of iteration k is [CancelDuring k] as well. *)
Inductive cancel := NoCancel | PreCancel | CancelDuring (k : nat).

Inductive final :=
| Closed        (* the goroutine returned and closed the error channel *)
| AwaitRead     (* the script is used up: the goroutine is inside the next read call *)
| BlockedSend.  (* the goroutine is blocked sending on the full error channel (ctx not cancelled) *)

Record obs := {
  o_frames : list nat;     (* ids handed to the processor, in order *)
  o_errs : list report;    (* errors sent on the channel, in order *)
  o_reads : nat;           (* number of read calls made *)
  o_final : final }.

Record params := {
  p_cap : nat;             (* capacity of the error channel *)
  p_drained : bool;        (* true: somebody keeps receiving from the channel; false: nobody
                              receives as long as the context is not cancelled *)
  p_send_wins : bool;      (* the select between ctx.Done and the send when BOTH are ready
                              (Go picks either): true = the send *)
  p_cancel : cancel }.

Definition stop (reads : nat) (f : final) : obs :=
  {| o_frames := []; o_errs := []; o_reads := reads; o_final := f |}.
Definition add_frame (id : nat) (o : obs) : obs :=
  {| o_frames := id :: o_frames o; o_errs := o_errs o; o_reads := o_reads o; o_final := o_final o |}.
Definition add_err (r : report) (o : obs) : obs :=
  {| o_frames := o_frames o; o_errs := r :: o_errs o; o_reads := o_reads o; o_final := o_final o |}.

Inductive send_result := Sent | Stopped | Blocked.

Section Receive.
Variable P : params.

Definition cancel_hits (i : nat) : bool :=
  match p_cancel P with CancelDuring k => Nat.eqb k i | _ => false end.

(* `select { case <-ctx.Done(): return; case errc <- err: }` with [nq] errors already sent.
   Not cancelled: the send goes through unless nobody receives and the buffer is full (then the
   goroutine blocks until the context is cancelled).  Cancelled: ctx.Done is ready; the send is
   ready as well whenever there is room or a receiver (and a consumer that did not receive before
   may start to once the context is cancelled), Go then picks either case: [p_send_wins]. *)
Definition try_send (cancelled : bool) (nq : nat) : send_result :=
  if cancelled then (if p_send_wins P then Sent else Stopped)
  else if negb (p_drained P) && Nat.leb (p_cap P) nq then Blocked else Sent.

(* iteration i of the for loop, the context not being cancelled at its top; nq = errors sent so far *)
Fixpoint recv (i nq : nat) (s : list step) : obs :=
  match s with
  | [] => stop i AwaitRead
  | st :: s' =>
      let c := cancel_hits i in
      match st with
      | SErr e =>
          match classify e with
          | Transient => if c then stop (S i) Closed else recv (S i) nq s'
          | Unrecoverable => stop (S i) Closed
          | Unknown =>
              match try_send c nq with
              | Sent => add_err (RRead i e) (if c then stop (S i) Closed else recv (S i) (S nq) s')
              | Stopped => stop (S i) Closed
              | Blocked => stop (S i) BlockedSend
              end
          end
      | SFrame id None => add_frame id (if c then stop (S i) Closed else recv (S i) nq s')
      | SFrame id (Some e) =>
          add_frame id
            match try_send c nq with
            | Sent => add_err (RProc id e) (if c then stop (S i) Closed else recv (S i) (S nq) s')
            | Stopped => stop (S i) Closed
            | Blocked => stop (S i) BlockedSend
            end
      end
  end.

Definition receive (s : list step) : obs :=
  match p_cancel P with
  | PreCancel => stop 0 Closed
  | _ => recv 0 0 s
  end.

End Receive.

(* the receiver of the code: capacity from the source *)
Definition code_params (drained send_wins : bool) (c : cancel) : params :=
  {| p_cap := errc_capacity; p_drained := drained; p_send_wins := send_wins; p_cancel := c |}.
