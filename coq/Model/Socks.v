(* Model of the SOCKS5 probe: pkg/scan/socks5/socks5.go (Scanner.Scan, socksConn) and message.go
   (MethodRequest.WriteTo, MethodReply.ReadFrom = binary.Read = io.ReadFull of Len() bytes).

   Executable definitions only.  Time is logical, in Z units (the tie uses milliseconds, the
   defaults in Gen.SocksConsts are nanoseconds; nothing depends on the unit).  The behaviour of the
   network and of the peer is an explicit input, the [script]:

     - what happens to the connection attempt and after which delay (or never),
     - whether SetLinger succeeds,
     - what happens to the 3-byte write and after which delay (or never),
     - the sequence of things the client's successive conn.Read calls meet, each with the delay
       since the previous one: a non-empty segment of bytes, an orderly close (EOF), a reset.
       The end of the list means silence for ever.

   plus the moment at which the caller cancels the context (or never).  Nothing here is assumed
   about the server: every script is a legal input. *)
From Coq Require Import ZArith List Bool.
Import ListNotations.
Open Scope Z_scope.

(* ---------------------------------------------------------------- protocol constants (filled in
   from Gen.SocksConsts by Spec/Properties; the model is parametric in them) *)
Record proto := {
  p_greet_ver : Z;            (* first argument of NewMethodRequest in Scan *)
  p_greet_methods : list Z;   (* the remaining arguments *)
  p_accept_ver : Z;           (* reply.Ver == ... *)
  p_accept_method : Z;        (* reply.Method == ... *)
  p_reply_len : nat;          (* MethodReply.Len(): size of the struct binary.Read fills *)
  p_result_version : Z        (* ScanResult.Version *)
}.

(* MethodRequest.WriteTo: Ver, NMethods = byte(len(methods)), Methods... *)
Definition greeting (p : proto) : list Z :=
  p_greet_ver p :: (Z.of_nat (length (p_greet_methods p)) mod 256) :: p_greet_methods p.

(* ---------------------------------------------------------------- scripts *)
Inductive sched (A : Type) := After (d : Z) (a : A) | Never.
Arguments After {A} d a.
Arguments Never {A}.

Inductive dial_ev := DConnected | DRefused | DOtherErr.
Inductive write_ev := WOk | WErr.
(* what one conn.Read call meets; a segment is non-empty by construction: a TCP Read with a
   non-empty buffer never returns (0, nil) *)
Inductive read_ev := RData (b : Z) (rest : list Z) | REOF | RReset.

Record script := {
  s_dial : sched dial_ev;
  s_linger : bool;
  s_write : sched write_ev;
  s_reads : list (Z * read_ev)
}.

(* ---------------------------------------------------------------- results *)
Inductive err_class :=
  | EDialTimeout | EDialRefused | EDialOther | ELinger
  | EWriteTimeout | EWriteErr
  | EReadTimeout | EReadEOF | EReadUnexpectedEOF | EReadReset
  | ECancelled.

Inductive outcome :=
  | Report (ip : list Z) (port : Z) (version : Z)   (* result = &ScanResult{...}, err = nil *)
  | Nothing                                         (* result = nil, err = nil *)
  | Error (e : err_class)                           (* result = nil, err != nil *)
  | Hang                                            (* Scan never returns *)
  | OutOfFuel.                                      (* artefact of the fuelled ReadFull loop; excluded by theorem *)

Record run := {
  r_out : outcome;
  r_fin : Z;                  (* logical time at which Scan returns (meaningless for Hang) *)
  r_sent : option (list Z);   (* bytes of a successful conn.Write *)
  r_reads : nat               (* number of conn.Read calls that were made *)
}.

(* ---------------------------------------------------------------- blocking with deadline and cancellation *)
Inductive wait_res := Fired (t : Z) | TimedOut (t : Z) | Cancelled (t : Z) | Forever.

(* a blocking operation started at [now]; its event is due after [due] (None: never); the
   operation's deadline is [lim] after its start (None: no deadline); the context is cancelled at
   absolute time [cancel] (None: never).  An event is in time iff its delay is strictly below the
   limit (a limit of 0 is an already expired deadline: nothing is in time).  A cancellation that
   happened at or before [now] makes the operation fail at once (the watchdog has closed the
   connection / DialContext sees ctx.Err()). *)
Definition natural (now : Z) (lim due : option Z) : wait_res :=
  match due, lim with
  | Some d, Some l => if Z.max 0 d <? l then Fired (now + Z.max 0 d) else TimedOut (now + l)
  | Some d, None => Fired (now + Z.max 0 d)
  | None, Some l => TimedOut (now + l)
  | None, None => Forever
  end.

Definition wait (now : Z) (cancel lim due : option Z) : wait_res :=
  match cancel with
  | None => natural now lim due
  | Some tc =>
      if tc <=? now then Cancelled now
      else match natural now lim due with
           | Fired t => if tc <? t then Cancelled tc else Fired t
           | TimedOut t => if tc <? t then Cancelled tc else TimedOut t
           | Cancelled t => Cancelled t
           | Forever => Cancelled tc
           end
  end.

(* net.Dialer.Timeout: 0 means no timeout, a negative value an already expired deadline *)
Definition dial_limit (t_dial : Z) : option Z :=
  if t_dial =? 0 then None else Some (Z.max 0 t_dial).
(* socksConn: SetRead/WriteDeadline(time.Now().Add(timeout)) before every single Read/Write *)
Definition data_limit (t_data : Z) : option Z := Some (Z.max 0 t_data).

Definition sched_due {A} (s : sched A) : option Z :=
  match s with After d _ => Some d | Never => None end.

(* ---------------------------------------------------------------- one conn.Read through socksConn *)
Inductive read_res :=
  | RdBytes (l : list Z) (rest : list (Z * read_ev)) (t : Z)
  | RdErr (e : err_class) (t : Z)
  | RdHang.

(* [want] = len(buf) >= 1.  Bytes of a segment beyond the buffer stay in the kernel and are never
   looked at (the probe reads exactly p_reply_len bytes in total). *)
Definition read_call (cancel : option Z) (t_data : Z) (want : nat) (evs : list (Z * read_ev)) (now : Z)
  : read_res :=
  let due := match evs with [] => None | (d, _) :: _ => Some d end in
  match wait now cancel (data_limit t_data) due with
  | Fired t =>
      match evs with
      | (_, RData b l) :: rest => RdBytes (firstn want (b :: l)) rest t
      | (_, REOF) :: _ => RdErr EReadEOF t
      | (_, RReset) :: _ => RdErr EReadReset t
      | [] => RdHang   (* unreachable: nothing fires without an event *)
      end
  | TimedOut t => RdErr EReadTimeout t
  | Cancelled t => RdErr ECancelled t
  | Forever => RdHang
  end.

(* io.ReadFull(r, buf) = ReadAtLeast(r, buf, len(buf)):
     for n < min && err == nil { nn, err = r.Read(buf[n:]); n += nn }
     if n >= min { err = nil } else if n > 0 && err == EOF { err = ErrUnexpectedEOF } *)
Inductive rf_res :=
  | RfDone (bytes : list Z) (t : Z) (calls : nat)
  | RfErr (e : err_class) (t : Z) (calls : nat)
  | RfHang (calls : nat)
  | RfFuel.

Fixpoint read_full (fuel : nat) (cancel : option Z) (t_data : Z) (want : nat) (got : list Z)
         (evs : list (Z * read_ev)) (now : Z) (calls : nat) : rf_res :=
  match want with
  | O => RfDone got now calls
  | S _ =>
      match fuel with
      | O => RfFuel
      | S fuel' =>
          match read_call cancel t_data want evs now with
          | RdBytes l rest t =>
              read_full fuel' cancel t_data (want - length l) (got ++ l) rest t (S calls)
          | RdErr e t =>
              let e' := match got, e with
                        | _ :: _, EReadEOF => EReadUnexpectedEOF
                        | _, _ => e
                        end in
              RfErr e' t (S calls)
          | RdHang => RfHang (S calls)
          end
      end
  end.

(* binary.Read(in, BigEndian, &MethodReply{}) then the comparison in Scan *)
Definition accepts (p : proto) (reply : list Z) : bool :=
  match reply with
  | v :: m :: _ => (v =? p_accept_ver p) && (m =? p_accept_method p)
  | _ => false
  end.

(* ---------------------------------------------------------------- Scanner.Scan *)
Definition mk (o : outcome) (t : Z) (sent : option (list Z)) (n : nat) : run :=
  {| r_out := o; r_fin := t; r_sent := sent; r_reads := n |}.

(* reply.ReadFrom(sconn), the comparison, the result *)
Definition read_stage (p : proto) (t_data : Z) (cancel : option Z)
           (ip : list Z) (port : Z) (s : script) (t1 : Z) : run :=
  let sent := Some (greeting p) in
  match read_full (p_reply_len p) cancel t_data (p_reply_len p) [] (s_reads s) t1 0 with
  | RfFuel => mk OutOfFuel t1 sent 0
  | RfHang n => mk Hang t1 sent n
  | RfErr e t n => mk (Error e) t sent n
  | RfDone reply t n =>
      if accepts p reply
      then mk (Report ip port (p_result_version p)) t sent n
      else mk Nothing t sent n
  end.

(* req.WriteTo(sconn): one conn.Write under a fresh deadline *)
Definition write_stage (p : proto) (t_data : Z) (cancel : option Z)
           (ip : list Z) (port : Z) (s : script) (t0 : Z) : run :=
  match wait t0 cancel (data_limit t_data) (sched_due (s_write s)) with
  | Forever => mk Hang t0 None 0       (* unreachable: there is always a deadline *)
  | TimedOut t => mk (Error EWriteTimeout) t None 0
  | Cancelled t => mk (Error ECancelled) t None 0
  | Fired t1 =>
      match s_write s with
      | Never => mk Hang t1 None 0     (* unreachable *)
      | After _ WErr => mk (Error EWriteErr) t1 None 0
      | After _ WOk => read_stage p t_data cancel ip port s t1
      end
  end.

Definition scan (p : proto) (t_dial t_data : Z) (cancel : option Z)
           (ip : list Z) (port : Z) (s : script) : run :=
  (* conn, err = s.dialer.DialContext(ctx, "tcp", ...) *)
  match wait 0 cancel (dial_limit t_dial) (sched_due (s_dial s)) with
  | Forever => mk Hang 0 None 0
  | TimedOut t => mk (Error EDialTimeout) t None 0
  | Cancelled t => mk (Error ECancelled) t None 0
  | Fired t0 =>
      match s_dial s with
      | Never => mk Hang 0 None 0              (* unreachable *)
      | After _ DRefused => mk (Error EDialRefused) t0 None 0
      | After _ DOtherErr => mk (Error EDialOther) t0 None 0
      | After _ DConnected =>
          (* SetLinger(1) on the TCP connection; the watchdog goroutine starts after it *)
          if negb (s_linger s) then mk (Error ELinger) t0 None 0
          else write_stage p t_data cancel ip port s t0
      end
  end.

(* ---------------------------------------------------------------- specification-level vocabulary
   (used by the theorems; deliberately independent of the ReadFull loop) *)

(* the byte stream the peer delivers to the probe: the segments of the maximal prefix of read
   events that are data and arrive within one data timeout of the previous one *)
Fixpoint delivered (lim : Z) (evs : list (Z * read_ev)) : list Z :=
  match evs with
  | (d, RData b l) :: rest => if Z.max 0 d <? lim then (b :: l) ++ delivered lim rest else []
  | _ => []
  end.

Definition dial_connects (t_dial : Z) (s : sched dial_ev) : Prop :=
  exists d, s = After d DConnected /\ (t_dial = 0 \/ Z.max 0 d < Z.max 0 t_dial).

Definition write_succeeds (t_data : Z) (s : sched write_ev) : Prop :=
  exists d, s = After d WOk /\ Z.max 0 d < Z.max 0 t_data.

(* projection of the outcome used by the correspondence check (error class, not text) *)
Definition outcome_code (o : outcome) : Z :=
  match o with
  | Report _ _ _ => 0
  | Nothing => 1
  | Error EDialTimeout => 2
  | Error EDialRefused => 3
  | Error EDialOther => 4
  | Error ELinger => 5
  | Error EWriteTimeout => 6
  | Error EReadTimeout => 6
  | Error EReadEOF => 7
  | Error EReadUnexpectedEOF => 8
  | Error EWriteErr => 9
  | Error EReadReset => 9
  | Error ECancelled => 10
  | Hang => 11
  | OutOfFuel => 12
  end.
