(* Executable model of pkg/scan/range.go: group selection (sort.Search), generator randomisation,
   the Next loop and the caller's Int()/Next() loop.  Arithmetic is unbounded Z because the code
   uses math/big.  No proofs here. *)
From Coq Require Import ZArith List Bool.
From SX Require Import Base.Loop.
Import ListNotations.
Open Scope Z_scope.

(* ---------- modular power (big.Int.Exp with a positive modulus and exponent >= 0) ---------- *)
Fixpoint powm_pos (b : Z) (e : positive) (m : Z) : Z :=
  match e with
  | xH => b mod m
  | xO e' => let r := powm_pos b e' m in (r * r) mod m
  | xI e' => let r := powm_pos b e' m in (((r * r) mod m) * b) mod m
  end.
Definition powm (b e m : Z) : Z :=
  match e with Z0 => 1 mod m | Zpos p => powm_pos b p m | Zneg _ => 0 end.

(* ---------- sort.Search ---------- *)
Section Search.
Variable pred : nat -> bool.
(* for i < j { h := (i+j)/2; if !f(h) { i = h+1 } else { j = h } }; return i *)
Fixpoint bsearch (fuel i j : nat) : nat :=
  match fuel with
  | O => i
  | S f => if Nat.ltb i j then
             let h := Nat.div2 (i + j) in
             if pred h then bsearch f i h else bsearch f (S h) j
           else i
  end.
End Search.

Definition row := (Z * Z * Z)%type.   (* P, G, N *)
Definition rowP (r : row) : Z := fst (fst r).
Definition rowG (r : row) : Z := snd (fst r).
Definition rowN (r : row) : Z := snd r.

Definition search (table : list row) (n : Z) : option row :=
  let len := length table in
  let idx := bsearch (fun i => n <? rowP (nth i table (0, 0, 0))) (S len) 0 len in
  nth_error table idx.

(* ---------- the iterator ---------- *)
Inductive err := RangeSize | InvalidGroup | OutOfFuel.
Inductive result (A : Type) := Ok (a : A) | Err (e : err).
Arguments Ok {A} a.
Arguments Err {A} e.

Record iter := { itP : Z; itG : Z; itI : Z; itStart : Z; itLim : Z; itStop : bool }.

(* body of the for loop of Next: inl = keep looping *)
Definition next_step (p g lim startI I : Z) : Z + (Z * bool) :=
  let I' := (I * g) mod p in
  if I' =? startI then inr (I', false)
  else if I' <=? lim then inr (I', true)
  else inl I'.

(* Next(): None = out of fuel (never happens for a good table, see theorem) *)
Definition next (it : iter) : option (iter * bool) :=
  if itStop it then Some (it, false)
  else match ploop (next_step (itP it) (itG it) (itLim it) (itStart it)) (Z.to_pos (itP it)) (itI it) with
       | inr (I', true) => Some ({| itP := itP it; itG := itG it; itI := I'; itStart := itStart it;
                                    itLim := itLim it; itStop := false |}, true)
       | inr (I', false) => Some ({| itP := itP it; itG := itG it; itI := I'; itStart := itStart it;
                                     itLim := itLim it; itStop := true |}, false)
       | inl _ => None
       end.

(* G' = G^(N^(r1+1) mod (P-1)) mod P ;  randI = G'^(r2+1) mod P *)
Definition derive_g (r : row) (r1 : Z) : Z :=
  powm (rowG r) (powm (rowN r) (r1 + 1) (rowP r - 1)) (rowP r).
Definition derive_start (r : row) (g' r2 : Z) : Z := powm g' (r2 + 1) (rowP r).

(* the tail of the constructor: first Next from the random start, the n > 1 guard, startI := I *)
Definition init_iter (p g' n s : Z) : result iter :=
  let it0 := {| itP := p; itG := g'; itI := s; itStart := s; itLim := n; itStop := false |} in
  match next it0 with
  | None => Err OutOfFuel
  | Some (it1, more) =>
      if negb more && (1 <? n) then Err InvalidGroup
      else Ok {| itP := itP it1; itG := itG it1; itI := itI it1; itStart := itI it1;
                 itLim := itLim it1; itStop := itStop it1 |}
  end.

Definition new_iter (table : list row) (n r1 r2 : Z) : result iter :=
  if n <=? 0 then Err RangeSize else
  match search table n with
  | None => Err RangeSize
  | Some r =>
      let g' := derive_g r r1 in
      init_iter (rowP r) g' n (derive_start r g' r2)
  end.

(* the caller's loop:  for { use(it.Int()); if !it.Next() { break } }
   state = (iterator, outputs so far in reverse); result = all outputs, or out-of-fuel in Next *)
Definition collect_step (st : iter * list Z) : (iter * list Z) + option (list Z) :=
  let '(it, acc) := st in
  match next it with
  | None => inr None
  | Some (it', true) => inl (it', itI it :: acc)
  | Some (_, false) => inr (Some (rev (itI it :: acc)))
  end.

(* [fuel] bounds the number of outputs; with fuel >= n the walk is complete *)
Inductive outputs := Complete (l : list Z) | Prefix (l : list Z) | Stuck.

Definition collect (fuel : positive) (it : iter) : outputs :=
  match ploop collect_step fuel (it, []) with
  | inr (Some l) => Complete l
  | inr None => Stuck
  | inl (_, acc) => Prefix (rev acc)
  end.

(* what a caller of newRangeIterator(n) sees *)
Definition run_fuel (table : list row) (fuel : positive) (n r1 r2 : Z) : result outputs :=
  match new_iter table n r1 r2 with
  | Err e => Err e
  | Ok it => Ok (collect fuel it)
  end.

Definition run (table : list row) (n r1 r2 : Z) : result outputs :=
  run_fuel table (Z.to_pos n) n r1 r2.

(* ---------- walk from an arbitrary generator and start (what the tie compares) ---------- *)
Definition walk_from (fuel : positive) (p g' n s : Z) : result outputs :=
  match init_iter p g' n s with
  | Err e => Err e
  | Ok it => Ok (collect fuel it)
  end.

(* ---------- the row certificate (boolean, run by vm_compute on the generated table) ---------- *)
(* smallest divisor >= d of q by trial division, or q itself *)
Fixpoint least_div (fuel : nat) (d q : Z) : Z :=
  match fuel with
  | O => q
  | S f => if q <? d * d then q else if q mod d =? 0 then d else least_div f (d + 1) q
  end.

Definition sqrt_fuel (q : Z) : nat := Z.to_nat (Z.sqrt q + 2).

(* q >= 2 has no divisor d with 2 <= d, d*d <= q *)
Definition is_prime (q : Z) : bool := (2 <=? q) && (least_div (sqrt_fuel q) 2 q =? q).

(* full factorisation of m by repeated trial division; [fuel] bounds the number of prime factors *)
Fixpoint factorize (fuel : nat) (m : Z) : list Z :=
  match fuel with
  | O => [m]
  | S f => if m <=? 1 then []
           else let d := least_div (sqrt_fuel m) 2 m in
                d :: factorize f (m / d)
  end.

Definition prod (l : list Z) : Z := fold_right Z.mul 1 l.

Definition check_row (r : row) : bool :=
  let p := rowP r in let g := rowG r in let n := rowN r in
  let qs := factorize 64 (p - 1) in
  (2 <? p)
  && (prod qs =? p - 1)
  && forallb is_prime qs
  && (powm g (p - 1) p =? 1)
  && forallb (fun q => negb (powm g ((p - 1) / q) p =? 1)) qs
  && (Z.gcd n (p - 1) =? 1)
  && (0 <=? n).

Definition last_p (table : list row) : Z := rowP (nth (length table - 1) table (0, 0, 0)).

Definition check_table (table : list row) : bool :=
  forallb check_row table
  && forallb (fun r => rowP r <=? last_p table) table
  && (last_p table =? 2 ^ 32 + 61)
  && negb (Nat.eqb (length table) 0).
