(* Pinned concurrency skeletons: the source shape the hand-written behaviours of this topic were
   validated against. [shape_ok] compares them with Gen/StmtShapes.v (regenerated from /repo on every run).
   Written by bin/pin-skeletons; edit only by re-running it after re-validating the model. *)
From Coq Require Import String List Bool.
From SX Require Import Gen.StmtShapes.
Import ListNotations.
Local Open Scope string_scope.

Fixpoint strs_eqb (a b : list string) : bool :=
  match a, b with
  | [], [] => true
  | x :: a', y :: b' => String.eqb x y && strs_eqb a' b'
  | _, _ => false
  end.

Definition pin_genericScanCmdOpts_newScanEngine : list string := [
  "func (v0 *genericScanCmdOpts) func(v1 context.Context, v2 scan.Scanner) *scan.GenericEngine";
  " if ; v0.rateCount > 0 {";
  "  v2 = scan.NewRateLimitScanner(v2, ratelimit.New(v0.rateCount, ratelimit.Per(v0.rateWindow)))";
  " }";
  " v3 := scan.NewResultChan(v1, 1000)";
  " return scan.NewScanEngine(v0.newIPPortGenerator(), v2, v3, scan.WithScanWorkerCount(v0.workers))"
].

Definition pin_WithScanWorkerCount : list string := [
  "func func(v0 int) GenericEngineOption";
  " return func(s *GenericEngine) { s.workerCount = v0 }"
].

Definition pin_NewScanEngine : list string := [
  "func func(v0 RequestGenerator, v1 Scanner, v2 ResultChan, v3 ...GenericEngineOption) *GenericEngine";
  " v4 := &GenericEngine{ reqgen: v0, scanner: v1, results: v2, workerCount: 100, }";
  " range _, v5 := v3 {";
  "  v5(v4)";
  " }";
  " return v4"
].

Definition shape_checks : list (string * bool) := [
  ("genericScanCmdOpts_newScanEngine", strs_eqb pin_genericScanCmdOpts_newScanEngine skel_genericScanCmdOpts_newScanEngine);
  ("WithScanWorkerCount", strs_eqb pin_WithScanWorkerCount skel_WithScanWorkerCount);
  ("NewScanEngine", strs_eqb pin_NewScanEngine skel_NewScanEngine)
].

Definition shape_ok : bool := forallb snd shape_checks.
Definition shape_diff : list string := map fst (filter (fun p => negb (snd p)) shape_checks).
