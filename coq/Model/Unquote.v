(* strconv.Unquote of a double-quoted literal, as parsePacketPayload uses it:
   Unquote(dquote + payload + dquote).  Library behaviour (Go 1.23 strconv/quote.go, unicode/utf8):
   modelled by hand, tied by differential testing.  Strings are byte lists ([list Z], each 0..255).
   Executable definitions only. *)
From Coq Require Import ZArith List Bool.
Import ListNotations.
Open Scope Z_scope.

Definition bytes := list Z.

Definition in_range (lo hi b : Z) : bool := (lo <=? b) && (b <=? hi).
Definition cont (b : Z) : bool := in_range 128 191 b.

Fixpoint mem (c : Z) (s : bytes) : bool :=
  match s with [] => false | x :: t => (x =? c) || mem c t end.

(* ---------------------------------------------------------------- unicode/utf8 *)

(* utf8.DecodeRune on the head of s: [Some (rune, rest)] for a well-formed encoding (shortest form,
   no surrogates, <= U+10FFFF), [None] where Go returns (RuneError, 1). *)
Definition decode_rune (s : bytes) : option (Z * bytes) :=
  match s with
  | [] => None
  | b0 :: t0 =>
    if b0 <? 128 then Some (b0, t0)
    else if in_range 194 223 b0 then
      match t0 with
      | b1 :: t1 => if cont b1 then Some ((b0 - 192) * 64 + (b1 - 128), t1) else None
      | _ => None
      end
    else if in_range 224 239 b0 then
      match t0 with
      | b1 :: b2 :: t2 =>
        let lo := if b0 =? 224 then 160 else 128 in
        let hi := if b0 =? 237 then 159 else 191 in
        if in_range lo hi b1 && cont b2
        then Some ((b0 - 224) * 4096 + (b1 - 128) * 64 + (b2 - 128), t2) else None
      | _ => None
      end
    else if in_range 240 244 b0 then
      match t0 with
      | b1 :: b2 :: b3 :: t3 =>
        let lo := if b0 =? 240 then 144 else 128 in
        let hi := if b0 =? 244 then 143 else 191 in
        if in_range lo hi b1 && cont b2 && cont b3
        then Some ((b0 - 240) * 262144 + (b1 - 128) * 4096 + (b2 - 128) * 64 + (b3 - 128), t3) else None
      | _ => None
      end
    else None
  end.

(* utf8.ValidRune *)
Definition valid_rune (v : Z) : bool :=
  ((0 <=? v) && (v <? 55296)) || ((57343 <? v) && (v <=? 1114111)).

Definition rune_error : bytes := [239; 191; 189].

(* utf8.AppendRune *)
Definition encode_rune (r : Z) : bytes :=
  if negb (valid_rune r) then rune_error
  else if r <? 128 then [r]
  else if r <? 2048 then [192 + r / 64; 128 + r mod 64]
  else if r <? 65536 then [224 + r / 4096; 128 + (r / 64) mod 64; 128 + r mod 64]
  else [240 + r / 262144; 128 + (r / 4096) mod 64; 128 + (r / 64) mod 64; 128 + r mod 64].

(* utf8.ValidString; every round consumes at least one byte, so [length s] rounds suffice *)
Fixpoint utf8_valid_f (fuel : nat) (s : bytes) : bool :=
  match s with
  | [] => true
  | _ => match fuel with
         | O => false
         | S f => match decode_rune s with
                  | Some (_, rest) => utf8_valid_f f rest
                  | None => false
                  end
         end
  end.
Definition utf8_valid (s : bytes) : bool := utf8_valid_f (length s) s.

(* ---------------------------------------------------------------- strconv.UnquoteChar *)

Definition unhex (c : Z) : option Z :=
  if in_range 48 57 c then Some (c - 48)
  else if in_range 97 102 c then Some (c - 87)
  else if in_range 65 70 c then Some (c - 55)
  else None.

Fixpoint hex_val (n : nat) (acc : Z) (s : bytes) : option (Z * bytes) :=
  match n with
  | O => Some (acc, s)
  | S n' => match s with
            | [] => None
            | c :: t => match unhex c with
                        | Some x => hex_val n' (acc * 16 + x) t
                        | None => None
                        end
            end
  end.

Definition is_octal (c : Z) : bool := in_range 48 55 c.

(* One UnquoteChar(s, dquote) step of the slow path together with what unquote appends for it:
   [Some (appended bytes, tail)] or [None] for ErrSyntax.  A raw byte >= 0x80 is decoded as UTF-8 and
   re-encoded, so an ill-formed byte comes out as U+FFFD. *)
Definition unquote_char (s : bytes) : option (bytes * bytes) :=
  match s with
  | [] => None
  | c :: t =>
    if c =? 34 then None
    else if 128 <=? c then
      match decode_rune s with
      | Some (r, rest) => Some (encode_rune r, rest)
      | None => Some (rune_error, t)
      end
    else if negb (c =? 92) then Some ([c], t)
    else
      match t with
      | [] => None
      | e :: u =>
        if e =? 97 then Some ([7], u)            (* \a *)
        else if e =? 98 then Some ([8], u)       (* \b *)
        else if e =? 102 then Some ([12], u)     (* \f *)
        else if e =? 110 then Some ([10], u)     (* \n *)
        else if e =? 114 then Some ([13], u)     (* \r *)
        else if e =? 116 then Some ([9], u)      (* \t *)
        else if e =? 118 then Some ([11], u)     (* \v *)
        else if e =? 120 then                    (* \xHH: one byte, possibly not UTF-8 *)
          match hex_val 2 0 u with Some (v, r) => Some ([v], r) | None => None end
        else if e =? 117 then                    (* \uXXXX *)
          match hex_val 4 0 u with
          | Some (v, r) => if valid_rune v then Some (encode_rune v, r) else None
          | None => None
          end
        else if e =? 85 then                     (* \UXXXXXXXX *)
          match hex_val 8 0 u with
          | Some (v, r) => if valid_rune v then Some (encode_rune v, r) else None
          | None => None
          end
        else if is_octal e then                  (* \ooo, value <= 255 *)
          match u with
          | d1 :: d2 :: r =>
            if is_octal d1 && is_octal d2 then
              let v := ((e - 48) * 8 + (d1 - 48)) * 8 + (d2 - 48) in
              if v <=? 255 then Some ([v], r) else None
            else None
          | _ => None
          end
        else if e =? 92 then Some ([92], u)      (* \\ *)
        else if e =? 34 then Some ([34], u)      (* backslash dquote; backslash quote is rejected inside double quotes *)
        else None
      end
  end.

(* the loop of unquote over the text after the opening quote (payload ++ closing quote) *)
Fixpoint unquote_loop (fuel : nat) (s : bytes) : option bytes :=
  match fuel with
  | O => None
  | S f =>
    match s with
    | [] => None                                      (* no terminating quote *)
    | c :: t =>
      if c =? 34 then (match t with [] => Some [] | _ => None end)   (* Unquote: nothing may follow *)
      else if c =? 10 then None                       (* raw newline *)
      else match unquote_char s with
           | Some (out, rest) => match unquote_loop f rest with
                                 | Some o => Some (out ++ o)
                                 | None => None
                                 end
           | None => None
           end
    end
  end.

Fixpoint until_quote (s : bytes) : bytes :=
  match s with [] => [] | c :: t => if c =? 34 then [] else c :: until_quote t end.

(* strconv.Unquote(dquote ++ p ++ dquote) *)
Definition unquote_body (p : bytes) : option bytes :=
  let prefix := until_quote p in
  if negb (mem 92 prefix) && negb (mem 10 prefix) && utf8_valid prefix
  then (if Nat.eqb (length prefix) (length p) then Some p else None)   (* fast path *)
  else unquote_loop (S (length p)) (p ++ [34]).

(* command/config.go parsePacketPayload (with the fix that rejects input that is not UTF-8) *)
Definition parse_payload (p : bytes) : option bytes :=
  if utf8_valid p then unquote_body p else None.

(* the code before the fix: ill-formed raw bytes were silently replaced by U+FFFD *)
Definition parse_payload_v0 (p : bytes) : option bytes := unquote_body p.

(* canonical renderings *)
Definition hex_digit (d : Z) : Z := if d <? 10 then 48 + d else 87 + d.
Definition hex_escape_byte (b : Z) : bytes := [92; 120; hex_digit (b / 16); hex_digit (b mod 16)].
Definition hex_escape (bs : bytes) : bytes := flat_map hex_escape_byte bs.
