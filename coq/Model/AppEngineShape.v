(* Pinned concurrency skeletons: the source shape the hand-written behaviours of this topic were
   validated against. [shape_ok] compares them with Gen/Skeletons.v (regenerated from /repo on every run).
   Written by bin/pin-skeletons; edit only by re-running it after re-validating the model. *)
From Coq Require Import String List Bool.
From SX Require Import Gen.Skeletons.
Import ListNotations.
Local Open Scope string_scope.

Fixpoint strs_eqb (a b : list string) : bool :=
  match a, b with
  | [], [] => true
  | x :: a', y :: b' => String.eqb x y && strs_eqb a' b'
  | _, _ => false
  end.

Definition pin_GenericEngine_Start : list string := [
  "assign done := make(chan interface{})";
  "assign errc := make(chan error, 100)";
  "assign requests, err := e.reqgen.GenerateRequests(ctx, r)";
  "if err != nil{";
  " send errc <- err";
  " do close(errc)";
  " do close(done)";
  " return done, errc";
  "}";
  "go{";
  " defer close(done)";
  " defer close(errc)";
  " for i <= e.workerCount{";
  "  do wg.Add(1)";
  "  go e.worker(ctx, &wg, requests, errc)";
  " }";
  " do wg.Wait()";
  "}";
  "return done, errc"
].

Definition pin_GenericEngine_worker : list string := [
  "defer wg.Done()";
  "for {";
  " select{";
  "  case <-ctx.Done():";
  "   return";
  "  case r, ok := <-requests:";
  "   if !ok{";
  "    return";
  "   }";
  "   if r.Err != nil{";
  "    do writeError(ctx, errc, r.Err)";
  "    continue";
  "   }";
  "   assign result, err := e.scanner.Scan(ctx, r)";
  "   if err != nil{";
  "    do writeError(ctx, errc, err)";
  "    continue";
  "   }";
  "   if result != nil{";
  "    do e.results.Put(result)";
  "   }";
  " }";
  "}"
].

Definition pin_NewResultChan : list string := [
  "assign results := make(chan Result, capacity)";
  "assign internalResults := make(chan Result, capacity)";
  "assign copyChans := func() {...}";
  " func{";
  "  defer close(results)";
  "  for {";
  "   select{";
  "    case <-ctx.Done():";
  "     return";
  "    case v := <-internalResults:";
  "     select{";
  "      case <-ctx.Done():";
  "       return";
  "      case results <- v:";
  "     }";
  "   }";
  "  }";
  " }";
  "go copyChans()";
  "return &resultChan{ ctx: ctx, results: results, internalResults: internalResults, }"
].

Definition pin_resultChan_Put : list string := [
  "select{";
  " case <-c.ctx.Done():";
  "  return";
  " case c.internalResults <- r:";
  "}"
].

Definition pin_startScanEngine : list string := [
  "assign ctx, cancel := context.WithCancel(ctx)";
  "defer cancel()";
  "do wg.Add(1)";
  "go{";
  " defer wg.Done()";
  " do logger.LogResults(ctx, engine.Results())";
  "}";
  "assign done, errc := engine.Start(ctx, &conf.scanRange)";
  "go{";
  " defer cancel()";
  " do <-done";
  " do <-time.After(conf.exitDelay)";
  "}";
  "do wg.Add(1)";
  "go{";
  " defer wg.Done()";
  " range errc{";
  "  do logger.Error(err)";
  " }";
  "}";
  "do wg.Wait()";
  "return nil"
].

Definition pin_logger_LogResults : list string := [
  "assign bw := bufio.NewWriter(l.w)";
  "defer bw.Flush()";
  "assign timec := time.After(l.flushInterval)";
  "for {";
  " select{";
  "  case <-ctx.Done():";
  "   return";
  "  case result, ok := <-results:";
  "   if !ok{";
  "    return";
  "   }";
  "   assign err := l.rw.Write(l.w, result)";
  "   if err != nil{";
  "    do l.Error(err)";
  "   }";
  "  case <-timec:";
  "   assign err = bw.Flush()";
  "   if err != nil{";
  "    do l.Error(err)";
  "   }";
  "   assign timec = time.After(l.flushInterval)";
  " }";
  "}"
].

Definition pin_writeError : list string := [
  "select{";
  " case <-ctx.Done():";
  "  return";
  " case out <- err:";
  "}"
].

Definition pin_writeRequest : list string := [
  "select{";
  " case <-ctx.Done():";
  "  return";
  " case out <- request:";
  "}"
].

Definition pin_rateLimitScanner_Scan : list string := [
  "do s.limiter.Take()";
  "return s.Scanner.Scan(ctx, r)"
].

Definition shape_checks : list (string * bool) := [
  ("GenericEngine_Start", strs_eqb pin_GenericEngine_Start skel_GenericEngine_Start);
  ("GenericEngine_worker", strs_eqb pin_GenericEngine_worker skel_GenericEngine_worker);
  ("NewResultChan", strs_eqb pin_NewResultChan skel_NewResultChan);
  ("resultChan_Put", strs_eqb pin_resultChan_Put skel_resultChan_Put);
  ("startScanEngine", strs_eqb pin_startScanEngine skel_startScanEngine);
  ("logger_LogResults", strs_eqb pin_logger_LogResults skel_logger_LogResults);
  ("writeError", strs_eqb pin_writeError skel_writeError);
  ("writeRequest", strs_eqb pin_writeRequest skel_writeRequest);
  ("rateLimitScanner_Scan", strs_eqb pin_rateLimitScanner_Scan skel_rateLimitScanner_Scan)
].

Definition shape_ok : bool := forallb snd shape_checks.
Definition shape_diff : list string := map fst (filter (fun p => negb (snd p)) shape_checks).
