(* Pinned concurrency skeletons: the source shape the hand-written behaviours of this topic were
   validated against. [shape_ok] compares them with Gen/Skeletons.v (regenerated from /repo on every run).
   Written by bin/pin-skeletons; edit only by re-running it after re-validating the model. *)
From Coq Require Import String List Bool.
From SX Require Import Gen.Skeletons.
Import ListNotations.
Local Open Scope string_scope.

Fixpoint strs_eqb (a b : list string) : bool :=
  match a, b with
  | [], [] => true
  | x :: a', y :: b' => String.eqb x y && strs_eqb a' b'
  | _, _ => false
  end.

Definition pin_GenericEngine_Start : list string := [
  "assign v3 := make(chan interface{})";
  "assign v4 := make(chan error, 100)";
  "assign v5, v6 := v0.reqgen.GenerateRequests(v1, v2)";
  "if v6 != nil{";
  " send v4 <- v6";
  " do close(v4)";
  " do close(v3)";
  " return v3, v4";
  "}";
  "go{";
  " defer close(v3)";
  " defer close(v4)";
  " for v8 <= v0.workerCount{";
  "  do v7.Add(1)";
  "  go v0.worker(v1, &v7, v5, v4)";
  " }";
  " do v7.Wait()";
  "}";
  "return v3, v4"
].

Definition pin_GenericEngine_worker : list string := [
  "defer v2.Done()";
  "for {";
  " select{";
  "  case <-v1.Done():";
  "   return";
  "  case v5, v6 := <-v3:";
  "   if !v6{";
  "    return";
  "   }";
  "   if v5.Err != nil{";
  "    do writeError(v1, v4, v5.Err)";
  "    continue";
  "   }";
  "   assign v7, v8 := v0.scanner.Scan(v1, v5)";
  "   if v8 != nil{";
  "    do writeError(v1, v4, v8)";
  "    continue";
  "   }";
  "   if v7 != nil{";
  "    do v0.results.Put(v7)";
  "   }";
  " }";
  "}"
].

Definition pin_NewResultChan : list string := [
  "assign v2 := make(chan Result, v1)";
  "assign v3 := make(chan Result, v1)";
  "assign v4 := func() {...}";
  " func{";
  "  defer close(v2)";
  "  for {";
  "   select{";
  "    case <-v0.Done():";
  "     return";
  "    case v5 := <-v3:";
  "     select{";
  "      case <-v0.Done():";
  "       return";
  "      case v2 <- v5:";
  "     }";
  "   }";
  "  }";
  " }";
  "go v4()";
  "return &resultChan{ ctx: v0, results: v2, internalResults: v3, }"
].

Definition pin_logger_LogResults : list string := [
  "assign v3 := bufio.NewWriter(v0.w)";
  "defer v3.Flush()";
  "assign v5 := time.After(v0.flushInterval)";
  "for {";
  " select{";
  "  case <-v1.Done():";
  "   return";
  "  case v6, v7 := <-v2:";
  "   if !v7{";
  "    return";
  "   }";
  "   assign v4 := v0.rw.Write(v0.w, v6)";
  "   if v4 != nil{";
  "    do v0.Error(v4)";
  "   }";
  "  case <-v5:";
  "   assign v4 = v3.Flush()";
  "   if v4 != nil{";
  "    do v0.Error(v4)";
  "   }";
  "   assign v5 = time.After(v0.flushInterval)";
  " }";
  "}"
].

Definition pin_rateLimitScanner_Scan : list string := [
  "do v0.limiter.Take()";
  "return v0.Scanner.Scan(v1, v2)"
].

Definition pin_resultChan_Put : list string := [
  "select{";
  " case <-v0.ctx.Done():";
  "  return";
  " case v0.internalResults <- v1:";
  "}"
].

Definition pin_startScanEngine : list string := [
  "assign v0, v3 := context.WithCancel(v0)";
  "defer v3()";
  "do v5.Add(1)";
  "go{";
  " defer v5.Done()";
  " do v4.LogResults(v0, v1.Results())";
  "}";
  "assign v6, v7 := v1.Start(v0, &v2.scanRange)";
  "go{";
  " defer v3()";
  " do <-v6";
  " do <-time.After(v2.exitDelay)";
  "}";
  "do v5.Add(1)";
  "go{";
  " defer v5.Done()";
  " range v7{";
  "  do v4.Error(v8)";
  " }";
  "}";
  "do v5.Wait()";
  "return nil"
].

Definition pin_writeError : list string := [
  "select{";
  " case <-v0.Done():";
  "  return";
  " case v1 <- v2:";
  "}"
].

Definition pin_writeRequest : list string := [
  "select{";
  " case <-v0.Done():";
  "  return";
  " case v1 <- v2:";
  "}"
].

Definition shape_checks : list (string * bool) := [
  ("GenericEngine_Start", strs_eqb pin_GenericEngine_Start skel_GenericEngine_Start);
  ("GenericEngine_worker", strs_eqb pin_GenericEngine_worker skel_GenericEngine_worker);
  ("NewResultChan", strs_eqb pin_NewResultChan skel_NewResultChan);
  ("logger_LogResults", strs_eqb pin_logger_LogResults skel_logger_LogResults);
  ("rateLimitScanner_Scan", strs_eqb pin_rateLimitScanner_Scan skel_rateLimitScanner_Scan);
  ("resultChan_Put", strs_eqb pin_resultChan_Put skel_resultChan_Put);
  ("startScanEngine", strs_eqb pin_startScanEngine skel_startScanEngine);
  ("writeError", strs_eqb pin_writeError skel_writeError);
  ("writeRequest", strs_eqb pin_writeRequest skel_writeRequest)
].

Definition shape_ok : bool := forallb snd shape_checks.
Definition shape_diff : list string := map fst (filter (fun p => negb (snd p)) shape_checks).
