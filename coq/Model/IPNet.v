(* Executable model of pkg/ip/ip.go ParseIPNet and of pkg/scan/request.go ipGenerator.IPs, together with
   the pieces of Go's net package they lean on (IP.To4, IP.Mask, IPMask.Size, CIDRMask, IPNet.Contains),
   transcribed from the Go 1.23 sources.  The two library parsers net.ParseCIDR and netip.ParseAddr are
   NOT modelled: their results on the argument string are inputs of [parse_ipnet] (oracle values, exactly
   as Go returns them).  big.Int arithmetic is Z.  No proofs here. *)
From Coq Require Import ZArith List Bool.
From SX Require Import Base.Loop Base.Bytes Model.RangeIter.
Import ListNotations.
Open Scope Z_scope.

Definition ip := list Z.                    (* net.IP: [] is nil, otherwise 4 or 16 bytes *)
Definition ipnet := (ip * list Z)%type.     (* net.IPNet{IP, Mask} *)

Definition len {A} (l : list A) : Z := Z.of_nat (length l).

Fixpoint map2 {A B C} (f : A -> B -> C) (a : list A) (b : list B) : list C :=
  match a, b with
  | x :: a', y :: b' => f x y :: map2 f a' b'
  | _, _ => []
  end.

(* ---------- net.IP.To4 ---------- *)
Definition v4in6_prefix : list Z := [0;0;0;0;0;0;0;0;0;0;255;255].
Definition to4 (a : ip) : ip :=
  if len a =? 4 then a
  else if (len a =? 16) && bytes_eqb (firstn 12 a) v4in6_prefix then skipn 12 a
  else [].

(* ---------- net.CIDRMask(ones, bits) ---------- *)
(* per byte: n >= 8 -> 0xff, n -= 8; else ^byte(0xff >> n), n = 0 *)
Fixpoint cidr_mask_bytes (l : nat) (n : Z) : list Z :=
  match l with
  | O => []
  | S l' => if 8 <=? n then 255 :: cidr_mask_bytes l' (n - 8)
            else (255 - 255 / 2 ^ n) :: cidr_mask_bytes l' 0
  end.
Definition cidr_mask (ones bits : Z) : list Z :=
  if negb ((bits =? 32) || (bits =? 128)) then []
  else if (ones <? 0) || (bits <? ones) then []
  else cidr_mask_bytes (Z.to_nat (bits / 8)) ones.

(* ---------- net.IPMask.Size (simpleMaskLength) ---------- *)
(* for v&0x80 != 0 { n++; v <<= 1 } on a byte: returns (count, what is left of v) *)
Fixpoint lead_ones (fuel : nat) (v : Z) : Z * Z :=
  match fuel with
  | O => (0, v)
  | S f => if 128 <=? v then let '(c, r) := lead_ones f ((v * 2) mod 256) in (c + 1, r) else (0, v)
  end.
Fixpoint mask_len (m : list Z) : option Z :=
  match m with
  | [] => Some 0
  | v :: m' => if v =? 255 then match mask_len m' with Some n => Some (8 + n) | None => None end
               else let '(c, r) := lead_ones 8 v in
                    if (r =? 0) && forallb (Z.eqb 0) m' then Some c else None
  end.
(* (ones, bits); (0, 0) when the mask is not canonical *)
Definition mask_size (m : list Z) : Z * Z :=
  match mask_len m with Some n => (n, 8 * len m) | None => (0, 0) end.

(* ---------- net.IP.Mask ---------- *)
Definition ip_mask (a : ip) (m : list Z) : ip :=
  let m1 := if (len m =? 16) && (len a =? 4) && forallb (Z.eqb 255) (firstn 12 m) then skipn 12 m else m in
  let a1 := if (len m1 =? 4) && (len a =? 16) && bytes_eqb (firstn 12 a) v4in6_prefix then skipn 12 a else a in
  if len a1 =? len m1 then map2 Z.land a1 m1 else [].

(* ---------- net.IPNet.Contains (networkNumberAndMask) ---------- *)
Definition net_number_mask (n : ipnet) : option (ip * list Z) :=
  let '(a, m) := n in
  let a1 := match to4 a with [] => if len a =? 16 then Some a else None | b => Some b end in
  match a1 with
  | None => None
  | Some a2 =>
      if len m =? len a2 then Some (a2, m)
      else if (len m =? 16) && (len a2 =? 4) && forallb (Z.eqb 255) (firstn 12 m) then Some (a2, skipn 12 m)
      else None
  end.
Definition contains (n : ipnet) (x : ip) : bool :=
  match net_number_mask n with
  | None => false
  | Some (nn, m) =>
      let x1 := match to4 x with [] => x | b => b end in
      (len x1 =? len nn) && bytes_eqb (map2 Z.land nn m) (map2 Z.land x1 m)
  end.

(* ---------- pkg/ip ParseIPNet ---------- *)
(* [cidr] = second result of net.ParseCIDR(s) (None when it returns an error);
   [addr] = netip.ParseAddr(s).AsSlice() (None when it returns an error): 4 bytes iff Is4() *)
Inductive parsed := PErr | POk (n : ipnet).
Definition parse_ipnet (cidr : option ipnet) (addr : option ip) : parsed :=
  match cidr with
  | Some (a, m) => if len m =? 4 then POk (a, m) else PErr
  | None => match addr with
            | None => PErr
            | Some b => if len b =? 4 then POk (b, cidr_mask 32 32) else PErr
            end
  end.

(* ---------- ipGenerator.IPs ---------- *)
(* big.Int.SetBytes: big endian *)
Definition be_num (l : list Z) : Z := fold_left (fun acc b => acc * 256 + b) l 0.
(* big.Int.FillBytes(make([]byte, 4)): panics when |x| does not fit *)
Definition fill4 (x : Z) : option ip :=
  let v := Z.abs x in if v <? 2 ^ 32 then Some (u32_bytes v) else None.
(* Go: 1 << k on int (64 bit), k >= 0 *)
Definition shl1 (k : Z) : Z := if k <? 63 then 2 ^ k else if k =? 63 then - 2 ^ 63 else 0.

Inductive gerr :=
  | GPortRange | GSubnet | GIP | GPort | GJSON | GTooLong | GOpen
  | GIter (e : RangeIter.err)            (* error of newRangeIterator *)
  | GContains                            (* error returned by IPContainer.Contains *)
  | GNoMAC.                              (* "no destination MAC address for ..." *)

(* how a generator goroutine ended: [Done] closed its channel normally, [Crashed] panicked (the process
   dies), [Cut] the model ran out of the evaluation fuel it was given (prefix only; never with full fuel),
   [StuckIter] the iterator's inner loop did not terminate (excluded by C04) *)
Inductive ending := Done | Crashed | Cut | StuckIter.
(* what a call of a generator yields: an error return, or a channel that carries [l] and then ends *)
Inductive out (A : Type) := Fail (e : gerr) | Emit (l : list A) (e : ending).
Arguments Fail {A} e.
Arguments Emit {A} l e.

(* emit f(i) for each i until f panics *)
Fixpoint emit_until {A} (f : Z -> option A) (l : list Z) (e : ending) : list A * ending :=
  match l with
  | [] => ([], e)
  | i :: l' => match f i with
               | None => ([], Crashed)
               | Some a => let '(r, e') := emit_until f l' e in (a :: r, e')
               end
  end.

(* the size the generator asks the iterator for *)
Definition net_size (n : ipnet) : Z := let '(ones, bits) := mask_size (snd n) in shl1 (bits - ones).
Definition net_base (n : ipnet) : Z := be_num (ip_mask (fst n) (snd n)).

(* [fuel] = None: the complete walk; Some k: at most k addresses (evaluation of prefixes of huge nets) *)
Definition ips_gen_fuel (table : list row) (fuel : option positive) (d : Z * Z) (dst : option ipnet) : out ip :=
  match dst with
  | None => Fail GSubnet
  | Some n =>
      let sz := net_size n in
      let fl := match fuel with Some k => k | None => Z.to_pos sz end in
      match run_fuel table fl sz (fst d) (snd d) with
      | Err e => Fail (GIter e)
      | Ok o =>
          let base := net_base n - 1 in
          let f := fun i => fill4 (base + i) in
          match o with
          | Complete l => let '(r, e) := emit_until f l Done in Emit r e
          | Prefix l => let '(r, e) := emit_until f l Cut in Emit r e
          | Stuck => Emit [] StuckIter
          end
      end
  end.
Definition ips_gen (table : list row) (d : Z * Z) (dst : option ipnet) : out ip := ips_gen_fuel table None d dst.

(* ---------- what the library parsers guarantee about their results (premise of the theorems, checked
   on every oracle value by the correspondence harness) ---------- *)
Definition is_ipv4_net (n : ipnet) : bool :=
  let '(a, m) := n in
  (len a =? 4) && wf_bytes a && (len m =? 4) &&
  match mask_len m with Some k => bytes_eqb m (cidr_mask k 32) | None => false end.
Definition is_ipv6_net (n : ipnet) : bool :=
  let '(a, m) := n in
  (len a =? 16) && wf_bytes a && (len m =? 16) &&
  match mask_len m with Some k => bytes_eqb m (cidr_mask k 128) | None => false end.
Definition lib_cidr_ok (c : option ipnet) : bool :=
  match c with None => true | Some n => is_ipv4_net n || is_ipv6_net n end.
Definition lib_addr_ok (a : option ip) : bool :=
  match a with None => true | Some b => wf_bytes b && ((len b =? 4) || (len b =? 16)) end.

(* the addresses a.b.c.d/k denotes: base .. base + 2^(32-k) - 1 *)
Definition net_addrs_from (base : Z) (n : nat) : list ip := map (fun i => u32_bytes (base + Z.of_nat i)) (seq 0 n).
Definition net_addrs (n : ipnet) : list ip := net_addrs_from (net_base n) (Z.to_nat (net_size n)).
