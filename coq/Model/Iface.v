(* Model of interface / source selection (property C17).

   Transcribes, function by function:
     command/config.go   packetScanCmdOpts.parseRawOptions (the --iface lookup), getScanRange,
                         getInterface, getLocalSubnetInterface, ipScanCmdOpts.parseOptions (vpnMode),
                         ipScanCmdOpts.getGatewayMAC (the gateway lookup only)
     command/arp.go      the errSrcMAC test after getScanRange
     pkg/ip/ip.go        GetInterfaceIP, GetLocalSubnetInterface, GetLocalSubnetInterfaceIP
     pkg/ip/ip_linux.go  GetDefaultInterface, GetDefaultGatewayIP
   and the parts of Go's package net they lean on, on raw byte slices:
     IP.To4, IP.Mask, networkNumberAndMask, IPNet.Contains, InterfaceByName, InterfaceByIndex.

   The host configuration is an INPUT: the interfaces in the order net.Interfaces() reports them,
   each with the addresses in the order Interface.Addrs() reports them (raw IP and mask bytes as Go
   holds them: IP is 16 bytes for both families on Linux, the mask 4 or 16 bytes), and the routes in
   the order netlink.RouteList(nil, FAMILY_V4) reports them.  Failures of the operating system calls
   are oracle flags of the configuration (never axioms).  A nil slice is the empty list; where the
   code tests a slice against nil the model uses [option].

   Executable definitions only; proofs are in Proofs/IfaceProofs.v. *)
From Coq Require Import ZArith List Bool String.
Import ListNotations.
Open Scope Z_scope.

Definition ip := list Z.                 (* net.IP, net.IPMask, net.HardwareAddr: bytes *)

Inductive error :=
| ErrSrcInterface      (* errSrcInterface "invalid source interface" *)
| ErrSrcIP             (* errSrcIP "invalid source IP" *)
| ErrSrcMAC            (* errSrcMAC "invalid source MAC" (arp command) *)
| ErrIfaceName         (* net.InterfaceByName: no such network interface *)
| ErrIfaceIndex        (* net.InterfaceByIndex: invalid index / no such network interface *)
| ErrAddrs             (* Interface.Addrs() failed *)
| ErrAddrType          (* addrs[0] is not a *net.IPNet *)
| ErrInterfaces        (* net.Interfaces() / interfaceTable failed *)
| ErrRoutes            (* netlink.RouteList failed *)
| ErrTarget.           (* ip.ErrInvalidAddr "invalid IP subnet/host": ip.ParseIPNet refused the target *)

Inductive result (A : Type) := Ok (a : A) | Err (e : error).
Arguments Ok {A} a.
Arguments Err {A} e.

Record addr := {
  a_ip : ip;             (* IPNet.IP *)
  a_mask : ip;           (* IPNet.Mask *)
  a_ipnet : bool }.      (* the net.Addr is a *net.IPNet (always so on Linux) *)

Record iface := {
  if_index : Z;
  if_name : string;
  if_mac : option ip;    (* HardwareAddr; None = nil (loopback, tun, ...) *)
  if_addrs : list addr;  (* in the order Addrs() returns them *)
  if_addrs_err : bool }. (* oracle: Addrs() fails for this interface *)

Record route := {
  rt_dst_nil : bool;     (* route.Dst == nil  (no RTA_DST attribute: prefix length 0) *)
  rt_src_nil : bool;     (* route.Src == nil  (no RTA_PREFSRC attribute) *)
  rt_link : Z;           (* route.LinkIndex (0 for blackhole/unreachable/multipath routes) *)
  rt_prio : Z;           (* route.Priority (the metric, an unsigned 32-bit number read into int) *)
  rt_gw : ip }.          (* route.Gw; [] = nil *)

Record config := {
  ifaces : list iface;   (* kernel enumeration order *)
  ifaces_err : bool;     (* oracle: interfaceTable fails *)
  routes : list route;   (* netlink order, main table, IPv4 ONLY: exactly what RouteList(nil, nl.FAMILY_V4)
                            returns.  IPv6 routes are by definition no part of the configuration; that the code
                            asks for FAMILY_V4 in GetDefaultInterface / GetDefaultGatewayIP is pinned by the
                            source tie (Properties/C17Source.v) and exercised by configurations that also have
                            IPv6 default routes with lower metrics on other interfaces *)
  routes_err : bool }.   (* oracle: RouteList fails *)

Record target := { t_ip : ip; t_mask : ip }.      (* *net.IPNet from ip.ParseIPNet *)

Record overrides := {
  ov_iface : string;         (* --iface; "" = flag absent *)
  ov_srcip : option ip;      (* --srcip after pflag's net.ParseIP; None = flag absent *)
  ov_srcmac : option ip }.   (* --srcmac after net.ParseMAC; None = flag absent *)

(* ------------------------------------------------------------------ package net on bytes *)

Fixpoint bytes_eqb (a b : ip) : bool :=
  match a, b with
  | [], [] => true
  | x :: a', y :: b' => (x =? y) && bytes_eqb a' b'
  | _, _ => false
  end.

Definition len (x : ip) : Z := Z.of_nat (List.length x).

Definition v4in6_prefix : ip := [0; 0; 0; 0; 0; 0; 0; 0; 0; 0; 255; 255].

(* IP.To4: a 4-byte slice is returned as is, a 16-byte slice with the ::ffff:0:0/96 prefix yields
   its last four bytes, everything else nil *)
Definition to4 (x : ip) : option ip :=
  if len x =? 4 then Some x
  else if (len x =? 16) && bytes_eqb (firstn 12 x) v4in6_prefix then Some (skipn 12 x)
  else None.

Definition all_ff (m : ip) : bool := forallb (fun b => b =? 255) m.

Fixpoint and_bytes (a b : ip) : ip :=
  match a, b with
  | x :: a', y :: b' => Z.land x y :: and_bytes a' b'
  | _, _ => []
  end.

(* IP.Mask *)
Definition ip_mask (x m : ip) : ip :=
  let m1 := if (len m =? 16) && (len x =? 4) && all_ff (firstn 12 m) then skipn 12 m else m in
  let x1 := if (len m1 =? 4) && (len x =? 16) && bytes_eqb (firstn 12 x) v4in6_prefix then skipn 12 x else x in
  if len x1 =? len m1 then and_bytes x1 m1 else [].

(* networkNumberAndMask *)
Definition net_num_mask (a : addr) : ip * ip :=
  let x := match to4 (a_ip a) with
           | Some y => Some y
           | None => if len (a_ip a) =? 16 then Some (a_ip a) else None
           end in
  match x with
  | None => ([], [])
  | Some x =>
      let m := a_mask a in
      if len m =? 4 then (if len x =? 4 then (x, m) else ([], []))
      else if len m =? 16 then (if len x =? 4 then (x, skipn 12 m) else (x, m))
      else ([], [])
  end.

(* the comparison loop of IPNet.Contains; nn, m and x have the same length when it is reached *)
Fixpoint masked_eqb (nn m x : ip) : bool :=
  match nn, m, x with
  | [], _, _ => true
  | n :: nn', k :: m', y :: x' => (Z.land n k =? Z.land y k) && masked_eqb nn' m' x'
  | _, _, _ => false
  end.

(* IPNet.Contains *)
Definition contains (a : addr) (x : ip) : bool :=
  let '(nn, m) := net_num_mask a in
  let x1 := match to4 x with Some y => y | None => x end in
  (len x1 =? len nn) && masked_eqb nn m x1.

(* net.InterfaceByName (called by parseRawOptions only for a non-empty name) *)
Definition interface_by_name (cfg : config) (name : string) : result iface :=
  if ifaces_err cfg then Err ErrInterfaces
  else match find (fun i => String.eqb name (if_name i)) (ifaces cfg) with
       | Some i => Ok i
       | None => Err ErrIfaceName
       end.

(* net.InterfaceByIndex *)
Definition interface_by_index (cfg : config) (idx : Z) : result iface :=
  if idx <=? 0 then Err ErrIfaceIndex
  else if ifaces_err cfg then Err ErrInterfaces
  else match find (fun i => if_index i =? idx) (ifaces cfg) with
       | Some i => Ok i
       | None => Err ErrIfaceIndex
       end.

(* ------------------------------------------------------------------ pkg/ip *)

(* GetInterfaceIP: the FIRST address, whatever its family; (nil, nil) when there is none *)
Definition get_interface_ip (i : iface) : result (option ip) :=
  if if_addrs_err i then Err ErrAddrs
  else match if_addrs i with
       | [] => Ok None
       | a :: _ => if a_ipnet a then Ok (Some (a_ip a)) else Err ErrAddrType
       end.

(* GetLocalSubnetInterfaceIP: the target's IP masked with the target's own mask is looked up in
   the network of each address; the first address whose network contains it is returned *)
Definition local_subnet_ip (i : iface) (t : target) : result (option ip) :=
  let base := ip_mask (t_ip t) (t_mask t) in
  if if_addrs_err i then Err ErrAddrs
  else Ok (match find (fun a => a_ipnet a && contains a base) (if_addrs i) with
           | Some a => Some (a_ip a)
           | None => None
           end).

(* GetLocalSubnetInterface: first interface, in enumeration order, with such an address *)
Fixpoint local_subnet_walk (l : list iface) (t : target) : result (option (iface * ip)) :=
  match l with
  | [] => Ok None
  | i :: l' =>
      match local_subnet_ip i t with
      | Err e => Err e
      | Ok (Some a) => Ok (Some (i, a))
      | Ok None => local_subnet_walk l' t
      end
  end.

Definition get_local_subnet_interface (cfg : config) (t : target) : result (option (iface * ip)) :=
  if ifaces_err cfg then Err ErrInterfaces else local_subnet_walk (ifaces cfg) t.

Definition max_int32 : Z := 2147483647.

Definition is_default_candidate (r : route) (prio : Z) : bool :=
  rt_dst_nil r && rt_src_nil r && (rt_prio r <? prio).

(* the loop of GetDefaultInterface: [prio] is the running minimum, [cur] the (iface, ifaceIP) of the
   last candidate taken; a failing lookup for ANY candidate taken on the way ends the loop with err *)
Fixpoint default_walk (cfg : config) (rs : list route) (prio : Z) (cur : option iface * option ip)
  : result (option iface * option ip) :=
  match rs with
  | [] => Ok cur
  | r :: rs' =>
      if is_default_candidate r prio then
        match interface_by_index cfg (rt_link r) with
        | Err e => Err e
        | Ok i =>
            match get_interface_ip i with
            | Err e => Err e
            | Ok a => default_walk cfg rs' (rt_prio r) (Some i, a)
            end
        end
      else default_walk cfg rs' prio cur
  end.

Definition get_default_interface (cfg : config) : result (option iface * option ip) :=
  if routes_err cfg then Err ErrRoutes else default_walk cfg (routes cfg) max_int32 (None, None).

(* GetDefaultGatewayIP: gateway of the lowest-priority default route through the given interface *)
Fixpoint gateway_walk (rs : list route) (idx : Z) (prio : Z) (gw : ip) : ip :=
  match rs with
  | [] => gw
  | r :: rs' =>
      if is_default_candidate r prio && (rt_link r =? idx)
      then gateway_walk rs' idx (rt_prio r) (rt_gw r)
      else gateway_walk rs' idx prio gw
  end.

Definition get_default_gateway_ip (cfg : config) (i : iface) : result ip :=
  if routes_err cfg then Err ErrRoutes else Ok (gateway_walk (routes cfg) (if_index i) max_int32 []).

(* ------------------------------------------------------------------ command/config.go *)

(* o.iface after parseRawOptions: None when --iface is absent *)
Definition resolve_iface (cfg : config) (ov : overrides) : result (option iface) :=
  if String.eqb (ov_iface ov) "" then Ok None
  else match interface_by_name cfg (ov_iface ov) with
       | Ok i => Ok (Some i)
       | Err e => Err e
       end.

(* getLocalSubnetInterface: with --iface only that interface is examined, and it is returned
   even when it is not attached (then with a nil address) *)
Definition cmd_local_subnet_interface (cfg : config) (oi : option iface) (t : target)
  : result (option iface * option ip) :=
  match oi with
  | None =>
      match get_local_subnet_interface cfg t with
      | Err e => Err e
      | Ok None => Ok (None, None)
      | Ok (Some (i, a)) => Ok (Some i, Some a)
      end
  | Some i =>
      match local_subnet_ip i t with
      | Err e => Err e
      | Ok a => Ok (Some i, a)
      end
  end.

(* the two fallbacks of getInterface *)
Definition fallback_interface (cfg : config) (oi : option iface) : result (option iface * option ip) :=
  match oi with
  | Some i =>
      match get_interface_ip i with
      | Err e => Err e
      | Ok a => Ok (Some i, a)
      end
  | None => get_default_interface cfg
  end.

(* getInterface *)
Definition get_interface (cfg : config) (oi : option iface) (t : option target)
  : result (option iface * option ip) :=
  match t with
  | Some t =>
      match cmd_local_subnet_interface cfg oi t with
      | Err e => Err e
      | Ok (Some i, Some a) => Ok (Some i, Some a)
      | Ok _ => fallback_interface cfg oi
      end
  | None => fallback_interface cfg oi
  end.

(* scan.Range as far as C17 is concerned; r_srcip = None is a nil SrcIP *)
Record range := { r_iface : iface; r_srcip : option ip; r_srcmac : option ip }.

(* getScanRange.  [strict] = the source is required to be an IPv4 address (the repaired code:
   srcIP.To4() == nil is errSrcIP); with [strict = false] this is the code as it was found, which
   passes a nil SrcIP on. *)
Definition get_scan_range_gen (strict : bool) (cfg : config) (oi : option iface) (ov : overrides)
  (t : option target) : result range :=
  match get_interface cfg oi t with
  | Err e => Err e
  | Ok (None, _) => Err ErrSrcInterface
  | Ok (Some i, ifip) =>
      let src := match ov_srcip ov with Some s => Some s | None => ifip end in
      match src with
      | None => Err ErrSrcIP
      | Some s =>
          let mac := match ov_srcmac ov with Some m => Some m | None => if_mac i end in
          match to4 s with
          | None => if strict then Err ErrSrcIP
                    else Ok {| r_iface := i; r_srcip := None; r_srcmac := mac |}
          | Some s4 => Ok {| r_iface := i; r_srcip := Some s4; r_srcmac := mac |}
          end
      end
  end.

(* what a scan goes out with *)
Record outcome := {
  o_iface : iface;
  o_srcip : option ip;     (* None = nil SrcIP (only possible with strict = false) *)
  o_srcmac : option ip;
  o_vpn : bool }.

(* the ip-level commands (icmp, tcp *, udp): parseRawOptions, then parseOptions up to vpnMode *)
Definition choose_gen (strict : bool) (cfg : config) (t : option target) (ov : overrides) : result outcome :=
  match resolve_iface cfg ov with
  | Err e => Err e
  | Ok oi =>
      match get_scan_range_gen strict cfg oi ov t with
      | Err e => Err e
      | Ok r => Ok {| o_iface := r_iface r; o_srcip := r_srcip r; o_srcmac := r_srcmac r;
                      o_vpn := match r_srcmac r with None => true | Some _ => false end |}
      end
  end.

(* the arp command: same selection, but a missing source MAC is an error *)
Definition choose_arp_gen (strict : bool) (cfg : config) (t : option target) (ov : overrides) : result outcome :=
  match choose_gen strict cfg t ov with
  | Err e => Err e
  | Ok o => match o_srcmac o with None => Err ErrSrcMAC | Some _ => Ok o end
  end.

(* the code as repaired by fixes/c17/fix-srcip-ipv4.patch, and the code as found *)
Definition choose := choose_gen true.
Definition choose_arp := choose_arp_gen true.
Definition choose_orig := choose_gen false.
Definition choose_arp_orig := choose_arp_gen false.

(* gateway used by getGatewayMAC when --gwmac is absent and the scan is not in VPN mode *)
Definition gateway_of (cfg : config) (o : outcome) : result ip := get_default_gateway_ip cfg (o_iface o).

(* ------------------------------------------------------------------ the target argument (pkg/ip ParseIPNet)

   What Go's parsers make of the positional argument is an INPUT (net.ParseCIDR and netip.ParseAddr
   are not modelled); what ParseIPNet decides on it is modelled: only an IPv4 CIDR block (4-byte
   mask; the IPv4-mapped IPv6 form has a 16-byte mask) or an IPv4 host address (netip Is4, false
   for every IPv6 notation incl. IPv4-mapped and zoned ones) is a target, everything else is
   ErrInvalidAddr. *)
Inductive target_text :=
| TxtCIDR (ipb maskb : ip)          (* net.ParseCIDR succeeded: result.IP, result.Mask *)
| TxtAddr (is4 : bool) (addr : ip)  (* ParseCIDR failed, netip.ParseAddr succeeded: Is4(), AsSlice() *)
| TxtJunk.                          (* neither parses *)

Definition parse_ipnet (x : target_text) : result target :=
  match x with
  | TxtCIDR ipb maskb => if len maskb =? 4 then Ok {| t_ip := ipb; t_mask := maskb |} else Err ErrTarget
  | TxtAddr true addr => Ok {| t_ip := addr; t_mask := [255; 255; 255; 255] |}
  | TxtAddr false _ => Err ErrTarget
  | TxtJunk => Err ErrTarget
  end.

(* a whole command line: the positional argument (None = absent, targets come from a file) and the
   three flags.  The ip-level commands look --iface up first (parseRawOptions) and parse the target
   inside parseOptions; the arp command parses the target before anything else. *)
Definition run_gen (strict : bool) (cfg : config) (x : option target_text) (ov : overrides) : result outcome :=
  match x with
  | None => choose_gen strict cfg None ov
  | Some x =>
      match resolve_iface cfg ov with
      | Err e => Err e
      | Ok _ => match parse_ipnet x with
                | Err e => Err e
                | Ok t => choose_gen strict cfg (Some t) ov
                end
      end
  end.

Definition run_arp_gen (strict : bool) (cfg : config) (x : option target_text) (ov : overrides) : result outcome :=
  match x with
  | None => choose_arp_gen strict cfg None ov
  | Some x => match parse_ipnet x with
              | Err e => Err e
              | Ok t => choose_arp_gen strict cfg (Some t) ov
              end
  end.

Definition run := run_gen true.
Definition run_arp := run_arp_gen true.
