(* The packet pipeline of pkg/scan/generator.go, pkg/scan/engine.go (PacketEngine.Start,
   mergeErrChan), pkg/packet/sender.go and the error drain of command/root.go as a goroutine
   network over Base/Net.v.  N = number of packetGenerator workers (runtime.NumCPU() in the code,
   any N >= 0 here).  No proofs in this file.

   goroutines (index):  source 0 | worker i: 1+i | multiplexer i: N+1+i | closer 2N+1 |
                        sender 2N+2 | receiver 2N+3 | error multiplexers 2N+4, 2N+5 |
                        error closer 2N+6 | error drain 2N+7
   channels (index):    requests 0 | worker i out: 1+i (cap 100) | merged N+1 (cap 100 N) |
                        done N+2 | sender errc N+3 (cap 100) | receiver errc N+4 (cap 100) |
                        merged errors N+5 (cap 100)                                          *)
From stdpp Require Import gmultiset list.
From SX Require Import Base.Net.

Inductive val :=
| VReq (id : nat) (bad : bool)   (* a request; bad = it already carries Err *)
| VBuf (id : nat)                (* BufferData{Buf: frame built for request id} *)
| VBufErr (id : nat)             (* BufferData{Err: ...} *)
| VErr (id : nat)                (* an error on an error stream, caused by request id *)
| VRcvErr.                       (* an error reported by the receiver (not tied to a request) *)

Inductive ev :=
| EFill (id : nat)               (* Fill called for request id *)
| EWire (id : nat)               (* the frame of request id was handed to the wire (write ok) *)
| EWriteFail (id : nat)          (* WritePacketData returned an error for the frame of id *)
| EErrOut (v : val).             (* the error drain logged this error *)

Inductive role :=
| RSrc | RWorker (i : nat) | RMux (i : nat) | RCloser | RSender | RReceiver
| REMux (j : nat) | RECloser | RDrain.

Inductive loc :=
| Src (rest : list (nat * bool)) | SrcClose
| WIdle (i : nat) | WFill (i id : nat) | WSend (i id : nat) | WSendErr (i id : nat) | WClose (i : nat)
| MIdle (i : nat) | MSend (i : nat) (v : val)
| CWait | CClose
| SIdle | SErr (id : nat) | SWrite (id : nat) | SCloseDone | SCloseErr
| RLoop | RRead | RSendErr | RClose
| EIdle (j : nat) | ESend (j : nat) (v : val)
| ECWait | ECClose
| DIdle | DEmit (v : val)
| Junk (r : role) (v : val)      (* received a value of an impossible shape: keeps it, blocks *)
| End (r : role)
| SrcStalled (rest : list (nat * bool)).   (* the input of the request generator stalls for ever *)

Global Instance val_eq_dec : EqDecision val.
Proof. solve_decision. Defined.
Global Instance role_eq_dec : EqDecision role.
Proof. solve_decision. Defined.

Section pipeline.
Variable N : nat.
(* the environment: outcome of Fill and of WritePacketData for the frame of request id *)
Variables fill_ok write_ok : nat -> bool.

Definition c_in : nat := 0.
Definition c_w (i : nat) : nat := 1 + i.
Definition c_m : nat := N + 1.
Definition c_done : nat := N + 2.
Definition c_serr : nat := N + 3.
Definition c_rerr : nat := N + 4.
Definition c_eout : nat := N + 5.

Definition p_m (i : nat) : nat := N + 1 + i.
Definition mux_ids : list nat := p_m <$> seq 0 N.
Definition p_em (j : nat) : nat := 2 * N + 4 + j.
Definition emux_ids : list nat := [p_em 0; p_em 1].
Definition e_in (j : nat) : nat := match j with 0 => c_serr | _ => c_rerr end.

Notation K l := (fun _ : resp val => l).

Definition beh (l : loc) : pend val loc nat ev :=
  match l with
  (* a request generator: writeRequest selects against ctx.Done; close(out) is deferred *)
  (* on ctx.Done writeRequest just returns: the generator drops the request and goes on with its input;
     the input itself (a file, a pipe, stdin) may stall for ever at any point *)
  | Src ((id, bad) :: r) => PSel [(GSend c_in (VReq id bad), K (Src r)); (GDone, K (Src r));
                                  (GDefault, K (SrcStalled ((id, bad) :: r)))]
  | Src [] => PClose c_in (End RSrc)
  | SrcClose => PClose c_in (End RSrc)
  (* packetGenerator.Packets goroutine *)
  | WIdle i => PSel [(GDone, K (WClose i));
                     (GRecv c_in, fun r => match r with
                        | RVal (VReq id bad) => if bad then WSendErr i id else WFill i id
                        | RVal v => Junk (RWorker i) v
                        | _ => WClose i end)]
  | WFill i id => PCall (fun _ => [EFill id]) (fun _ => if fill_ok id then WSend i id else WSendErr i id)
  | WSend i id => PSel [(GDone, K (WIdle i)); (GSend (c_w i) (VBuf id), K (WIdle i))]
  | WSendErr i id => PSel [(GDone, K (WIdle i)); (GSend (c_w i) (VBufErr id), K (WIdle i))]
  | WClose i => PClose (c_w i) (End (RWorker i))
  (* MergeBufferDataChan: one multiplexer per worker, then wg.Wait(); close(out) *)
  | MIdle i => PSel [(GDone, K (End (RMux i)));
                     (GRecv (c_w i), fun r => match r with RVal v => MSend i v | _ => End (RMux i) end)]
  | MSend i v => PSel [(GDone, K (End (RMux i))); (GSend c_m v, K (MIdle i))]
  | CWait => PWait mux_ids CClose
  | CClose => PClose c_m (End RCloser)
  (* sender.SendPackets: note the unconditional sends on errc *)
  | SIdle => PSel [(GDone, K SCloseDone);
                   (GRecv c_m, fun r => match r with
                      | RVal (VBufErr id) => SErr id
                      | RVal (VBuf id) => SWrite id
                      | RVal v => Junk RSender v
                      | _ => SCloseDone end)]
  | SErr id => PSel [(GSend c_serr (VErr id), K SIdle)]
  | SWrite id => PCall (fun _ => if write_ok id then [EWire id] else [EWriteFail id])
                       (fun _ => if write_ok id then SIdle else SErr id)
  | SCloseDone => PClose c_done SCloseErr
  | SCloseErr => PClose c_serr (End RSender)
  (* the receiver, abstractly: it may report any number of errors; it ends on cancellation or on
     an unrecoverable read error (oracle answer 2) *)
  | RLoop => PSel [(GDone, K RClose); (GDefault, K RRead)]
  | RRead => PCall (fun _ => []) (fun o => match o with 0 => RLoop | 1 => RSendErr | _ => RClose end)
  | RSendErr => PSel [(GDone, K RClose); (GSend c_rerr VRcvErr, K RLoop)]
  | RClose => PClose c_rerr (End RReceiver)
  (* mergeErrChan *)
  | EIdle j => PSel [(GDone, K (End (REMux j)));
                     (GRecv (e_in j), fun r => match r with RVal v => ESend j v | _ => End (REMux j) end)]
  | ESend j v => PSel [(GDone, K (EIdle j)); (GSend c_eout v, K (EIdle j))]
  | ECWait => PWait emux_ids ECClose
  | ECClose => PClose c_eout (End RECloser)
  (* for err := range errc { logger.Error(err) } *)
  | DIdle => PSel [(GRecv c_eout, fun r => match r with RVal v => DEmit v | _ => End RDrain end)]
  | DEmit v => PCall (fun _ => [EErrOut v]) (fun _ => DIdle)
  | Junk _ _ => PSel []
  | End _ => PEnd
  | SrcStalled _ => PSel []
  end.

Definition role_of (l : loc) : role :=
  match l with
  | Src _ | SrcClose | SrcStalled _ => RSrc
  | WIdle i | WFill i _ | WSend i _ | WSendErr i _ | WClose i => RWorker i
  | MIdle i | MSend i _ => RMux i
  | CWait | CClose => RCloser
  | SIdle | SErr _ | SWrite _ | SCloseDone | SCloseErr => RSender
  | RLoop | RRead | RSendErr | RClose => RReceiver
  | EIdle j | ESend j _ => REMux j
  | ECWait | ECClose => RECloser
  | DIdle | DEmit _ => RDrain
  | Junk r _ => r
  | End r => r
  end.

Definition mk_chan (cap : nat) : chan val := Chan [] cap false.

Definition init_procs (reqs : list (nat * bool)) : list loc :=
  [Src reqs] ++ (WIdle <$> seq 0 N) ++ (MIdle <$> seq 0 N) ++
  [CWait; SIdle; RLoop; EIdle 0; EIdle 1; ECWait; DIdle].

Definition init_chans (cap_in : nat) : list (chan val) :=
  [mk_chan cap_in] ++ ((fun _ => mk_chan 100) <$> seq 0 N) ++
  [mk_chan (N * 100); mk_chan 0; mk_chan 100; mk_chan 100; mk_chan 100].

Definition init (cap_in : nat) (reqs : list (nat * bool)) : net val loc ev :=
  Net (init_procs reqs) (init_chans cap_in) false [] false.

Definition layout : list role :=
  [RSrc] ++ (RWorker <$> seq 0 N) ++ (RMux <$> seq 0 N) ++
  [RCloser; RSender; RReceiver; REMux 0; REMux 1; RECloser; RDrain].

(* ---- tokens: the request id travels with every value ---- *)
Definition tok_val (v : val) : gmultiset nat :=
  match v with
  | VReq id _ | VBuf id | VBufErr id | VErr id => {[+ id +]}
  | VRcvErr => ∅
  end.
Definition tok_ev (e : ev) : gmultiset nat :=
  match e with
  | EWire id => {[+ id +]}
  | EErrOut v => tok_val v
  | EFill _ | EWriteFail _ => ∅
  end.
Definition ids_of (reqs : list (nat * bool)) : gmultiset nat := list_to_set_disj (fst <$> reqs).
Definition weight (l : loc) : gmultiset nat :=
  match l with
  | Src rest | SrcStalled rest => ids_of rest
  | WFill _ id | WSend _ id | WSendErr _ id | SErr id | SWrite id => {[+ id +]}
  | MSend _ v | ESend _ v | DEmit v | Junk _ v => tok_val v
  | _ => ∅
  end.

(* ---- fates: what must finally happen to request id ---- *)
Definition bad_of (reqs : list (nat * bool)) (id : nat) : bool :=
  match list_find (fun r => fst r = id) reqs with Some (_, (_, b)) => b | None => false end.
Definition goes_to_wire (reqs : list (nat * bool)) (id : nat) : bool :=
  negb (bad_of reqs id) && fill_ok id && write_ok id.

End pipeline.
