(* An independent decoder for probe frames, written from the wire formats and not by inverting the
   builders of Model/Frames.v (it shares no definition with them and does not see Gen/):
     Ethernet II            RFC 894   dst(6) src(6) ethertype(2) payload, minimum frame 60 bytes
     IPv4 header            RFC 791   version/IHL, TOS, total length, id, flags/fragment offset, TTL,
                                      protocol, header checksum, source, destination, options
     TCP header             RFC 793 + RFC 3168 (ECE, CWR) + RFC 3540 (NS); options kind/length/data
     UDP header             RFC 768   ports, length, checksum over the pseudo header
     ICMP message           RFC 792   type, code, checksum, (echo: identifier, sequence), data
     ARP packet             RFC 826
     Internet checksum      RFC 1071  ones'-complement sum with end-around carry of 16-bit words,
                                      an odd trailing byte padded with zero; valid iff the sum is 0xFFFF
   Everything is offset driven ([nth], [firstn], [skipn]).  Definitions only. *)
From Coq Require Import ZArith List Bool.
From SX Require Import Base.Bytes Model.FramesBase.
Import ListNotations.
Open Scope Z_scope.

Definition byte_at (l : list Z) (n : nat) : Z := nth n l 0.
Definition word_at (l : list Z) (n : nat) : Z := byte_at l n * 256 + byte_at l (S n).
Definition dword_at (l : list Z) (n : nat) : Z := word_at l n * 65536 + word_at l (S (S n)).
Definition slice (l : list Z) (off len : nat) : list Z := firstn len (skipn off l).

(* ------------------------------------------------------------------ RFC 1071 *)

Fixpoint words16 (l : list Z) : list Z :=
  match l with
  | [] => []
  | [a] => [a * 256]
  | a :: b :: t => (a * 256 + b) :: words16 t
  end.

(* ones'-complement addition of two 16-bit quantities: end-around carry *)
Definition oc_add (a b : Z) : Z := let s := a + b in if s >? 65535 then s - 65535 else s.

Definition oc_sum (l : list Z) : Z := fold_left oc_add (words16 l) 0.

Definition csum_ok (l : list Z) : bool := oc_sum l =? 65535.

(* the pseudo header of RFC 793 / RFC 768: source, destination, zero, protocol, transport length *)
Definition pseudo_header (src dst : list Z) (proto len : Z) : list Z :=
  src ++ dst ++ [0; proto; (len / 256) mod 256; len mod 256].

Definition l4_csum_ok (src dst : list Z) (proto : Z) (seg : list Z) : bool :=
  csum_ok (pseudo_header src dst proto (Z.of_nat (length seg)) ++ seg).

(* ------------------------------------------------------------------ Ethernet II *)

Record eth_view := { ev_dst : list Z; ev_src : list Z; ev_type : Z; ev_payload : list Z }.

Definition parse_eth (f : list Z) : option eth_view :=
  if (length f <? 14)%nat then None
  else Some {| ev_dst := slice f 0 6; ev_src := slice f 6 6; ev_type := word_at f 12; ev_payload := skipn 14 f |}.

(* ------------------------------------------------------------------ IPv4 *)

Record ip_view := {
  iv_version : Z; iv_ihl : Z; iv_tos : Z; iv_total_len : Z; iv_id : Z;
  iv_flags : Z;       (* the three flag bits as a number: 4 reserved ("evil"), 2 DF, 1 MF *)
  iv_frag_off : Z; iv_ttl : Z; iv_proto : Z;
  iv_csum_ok : bool;  (* header checksum verifies *)
  iv_src : list Z; iv_dst : list Z; iv_options : list Z }.

(* the header fields and every byte after the header *)
Definition parse_ipv4 (d : list Z) : option (ip_view * list Z) :=
  if (length d <? 20)%nat then None
  else
    let ihl := byte_at d 0 mod 16 in
    let hl := Z.to_nat (4 * ihl) in
    if (ihl <? 5) || (length d <? hl)%nat then None
    else Some ({| iv_version := byte_at d 0 / 16; iv_ihl := ihl; iv_tos := byte_at d 1;
                 iv_total_len := word_at d 2; iv_id := word_at d 4;
                 iv_flags := byte_at d 6 / 32; iv_frag_off := (byte_at d 6 mod 32) * 256 + byte_at d 7;
                 iv_ttl := byte_at d 8; iv_proto := byte_at d 9;
                 iv_csum_ok := csum_ok (firstn hl d);
                 iv_src := slice d 12 4; iv_dst := slice d 16 4; iv_options := slice d 20 (hl - 20) |},
              skipn hl d).

(* ------------------------------------------------------------------ TCP *)

(* byte 12: data offset (4 bits), reserved (3 bits), NS; byte 13: CWR ECE URG ACK PSH RST SYN FIN *)
Definition tcp_flags_of (b12 b13 : Z) : tcp_flagset :=
  {| fFIN := Z.odd b13; fSYN := Z.odd (b13 / 2); fRST := Z.odd (b13 / 4); fPSH := Z.odd (b13 / 8);
     fACK := Z.odd (b13 / 16); fURG := Z.odd (b13 / 32); fECE := Z.odd (b13 / 64); fCWR := Z.odd (b13 / 128);
     fNS := Z.odd b12 |}.

(* options: kind 0 ends the list (the rest must be zero padding), kind 1 is a single byte, every
   other kind is followed by a length byte covering kind, length and data *)
Fixpoint parse_tcp_options (fuel : nat) (l : list Z) : option (list (Z * list Z)) :=
  match fuel with
  | O => match l with [] => Some [] | _ => None end
  | S fuel' =>
      match l with
      | [] => Some []
      | k :: rest =>
          if k =? 0 then (if forallb (Z.eqb 0) rest then Some [] else None)
          else if k =? 1 then option_map (cons (1, [])) (parse_tcp_options fuel' rest)
          else match rest with
               | [] => None
               | len :: data =>
                   if (len <? 2) || (Z.of_nat (length data) <? len - 2) then None
                   else option_map (cons (k, firstn (Z.to_nat (len - 2)) data))
                                   (parse_tcp_options fuel' (skipn (Z.to_nat (len - 2)) data))
               end
      end
  end.

Record tcp_view := {
  tv_sport : Z; tv_dport : Z; tv_seq : Z; tv_ack : Z; tv_data_offset : Z; tv_reserved : Z;
  tv_flags : tcp_flagset; tv_window : Z; tv_urgent : Z;
  tv_options : option (list (Z * list Z));   (* None: malformed option block *)
  tv_payload : list Z }.

Definition parse_tcp (s : list Z) : option tcp_view :=
  if (length s <? 20)%nat then None
  else
    let doff := byte_at s 12 / 16 in
    let hl := Z.to_nat (4 * doff) in
    if (doff <? 5) || (length s <? hl)%nat then None
    else Some {| tv_sport := word_at s 0; tv_dport := word_at s 2; tv_seq := dword_at s 4; tv_ack := dword_at s 8;
                 tv_data_offset := doff; tv_reserved := (byte_at s 12 / 2) mod 8;
                 tv_flags := tcp_flags_of (byte_at s 12) (byte_at s 13);
                 tv_window := word_at s 14; tv_urgent := word_at s 18;
                 tv_options := parse_tcp_options (hl - 20) (slice s 20 (hl - 20));
                 tv_payload := skipn hl s |}.

(* ------------------------------------------------------------------ UDP *)

Record udp_view := { uv_sport : Z; uv_dport : Z; uv_length : Z; uv_payload : list Z; uv_after : list Z }.

(* the length field delimits the datagram; what follows it is not part of it *)
Definition parse_udp (s : list Z) : option udp_view :=
  if (length s <? 8)%nat then None
  else
    let len := word_at s 4 in
    if (len <? 8) || (Z.of_nat (length s) <? len) then None
    else Some {| uv_sport := word_at s 0; uv_dport := word_at s 2; uv_length := len;
                 uv_payload := slice s 8 (Z.to_nat len - 8); uv_after := skipn (Z.to_nat len) s |}.

(* ------------------------------------------------------------------ ICMP (echo layout) *)

Record icmp_view := { cv_type : Z; cv_code : Z; cv_csum_ok : bool; cv_id : Z; cv_seq : Z; cv_payload : list Z }.

Definition parse_icmp (s : list Z) : option icmp_view :=
  if (length s <? 8)%nat then None
  else Some {| cv_type := byte_at s 0; cv_code := byte_at s 1; cv_csum_ok := csum_ok s;
               cv_id := word_at s 4; cv_seq := word_at s 6; cv_payload := skipn 8 s |}.

(* ------------------------------------------------------------------ ARP *)

Record arp_view := {
  av_htype : Z; av_ptype : Z; av_hlen : Z; av_plen : Z; av_oper : Z;
  av_sha : list Z; av_spa : list Z; av_tha : list Z; av_tpa : list Z; av_after : list Z }.

Definition parse_arp (s : list Z) : option arp_view :=
  if (length s <? 8)%nat then None
  else
    let hl := Z.to_nat (byte_at s 4) in
    let pl := Z.to_nat (byte_at s 5) in
    if (length s <? 8 + 2 * hl + 2 * pl)%nat then None
    else Some {| av_htype := word_at s 0; av_ptype := word_at s 2; av_hlen := byte_at s 4; av_plen := byte_at s 5;
                 av_oper := word_at s 6;
                 av_sha := slice s 8 hl; av_spa := slice s (8 + hl) pl;
                 av_tha := slice s (8 + hl + pl) hl; av_tpa := slice s (8 + 2 * hl + pl) pl;
                 av_after := skipn (8 + 2 * hl + 2 * pl) s |}.

(* ------------------------------------------------------------------ a whole probe *)

Inductive l4_view :=
| L4tcp (v : tcp_view) (csum_valid : bool)
| L4udp (v : udp_view) (csum_valid : bool)
| L4icmp (v : icmp_view)
| L4other (bytes : list Z)
| L4bad.                                   (* the transport header does not parse *)

Record probe_view := {
  pv_eth : option (list Z * list Z * Z);   (* destination, source, ethertype; None without link header *)
  pv_ip : ip_view;
  pv_l4 : l4_view;                         (* decoded from the bytes the IPv4 total length covers *)
  pv_trailer : list Z }.                   (* bytes after the IPv4 total length (Ethernet padding) *)

(* the transport header is chosen by the IPv4 protocol field *)
Definition decode_l4 (ip : ip_view) (seg : list Z) : l4_view :=
  if iv_proto ip =? 6 then
    match parse_tcp seg with
    | Some v => L4tcp v (l4_csum_ok (iv_src ip) (iv_dst ip) 6 seg)
    | None => L4bad
    end
  else if iv_proto ip =? 17 then
    match parse_udp seg with
    | Some v => L4udp v (l4_csum_ok (iv_src ip) (iv_dst ip) 17 seg)
    | None => L4bad
    end
  else if iv_proto ip =? 1 then
    match parse_icmp seg with Some v => L4icmp v | None => L4bad end
  else L4other seg.

(* strict: the total length must cover the header and must not exceed the bytes present *)
Definition parse_ip_probe (eth : option (list Z * list Z * Z)) (d : list Z) : option probe_view :=
  match parse_ipv4 d with
  | None => None
  | Some (ip, rest) =>
      let hl := 4 * iv_ihl ip in
      if (iv_total_len ip <? hl) || (Z.of_nat (length d) <? iv_total_len ip) then None
      else
        let n := Z.to_nat (iv_total_len ip - hl) in
        Some {| pv_eth := eth; pv_ip := ip; pv_l4 := decode_l4 ip (firstn n rest); pv_trailer := skipn n rest |}
  end.

(* [vpn]: the frame starts with the IPv4 header; otherwise with an Ethernet II header of type 0x0800 *)
Definition parse_probe (vpn : bool) (frame : list Z) : option probe_view :=
  if vpn then parse_ip_probe None frame
  else match parse_eth frame with
       | None => None
       | Some e => if ev_type e =? 2048 then parse_ip_probe (Some (ev_dst e, ev_src e, ev_type e)) (ev_payload e)
                   else None
       end.

(* an ARP frame: Ethernet II header of type 0x0806 and an ARP packet *)
Definition parse_arp_frame (frame : list Z) : option (eth_view * arp_view) :=
  match parse_eth frame with
  | None => None
  | Some e => if ev_type e =? 2054 then option_map (pair e) (parse_arp (ev_payload e)) else None
  end.
