(* Executable model of the request generators of pkg/scan/request.go (portGenerator, ipPortGenerator,
   ipRequestGenerator, filterIPRequestGenerator), of pkg/scan/arp/cache.go cacheReqGenerator, of the way
   pkg/scan/generator.go / engine.go turn requests into probes or error records, and of the chunk loop of
   command/root.go startPortScanEngine.  Random draws are oracle values: every call of newRangeIterator
   gets its own pair.  No proofs here. *)
From Coq Require Import ZArith List Bool.
From SX Require Import Base.Loop Base.Bytes Model.RangeIter Model.IPNet Model.Exclude.
Import ListNotations.
Open Scope Z_scope.

Definition draws := nat -> Z * Z.           (* the two rand.Int63() values of the i-th iterator *)

(* ---------- scan.Request (the fields the generators touch) ---------- *)
Record req := { rip : ip; rport : Z; rerr : option gerr; rmac : list Z }.
Definition mk_req (a : ip) (p : Z) : req := {| rip := a; rport := p; rerr := None; rmac := [] |}.
Definition err_req (e : gerr) : req := {| rip := []; rport := 0; rerr := Some e; rmac := [] |}.

Definition getter (A : Type) := (A + gerr)%type.     (* PortGetter / IPGetter: a value or an error *)

(* ---------- portGenerator.Ports ---------- *)
Definition prange := (Z * Z)%type.          (* StartPort, EndPort *)
Definition validate_ports (rs : list prange) : bool :=
  match rs with [] => false | _ => forallb (fun r => fst r <=? snd r) rs end.

(* the goroutine: per range a fresh iterator; an iterator error is sent as a port error and the loop
   goes on; WrapPort(basePort + i) is a uint16 conversion *)
Fixpoint ports_walk (table : list row) (ds : draws) (i : nat) (rs : list prange) : list (getter Z) * ending :=
  match rs with
  | [] => ([], Done)
  | (s, e) :: rs' =>
      let n := e - s + 1 in
      match run table n (fst (ds i)) (snd (ds i)) with
      | Err er => let '(r, en) := ports_walk table ds (S i) rs' in (inr (GIter er) :: r, en)
      | Ok (Complete l) =>
          let '(r, en) := ports_walk table ds (S i) rs' in
          (map (fun x => inl ((s - 1 + x) mod 65536)) l ++ r, en)
      | Ok (Prefix l) => (map (fun x => inl ((s - 1 + x) mod 65536)) l, Cut)
      | Ok Stuck => ([], StuckIter)
      end
  end.
Definition ports_gen (table : list row) (ds : draws) (rs : list prange) : out (getter Z) :=
  if validate_ports rs then let '(l, e) := ports_walk table ds 0 rs in Emit l e else Fail GPortRange.

(* ---------- IPGenerator as seen by its callers: the k-th call of IPs ---------- *)
Definition ip_source := nat -> out (getter ip).
Definition lift_ips (o : out ip) : out (getter ip) :=
  match o with Fail e => Fail e | Emit l en => Emit (map inl l) en end.
Definition subnet_source (table : list row) (di : draws) (dst : option ipnet) : ip_source :=
  fun k => lift_ips (ips_gen table (di k) dst).

(* ---------- ipPortGenerator.GenerateRequests ---------- *)
Definition ip_req (port : Z) (g : getter ip) : req :=
  match g with
  | inl a => mk_req a port
  | inr e => {| rip := []; rport := port; rerr := Some e; rmac := [] |}
  end.

(* the goroutine: [cur] is the channel obtained by the last IPs call (its content and how it ends), [k]
   the number of IPs calls made so far.  A port error does not consume [cur]. *)
Fixpoint ip_port_loop (src : ip_source) (k : nat) (cur : list (getter ip)) (cur_end : ending)
         (ps : list (getter Z)) (ps_end : ending) : list req * ending :=
  match ps with
  | [] => ([], ps_end)
  | inr e :: ps' =>
      let '(r, en) := ip_port_loop src k cur cur_end ps' ps_end in (err_req e :: r, en)
  | inl port :: ps' =>
      let here := map (ip_req port) cur in
      match cur_end with
      | Done =>
          match src k with
          | Fail e => (here ++ [err_req e], Done)
          | Emit nxt nxt_end =>
              let '(r, en) := ip_port_loop src (S k) nxt nxt_end ps' ps_end in (here ++ r, en)
          end
      | other => (here, other)           (* the address goroutine died: so does the process / the model *)
      end
  end.
Definition ip_port_gen (ports : out (getter Z)) (src : ip_source) : out req :=
  match ports with
  | Fail e => Fail e
  | Emit ps ps_end =>
      match src 0%nat with
      | Fail e => Fail e
      | Emit cur cur_end => let '(l, en) := ip_port_loop src 1 cur cur_end ps ps_end in Emit l en
      end
  end.

(* ---------- ipRequestGenerator.GenerateRequests (port-less: arp, icmp) ---------- *)
Definition ip_req_gen (src : ip_source) : out req :=
  match src 0%nat with
  | Fail e => Fail e
  | Emit l en => Emit (map (ip_req 0) l) en
  end.

(* ---------- filterIPRequestGenerator (with the fix: error requests pass through) ---------- *)
Definition filter_one (nets : list ipnet) (r : req) : list req :=
  match rerr r with
  | Some _ => [r]
  | None => match excluded_res nets (rip r) with
            | None => [{| rip := rip r; rport := rport r; rerr := Some GContains; rmac := rmac r |}]
            | Some true => []
            | Some false => [r]
            end
  end.
Definition filter_stage (nets : list ipnet) (o : out req) : out req :=
  match o with Fail e => Fail e | Emit l en => Emit (flat_map (filter_one nets) l) en end.

(* ---------- arp.cacheReqGenerator (with the fix: error requests pass through) ---------- *)
(* cache.Get looks the address up by its text form, so the 4-byte and the 16-byte spelling of an IPv4
   address are the same key *)
Definition ip_key (a : ip) : ip := match to4 a with [] => a | b => b end.
Record arp_cache := { ac_entries : list (ip * list Z); ac_gateway : list Z (* [] = nil *) }.
Fixpoint cache_get (es : list (ip * list Z)) (k : ip) : list Z :=
  match es with
  | [] => []
  | (a, m) :: es' => if bytes_eqb (ip_key a) k then m else cache_get es' k
  end.
(* later Put wins: FillCache inserts in file order into a map *)
Definition get_mac (c : arp_cache) (a : ip) : list Z :=
  match cache_get (rev (ac_entries c)) (ip_key a) with [] => ac_gateway c | m => m end.
Definition cache_one (c : arp_cache) (r : req) : req :=
  match rerr r with
  | Some _ => r
  | None => match get_mac c (rip r) with
            | [] => {| rip := rip r; rport := rport r; rerr := Some GNoMAC; rmac := rmac r |}
            | m => {| rip := rip r; rport := rport r; rerr := None; rmac := m |}
            end
  end.
Definition cache_stage (c : arp_cache) (o : out req) : out req :=
  match o with Fail e => Fail e | Emit l en => Emit (map (cache_one c) l) en end.

(* ---------- requests -> what happens: packetGenerator / GenericEngine.worker ---------- *)
Inductive event := EProbe (a : ip) (port : Z) (mac : list Z) | EError (e : gerr) | EAbnormal (e : ending).
Definition req_event (r : req) : event :=
  match rerr r with Some e => EError e | None => EProbe (rip r) (rport r) (rmac r) end.
(* an error return of GenerateRequests becomes one error record (packetSource.Packets, GenericEngine.Start) *)
Definition events (o : out req) : list event :=
  match o with
  | Fail e => [EError e]
  | Emit l Done => map req_event l
  | Emit l en => map req_event l ++ [EAbnormal en]
  end.
Definition probe_of (e : event) : list (ip * Z) := match e with EProbe a p _ => [(a, p)] | _ => [] end.
Definition probes (es : list event) : list (ip * Z) := flat_map probe_of es.
Definition error_of (e : event) : list gerr := match e with EError c => [c] | _ => [] end.
Definition errors (es : list event) : list gerr := flat_map error_of es.
Definition normal (es : list event) : bool := forallb (fun e => match e with EAbnormal _ => false | _ => true end) es.

(* ---------- startPortScanEngine: one engine run per chunk of port ranges ---------- *)
Fixpoint chunks_fuel {A} (fuel : nat) (size : nat) (l : list A) : list (list A) :=
  match fuel with
  | O => []
  | S f => match l with
           | [] => []
           | _ => firstn size l :: chunks_fuel f size (skipn size l)
           end
  end.
Definition chunks {A} (size : nat) (l : list A) : list (list A) := chunks_fuel (length l) size l.

(* [run_engine c ports] = the events of the c-th engine run, started with Range.Ports = ports.
   [empty_once] = the loop is preceded by "if the list is empty run one engine" (the fix of D1); without
   it an empty list runs no engine at all *)
Definition port_scan_engine (chunk_size : Z) (empty_once : bool)
           (run_engine : nat -> list prange -> list event) (ports : list prange) : list event :=
  match ports with
  | [] => if empty_once then run_engine 0%nat [] else []
  | _ => concat (map (fun ic => run_engine (fst ic) (snd ic))
                     (combine (seq 0 (length ports)) (chunks (Z.to_nat chunk_size) ports)))
  end.
