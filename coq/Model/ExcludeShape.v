(* The statement skeleton of command/config.go parseExcludeFile that Model/Exclude.v was written against
   (local names canonical: v0 openFile, v1 excludeIPs, v2 err, v3 input, v4 ranger, v5 scanner, v6 line,
   v7 comment, v8 ipnet).  tools/gen/exclude_shape.go extracts the same skeleton from the current sources
   into Gen/ExcludeShape.v; theorem C02_exclude_shape compares the two, so a statement that is added to,
   removed from or changed in the function breaks the tie even if no generated exclusion file notices.
   How the lines map to the model:
     per line: v6 := Text()                                   one element of [lines]
               cut at "#"; Trim(v6, " ")                      clean_line = trim_spaces (strip_comment l)
               len(v6) == 0 -> continue                       match s with [] => parse_exclude ls
               ParseIPNet(v6) error -> return                 parse_ipnet ... = PErr => None
               v4.Insert(entry of *v8) -- and NOTHING else    POk n => n :: ...  (membership = existsb contains)
     after the loop: scanner error -> return; v1 = v4         Some nets
   No proofs here. *)
From Coq Require Import List String.
Import ListNotations.
Open Scope string_scope.

Definition expected_exclude_shape : list string := [
  "func func(v0 openFileFunc) (v1 scan.IPContainer, v2 error)";
  " v3, v2 := v0()";
  " if ; v2 != nil {";
  "  return";
  " }";
  " defer v3.Close()";
  " v4 := cidranger.NewPCTrieRanger()";
  " v5 := bufio.NewScanner(v3)";
  " for ; v5.Scan();  {";
  "  v6 := v5.Text()";
  "  if v7 := strings.Index(v6, ""#""); v7 != -1 {";
  "   v6 = v6[:v7]";
  "  }";
  "  v6 = strings.Trim(v6, "" "")";
  "  if ; len(v6) == 0 {";
  "   continue";
  "  }";
  "  var v8 *net.IPNet";
  "  if v8, v2 = ip.ParseIPNet(v6); v2 != nil {";
  "   return";
  "  }";
  "  if v2 = v4.Insert(cidranger.NewBasicRangerEntry(*v8)); v2 != nil {";
  "   return";
  "  }";
  " }";
  " if v2 = v5.Err(); v2 != nil {";
  "  return";
  " }";
  " v1 = v4";
  " return"
].
