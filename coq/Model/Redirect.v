(* What the connections of one application probe (elastic, docker) are, given what the HTTP client does with a 3xx
   answer.  net/http's Client.Do sends the request to the host of the URL; if the answer is a redirect (301, 302,
   303, 307, 308 with a usable Location) and the client's CheckRedirect does not say otherwise, it sends the next
   request to the host the Location names, up to 10 redirects.  With CheckRedirect returning
   http.ErrUseLastResponse the first answer is handed back as it is.
   The policy strings are what the translator piece tools/gen/redirects.go reads off the scanners
   (Gen/RedirectPolicy.v).  Everything that is not recognisably "use-last-response" is taken as following. *)
From Coq Require Import List String Bool.
Import ListNotations.

Inductive policy := Follow | UseLastResponse | Unrecognised.

Definition policy_of (s : string) : policy :=
  if String.eqb s "use-last-response" then UseLastResponse
  else if String.eqb s "follow" then Follow else Unrecognised.

Definition follows (pol : policy) : bool :=
  match pol with UseLastResponse => false | _ => true end.

Section Hosts.
  Variable host : Type.

  (* the behaviour of the world for one request chain: what host h answers to the k-th request of the chain;
     None = an answer that is not a redirect, Some h' = a redirect whose Location names h' *)
  Definition peer := host -> nat -> option host.

  (* the hosts one Client.Do connects to, in order; fuel = redirects still allowed *)
  Fixpoint chain (fuel : nat) (pol : policy) (p : peer) (k : nat) (h : host) : list host :=
    match fuel with
    | O => [h]
    | S f => h :: (if follows pol then match p h k with Some h' => chain f pol p (S k) h' | None => [] end
                   else [])
    end.

  Definition max_redirects : nat := 10.

  Definition request_contacts (pol : policy) (p : peer) (t : host) : list host := chain max_redirects pol p 0 t.

  (* a probe of target t: the requests the scanner makes for it (elastic: GET / and GET /_aliases; docker: /_ping,
     /info, /version), each addressed to t, each with a world behaviour of its own *)
  Definition probe_contacts (pol : policy) (ps : list peer) (t : host) : list host :=
    flat_map (fun p => request_contacts pol p t) ps.
End Hosts.

Arguments chain {host}.
Arguments request_contacts {host}.
Arguments probe_contacts {host}.
