(* The application-scan engine (socks / docker / elastic) as a goroutine network over Base/Net.v:
   pkg/scan/engine.go GenericEngine.Start + worker, pkg/scan/result.go NewResultChan + Put,
   command/log/logger.go LogResults and command/root.go startScanEngine (logger goroutine, error
   drain, the caller waiting for both).  W = number of workers (--workers, any W >= 0 here).
   No proofs in this file.

   goroutines (index):  source 0 | worker i: 1+i | supervisor W+1 | result copier W+2 |
                        logger W+3 | error drain W+4 | caller (startScanEngine) W+5
   channels (index):    requests 0 | errc 1 (cap 100) | done 2 | internalResults 3 (cap 1000) |
                        results 4 (cap 1000)                                                   *)
From stdpp Require Import gmultiset list.
From SX Require Import Base.Net.

Inductive val :=
| VReq (id : nat) (bad : bool)     (* a request; bad = it carries Err *)
| VRes (id : nat)                  (* a scan result for request id *)
| VErr (id : nat).                 (* an error caused by request id *)

Inductive scan_res := SPos | SNeg | SFail.   (* Scan returned a result / (nil, nil) / an error *)

Inductive ev :=
| EScan (id : nat)                 (* Scanner.Scan called for request id *)
| ENeg (id : nat)                  (* ... and it reported nothing (ghost event: the probe ends here) *)
| EPrint (v : val)                 (* the logger wrote this result *)
| EErrLog (v : val).               (* the error drain logged this error *)

Inductive role := RSrc | RWorker (i : nat) | RSup | RCopier | RLogger | RDrain | RCaller.

Inductive loc :=
| Src (rest : list (nat * bool)) | SrcClose
| WIdle (i : nat) | WErr (i id : nat) | WScan (i id : nat) | WPut (i id : nat)
| SWait | SCloseErr | SCloseDone
| CIdle | CSend (v : val) | CClose
| LIdle | LWrite (v : val)
| DIdle | DEmit (v : val)
| MWait
| Junk (r : role) (v : val)
| End (r : role)
| SrcStalled (rest : list (nat * bool)).   (* the input of the request generator stalls for ever *)

Global Instance val_eq_dec : EqDecision val.
Proof. solve_decision. Defined.
Global Instance role_eq_dec : EqDecision role.
Proof. solve_decision. Defined.

Section engine.
Variable W : nat.
Variable scan_out : nat -> scan_res.   (* the environment: what Scan returns for request id *)

Definition c_req : nat := 0.
Definition c_errc : nat := 1.
Definition c_done : nat := 2.
Definition c_int : nat := 3.
Definition c_results : nat := 4.

Definition p_w (i : nat) : nat := 1 + i.
Definition worker_ids : list nat := p_w <$> seq 0 W.
Definition p_logger : nat := W + 3.
Definition p_drain : nat := W + 4.

Notation K l := (fun _ : resp val => l).

Definition beh (l : loc) : pend val loc nat ev :=
  match l with
  (* on ctx.Done writeRequest just returns: the generator drops the request and goes on with its input;
     the input itself (a file, a pipe, stdin) may stall for ever at any point *)
  | Src ((id, bad) :: r) => PSel [(GSend c_req (VReq id bad), K (Src r)); (GDone, K (Src r));
                                  (GDefault, K (SrcStalled ((id, bad) :: r)))]
  | Src [] => PClose c_req (End RSrc)
  | SrcClose => PClose c_req (End RSrc)
  (* GenericEngine.worker; wg.Done is deferred = the goroutine has ended *)
  | WIdle i => PSel [(GDone, K (End (RWorker i)));
                     (GRecv c_req, fun r => match r with
                        | RVal (VReq id bad) => if bad then WErr i id else WScan i id
                        | RVal v => Junk (RWorker i) v
                        | _ => End (RWorker i) end)]
  | WErr i id => PSel [(GDone, K (WIdle i)); (GSend c_errc (VErr id), K (WIdle i))]      (* writeError *)
  | WScan i id => PCall (fun _ => match scan_out id with SNeg => [EScan id; ENeg id] | _ => [EScan id] end)
                        (fun _ => match scan_out id with SPos => WPut i id | SNeg => WIdle i | SFail => WErr i id end)
  | WPut i id => PSel [(GDone, K (WIdle i)); (GSend c_int (VRes id), K (WIdle i))]        (* results.Put *)
  (* the goroutine of Start: wg.Wait(); close(errc); close(done)  (defers run in reverse order) *)
  | SWait => PWait worker_ids SCloseErr
  | SCloseErr => PClose c_errc SCloseDone
  | SCloseDone => PClose c_done (End RSup)
  (* NewResultChan: copyChans, with defer close(results) *)
  | CIdle => PSel [(GDone, K CClose);
                   (GRecv c_int, fun r => match r with RVal v => CSend v | _ => CClose end)]
  | CSend v => PSel [(GDone, K CClose); (GSend c_results v, K CIdle)]
  | CClose => PClose c_results (End RCopier)
  (* logger.LogResults *)
  | LIdle => PSel [(GDone, K (End RLogger));
                   (GRecv c_results, fun r => match r with RVal v => LWrite v | _ => End RLogger end)]
  | LWrite v => PCall (fun _ => [EPrint v]) (fun _ => LIdle)
  (* for err := range errc { logger.Error(err) } -- no ctx *)
  | DIdle => PSel [(GRecv c_errc, fun r => match r with RVal v => DEmit v | _ => End RDrain end)]
  | DEmit v => PCall (fun _ => [EErrLog v]) (fun _ => DIdle)
  (* startScanEngine: wg.Wait() for the logger goroutine and the error drain, then return *)
  | MWait => PWait [p_logger; p_drain] (End RCaller)
  | Junk _ _ => PSel []
  | End _ => PEnd
  | SrcStalled _ => PSel []
  end.

Definition role_of (l : loc) : role :=
  match l with
  | Src _ | SrcClose | SrcStalled _ => RSrc
  | WIdle i | WErr i _ | WScan i _ | WPut i _ => RWorker i
  | SWait | SCloseErr | SCloseDone => RSup
  | CIdle | CSend _ | CClose => RCopier
  | LIdle | LWrite _ => RLogger
  | DIdle | DEmit _ => RDrain
  | MWait => RCaller
  | Junk r _ => r
  | End r => r
  end.

Definition mk_chan (cap : nat) : chan val := Chan [] cap false.

Definition init_procs (reqs : list (nat * bool)) : list loc :=
  [Src reqs] ++ (WIdle <$> seq 0 W) ++ [SWait; CIdle; LIdle; DIdle; MWait].
Definition init_chans (cap_req : nat) : list (chan val) :=
  [mk_chan cap_req; mk_chan 100; mk_chan 0; mk_chan 1000; mk_chan 1000].
Definition init (cap_req : nat) (reqs : list (nat * bool)) : net val loc ev :=
  Net (init_procs reqs) (init_chans cap_req) false [] false.

Definition layout : list role :=
  [RSrc] ++ (RWorker <$> seq 0 W) ++ [RSup; RCopier; RLogger; RDrain; RCaller].

(* ---- tokens ---- *)
Definition tok_val (v : val) : gmultiset nat :=
  match v with VReq id _ | VRes id | VErr id => {[+ id +]} end.
Definition tok_ev (e : ev) : gmultiset nat :=
  match e with
  | ENeg id => {[+ id +]}
  | EPrint v | EErrLog v => tok_val v
  | EScan _ => ∅
  end.
Definition ids_of (reqs : list (nat * bool)) : gmultiset nat := list_to_set_disj (fst <$> reqs).
Definition weight (l : loc) : gmultiset nat :=
  match l with
  | Src rest | SrcStalled rest => ids_of rest
  | WErr _ id | WScan _ id | WPut _ id => {[+ id +]}
  | CSend v | LWrite v | DEmit v | Junk _ v => tok_val v
  | _ => ∅
  end.

(* ---- a second token system: probes still owed (error-free requests not yet scanned) ---- *)
Definition good_ids (reqs : list (nat * bool)) : gmultiset nat :=
  list_to_set_disj (fst <$> filter (fun r => snd r = false) reqs).
Definition owed_val (v : val) : gmultiset nat :=
  match v with VReq id false => {[+ id +]} | _ => ∅ end.
Definition owed_ev (e : ev) : gmultiset nat :=
  match e with EScan id => {[+ id +]} | EPrint v | EErrLog v => owed_val v | ENeg _ => ∅ end.
Definition owed (l : loc) : gmultiset nat :=
  match l with
  | Src rest | SrcStalled rest => good_ids rest
  | WScan _ id => {[+ id +]}
  | CSend v | LWrite v | DEmit v | Junk _ v => owed_val v
  | _ => ∅
  end.

End engine.
