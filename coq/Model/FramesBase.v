(* Types shared by the probe frame builders (Model/Frames.v) and the independent decoder
   (Model/FramesParse.v).  Bytes are [Z] in 0..255, byte strings are [list Z] (Base.Bytes). *)
From Coq Require Import ZArith List Bool.
Import ListNotations.
Open Scope Z_scope.

(* the nine TCP flags *)
Record tcp_flagset := {
  fFIN : bool; fSYN : bool; fRST : bool; fPSH : bool; fACK : bool; fURG : bool;
  fECE : bool; fCWR : bool; fNS : bool }.

Definition b2z (b : bool) : Z := if b then 1 else 0.

(* scan.Request as the fillers read it: addresses and MACs are byte strings of whatever length the
   caller supplies ([] stands for nil) *)
Record request := {
  q_src_ip : list Z; q_dst_ip : list Z; q_src_mac : list Z; q_dst_mac : list Z; q_dport : Z }.

(* flag set number used by the harness: bit0 FIN, 1 SYN, 2 RST, 3 PSH, 4 ACK, 5 URG, 6 ECE, 7 CWR, 8 NS *)
Definition flagset_of_Z (n : Z) : tcp_flagset :=
  {| fFIN := Z.testbit n 0; fSYN := Z.testbit n 1; fRST := Z.testbit n 2; fPSH := Z.testbit n 3;
     fACK := Z.testbit n 4; fURG := Z.testbit n 5; fECE := Z.testbit n 6; fCWR := Z.testbit n 7;
     fNS := Z.testbit n 8 |}.

Definition flagset_eqb (a b : tcp_flagset) : bool :=
  Bool.eqb (fFIN a) (fFIN b) && Bool.eqb (fSYN a) (fSYN b) && Bool.eqb (fRST a) (fRST b) &&
  Bool.eqb (fPSH a) (fPSH b) && Bool.eqb (fACK a) (fACK b) && Bool.eqb (fURG a) (fURG b) &&
  Bool.eqb (fECE a) (fECE b) && Bool.eqb (fCWR a) (fCWR b) && Bool.eqb (fNS a) (fNS b).

(* all 2^9 flag sets *)
Definition all_flagsets : list tcp_flagset :=
  map flagset_of_Z (map Z.of_nat (seq 0 512)).
