(* Executable model of the rate limiter that sx puts in front of every probe:
     go.uber.org/ratelimit v0.2.0, limiter_atomic.go   (atomicLimiter: New, Take)
     pkg/packet/readwriter.go                          (rateLimitReadWriter)
     pkg/scan/engine.go                                (rateLimitScanner)
   Time is a logical clock in Z nanoseconds (time.Time - some base, time.Duration).  int64 overflow
   of time.Duration is not modelled (292 years).  Definitions only, no proofs. *)
From Coq Require Import ZArith List Bool.
Import ListNotations.
Open Scope Z_scope.

(* ---------------------------------------------------------------- configuration *)
(* buildConfig: slack 10 unless WithSlack/WithoutSlack is passed (sx passes only Per) *)
Definition default_slack : Z := 10.

Record lconf := { perRequest : Z; maxSlack : Z }.

(* newAtomicBased: perRequest := config.per / time.Duration(rate)   (Go integer division truncates
   toward zero = Z.quot);  maxSlack := -1 * time.Duration(config.slack) * perRequest *)
Definition mk_conf_slack (slack rate per : Z) : lconf :=
  let p := Z.quot per rate in {| perRequest := p; maxSlack := -1 * slack * p |}.
Definition mk_conf (rate per : Z) : lconf := mk_conf_slack default_slack rate per.

(* ---------------------------------------------------------------- state and Take *)
(* state{last, sleepFor}; the initial state has last = time.Time{} (IsZero), which no clock reading
   equals, so "last.IsZero()" is the constructor [Fresh] *)
Inductive lstate := Fresh | Running (last sleepFor : Z).

Record taken := { t_state : lstate; t_grant : Z; t_sleep : Z }.

(* one successful iteration of the loop of Take (the one whose compare-and-swap succeeds) with
   now := clock.Now();  t_grant is the returned newState.last, t_sleep the argument of clock.Sleep *)
Definition take (c : lconf) (st : lstate) (now : Z) : taken :=
  match st with
  | Fresh => {| t_state := Running now 0; t_grant := now; t_sleep := 0 |}
  | Running last sf =>
      let sf1 := sf + (perRequest c - (now - last)) in
      let sf2 := if sf1 <? maxSlack c then maxSlack c else sf1 in
      if 0 <? sf2
      then {| t_state := Running (now + sf2) 0; t_grant := now + sf2; t_sleep := sf2 |}
      else {| t_state := Running now sf2; t_grant := now; t_sleep := 0 |}
  end.

(* the serialised history of a limiter: the i-th successful compare-and-swap read the clock at
   [nth i nows] *)
Fixpoint run_takes (c : lconf) (st : lstate) (nows : list Z) : list taken :=
  match nows with
  | [] => []
  | now :: rest => let t := take c st now in t :: run_takes c (t_state t) rest
  end.

Definition grants (c : lconf) (st : lstate) (nows : list Z) : list Z :=
  map t_grant (run_takes c st nows).

Fixpoint final_state (c : lconf) (st : lstate) (nows : list Z) : lstate :=
  match nows with
  | [] => st
  | now :: rest => final_state c (t_state (take c st now)) rest
  end.

(* ---------------------------------------------------------------- one goroutine driving a limiter *)
(* A caller that advances by [d >= 0] between the return of one Take (after its sleep) and the
   next call: the fake clock of the correspondence harness and the sender goroutine alike.
   Returns (now, grant, sleep) per call. *)
Fixpoint run_serial (c : lconf) (st : lstate) (clock : Z) (gaps : list Z) : list (Z * Z * Z) :=
  match gaps with
  | [] => []
  | d :: rest =>
      let now := clock + d in
      let t := take c st now in
      (now, t_grant t, t_sleep t) :: run_serial c (t_state t) (now + t_sleep t) rest
  end.

(* ---------------------------------------------------------------- the two wrappers *)
(* what the wrapper does to the objects it holds, in order *)
Inductive call :=
| CTake                      (* limiter.Take() *)
| CWrite (pkt : Z)           (* delegate.WritePacketData(pkt); pkt = identity of the buffer *)
| CRead                      (* delegate.ReadPacketData() *)
| CScan (req : Z).           (* delegate.Scan(ctx, req) *)

Inductive op := OpWrite (pkt : Z) | OpRead | OpScan (req : Z).

(* rateLimitReadWriter: WritePacketData = Take; delegate.WritePacketData.  ReadPacketData is the
   embedded delegate's method (promoted), the wrapper adds nothing. *)
Definition rl_write (pkt : Z) : list call := [CTake; CWrite pkt].
Definition rl_read : list call := [CRead].
(* rateLimitScanner.Scan = Take; delegate.Scan *)
Definition rl_scan (req : Z) : list call := [CTake; CScan req].

Definition rl_op (o : op) : list call :=
  match o with OpWrite p => rl_write p | OpRead => rl_read | OpScan r => rl_scan r end.

Definition rl_trace (ops : list op) : list call := flat_map rl_op ops.

Definition is_take (c : call) : bool := match c with CTake => true | _ => false end.
Definition is_probe (c : call) : bool := match c with CWrite _ | CScan _ => true | _ => false end.
Definition is_probe_op (o : op) : bool := match o with OpRead => false | _ => true end.
Definition count {A} (f : A -> bool) (l : list A) : nat := length (filter f l).

(* ---------------------------------------------------------------- timed sequential sender *)
(* One goroutine calling the wrapped ReadWriter (the sender of pkg/packet calls WritePacketData in
   a loop): each step waits [gap] (time spent outside the wrapper), then performs the op; the
   delegate call itself lasts [dur].  A probe "leaves" at some moment during the delegate call:
   [leave] in [0, dur] is that offset. *)
Record step := { s_gap : Z; s_op : op; s_leave : Z; s_dur : Z }.

Inductive tev :=
| TLeave (at_ : Z) (grant : Z)     (* a probe left at time at_; its Take returned grant *)
| TReadDone (asked done_ : Z).     (* a read asked at [asked] returned at [done_] *)

Fixpoint run_steps (c : lconf) (st : lstate) (clock : Z) (steps : list step) : list tev :=
  match steps with
  | [] => []
  | s :: rest =>
      let now := clock + s_gap s in
      match s_op s with
      | OpRead => TReadDone now (now + s_dur s) :: run_steps c st (now + s_dur s) rest
      | _ =>
          let t := take c st now in
          let start := now + t_sleep t in
          TLeave (start + s_leave s) (t_grant t) :: run_steps c (t_state t) (start + s_dur s) rest
      end
  end.

Definition leave_times (l : list tev) : list Z :=
  flat_map (fun e => match e with TLeave a _ => [a] | _ => [] end) l.

Definition step_ok (s : step) : Prop := 0 <= s_gap s /\ 0 <= s_leave s <= s_dur s.

(* number of elements of a list of times inside the closed window [lo, hi] *)
Definition in_window (lo hi x : Z) : bool := (lo <=? x) && (x <=? hi).
Definition count_in (lo hi : Z) (l : list Z) : nat := length (filter (in_window lo hi) l).

(* ---------------------------------------------------------------- concurrent callers *)
(* Small-step model of the lock-free loop of Take run by any number of goroutines.  A goroutine is
   Idle, has read the clock (GotNow), or has also loaded the state pointer (Loaded).  The
   compare-and-swap succeeds iff the shared state is still the one loaded (the Go code compares
   pointers to freshly allocated states, so "same pointer" = "no successful swap in between"; a
   version counter stands for the pointer identity). *)
Inductive gstate :=
| GIdle
| GNow (now : Z)
| GLoaded (now : Z) (ver : nat) (old : lstate).

Record shared := { sh_ver : nat; sh_st : lstate }.

Inductive cstep := SNow (g : nat) (now : Z) | SLoad (g : nat) | SCas (g : nat).

Fixpoint upd {A} (l : list A) (i : nat) (a : A) : list A :=
  match l, i with
  | [], _ => []
  | _ :: t, O => a :: t
  | x :: t, S i' => x :: upd t i' a
  end.

(* result of a step: new goroutine table, new shared state, and Some (g, now, taken) when a
   compare-and-swap succeeded *)
Definition conc_step (c : lconf) (gs : list gstate) (sh : shared) (s : cstep)
  : list gstate * shared * option (nat * Z * taken) :=
  match s with
  | SNow g now =>
      match nth_error gs g with
      | Some GIdle => (upd gs g (GNow now), sh, None)
      | _ => (gs, sh, None)
      end
  | SLoad g =>
      match nth_error gs g with
      | Some (GNow now) => (upd gs g (GLoaded now (sh_ver sh) (sh_st sh)), sh, None)
      | _ => (gs, sh, None)
      end
  | SCas g =>
      match nth_error gs g with
      | Some (GLoaded now ver old) =>
          if Nat.eqb ver (sh_ver sh)
          then let t := take c old now in
               (upd gs g GIdle, {| sh_ver := S (sh_ver sh); sh_st := t_state t |}, Some (g, now, t))
          else (upd gs g GIdle, sh, None)     (* lost the race: loop again from clock.Now() *)
      | _ => (gs, sh, None)
      end
  end.

Fixpoint conc_run (c : lconf) (gs : list gstate) (sh : shared) (sched : list cstep)
  : list (nat * Z * taken) :=
  match sched with
  | [] => []
  | s :: rest =>
      match conc_step c gs sh s with
      | (gs', sh', Some e) => e :: conc_run c gs' sh' rest
      | (gs', sh', None) => conc_run c gs' sh' rest
      end
  end.

(* ---------------------------------------------------------------- chunked port scans *)
(* startPortScanEngine calls startPacketScanEngine once per chunk of 200 port ranges and each call
   constructs its own limiter: a scan is a list of chunks, each a list of clock readings served by
   a Fresh limiter. *)
Definition chunk_grants (c : lconf) (chunks : list (list Z)) : list Z :=
  flat_map (fun nows => grants c Fresh nows) chunks.
