(* Model of the receive-side decoding that pkg/scan/{tcp,icmp,arp} drive:
   gopacket.DecodingLayerParser.DecodeLayers (parser.go, layers_decoder.go) with
   IgnoreUnsupported = true, IgnorePanic = false, and the DecodeFromBytes / NextLayerType /
   LayerPayload of layers.Ethernet, layers.IPv4, layers.TCP, layers.ICMPv4, layers.ARP
   (gopacket v1.1.20-0.20210304165259-20562ffb40f8).

   Executable definitions only.  What is kept of every decoder:
     - every length check and error return, in the order of the code (error = a class [derr]);
     - the fields that ProcessPacketData later reads (they live in [dstate], which PERSISTS across
       frames, exactly like the rcvIP/rcvTCP/rcvICMP/rcvARP structs), written at the point where
       the code writes them (so an error half way leaves a half-updated struct);
     - NextLayerType and LayerPayload;
     - slice-bounds panics: a Go slice expression d[lo:hi] is [slice lo hi d], [None] = panic.
       Inside DecodeLayers a panic is recovered and becomes the error class [EPanic].
   A frame is delivered in a buffer whose capacity equals its length (this is how the harness
   delivers frames); uint8 arithmetic of the ARP decoder wraps modulo 256 ([u8]). *)
From Coq Require Import ZArith List Bool.
From SX Require Import Base.Bytes.
Import ListNotations.
Open Scope Z_scope.

Definition bytes := list Z.

Fixpoint take (n : Z) (l : bytes) : bytes :=
  match l with
  | [] => []
  | x :: l' => if n <=? 0 then [] else x :: take (n - 1) l'
  end.

Fixpoint drop (n : Z) (l : bytes) : bytes :=
  match l with
  | [] => []
  | x :: l' => if n <=? 0 then l else drop (n - 1) l'
  end.

Definition byte_at (i : Z) (l : bytes) : Z := hd 0 (drop i l).

(* Go: d[lo:hi] on a slice with cap = len; lo, hi are unsigned here *)
Definition slice (lo hi : Z) (d : bytes) : option bytes :=
  if (lo <=? hi) && (hi <=? Zlength d) then Some (take (hi - lo) (drop lo d)) else None.

Definition u8 (z : Z) : Z := z mod 256.

(* gopacket.LayerType, collapsed to what the three parsers can distinguish: the five layer types
   for which some parser has a decoder, and everything else (LayerTypeZero, Payload, Fragment, LLC,
   IPv6, UDP, Dot1Q, ... : no decoder is registered for any of them) *)
Inductive ltype := LEth | LIPv4 | LTCP | LICMP | LARP | LOther.

Definition ltype_eqb (a b : ltype) : bool :=
  match a, b with
  | LEth, LEth | LIPv4, LIPv4 | LTCP, LTCP | LICMP, LICMP | LARP, LARP | LOther, LOther => true
  | _, _ => false
  end.

(* error classes = the distinct error returns of the decoders, [EPanic] = recovered panic,
   [EFuel] = the model ran out of fuel (excluded by theorem) *)
Inductive derr :=
| EEthShort
| EIpShort | EIpLenSmall | EIpIhlSmall | EIpIhlGtLen | EIpHdrTrunc | EIpOptShort | EIpOptLong | EIpOptLen
| ETcpShort | ETcpOff | ETcpOffLong | ETcpOptShort | ETcpOptLen | ETcpOptLong
| EIcmpShort
| EArpShort | EArpShort2
| EPanic
| EFuel.

Definition derr_code (e : derr) : Z :=
  match e with
  | EEthShort => 1
  | EIpShort => 2 | EIpLenSmall => 3 | EIpIhlSmall => 4 | EIpIhlGtLen => 5 | EIpHdrTrunc => 6
  | EIpOptShort => 7 | EIpOptLong => 8 | EIpOptLen => 9
  | ETcpShort => 10 | ETcpOff => 11 | ETcpOffLong => 12 | ETcpOptShort => 13 | ETcpOptLen => 14
  | ETcpOptLong => 15
  | EIcmpShort => 16
  | EArpShort => 17 | EArpShort2 => 18
  | EPanic => 19
  | EFuel => 99
  end.

(* the fields of the persistent decoder structs that ProcessPacketData reads *)
Record ipf := { ip_src : bytes; ip_ttl : Z }.
Record tcpf := { tcp_sport : Z; tcp_flags : Z }.       (* flags = 256 * NS + byte 13 *)
Record icmpf := { ic_type : Z; ic_code : Z }.
Record arpf := { ar_hw : Z; ar_pr : Z;                  (* HwAddressSize, ProtAddressSize *)
                 ar_sha : bytes;                        (* SourceHwAddress *)
                 ar_sha_cap : bytes;                    (* SourceHwAddress[:cap]: up to the buffer end *)
                 ar_spa : bytes }.                      (* SourceProtAddress *)
Record dstate := { s_ip : ipf; s_tcp : tcpf; s_icmp : icmpf; s_arp : arpf }.

(* zero values of the Go structs *)
Definition init_state : dstate :=
  {| s_ip := {| ip_src := []; ip_ttl := 0 |};
     s_tcp := {| tcp_sport := 0; tcp_flags := 0 |};
     s_icmp := {| ic_type := 0; ic_code := 0 |};
     s_arp := {| ar_hw := 0; ar_pr := 0; ar_sha := []; ar_sha_cap := []; ar_spa := [] |} |}.

Definition set_ip (st : dstate) (v : ipf) : dstate :=
  {| s_ip := v; s_tcp := s_tcp st; s_icmp := s_icmp st; s_arp := s_arp st |}.
Definition set_tcp (st : dstate) (v : tcpf) : dstate :=
  {| s_ip := s_ip st; s_tcp := v; s_icmp := s_icmp st; s_arp := s_arp st |}.
Definition set_icmp (st : dstate) (v : icmpf) : dstate :=
  {| s_ip := s_ip st; s_tcp := s_tcp st; s_icmp := v; s_arp := s_arp st |}.
Definition set_arp (st : dstate) (v : arpf) : dstate :=
  {| s_ip := s_ip st; s_tcp := s_tcp st; s_icmp := s_icmp st; s_arp := v |}.

(* result of one DecodeFromBytes: error, or next layer type and LayerPayload *)
Inductive dres :=
| DOk (st : dstate) (next : ltype) (payload : bytes)
| DErr (st : dstate) (e : derr).

(* ------------------------------------------------------------------ Ethernet (ethernet.go:41) *)
(* EthernetTypeMetadata[..].LayerType restricted to the layer types a parser can have (enums.go) *)
Definition eth_next (et : Z) : ltype :=
  if et =? 2048 then LIPv4                 (* 0x0800 *)
  else if et =? 2054 then LARP             (* 0x0806 *)
  else if et =? 25944 then LEth            (* 0x6558 transparent Ethernet bridging *)
  else LOther.

Definition decode_eth (st : dstate) (d : bytes) : dres :=
  if Zlength d <? 14 then DErr st EEthShort else
  let et := be16 (byte_at 12 d) (byte_at 13 d) in
  let pl := drop 14 d in
  if et <? 1536 then
    (* 802.3 length field: EthernetType := LLC (layer type LLC), payload cut to Length if longer *)
    DOk st LOther (if et <? Zlength pl then take et pl else pl)
  else DOk st (eth_next et) pl.

(* ------------------------------------------------------------------ IPv4 (ip4.go:188) *)
(* the option loop; only its error matters.  [None] = no error. *)
Fixpoint ip_opts (fuel : nat) (d : bytes) : option derr :=
  match fuel with
  | O => Some EFuel
  | S fuel' =>
      match d with
      | [] => None
      | t :: _ =>
          if t =? 0 then None                                   (* end of options: return nil *)
          else if t =? 1 then ip_opts fuel' (drop 1 d)
          else if Zlength d <? 2 then Some EIpOptShort
          else
            let l := byte_at 1 d in
            if Zlength d <? l then Some EIpOptLong
            else if l <=? 2 then Some EIpOptLen
            else ip_opts fuel' (drop l d)
      end
  end.

(* IPv4.NextLayerType: fragments -> LayerTypeFragment; else IPProtocolMetadata[..].LayerType *)
Definition ip_next (ff proto : Z) : ltype :=
  if negb ((ff / 8192) mod 2 =? 0) || negb (ff mod 8192 =? 0) then LOther
  else if proto =? 6 then LTCP
  else if proto =? 1 then LICMP
  else if (proto =? 4) || (proto =? 94) then LIPv4         (* IPProtocolIPv4, IPProtocolIPIP *)
  else LOther.

Definition decode_ip (st : dstate) (d : bytes) : dres :=
  if Zlength d <? 20 then DErr st EIpShort else
  let ihl := byte_at 0 d mod 16 in
  let len0 := be16 (byte_at 2 d) (byte_at 3 d) in
  let ff := be16 (byte_at 6 d) (byte_at 7 d) in
  let st1 := set_ip st {| ip_src := take 4 (drop 12 d); ip_ttl := byte_at 8 d |} in
  let iplen := if len0 =? 0 then Zlength d mod 65536 else len0 in
  if iplen <? 20 then DErr st1 EIpLenSmall
  else if ihl <? 5 then DErr st1 EIpIhlSmall
  else if iplen <? ihl * 4 then DErr st1 EIpIhlGtLen
  else
    let d1 := if iplen <? Zlength d then take iplen d else d in
    if (Zlength d <? iplen) && (Zlength d <? ihl * 4) then DErr st1 EIpHdrTrunc
    else
      match ip_opts 41 (take (ihl * 4 - 20) (drop 20 d1)) with
      | Some e => DErr st1 e
      | None => DOk st1 (ip_next ff (byte_at 9 d)) (drop (ihl * 4) d1)
      end.

(* ------------------------------------------------------------------ TCP (tcp.go:229) *)
Fixpoint tcp_opts (fuel : nat) (d : bytes) : option derr :=
  match fuel with
  | O => Some EFuel
  | S fuel' =>
      match d with
      | [] => None
      | k :: _ =>
          if k =? 0 then None                                   (* end of list: break OPTIONS *)
          else if k =? 1 then tcp_opts fuel' (drop 1 d)
          else if Zlength d <? 2 then Some ETcpOptShort
          else
            let l := byte_at 1 d in
            if l <? 2 then Some ETcpOptLen
            else if Zlength d <? l then Some ETcpOptLong
            else tcp_opts fuel' (drop l d)
      end
  end.

(* TCP.NextLayerType is tcpPortLayerType[port] or Payload: never a type with a decoder here *)
Definition decode_tcp (st : dstate) (d : bytes) : dres :=
  if Zlength d <? 20 then DErr st ETcpShort else
  let st1 := set_tcp st {| tcp_sport := be16 (byte_at 0 d) (byte_at 1 d);
                           tcp_flags := (byte_at 12 d mod 2) * 256 + byte_at 13 d |} in
  let off := (byte_at 12 d / 16) mod 16 in
  if off <? 5 then DErr st1 ETcpOff
  else if Zlength d <? off * 4 then DErr st1 ETcpOffLong
  else
    match tcp_opts 41 (take (off * 4 - 20) (drop 20 d)) with
    | Some e => DErr st1 e
    | None => DOk st1 LOther (drop (off * 4) d)
    end.

(* ------------------------------------------------------------------ ICMPv4 (icmp4.go:221) *)
Definition decode_icmp (st : dstate) (d : bytes) : dres :=
  if Zlength d <? 8 then DErr st EIcmpShort else
  DOk (set_icmp st {| ic_type := byte_at 0 d; ic_code := byte_at 1 d |}) LOther (drop 8 d).

(* ------------------------------------------------------------------ ARP (arp.go:42) *)
(* all index arithmetic is uint8 in the Go code and wraps; the four address slices are taken one
   after the other, so a panic at the k-th leaves the first k-1 assigned *)
Definition decode_arp (st : dstate) (d : bytes) : dres :=
  if Zlength d <? 8 then DErr st EArpShort else
  let hw := byte_at 4 d in
  let pr := byte_at 5 d in
  let a0 := s_arp st in
  let st0 := set_arp st {| ar_hw := hw; ar_pr := pr; ar_sha := ar_sha a0; ar_sha_cap := ar_sha_cap a0;
                           ar_spa := ar_spa a0 |} in
  let alen := u8 (8 + 2 * hw + 2 * pr) in
  if Zlength d <? alen then DErr st0 EArpShort2 else
  match slice 8 (u8 (8 + hw)) d with
  | None => DErr st0 EPanic
  | Some sha =>
      let st1 := set_arp st {| ar_hw := hw; ar_pr := pr; ar_sha := sha; ar_sha_cap := drop 8 d;
                               ar_spa := ar_spa a0 |} in
      match slice (u8 (8 + hw)) (u8 (8 + hw + pr)) d with
      | None => DErr st1 EPanic
      | Some spa =>
          let st2 := set_arp st {| ar_hw := hw; ar_pr := pr; ar_sha := sha; ar_sha_cap := drop 8 d;
                                   ar_spa := spa |} in
          match slice (u8 (8 + hw + pr)) (u8 (8 + 2 * hw + pr)) d with
          | None => DErr st2 EPanic
          | Some _ =>
              match slice (u8 (8 + 2 * hw + pr)) (u8 (8 + 2 * hw + 2 * pr)) d with
              | None => DErr st2 EPanic
              | Some _ => DOk st2 LOther (drop alen d)
              end
          end
      end
  end.

(* ------------------------------------------------------------------ the parser loop *)
Definition decode_layer (t : ltype) (st : dstate) (d : bytes) : dres :=
  match t with
  | LEth => decode_eth st d
  | LIPv4 => decode_ip st d
  | LTCP => decode_tcp st d
  | LICMP => decode_icmp st d
  | LARP => decode_arp st d
  | LOther => DErr st EFuel            (* never called: no decoder is registered *)
  end.

(* layers_decoder.go: decode; append the type; next type; stop on empty payload or when no decoder
   is registered for the next type.  With IgnoreUnsupported both stops return a nil error.
   [has] = the set of layer types the parser has decoders for.  Returns the decoder state, the
   decoded layer types (rcvDecoded) and the error of DecodeLayers. *)
Fixpoint decode_loop (has : ltype -> bool) (fuel : nat) (t : ltype) (st : dstate) (d : bytes)
         (acc : list ltype) : dstate * list ltype * option derr :=
  match fuel with
  | O => (st, acc, Some EFuel)
  | S fuel' =>
      match decode_layer t st d with
      | DErr st' e => (st', acc, Some e)
      | DOk st' next pl =>
          let acc' := acc ++ [t] in
          match pl with
          | [] => (st', acc', None)
          | _ :: _ => if has next then decode_loop has fuel' next st' pl acc' else (st', acc', None)
          end
      end
  end.

Definition decode_layers (has : ltype -> bool) (first : ltype) (st : dstate) (d : bytes)
  : dstate * list ltype * option derr :=
  decode_loop has (S (length d)) first st d [].
