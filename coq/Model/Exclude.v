(* Executable model of command/config.go parseExcludeFile and of the meaning of the cidranger trie it fills.
   The file is a list of lines (bytes, as bufio.ScanLines yields them); the two library parsers are oracle
   functions of the cleaned line.  The trie is modelled by its meaning: the list of inserted networks and
   membership = "some inserted network contains the address" (cidranger is library code, tied
   differentially).  No proofs here. *)
From Coq Require Import ZArith List Bool.
From SX Require Import Base.Bytes Model.IPNet.
Import ListNotations.
Open Scope Z_scope.

(* line[:strings.Index(line, "#")] *)
Fixpoint strip_comment (l : list Z) : list Z :=
  match l with
  | [] => []
  | c :: l' => if c =? 35 then [] else c :: strip_comment l'
  end.
(* strings.Trim(line, " ") *)
Fixpoint trim_left (l : list Z) : list Z :=
  match l with
  | c :: l' => if c =? 32 then trim_left l' else l
  | [] => []
  end.
Definition trim_spaces (l : list Z) : list Z := rev (trim_left (rev (trim_left l))).
Definition clean_line (l : list Z) : list Z := trim_spaces (strip_comment l).

Section Parse.
(* net.ParseCIDR / netip.ParseAddr as functions of the string (oracles) *)
Variable cidr_of : list Z -> option ipnet.
Variable addr_of : list Z -> option ip.

(* None = parseExcludeFile returns an error; Some nets = the networks inserted, in file order *)
Fixpoint parse_exclude (lines : list (list Z)) : option (list ipnet) :=
  match lines with
  | [] => Some []
  | l :: ls =>
      let s := clean_line l in
      match s with
      | [] => parse_exclude ls
      | _ => match parse_ipnet (cidr_of s) (addr_of s) with
             | PErr => None
             | POk n => match parse_exclude ls with Some r => Some (n :: r) | None => None end
             end
      end
  end.
End Parse.

(* cidranger versionedRanger.Contains: an address that is neither 4 nor 16 bytes long is an error
   (None); otherwise "some inserted network contains it" *)
Definition excluded_res (nets : list ipnet) (x : ip) : option bool :=
  if (len x =? 4) || (len x =? 16) then Some (existsb (fun n => contains n x) nets) else None.
Definition excluded (nets : list ipnet) (x : ip) : bool :=
  match excluded_res nets x with Some b => b | None => false end.
