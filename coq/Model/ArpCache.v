(* Model of the ARP cache path of sx (property C11).

   - [ip_text]: net.IP.String for 4- and 16-byte values (dotted decimal for IPv4 and IPv4-mapped
     values, netip's compressed lower-case form otherwise, "<nil>" and "?hex" for odd lengths);
     [mac_text]: net.HardwareAddr.String.
   - [parse_ip_text]: net.ParseIP (= netip.ParseAddr: dispatch on the first '.', ':' or '%';
     IPv4 fields without leading zeros; IPv6 groups, one "::", embedded IPv4 tail; zones rejected;
     the result is always the 16-byte form).  [parse_mac_text]: net.ParseMAC (colon / dash /
     dotted forms of 6, 8 or 20 bytes).
   - [arp_result]/[arp_line]: the record arp.ScanMethod.ProcessPacketData builds from a reply with
     address sizes 6/4 and the line the JSON logger prints for it (via Model/Json.v).
   - [entry_of_line]: what the generated easyjson decoder of arp.ScanResult extracts from one line
     (unknown members skipped, null members skipped, the last of duplicate members wins);
     [fill_cache]: FillCache's loop (first bad line aborts), the cache as an association list keyed
     by ip.String() of the parsed address, newest binding first.
   - [cache_get], [dst_mac], [cache_stage], [gateway_mac]: Cache.Get, the getMAC closure of
     NewCacheRequestGenerator, its per-request step, and getGatewayMAC.
   Definitions only; proofs are in Proofs/ArpCacheProofs.v. *)
From Coq Require Import ZArith Bool Ascii String List.
From SX Require Import Base.Bytes Model.Json Gen.Schemas.
Import ListNotations.
Open Scope Z_scope.

(* ------------------------------------------------------------------ rendering *)

Fixpoint join_with (sep : Z) (l : list (list Z)) : list Z :=
  match l with
  | [] => []
  | [x] => x
  | x :: l' => x ++ sep :: join_with sep l'
  end.

Definition ip4_text (b : list Z) : list Z := join_with 46 (map enc_uint b).

Definition hex2 (b : Z) : list Z := [hexd (b / 16); hexd (b mod 16)].

(* net.HardwareAddr.String *)
Definition mac_text (m : list Z) : list Z := join_with 58 (map hex2 m).

(* netip appendHex: no leading zeros *)
Definition hex_group (x : Z) : list Z :=
  (if 4096 <=? x then [hexd (x / 4096)] else []) ++
  (if 256 <=? x then [hexd ((x / 256) mod 16)] else []) ++
  (if 16 <=? x then [hexd ((x / 16) mod 16)] else []) ++
  [hexd (x mod 16)].

Fixpoint groups_of (b : list Z) : list Z :=
  match b with
  | hi :: lo :: t => (hi * 256 + lo) :: groups_of t
  | _ => []
  end.

Fixpoint zero_run (gs : list Z) : nat :=
  match gs with
  | g :: t => if g =? 0 then S (zero_run t) else O
  | [] => O
  end.

(* the scan of appendTo6: the FIRST longest run of at least two zero groups, as (start, length) *)
Fixpoint best_run (gs : list Z) (i : nat) (best : nat * nat) : nat * nat :=
  match gs with
  | [] => best
  | _ :: t =>
      let l := zero_run gs in
      let best' := if (2 <=? l)%nat && (snd best <? l)%nat then (i, l) else best in
      best_run t (S i) best'
  end.

Definition ip6_text (b : list Z) : list Z :=
  let gs := groups_of b in
  let (zs, zl) := best_run gs 0%nat (0%nat, 0%nat) in
  if (zl =? 0)%nat then join_with 58 (map hex_group gs)
  else join_with 58 (map hex_group (firstn zs gs)) ++ [58; 58] ++
       join_with 58 (map hex_group (skipn (zs + zl) gs)).

Definition v4_prefix : list Z := [0; 0; 0; 0; 0; 0; 0; 0; 0; 0; 255; 255].

(* IP.To4 on a 16-byte value *)
Definition to4 (ip : list Z) : option (list Z) :=
  if (length ip =? 4)%nat then Some ip
  else if (length ip =? 16)%nat && bytes_eqb (firstn 12 ip) v4_prefix then Some (skipn 12 ip)
  else None.

Definition hex_string (b : list Z) : list Z := flat_map hex2 b.

(* net.IP.String *)
Definition ip_text (ip : list Z) : list Z :=
  if (length ip =? 0)%nat then str "<nil>"
  else if negb ((length ip =? 4)%nat || (length ip =? 16)%nat) then 63 :: hex_string ip
  else match to4 ip with
       | Some p4 => ip4_text p4
       | None => ip6_text ip
       end.

(* ------------------------------------------------------------------ parsing addresses *)

(* parseIPv4Fields over the characters of one string; [first]: no character consumed yet;
   [prev_dot]: the previous character was a dot *)
Fixpoint ipv4_fields (s : list Z) (val digLen : Z) (first prev_dot : bool) (acc : list Z) : option (list Z) :=
  match s with
  | [] => if (length acc <? 3)%nat then None else Some (acc ++ [val])
  | c :: t =>
      if is_digit c then
        if (digLen =? 1) && (val =? 0) then None
        else
          let val' := val * 10 + (c - 48) in
          if 255 <? val' then None
          else ipv4_fields t val' (digLen + 1) false false acc
      else if c =? 46 then
        if first || prev_dot || (match t with [] => true | _ => false end) then None
        else if (length acc =? 3)%nat then None
        else ipv4_fields t 0 0 false true (acc ++ [val])
      else None
  end.

Definition parse_ipv4 (s : list Z) : option (list Z) := ipv4_fields s 0 0 true false [].

(* one hex group of parseIPv6: value, number of digits, rest; at most 4 digits, at least 1 *)
Fixpoint hex_run (s : list Z) (acc : Z) (n : nat) : option (Z * nat * list Z) :=
  match s with
  | c :: t =>
      match hexval c with
      | Some d => if (3 <? n)%nat then None else hex_run t (acc * 16 + d) (S n)
      | None => Some (acc, n, s)
      end
  | [] => Some (acc, n, s)
  end.

(* the main loop of parseIPv6 after a possible leading "::".  [ip] are the bytes parsed so far,
   [ell] the byte position of the ellipsis.  Returns the bytes and the ellipsis. *)
Fixpoint ipv6_loop (fuel : nat) (s : list Z) (ip : list Z) (ell : option nat) : option (list Z * option nat) :=
  match fuel with
  | O => (* i = 16 reached with input left: trailing garbage *)
         match s with [] => Some (ip, ell) | _ => None end
  | S fuel' =>
      if (16 <=? length ip)%nat then match s with [] => Some (ip, ell) | _ => None end
      else
      match hex_run s 0 0%nat with
      | None => None
      | Some (acc, n, rest) =>
          if (n =? 0)%nat then None
          else
            match rest with
            | d :: _ =>
                if d =? 46 then
                  (* embedded IPv4: re-parses the text of THIS field onwards as IPv4 *)
                  if (match ell with None => negb (length ip =? 12)%nat | Some _ => false end) then None
                  else if (16 <? length ip + 4)%nat then None
                  else match parse_ipv4 s with
                       | Some v4 => Some (ip ++ v4, ell)
                       | None => None
                       end
                else
                  let ip' := ip ++ [acc / 256; acc mod 256] in
                  if d =? 58 then
                    match rest with
                    | _ :: [] => None                              (* colon at the very end *)
                    | _ :: c2 :: t2 =>
                        if c2 =? 58 then
                          match ell with
                          | Some _ => None                         (* second "::" *)
                          | None =>
                              match t2 with
                              | [] => Some (ip', Some (length ip'))
                              | _ => ipv6_loop fuel' t2 ip' (Some (length ip'))
                              end
                          end
                        else ipv6_loop fuel' (c2 :: t2) ip' ell
                    | [] => None
                    end
                  else None                                        (* unexpected character *)
            | [] => Some (ip ++ [acc / 256; acc mod 256], ell)
            end
      end
  end.

Fixpoint zeros (n : nat) : list Z := match n with O => [] | S n' => 0 :: zeros n' end.

Definition parse_ipv6 (s : list Z) : option (list Z) :=
  if existsb (fun c => c =? 37) s then None            (* any zone: rejected by net.ParseIP *)
  else
    let start :=
      match s with
      | a :: b :: t => if (a =? 58) && (b =? 58) then Some (t, Some 0%nat) else Some (s, None)
      | _ => Some (s, None)
      end in
    match start with
    | None => None
    | Some (t, ell) =>
        match t, ell with
        | [], Some _ => Some (zeros 16)                (* "::" *)
        | _, _ =>
            match ipv6_loop 9 t [] ell with
            | None => None
            | Some (ip, ell') =>
                if (length ip <? 16)%nat then
                  match ell' with
                  | None => None
                  | Some e => Some (firstn e ip ++ zeros (16 - length ip) ++ skipn e ip)
                  end
                else match ell' with Some _ => None | None => Some ip end
            end
        end
    end.

Fixpoint first_special (s : list Z) : Z :=
  match s with
  | [] => 0
  | c :: t => if (c =? 46) || (c =? 58) || (c =? 37) then c else first_special t
  end.

(* net.ParseIP: 16 bytes or nothing *)
Definition parse_ip_text (s : list Z) : option (list Z) :=
  let c := first_special s in
  if c =? 46 then match parse_ipv4 s with Some v4 => Some (v4_prefix ++ v4) | None => None end
  else if c =? 58 then parse_ipv6 s
  else None.

(* xtoi2: exactly two hex digits *)
Definition xtoi2 (a b : Z) : option Z :=
  match hexval a, hexval b with
  | Some x, Some y => Some (x * 16 + y)
  | _, _ => None
  end.

(* "xx:xx:..." / "xx-xx-..." with separator sep *)
Fixpoint mac_sep (s : list Z) (sep : Z) : option (list Z) :=
  match s with
  | a :: b :: [] => match xtoi2 a b with Some x => Some [x] | None => None end
  | a :: b :: c :: t =>
      if c =? sep then
        match xtoi2 a b, mac_sep t sep with
        | Some x, Some l => Some (x :: l)
        | _, _ => None
        end
      else None
  | _ => None
  end.

(* "xxxx.xxxx...." *)
Fixpoint mac_dot (s : list Z) : option (list Z) :=
  match s with
  | a :: b :: c :: d :: [] =>
      match xtoi2 a b, xtoi2 c d with Some x, Some y => Some [x; y] | _, _ => None end
  | a :: b :: c :: d :: e :: t =>
      if e =? 46 then
        match xtoi2 a b, xtoi2 c d, mac_dot t with
        | Some x, Some y, Some l => Some (x :: y :: l)
        | _, _, _ => None
        end
      else None
  | _ => None
  end.

Definition mac_len_ok (l : list Z) : bool :=
  (length l =? 6)%nat || (length l =? 8)%nat || (length l =? 20)%nat.

(* net.ParseMAC *)
Definition parse_mac_text (s : list Z) : option (list Z) :=
  if (length s <? 14)%nat then None
  else
    let c2 := nth 2 s 0 in
    let r := if (c2 =? 58) || (c2 =? 45) then mac_sep s c2
             else if nth 4 s 0 =? 46 then mac_dot s
             else None in
    match r with
    | Some l => if mac_len_ok l then Some l else None
    | None => None
    end.

(* ------------------------------------------------------------------ the ARP scan's output *)

(* the record ProcessPacketData builds from SourceProtAddress / SourceHwAddress of a reply and the
   vendor string of gopacket's macs table (any string; "" when the prefix is unknown) *)
Definition arp_result (ip mac vendor : list Z) : list fval :=
  [VS (VStr (ip_text ip)); VS (VStr (mac_text mac)); VS (VStr vendor)].

(* the line of output (schema regenerated from pkg/scan/arp on every run), without and with its LF *)
Definition arp_object (ip mac vendor : list Z) : list Z := enc_record arp_schema (arp_result ip mac vendor).
Definition arp_line (ip mac vendor : list Z) : list Z := line arp_schema (arp_result ip mac vendor).

(* ------------------------------------------------------------------ loading *)

Inductive load_err := BadJSON | BadIP | BadMAC | LineTooLong.

(* what the easyjson decoder leaves in the three string fields: walk the members in order; null
   values are skipped; ip/mac/vendor must be strings; other members are skipped *)
Fixpoint entry_members (es : list (list Z * jvalue)) (ip mac : list Z) : option (list Z * list Z) :=
  match es with
  | [] => Some (ip, mac)
  | (k, v) :: es' =>
      match v with
      | JNull => entry_members es' ip mac
      | _ =>
          if bytes_eqb k (str "ip") then
            match v with JStr s => entry_members es' s mac | _ => None end
          else if bytes_eqb k (str "mac") then
            match v with JStr s => entry_members es' ip s | _ => None end
          else if bytes_eqb k (str "vendor") then
            match v with JStr _ => entry_members es' ip mac | _ => None end
          else entry_members es' ip mac
      end
  end.

Definition entry_of_line (ln : list Z) : option (list Z * list Z) :=
  match dec_json ln with
  | Some (JObj es) => entry_members es [] []
  | Some JNull => Some ([], [])
  | _ => None
  end.

Definition cache := list (list Z * list Z).   (* key text -> MAC, newest first *)

Fixpoint cache_lookup (k : list Z) (c : cache) : option (list Z) :=
  match c with
  | [] => None
  | (k', m) :: c' => if bytes_eqb k k' then Some m else cache_lookup k c'
  end.

Definition cache_put (c : cache) (ip mac : list Z) : cache := (ip_text ip, mac) :: c.

Definition load_line (c : cache) (ln : list Z) : cache + load_err :=
  match entry_of_line ln with
  | None => inr BadJSON
  | Some (ipt, mact) =>
      match parse_ip_text ipt with
      | None => inr BadIP
      | Some ip =>
          match parse_mac_text mact with
          | None => inr BadMAC
          | Some mac => inl (cache_put c ip mac)
          end
      end
  end.

Fixpoint fill_cache_from (c : cache) (lines : list (list Z)) : cache + load_err :=
  match lines with
  | [] => inl c
  | ln :: t => match load_line c ln with
               | inl c' => fill_cache_from c' t
               | inr e => inr e
               end
  end.

Definition fill_cache (lines : list (list Z)) : cache + load_err := fill_cache_from [] lines.

(* bufio.ScanLines: split at LF, no empty last line; every line comes out REVERSED and raw (a
   trailing CR, which ScanLines drops, is still its first element) *)
Fixpoint split_rev (s cur : list Z) : list (list Z) :=
  match s with
  | [] => match cur with [] => [] | _ => [cur] end
  | b :: t => if b =? 10 then cur :: split_rev t [] else split_rev t (b :: cur)
  end.

Definition drop_cr (cur : list Z) : list Z :=
  match cur with c :: cur' => if c =? 13 then cur' else cur | [] => cur end.
Definition line_of (cur : list Z) : list Z := rev_append (drop_cr cur) [].
Definition split_lines (s : list Z) : list (list Z) := map line_of (split_rev s []).

(* bufio.Scanner gives up on a line whose raw length reaches its 64 KiB buffer (a line of 65535
   bytes still loads, 65536 does not: measured on the real scanner) *)
Definition max_line : Z := 65536.

(* FillCache on the bytes of a file: lines in order; the first bad or overlong line aborts *)
Fixpoint fill_raw (c : cache) (raw : list (list Z)) : cache + load_err :=
  match raw with
  | [] => inl c
  | cur :: t =>
      if max_line <=? Z.of_nat (length cur) then inr LineTooLong
      else match load_line c (line_of cur) with
           | inl c' => fill_raw c' t
           | inr e => inr e
           end
  end.
Definition fill_cache_text (s : list Z) : cache + load_err := fill_raw [] (split_rev s []).

(* ------------------------------------------------------------------ using the cache *)

(* Cache.Get *)
Definition cache_get (c : cache) (ip : list Z) : option (list Z) := cache_lookup (ip_text ip) c.

(* the getMAC closure: the cache entry, else the gateway MAC (nil = None) *)
Definition dst_mac (c : cache) (gw : option (list Z)) (ip : list Z) : option (list Z) :=
  match cache_get c ip with
  | Some m => Some m
  | None => gw
  end.

Record request := { rq_dst : list Z; rq_port : Z; rq_dstmac : list Z; rq_err : bool }.

(* one step of the generator goroutine on an error-free request *)
Definition cache_stage1 (c : cache) (gw : option (list Z)) (r : request) : request :=
  match dst_mac c gw (rq_dst r) with
  | Some m => {| rq_dst := rq_dst r; rq_port := rq_port r; rq_dstmac := m; rq_err := rq_err r |}
  | None => {| rq_dst := rq_dst r; rq_port := rq_port r; rq_dstmac := rq_dstmac r; rq_err := true |}
  end.

Definition cache_stage (c : cache) (gw : option (list Z)) (rs : list request) : list request :=
  map (cache_stage1 c gw) rs.

(* getGatewayMAC: the --gwmac flag, else the cache entry of the default gateway's address.  The
   route lookup is an oracle input: [route_err] = netlink failed; [gw_ip] = the 4-byte gateway
   address, [] when the interface has no default route (Get(nil) then finds nothing).
   None = error, Some None = no gateway MAC known. *)
Definition gateway_mac (flag : option (list Z)) (route_err : bool) (gw_ip : list Z) (c : cache)
  : option (option (list Z)) :=
  match flag with
  | Some m => Some (Some m)
  | None => if route_err then None else Some (cache_get c gw_ip)
  end.

Definition is_ipv4 (ip : list Z) : bool :=
  match to4 ip with Some _ => wf_bytes ip | None => false end.
