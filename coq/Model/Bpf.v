(* Model of the capture filters of pkg/scan/{tcp,icmp,arp}/bpf.go: the tcpdump sub-language the three
   builders emit (AST [bexpr]), its meaning on a frame as libpcap compiles it for the two link types
   sx uses (DLT_EN10MB, and DLT_IPV4 in VPN mode) ([bpf_sem]), the builders themselves ([tcp_filter],
   [synack_filter], [icmp_filter], [arp_filter]) and the exact filter text ([render]).
   Executable definitions only.

   Meaning of the primitives (libpcap gencode.c; checked against the real compiler + the BPF VM by the
   C03 correspondence check):
     tcp            Ethernet: ethertype 0x0800 and ip[9] = 6, OR ethertype 0x86dd and (next header = 6
                    or next header = 44 (fragment) and byte 54 = 6); raw IPv4: ip[9] = 6
     icmp           ethertype 0x0800 and ip[9] = 1
     arp            ethertype 0x0806 (raw IPv4: rejects everything; libpcap refuses to compile it)
     ip src net N   ethertype 0x0800 and (ip[12:4] & mask) = net
     arp src net N  ethertype 0x0806 and (bytes 28..31 & mask) = net        (sender protocol address)
     src portrange a-b   IPv4, protocol 6/17/132, fragment offset 0, a <= 16 bits at 4*IHL <= b;
                    or IPv6 with next header 6/17/132 and a <= bytes 54..55 <= b
     tcp[k] == v    IPv4, protocol 6, fragment offset 0, byte at 4*IHL + k = v
     icmp[k] != v   IPv4, protocol 1, fragment offset 0, byte at 4*IHL + k <> v
   A load beyond the captured bytes makes the kernel program return 0: [None] below. *)
From Coq Require Import ZArith List Bool String.
From SX Require Import Base.Bytes Model.Decode.
Import ListNotations.
Open Scope Z_scope.

Inductive proto := PTcp | PIcmp | PArp.

Inductive bexpr :=
| BProto (p : proto)
| BIpSrcNet (net bits : Z)            (* network address as a 32-bit number, prefix length *)
| BArpSrcNet (net bits : Z)
| BSrcPortRange (a b : Z)
| BTcpByteEq (k v : Z)
| BIcmpByteNe (k v : Z)
| BAnd (x y : bexpr)
| BOr (x y : bexpr).

(* ------------------------------------------------------------------ loads *)
Definition ld8 (off : Z) (f : bytes) : option Z :=
  if (0 <=? off) && (off <? Zlength f) then Some (byte_at off f) else None.
Definition ld16 (off : Z) (f : bytes) : option Z :=
  if (0 <=? off) && (off + 2 <=? Zlength f) then Some (be16 (byte_at off f) (byte_at (off + 1) f)) else None.
Definition ld32 (off : Z) (f : bytes) : option Z :=
  if (0 <=? off) && (off + 4 <=? Zlength f)
  then Some (be32 (byte_at off f) (byte_at (off + 1) f) (byte_at (off + 2) f) (byte_at (off + 3) f))
  else None.

(* three-valued evaluation: None = the program aborted on an out-of-range load *)
Definition obind {A B} (o : option A) (k : A -> option B) : option B :=
  match o with Some a => k a | None => None end.
Definition oand (a : option bool) (b : unit -> option bool) : option bool :=
  match a with Some true => b tt | Some false => Some false | None => None end.
Definition oor (a : option bool) (b : unit -> option bool) : option bool :=
  match a with Some true => Some true | Some false => b tt | None => None end.

Definition mask_of (bits : Z) : Z := 2 ^ 32 - 2 ^ (32 - bits).
Definition in_net (addr net bits : Z) : bool := (addr / 2 ^ (32 - bits)) =? (net / 2 ^ (32 - bits)).

(* link: false = Ethernet (network header at 14, ethertype at 12), true = raw IPv4 (header at 0) *)
Definition nl (raw : bool) : Z := if raw then 0 else 14.

(* "the link-layer protocol is ty" *)
Definition is_etype (raw : bool) (ty : Z) (f : bytes) : option bool :=
  if raw then Some (ty =? 2048) else obind (ld16 12 f) (fun et => Some (et =? ty)).

Definition transport3 (p : Z) : bool := (p =? 6) || (p =? 17) || (p =? 132).

Definition unfrag_off (raw : bool) (f : bytes) : option bool :=
  obind (ld16 (nl raw + 6) f) (fun ff => Some (ff mod 8192 =? 0)).
Definition xhl (raw : bool) (f : bytes) : option Z :=
  obind (ld8 (nl raw) f) (fun b => Some (4 * (b mod 16))).

Fixpoint bpf_eval (raw : bool) (e : bexpr) (f : bytes) : option bool :=
  match e with
  | BProto PTcp =>
      oor (oand (is_etype raw 2048 f) (fun _ => obind (ld8 (nl raw + 9) f) (fun p => Some (p =? 6))))
          (fun _ => if raw then Some false else
             oand (is_etype raw 34525 f) (fun _ =>
               obind (ld8 20 f) (fun nh =>
                 if nh =? 6 then Some true
                 else if nh =? 44 then obind (ld8 54 f) (fun p => Some (p =? 6))
                 else Some false)))
  | BProto PIcmp =>
      oand (is_etype raw 2048 f) (fun _ => obind (ld8 (nl raw + 9) f) (fun p => Some (p =? 1)))
  | BProto PArp => is_etype raw 2054 f
  | BIpSrcNet net bits =>
      oand (is_etype raw 2048 f) (fun _ => obind (ld32 (nl raw + 12) f) (fun a => Some (in_net a net bits)))
  | BArpSrcNet net bits =>
      oand (is_etype raw 2054 f) (fun _ => obind (ld32 (nl raw + 14) f) (fun a => Some (in_net a net bits)))
  | BSrcPortRange a b =>
      oor (oand (is_etype raw 2048 f) (fun _ =>
             oand (obind (ld8 (nl raw + 9) f) (fun p => Some (transport3 p))) (fun _ =>
               oand (unfrag_off raw f) (fun _ =>
                 obind (xhl raw f) (fun x =>
                   obind (ld16 (nl raw + x) f) (fun sp => Some ((a <=? sp) && (sp <=? b))))))))
          (fun _ => if raw then Some false else
             oand (is_etype raw 34525 f) (fun _ =>
               oand (obind (ld8 20 f) (fun nh => Some (transport3 nh))) (fun _ =>
                 obind (ld16 54 f) (fun sp => Some ((a <=? sp) && (sp <=? b))))))
  | BTcpByteEq k v =>
      oand (is_etype raw 2048 f) (fun _ =>
        oand (obind (ld8 (nl raw + 9) f) (fun p => Some (p =? 6))) (fun _ =>
          oand (unfrag_off raw f) (fun _ =>
            obind (xhl raw f) (fun x => obind (ld8 (nl raw + x + k) f) (fun b => Some (b =? v))))))
  | BIcmpByteNe k v =>
      oand (is_etype raw 2048 f) (fun _ =>
        oand (obind (ld8 (nl raw + 9) f) (fun p => Some (p =? 1))) (fun _ =>
          oand (unfrag_off raw f) (fun _ =>
            obind (xhl raw f) (fun x => obind (ld8 (nl raw + x + k) f) (fun b => Some (negb (b =? v)))))))
  | BAnd x y => oand (bpf_eval raw x f) (fun _ => bpf_eval raw y f)
  | BOr x y => oor (bpf_eval raw x f) (fun _ => bpf_eval raw y f)
  end.

(* does the kernel deliver the frame? *)
Definition bpf_sem (raw : bool) (e : bexpr) (f : bytes) : bool :=
  match bpf_eval raw e f with Some true => true | _ => false end.

(* ------------------------------------------------------------------ the builders *)
(* scan.Range as far as the filters read it: DstSubnet (None = nil) as (network, prefix length),
   Ports as a list of (StartPort, EndPort) *)
Record range := { r_subnet : option (Z * Z); r_ports : list (Z * Z) }.

Fixpoint or_ports (ps : list (Z * Z)) : option bexpr :=
  match ps with
  | [] => None
  | (a, b) :: ps' =>
      match or_ports ps' with
      | None => Some (BSrcPortRange a b)
      | Some r => Some (BOr (BSrcPortRange a b) r)
      end
  end.

Definition and_opt (e : bexpr) (o : option bexpr) : bexpr :=
  match o with Some x => BAnd e x | None => e end.

(* tcp/bpf.go BPFFilter *)
Definition tcp_filter (r : range) : bexpr :=
  and_opt (and_opt (BProto PTcp) (option_map (fun n => BIpSrcNet (fst n) (snd n)) (r_subnet r)))
          (or_ports (r_ports r)).
(* tcp/bpf.go SYNACKBPFFilter *)
Definition synack_filter (r : range) : bexpr := BAnd (tcp_filter r) (BTcpByteEq 13 18).
(* icmp/bpf.go BPFFilter *)
Definition icmp_filter (r : range) : bexpr :=
  and_opt (BAnd (BProto PIcmp) (BIcmpByteNe 0 8)) (option_map (fun n => BIpSrcNet (fst n) (snd n)) (r_subnet r)).
(* arp/bpf.go BPFFilter *)
Definition arp_filter (r : range) : bexpr :=
  match r_subnet r with None => BProto PArp | Some n => BArpSrcNet (fst n) (snd n) end.

(* ------------------------------------------------------------------ the exact text *)
Definition str (s : list Z) := s.
Fixpoint digits (fuel : nat) (n : Z) (acc : list Z) : list Z :=
  match fuel with
  | O => acc
  | S fuel' => let acc' := (48 + n mod 10) :: acc in if n <? 10 then acc' else digits fuel' (n / 10) acc'
  end.
Definition dec (n : Z) : list Z := digits 12 n [].

Definition txt_tcp := [116; 99; 112].                                       (* "tcp" *)
Definition txt_and := [32; 97; 110; 100; 32].                               (* " and " *)
Definition txt_or := [32; 111; 114; 32].                                    (* " or " *)
Definition txt_ip_src_net := [105; 112; 32; 115; 114; 99; 32; 110; 101; 116; 32].          (* "ip src net " *)
Definition txt_arp := [97; 114; 112].                                       (* "arp" *)
Definition txt_arp_src_net := [97; 114; 112; 32; 115; 114; 99; 32; 110; 101; 116; 32].     (* "arp src net " *)
Definition txt_src_portrange := [115; 114; 99; 32; 112; 111; 114; 116; 114; 97; 110; 103; 101; 32]. (* "src portrange " *)
Definition txt_synack := [116; 99; 112; 91; 49; 51; 93; 32; 61; 61; 32; 49; 56].           (* "tcp[13] == 18" *)
Definition txt_icmp := [105; 99; 109; 112; 32; 97; 110; 100; 32; 105; 99; 109; 112; 91; 48; 93; 33; 61; 56]. (* "icmp and icmp[0]!=8" *)

(* net.IPNet.String of a 4-byte network: dotted quad "/" prefix length *)
Definition net_text (n : Z * Z) : list Z :=
  let a := fst n in
  dec (a / 16777216) ++ [46] ++ dec ((a / 65536) mod 256) ++ [46] ++ dec ((a / 256) mod 256) ++ [46]
      ++ dec (a mod 256) ++ [47] ++ dec (snd n).

Fixpoint ports_text (ps : list (Z * Z)) : list Z :=
  match ps with
  | [] => []
  | [(a, b)] => txt_src_portrange ++ dec a ++ [45] ++ dec b
  | (a, b) :: ps' => txt_src_portrange ++ dec a ++ [45] ++ dec b ++ txt_or ++ ports_text ps'
  end.

Definition tcp_text (r : range) : list Z :=
  txt_tcp ++ (match r_subnet r with Some n => txt_and ++ txt_ip_src_net ++ net_text n | None => [] end)
        ++ (match r_ports r with [] => [] | ps => txt_and ++ [40] ++ ports_text ps ++ [41] end).
Definition synack_text (r : range) : list Z := tcp_text r ++ txt_and ++ txt_synack.
Definition icmp_text (r : range) : list Z :=
  txt_icmp ++ (match r_subnet r with Some n => txt_and ++ txt_ip_src_net ++ net_text n | None => [] end).
Definition arp_text (r : range) : list Z :=
  match r_subnet r with None => txt_arp | Some n => txt_arp_src_net ++ net_text n end.

(* ------------------------------------------------------------------ the wiring of a command *)
(* what command/*.go composes (translated into Gen/Wiring.v by tools/gen/wiring.go) *)
Inductive filter_fn := FTcpBPF | FTcpSynAckBPF | FIcmpBPF | FArpBPF.
Inductive method :=
| MTcp (pf : Z -> bool) (allflags : bool)     (* newTCPScanMethod: result filter on the 9 flag bits, AllFlags? *)
| MUdp | MIcmp | MArp.
Record wiring := { w_cmd : string; w_method : method; w_filter : filter_fn;
                   w_chunked : bool;          (* startPortScanEngine: one engine + filter per chunk of ports *)
                   w_vpn_source : bool }.     (* the VPN flag reaches the packet source (link type of the filter) *)

Definition filter_of (ff : filter_fn) (r : range) : bexpr :=
  match ff with
  | FTcpBPF => tcp_filter r
  | FTcpSynAckBPF => synack_filter r
  | FIcmpBPF => icmp_filter r
  | FArpBPF => arp_filter r
  end.
Definition text_of (ff : filter_fn) (r : range) : list Z :=
  match ff with
  | FTcpBPF => tcp_text r
  | FTcpSynAckBPF => synack_text r
  | FIcmpBPF => icmp_text r
  | FArpBPF => arp_text r
  end.
