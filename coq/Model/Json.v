(* Model of the JSON output path of sx (property C14; reused by C11).

   What is modelled, and from which code:
   - [chunks]: the rune loop shared by easyjson's jwriter.Writer.String and encoding/json's
     appendString: a byte below 0x80 is handled alone; otherwise utf8.DecodeRuneInString decides
     whether a valid 2..4 byte sequence starts here ([utf8_width] is Go's first/acceptRanges
     table) -- if not, ONE byte is consumed and reported as RuneError.
   - [esc_ascii]: the two escape tables.  easyjson (NoEscapeHTML unset): backslash escapes for quote, backslash, LF, CR, TAB, and
     \u00XX for the other bytes below 0x20 and for & < >.  encoding/json.Marshal (escapeHTML on):
     the same plus \b and \f.  Both write the escape ufffd for a broken byte and u2028 / u2029 for LS / PS.
   - [enc_uint]/[enc_int]: strconv.AppendUint / AppendInt base 10.
   - [jvalue], [enc_jv]: what encoding/json writes for interface{} trees (elastic) -- map keys
     sorted bytewise ([JMap]), struct fields / already ordered members in order ([JObj]); numbers
     of such trees are float64 printed by strconv and are carried as literal text ([JNum]).
   - [enc_record]: object layout of one scan result from its generated schema (Gen/Schemas.v):
     keys in declaration order, omitempty, the nullable nested icmp object.
   - a strict RFC 8259 decoder ([dec_json], [dec_record]); it is the specification device of C14
     ("decodes back") and is tied to Go's encoding/json differentially.
   - [log_results], [uniq_run]: the select loops of LogResults and uniqResults as functions of the
     history of selected cases.

   Definitions only; proofs are in Proofs/JsonProofs.v. *)
From Coq Require Import ZArith Bool Ascii String List.
From SX Require Import Base.Bytes.
Import ListNotations.
Open Scope Z_scope.

(* ------------------------------------------------------------------ text helpers *)

Fixpoint str (s : string) : list Z :=
  match s with
  | EmptyString => []
  | String a s' => Z.of_N (N_of_ascii a) :: str s'
  end.

Definition in_rng (lo hi b : Z) : bool := (lo <=? b) && (b <=? hi).

(* lexicographic comparison of byte strings = Go's strings.Compare <= 0 *)
Fixpoint bytes_leb (a b : list Z) : bool :=
  match a, b with
  | [], _ => true
  | _ :: _, [] => false
  | x :: a', y :: b' => if x <? y then true else if y <? x then false else bytes_leb a' b'
  end.

Fixpoint join_comma (l : list (list Z)) : list Z :=
  match l with
  | [] => []
  | [x] => x
  | x :: l' => x ++ 44 :: join_comma l'
  end.

(* ------------------------------------------------------------------ UTF-8 as Go decodes it *)

Definition cont (b : Z) : bool := in_rng 128 191 b.
Definition lo3 (b0 : Z) : Z := if b0 =? 224 then 160 else 128.
Definition hi3 (b0 : Z) : Z := if b0 =? 237 then 159 else 191.
Definition lo4 (b0 : Z) : Z := if b0 =? 240 then 144 else 128.
Definition hi4 (b0 : Z) : Z := if b0 =? 244 then 143 else 191.

(* width of the valid sequence that starts with lead byte b0 followed by t; 0 if there is none
   (truncated, bad continuation, overlong, surrogate, above U+10FFFF, stray continuation) *)
Definition utf8_width (b0 : Z) (t : list Z) : nat :=
  if in_rng 194 223 b0 then
    match t with b1 :: _ => if cont b1 then 2%nat else 0%nat | _ => 0%nat end
  else if in_rng 224 239 b0 then
    match t with
    | b1 :: b2 :: _ => if in_rng (lo3 b0) (hi3 b0) b1 && cont b2 then 3%nat else 0%nat
    | _ => 0%nat
    end
  else if in_rng 240 244 b0 then
    match t with
    | b1 :: b2 :: b3 :: _ =>
        if in_rng (lo4 b0) (hi4 b0) b1 && cont b2 && cont b3 then 4%nat else 0%nat
    | _ => 0%nat
    end
  else 0%nat.

Inductive chunk :=
| CAscii (b : Z)          (* one byte below 0x80 *)
| CRune (bs : list Z)     (* one valid multi-byte sequence *)
| CBad (b : Z).           (* one byte at which no valid sequence starts *)

Fixpoint chunks (s : list Z) : list chunk :=
  match s with
  | [] => []
  | b0 :: t0 =>
      if b0 <? 128 then CAscii b0 :: chunks t0
      else
        match utf8_width b0 t0, t0 with
        | 2%nat, b1 :: t1 => CRune [b0; b1] :: chunks t1
        | 3%nat, b1 :: b2 :: t2 => CRune [b0; b1; b2] :: chunks t2
        | 4%nat, b1 :: b2 :: b3 :: t3 => CRune [b0; b1; b2; b3] :: chunks t3
        | _, _ => CBad b0 :: chunks t0
        end
  end.

Definition raw_chunk (c : chunk) : list Z :=
  match c with CAscii b => [b] | CRune bs => bs | CBad b => [b] end.

Definition ufffd : list Z := [239; 191; 189].

(* what a reader of the output gets back: invalid bytes have become U+FFFD, one per byte *)
Definition san_chunk (c : chunk) : list Z :=
  match c with CAscii b => [b] | CRune bs => bs | CBad _ => ufffd end.

Definition sanitize (s : list Z) : list Z := flat_map san_chunk (chunks s).

Definition chunk_good (c : chunk) : bool := match c with CBad _ => false | _ => true end.
Definition valid_utf8 (s : list Z) : bool := forallb chunk_good (chunks s).

(* ------------------------------------------------------------------ string escaping *)

Inductive flavour := Easy | Std.
Definition is_std (fl : flavour) : bool := match fl with Std => true | Easy => false end.

Definition hexd (n : Z) : Z := if n <? 10 then 48 + n else 87 + n.
Definition u00 (b : Z) : list Z := [92; 117; 48; 48; hexd (b / 16); hexd (b mod 16)].

Definition esc_ascii (fl : flavour) (b : Z) : list Z :=
  if b =? 34 then [92; 34]
  else if b =? 92 then [92; 92]
  else if b =? 10 then [92; 110]
  else if b =? 13 then [92; 114]
  else if b =? 9 then [92; 116]
  else if (b =? 8) && is_std fl then [92; 98]
  else if (b =? 12) && is_std fl then [92; 102]
  else if (b <? 32) || (b =? 38) || (b =? 60) || (b =? 62) then u00 b
  else [b].

Definition ls_bytes : list Z := [226; 128; 168].   (* U+2028 *)
Definition ps_bytes : list Z := [226; 128; 169].   (* U+2029 *)

Definition esc_chunk (fl : flavour) (c : chunk) : list Z :=
  match c with
  | CAscii b => esc_ascii fl b
  | CRune bs =>
      if bytes_eqb bs ls_bytes then [92; 117; 50; 48; 50; 56]
      else if bytes_eqb bs ps_bytes then [92; 117; 50; 48; 50; 57]
      else bs
  | CBad _ => [92; 117; 102; 102; 102; 100]
  end.

Definition esc_body (fl : flavour) (s : list Z) : list Z := flat_map (esc_chunk fl) (chunks s).
Definition esc_string (fl : flavour) (s : list Z) : list Z := 34 :: esc_body fl s ++ [34].
Definition esc_string_easyjson := esc_string Easy.
Definition esc_string_std := esc_string Std.

(* ------------------------------------------------------------------ integers *)

Fixpoint digits_fuel (f : nat) (n : Z) (acc : list Z) : list Z :=
  match f with
  | O => acc
  | S f' =>
      let acc' := (48 + n mod 10) :: acc in
      if n <? 10 then acc' else digits_fuel f' (n / 10) acc'
  end.

(* 20 digits cover every uint64 *)
Definition enc_uint (n : Z) : list Z := digits_fuel 20 n [].
Definition enc_int (n : Z) : list Z := if n <? 0 then 45 :: enc_uint (- n) else enc_uint n.

(* ------------------------------------------------------------------ value trees *)

Inductive jvalue :=
| JNull
| JBool (b : bool)
| JNum (txt : list Z)                       (* number, literal text *)
| JStr (s : list Z)
| JArr (l : list jvalue)
| JObj (l : list (list Z * jvalue))        (* members in the order written *)
| JMap (l : list (list Z * jvalue)).       (* a Go map: the encoder sorts the keys *)

Section Sort.
Context {A : Type}.
Fixpoint insert_key (x : list Z * A) (l : list (list Z * A)) : list (list Z * A) :=
  match l with
  | [] => [x]
  | y :: l' => if bytes_leb (fst x) (fst y) then x :: l else y :: insert_key x l'
  end.
Fixpoint sort_keys (l : list (list Z * A)) : list (list Z * A) :=
  match l with
  | [] => []
  | x :: l' => insert_key x (sort_keys l')
  end.
End Sort.

Definition enc_member (fl : flavour) (kv : list Z * list Z) : list Z :=
  esc_string fl (fst kv) ++ 58 :: snd kv.

Definition enc_members (fl : flavour) (l : list (list Z * list Z)) : list Z :=
  123 :: join_comma (map (enc_member fl) l) ++ [125].

Fixpoint enc_jv (fl : flavour) (v : jvalue) : list Z :=
  match v with
  | JNull => str "null"
  | JBool true => str "true"
  | JBool false => str "false"
  | JNum t => t
  | JStr s => esc_string fl s
  | JArr l => 91 :: join_comma (map (enc_jv fl) l) ++ [93]
  | JObj l => enc_members fl (map (fun kv => match kv with (k, x) => (k, enc_jv fl x) end) l)
  | JMap l =>
      enc_members fl (sort_keys (map (fun kv => match kv with (k, x) => (k, enc_jv fl x) end) l))
  end.

(* what decoding the encoding yields: strings sanitized, maps turned into their sorted member list *)
Definition san_key {A : Type} (kv : list Z * A) : list Z * A := (sanitize (fst kv), snd kv).

Fixpoint norm (v : jvalue) : jvalue :=
  match v with
  | JStr s => JStr (sanitize s)
  | JArr l => JArr (map norm l)
  | JObj l => JObj (map san_key (map (fun kv => match kv with (k, x) => (k, norm x) end) l))
  | JMap l =>
      JObj (map san_key (sort_keys (map (fun kv => match kv with (k, x) => (k, norm x) end) l)))
  | _ => v
  end.

(* ------------------------------------------------------------------ decoder *)

Definition is_ws (b : Z) : bool := (b =? 32) || (b =? 9) || (b =? 10) || (b =? 13).

Fixpoint skip_ws (s : list Z) : list Z :=
  match s with
  | b :: t => if is_ws b then skip_ws t else s
  | [] => []
  end.

Definition hexval (c : Z) : option Z :=
  if in_rng 48 57 c then Some (c - 48)
  else if in_rng 97 102 c then Some (c - 87)
  else if in_rng 65 70 c then Some (c - 55)
  else None.

Definition hex4 (a b c d : Z) : option Z :=
  match hexval a, hexval b, hexval c, hexval d with
  | Some x, Some y, Some z, Some w => Some (((x * 16 + y) * 16 + z) * 16 + w)
  | _, _, _, _ => None
  end.

Definition utf8_encode (cp : Z) : list Z :=
  if cp <? 128 then [cp]
  else if cp <? 2048 then [192 + cp / 64; 128 + cp mod 64]
  else if cp <? 65536 then [224 + cp / 4096; 128 + (cp / 64) mod 64; 128 + cp mod 64]
  else [240 + cp / 262144; 128 + (cp / 4096) mod 64; 128 + (cp / 64) mod 64; 128 + cp mod 64].

Definition cons_opt (pre : list Z) (r : option (list Z * list Z)) : option (list Z * list Z) :=
  match r with
  | Some (d, rest) => Some (pre ++ d, rest)
  | None => None
  end.

Definition simple_escape (e : Z) : option Z :=
  if e =? 34 then Some 34 else if e =? 92 then Some 92 else if e =? 47 then Some 47
  else if e =? 98 then Some 8 else if e =? 102 then Some 12 else if e =? 110 then Some 10
  else if e =? 114 then Some 13 else if e =? 116 then Some 9 else None.

(* the body of a string literal after the opening quote: decoded bytes and what follows the
   closing quote.  Strict: raw control characters and raw invalid UTF-8 are rejected.  A lone
   surrogate escape decodes to U+FFFD (as Go does). *)
Fixpoint lex_str (s : list Z) : option (list Z * list Z) :=
  match s with
  | [] => None
  | b :: t =>
      if b =? 34 then Some ([], t)
      else if b =? 92 then
        match t with
        | [] => None
        | e :: t1 =>
            if e =? 117 then
              match t1 with
              | h1 :: h2 :: h3 :: h4 :: t5 =>
                  match hex4 h1 h2 h3 h4 with
                  | None => None
                  | Some cp =>
                      if in_rng 55296 56319 cp then
                        match t5 with
                        | c1 :: c2 :: g1 :: g2 :: g3 :: g4 :: t11 =>
                            match (if (c1 =? 92) && (c2 =? 117) then hex4 g1 g2 g3 g4 else None) with
                            | Some lo =>
                                if in_rng 56320 57343 lo
                                then cons_opt (utf8_encode (65536 + (cp - 55296) * 1024 + (lo - 56320)))
                                              (lex_str t11)
                                else cons_opt ufffd (lex_str t5)
                            | None => cons_opt ufffd (lex_str t5)
                            end
                        | _ => cons_opt ufffd (lex_str t5)
                        end
                      else if in_rng 56320 57343 cp then cons_opt ufffd (lex_str t5)
                      else cons_opt (utf8_encode cp) (lex_str t5)
                  end
              | _ => None
              end
            else
              match simple_escape e with
              | Some x => cons_opt [x] (lex_str t1)
              | None => None
              end
        end
      else if b <? 32 then None
      else if b <? 128 then cons_opt [b] (lex_str t)
      else
        match utf8_width b t, t with
        | 2%nat, b1 :: t1 => cons_opt [b; b1] (lex_str t1)
        | 3%nat, b1 :: b2 :: t2 => cons_opt [b; b1; b2] (lex_str t2)
        | 4%nat, b1 :: b2 :: b3 :: t3 => cons_opt [b; b1; b2; b3] (lex_str t3)
        | _, _ => None
        end
  end.

(* numbers: the maximal run of number characters must match the RFC 8259 grammar *)
Definition is_digit (b : Z) : bool := in_rng 48 57 b.
Definition num_char (b : Z) : bool :=
  is_digit b || (b =? 45) || (b =? 43) || (b =? 46) || (b =? 101) || (b =? 69).

Fixpoint span_num (s : list Z) : list Z * list Z :=
  match s with
  | b :: t => if num_char b then let (a, r) := span_num t in (b :: a, r) else ([], s)
  | [] => ([], [])
  end.

Fixpoint drop_digits (s : list Z) : list Z :=
  match s with
  | b :: t => if is_digit b then drop_digits t else s
  | [] => []
  end.

(* one or more digits, then the rest *)
Definition digits1 (s : list Z) : option (list Z) :=
  match s with
  | b :: t => if is_digit b then Some (drop_digits t) else None
  | [] => None
  end.

Definition num_exp (s : list Z) : bool :=
  match s with
  | [] => true
  | e :: t =>
      if (e =? 101) || (e =? 69) then
        let t' := match t with
                  | sg :: t2 => if (sg =? 43) || (sg =? 45) then t2 else t
                  | [] => t
                  end in
        match digits1 t' with Some [] => true | _ => false end
      else false
  end.

Definition num_frac (s : list Z) : bool :=
  match s with
  | d :: t => if d =? 46 then match digits1 t with Some r => num_exp r | None => false end
              else num_exp s
  | [] => true
  end.

Definition valid_num (t : list Z) : bool :=
  let t1 := match t with m :: r => if m =? 45 then r else t | [] => t end in
  match t1 with
  | d :: r =>
      if d =? 48 then num_frac r
      else if in_rng 49 57 d then num_frac (drop_digits r)
      else false
  | [] => false
  end.

Fixpoint strip_prefix (p s : list Z) : option (list Z) :=
  match p with
  | [] => Some s
  | x :: p' => match s with
               | y :: s' => if x =? y then strip_prefix p' s' else None
               | [] => None
               end
  end.

Fixpoint pval (f : nat) (s : list Z) {struct f} : option (jvalue * list Z) :=
  match f with
  | O => None
  | S f' =>
      match skip_ws s with
      | [] => None
      | b :: t =>
          if b =? 34 then
            match lex_str t with Some (d, r) => Some (JStr d, r) | None => None end
          else if b =? 123 then
            match skip_ws t with
            | c :: r =>
                if c =? 125 then Some (JObj [], r)
                else match pmembers f' (c :: r) with
                     | Some (l, r') => Some (JObj l, r')
                     | None => None
                     end
            | [] => None
            end
          else if b =? 91 then
            match skip_ws t with
            | c :: r =>
                if c =? 93 then Some (JArr [], r)
                else match pelems f' (c :: r) with
                     | Some (l, r') => Some (JArr l, r')
                     | None => None
                     end
            | [] => None
            end
          else if b =? 116 then
            match strip_prefix (str "rue") t with Some r => Some (JBool true, r) | None => None end
          else if b =? 102 then
            match strip_prefix (str "alse") t with Some r => Some (JBool false, r) | None => None end
          else if b =? 110 then
            match strip_prefix (str "ull") t with Some r => Some (JNull, r) | None => None end
          else
            let (a, r) := span_num (b :: t) in
            if valid_num a then Some (JNum a, r) else None
      end
  end
with pmembers (f : nat) (s : list Z) {struct f} : option (list (list Z * jvalue) * list Z) :=
  match f with
  | O => None
  | S f' =>
      match skip_ws s with
      | q :: t =>
          if q =? 34 then
            match lex_str t with
            | Some (k, r) =>
                match skip_ws r with
                | c :: r1 =>
                    if c =? 58 then
                      match pval f' r1 with
                      | Some (v, r2) =>
                          match skip_ws r2 with
                          | d :: r3 =>
                              if d =? 44 then
                                match pmembers f' r3 with
                                | Some (l, r4) => Some ((k, v) :: l, r4)
                                | None => None
                                end
                              else if d =? 125 then Some ([(k, v)], r3)
                              else None
                          | [] => None
                          end
                      | None => None
                      end
                    else None
                | [] => None
                end
            | None => None
            end
          else None
      | [] => None
      end
  end
with pelems (f : nat) (s : list Z) {struct f} : option (list jvalue * list Z) :=
  match f with
  | O => None
  | S f' =>
      match pval f' s with
      | Some (v, r) =>
          match skip_ws r with
          | d :: r1 =>
              if d =? 44 then
                match pelems f' r1 with
                | Some (l, r2) => Some (v :: l, r2)
                | None => None
                end
              else if d =? 93 then Some ([v], r1)
              else None
          | [] => None
          end
      | None => None
      end
  end.

(* a complete JSON text: one value, then only white space *)
Definition dec_json (s : list Z) : option jvalue :=
  match pval (S (length s)) s with
  | Some (v, r) => match skip_ws r with [] => Some v | _ => None end
  | None => None
  end.

(* ------------------------------------------------------------------ records from schemas *)

Inductive sty := SStr | SUint (bits : Z) | SInt (bits : Z) | SBool.
Inductive fty :=
| FS (t : sty)
| FPtr (sub : list (list Z * sty))   (* pointer to a struct of scalar fields; nil -> null *)
| FAny.                              (* interface / map / foreign struct: an opaque value tree *)

Record field := { fkey : list Z; fomit : bool; ftype : fty }.

(* how Result.ID() is built *)
Inductive idpart := IdField (key : list Z) | IdLit (txt : list Z).

Record schema := {
  sc_name : list Z;
  sc_flavour : flavour;
  sc_fields : list field;
  sc_id : list idpart }.

Inductive sval := VStr (s : list Z) | VNum (n : Z) | VBool (b : bool).
Inductive fval := VS (v : sval) | VPtr (o : option (list sval)) | VTree (t : jvalue).

Definition sval_jv (v : sval) : jvalue :=
  match v with VStr s => JStr s | VNum n => JNum (enc_int n) | VBool b => JBool b end.

Fixpoint sub_jv (sub : list (list Z * sty)) (xs : list sval) : list (list Z * jvalue) :=
  match sub, xs with
  | (k, _) :: sub', x :: xs' => (k, sval_jv x) :: sub_jv sub' xs'
  | _, _ => []
  end.

Definition fval_jv (ty : fty) (v : fval) : jvalue :=
  match v with
  | VS x => sval_jv x
  | VPtr None => JNull
  | VPtr (Some xs) => match ty with FPtr sub => JObj (sub_jv sub xs) | _ => JNull end
  | VTree t => t
  end.

(* Go's "empty value" test of omitempty, for the scalar kinds *)
Definition fval_zero (v : fval) : bool :=
  match v with
  | VS (VStr []) => true
  | VS (VNum n) => n =? 0
  | VS (VBool b) => negb b
  | _ => false
  end.

Fixpoint fields_jv (fs : list field) (vs : list fval) : list (list Z * jvalue) :=
  match fs, vs with
  | f :: fs', v :: vs' =>
      if fomit f && fval_zero v then fields_jv fs' vs'
      else (fkey f, fval_jv (ftype f) v) :: fields_jv fs' vs'
  | _, _ => []
  end.

Definition record_jv (sc : schema) (vals : list fval) : jvalue := JObj (fields_jv (sc_fields sc) vals).
Definition enc_record (sc : schema) (vals : list fval) : list Z := enc_jv (sc_flavour sc) (record_jv sc vals).
(* one line of output *)
Definition line (sc : schema) (vals : list fval) : list Z := enc_record sc vals ++ [10].

(* typing of the values of a record: what the Go types guarantee *)
Definition sty_ok (t : sty) (x : sval) : bool :=
  match t, x with
  | SStr, VStr s => wf_bytes s
  | SUint bits, VNum n => (0 <=? n) && (n <? 2 ^ bits) && (0 <=? bits) && (bits <=? 64)
  | SInt bits, VNum n => (- 2 ^ (bits - 1) <=? n) && (n <? 2 ^ (bits - 1)) && (1 <=? bits) && (bits <=? 64)
  | SBool, VBool _ => true
  | _, _ => false
  end.

Fixpoint sub_ok (sub : list (list Z * sty)) (xs : list sval) : bool :=
  match sub, xs with
  | [], [] => true
  | (_, t) :: sub', x :: xs' => sty_ok t x && sub_ok sub' xs'
  | _, _ => false
  end.

Fixpoint wf_jv (v : jvalue) : bool :=
  match v with
  | JNull | JBool _ => true
  | JNum t => valid_num t && forallb num_char t
  | JStr s => wf_bytes s
  | JArr l => forallb wf_jv l
  | JObj l => forallb (fun kv => match kv with (k, x) => wf_bytes k && wf_jv x end) l
  | JMap l => forallb (fun kv => match kv with (k, x) => wf_bytes k && wf_jv x end) l
  end.

Definition fty_ok (ty : fty) (v : fval) : bool :=
  match ty, v with
  | FS t, VS x => sty_ok t x
  | FPtr _, VPtr None => true
  | FPtr sub, VPtr (Some xs) => sub_ok sub xs
  | FAny, VTree t => wf_jv t
  | _, _ => false
  end.

Fixpoint fields_ok (fs : list field) (vs : list fval) : bool :=
  match fs, vs with
  | [], [] => true
  | f :: fs', v :: vs' => fty_ok (ftype f) v && fields_ok fs' vs'
  | _, _ => false
  end.

Definition wt_record (sc : schema) (vals : list fval) : bool := fields_ok (sc_fields sc) vals.

(* decimal text -> number; only plain digit strings (what enc_uint writes) *)
Fixpoint parse_digits (s : list Z) (acc : Z) : option Z :=
  match s with
  | [] => Some acc
  | b :: t => if is_digit b then parse_digits t (acc * 10 + (b - 48)) else None
  end.
Definition parse_uint (s : list Z) : option Z :=
  match s with [] => None | _ => parse_digits s 0 end.
Definition parse_int (s : list Z) : option Z :=
  match s with
  | m :: t => if m =? 45 then match parse_uint t with Some n => Some (- n) | None => None end
              else parse_uint s
  | [] => None
  end.

Definition sval_of (t : sty) (j : jvalue) : option sval :=
  match t, j with
  | SStr, JStr s => Some (VStr s)
  | SUint bits, JNum txt =>
      match parse_uint txt with
      | Some n => if n <? 2 ^ bits then Some (VNum n) else None
      | None => None
      end
  | SInt bits, JNum txt =>
      match parse_int txt with
      | Some n => if (- 2 ^ (bits - 1) <=? n) && (n <? 2 ^ (bits - 1)) then Some (VNum n) else None
      | None => None
      end
  | SBool, JBool b => Some (VBool b)
  | _, _ => None
  end.

(* members must be exactly the declared ones, in order *)
Fixpoint svals_of (sub : list (list Z * sty)) (es : list (list Z * jvalue)) : option (list sval) :=
  match sub, es with
  | [], [] => Some []
  | (k, t) :: sub', (k', j) :: es' =>
      if bytes_eqb k k' then
        match sval_of t j, svals_of sub' es' with
        | Some x, Some xs => Some (x :: xs)
        | _, _ => None
        end
      else None
  | _, _ => None
  end.

Definition fval_of (ty : fty) (j : jvalue) : option fval :=
  match ty with
  | FS t => match sval_of t j with Some x => Some (VS x) | None => None end
  | FPtr sub =>
      match j with
      | JNull => Some (VPtr None)
      | JObj es => match svals_of sub es with Some xs => Some (VPtr (Some xs)) | None => None end
      | _ => None
      end
  | FAny => Some (VTree j)
  end.

Definition zero_of (ty : fty) : fval :=
  match ty with
  | FS SStr => VS (VStr [])
  | FS (SUint _) | FS (SInt _) => VS (VNum 0)
  | FS SBool => VS (VBool false)
  | FPtr _ => VPtr None
  | FAny => VTree JNull
  end.

(* the members of the object against the declared fields, in order; an omitempty field may be
   absent (its value is then the zero value); nothing else may be absent or extra *)
Fixpoint vals_of (fs : list field) (es : list (list Z * jvalue)) : option (list fval) :=
  match fs with
  | [] => match es with [] => Some [] | _ => None end
  | f :: fs' =>
      match es with
      | (k, j) :: es' =>
          if bytes_eqb k (fkey f) then
            match fval_of (ftype f) j, vals_of fs' es' with
            | Some v, Some vs => Some (v :: vs)
            | _, _ => None
            end
          else if fomit f then
            match vals_of fs' es with Some vs => Some (zero_of (ftype f) :: vs) | None => None end
          else None
      | [] =>
          if fomit f then
            match vals_of fs' [] with Some vs => Some (zero_of (ftype f) :: vs) | None => None end
          else None
      end
  end.

Definition dec_record (sc : schema) (s : list Z) : option (list fval) :=
  match dec_json s with
  | Some (JObj es) => vals_of (sc_fields sc) es
  | _ => None
  end.

Definition san_sval (x : sval) : sval := match x with VStr s => VStr (sanitize s) | _ => x end.
Definition san_fval (v : fval) : fval :=
  match v with
  | VS x => VS (san_sval x)
  | VPtr (Some xs) => VPtr (Some (map san_sval xs))
  | VPtr None => v
  | VTree t => VTree (norm t)
  end.

(* a schema the layout theorems apply to: keys need no escaping, are pairwise different, and
   omitempty only sits on scalar fields *)
Definition plain_byte (b : Z) : bool :=
  in_rng 32 126 b && negb ((b =? 34) || (b =? 92) || (b =? 38) || (b =? 60) || (b =? 62)).
Definition plain_key (k : list Z) : bool := forallb plain_byte k.

Fixpoint mem_bytes (k : list Z) (l : list (list Z)) : bool :=
  match l with [] => false | x :: l' => bytes_eqb k x || mem_bytes k l' end.
Fixpoint nodup_bytes (l : list (list Z)) : bool :=
  match l with [] => true | x :: l' => negb (mem_bytes x l') && nodup_bytes l' end.

Definition field_ok (f : field) : bool :=
  plain_key (fkey f) &&
  match ftype f with
  | FS _ => true
  | FPtr sub => forallb (fun kt => plain_key (fst kt)) sub && negb (fomit f)
  | FAny => negb (fomit f)
  end.

Definition schema_ok (sc : schema) : bool :=
  forallb field_ok (sc_fields sc) && nodup_bytes (map fkey (sc_fields sc)).

(* ------------------------------------------------------------------ Result.ID() *)

Fixpoint lookup_field (k : list Z) (fs : list field) (vs : list fval) : option fval :=
  match fs, vs with
  | f :: fs', v :: vs' => if bytes_eqb k (fkey f) then Some v else lookup_field k fs' vs'
  | _, _ => None
  end.

(* fmt verbs %s of a string and %d of an unsigned integer *)
Definition id_text (v : option fval) : list Z :=
  match v with
  | Some (VS (VStr s)) => s
  | Some (VS (VNum n)) => enc_int n
  | _ => []
  end.

Definition result_id (sc : schema) (vals : list fval) : list Z :=
  flat_map (fun p => match p with
                     | IdField k => id_text (lookup_field k (sc_fields sc) vals)
                     | IdLit t => t
                     end) (sc_id sc).

(* ------------------------------------------------------------------ the two select loops *)

Section Loops.
Context {R : Type}.

(* LogResults: which select case fired, in order.  A tick flushes the bufio.Writer that nothing
   is ever written into (results go straight to the underlying writer), so it writes nothing. *)
Inductive log_ev := LResult (r : R) | LTick | LCancel | LClosed.

(* the list of Write calls on the underlying writer; [wr r = None] is a MarshalJSON error (logged,
   nothing written) *)
Fixpoint log_results (wr : R -> option (list Z)) (evs : list log_ev) : list (list Z) :=
  match evs with
  | [] => []
  | LResult r :: t => match wr r with
                      | Some l => l :: log_results wr t
                      | None => log_results wr t
                      end
  | LTick :: t => log_results wr t
  | LCancel :: _ | LClosed :: _ => []
  end.

(* results taken off the channel before the loop ended *)
Fixpoint log_taken (evs : list log_ev) : list R :=
  match evs with
  | [] => []
  | LResult r :: t => r :: log_taken t
  | LTick :: t => log_taken t
  | LCancel :: _ | LClosed :: _ => []
  end.

(* uniqResults: [UResult r sent] = a result was received; if its ID is new it is remembered and
   offered downstream, where either the send fires ([sent = true]) or ctx.Done ([sent = false],
   the goroutine returns). *)
Inductive uniq_ev := UResult (r : R) (sent : bool) | UCancel | UClosed.

Fixpoint uniq_run (id : R -> list Z) (seen : list (list Z)) (evs : list uniq_ev) : list R :=
  match evs with
  | [] => []
  | UResult r sent :: t =>
      if mem_bytes (id r) seen then uniq_run id seen t
      else if sent then r :: uniq_run id (id r :: seen) t
      else []
  | UCancel :: _ | UClosed :: _ => []
  end.

(* specification side: the results received before the loop ended ... *)
Fixpoint uniq_taken (id : R -> list Z) (seen : list (list Z)) (evs : list uniq_ev) : list R :=
  match evs with
  | [] => []
  | UResult r sent :: t =>
      if mem_bytes (id r) seen then r :: uniq_taken id seen t
      else if sent then r :: uniq_taken id (id r :: seen) t
      else []
  | UCancel :: _ | UClosed :: _ => []
  end.

(* ... and their first sightings: an element is kept iff no EARLIER element has its ID *)
Fixpoint firsts (id : R -> list Z) (before : list R) (l : list R) : list R :=
  match l with
  | [] => []
  | r :: t =>
      if existsb (fun x => bytes_eqb (id x) (id r)) before
      then firsts id (r :: before) t
      else r :: firsts id (r :: before) t
  end.
End Loops.
Arguments log_ev : clear implicits.
Arguments uniq_ev : clear implicits.

(* ------------------------------------------------------------------ shape of the real de-duplication loop *)
Local Open Scope string_scope.

(* what tools/gen/uniqloop.go reads off uniqResults (Gen/UniqLoop.v): names, the type of the set of
   seen IDs, the statements between the receive and the membership test, the test, the
   then-branch before the forwarding select, and the cases of that select (text, body) *)
Record uniq_loop_desc := {
  ul_ctx_var : string; ul_in_var : string; ul_out_var : string;
  ul_set_var : string; ul_set_key_type : string; ul_set_val_type : string;
  ul_recv_var : string; ul_closed_guard : bool;
  ul_pre : list string;
  ul_test_bind : string; ul_test_index : string; ul_test_cond : string; ul_has_else : bool;
  ul_then : list string;
  ul_forward : list (string * string) }.

Definition strip_pre (p s : string) : option string :=
  if String.prefix p s then Some (substring (String.length p) (String.length s - String.length p) s) else None.

Definition strip_suf (q s : string) : option string :=
  let n := (String.length s - String.length q)%nat in
  if (String.length q <=? String.length s)%nat && String.eqb (substring n (String.length q) s) q
  then Some (substring 0 n s) else None.

Definition ident_char (a : ascii) : bool :=
  let n := N_of_ascii a in
  ((48 <=? n) && (n <=? 57) || (65 <=? n) && (n <=? 90) || (97 <=? n) && (n <=? 122) || (n =? 95))%N.

Fixpoint is_ident (s : string) : bool :=
  match s with
  | EmptyString => false
  | String a EmptyString => ident_char a
  | String a s' => ident_char a && is_ident s'
  end.

Fixpoint mem_pair (x : string * string) (l : list (string * string)) : bool :=
  match l with
  | [] => false
  | y :: l' => (String.eqb (fst x) (fst y) && String.eqb (snd x) (snd y)) || mem_pair x l'
  end.

(* the loop has the shape of [uniq_run]: the set is keyed by strings; the key of a received result R
   is exactly R.ID() (bound to a variable right before the test, or used in place); the result is
   forwarded iff the key is NOT yet in the set, the key is inserted before forwarding, and what is
   sent downstream is R itself, racing only with cancellation *)
Definition uniq_loop_ok (d : uniq_loop_desc) : bool :=
  let r := ul_recv_var d in
  let id_call := append r ".ID()" in
  match strip_pre (append (ul_set_var d) "[") (ul_test_index d) with
  | None => false
  | Some rest =>
      match strip_suf "]" rest, strip_pre "_, " (ul_test_bind d) with
      | Some k, Some e =>
          String.eqb (ul_set_key_type d) "string" &&
          ul_closed_guard d && negb (ul_has_else d) &&
          is_ident r && is_ident e &&
          (match ul_pre d with
           | [] => String.eqb k id_call
           | [s] => is_ident k && String.eqb s (append k (append " := " id_call))
           | _ => false
           end) &&
          String.eqb (ul_test_cond d) (append "!" e) &&
          (match ul_then d with
           | [s] => String.prefix (append (ul_test_index d) " = ") s
           | _ => false
           end) &&
          (length (ul_forward d) =? 2)%nat &&
          mem_pair (append "<-" (append (ul_ctx_var d) ".Done()"), "return") (ul_forward d) &&
          mem_pair (append (ul_out_var d) (append " <- " r), "") (ul_forward d)
      | _, _ => false
      end
  end.

(* ------------------------------------------------------------------ what the packet processors queue *)

(* one call `….results.Put(arg)` of a ProcessPacketData (tools/gen/putfresh.go, Gen/PutFresh.v):
   ps_arg = "fresh" when arg is `&T{…}`, else its text; ps_ref_fields = the reference-typed fields of T
   with "fresh" / "nil" / the text of their initialiser *)
Record put_site := { ps_func : string; ps_arg : string; ps_type : string; ps_ref_fields : list (string * string) }.

Fixpoint mem_string (x : string) (l : list string) : bool :=
  match l with [] => false | y :: l' => String.eqb x y || mem_string x l' end.

(* the model treats a queued result as an immutable value ([log_results], [uniq_run] work on values):
   that is right only if every queued record, and everything it points to, was allocated for it *)
Definition put_site_ok (s : put_site) : bool :=
  String.eqb (ps_arg s) "fresh" && String.eqb (ps_type s) "ScanResult" &&
  forallb (fun f => String.eqb (snd f) "fresh" || String.eqb (snd f) "nil") (ps_ref_fields s).

Definition put_sites_ok (l : list put_site) : bool :=
  forallb put_site_ok l &&
  forallb (fun f => mem_string f (map ps_func l))
          ["arp.ScanMethod.ProcessPacketData"; "tcp.ScanMethod.ProcessPacketData"; "icmp.PacketProcessor.ProcessPacketData"].
