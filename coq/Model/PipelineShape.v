(* Pinned concurrency skeletons: the source shape the hand-written behaviours of this topic were
   validated against. [shape_ok] compares them with Gen/Skeletons.v (regenerated from /repo on every run).
   Written by bin/pin-skeletons; edit only by re-running it after re-validating the model. *)
From Coq Require Import String List Bool.
From SX Require Import Gen.Skeletons.
Import ListNotations.
Local Open Scope string_scope.

Fixpoint strs_eqb (a b : list string) : bool :=
  match a, b with
  | [], [] => true
  | x :: a', y :: b' => String.eqb x y && strs_eqb a' b'
  | _, _ => false
  end.

Definition pin_sender_SendPackets : list string := [
  "assign done := make(chan interface{})";
  "assign errc := make(chan error, 100)";
  "go{";
  " defer{";
  "  do close(done)";
  "  do close(errc)";
  " }";
  " for {";
  "  select{";
  "   case <-ctx.Done():";
  "    return";
  "   case pkt, ok := <-in:";
  "    if !ok{";
  "     return";
  "    }";
  "    if pkt.Err != nil{";
  "     send errc <- pkt.Err";
  "     continue";
  "    }";
  "    assign err := s.w.WritePacketData(pkt.Buf.Bytes())";
  "    if err != nil{";
  "     send errc <- err";
  "    }";
  "    assign err := FreeSerializeBuffer(pkt.Buf)";
  "    if err != nil{";
  "     send errc <- err";
  "    }";
  "  }";
  " }";
  "}";
  "return done, errc"
].

Definition pin_FreeSerializeBuffer : list string := [
  "assign err = buf.Clear()";
  "if err != nil{";
  " return";
  "}";
  "do bufferPool.Put(buf)";
  "return"
].

Definition pin_packetGenerator_Packets : list string := [
  "assign out := make(chan *packet.BufferData, 100)";
  "go{";
  " defer close(out)";
  " for {";
  "  select{";
  "   case <-ctx.Done():";
  "    return";
  "   case r, ok := <-in:";
  "    if !ok{";
  "     return";
  "    }";
  "    if r.Err != nil{";
  "     do writeBufToChan(ctx, out, &packet.BufferData{Err: r.Err})";
  "     continue";
  "    }";
  "    assign buf := packet.NewSerializeBuffer()";
  "    assign err := g.filler.Fill(buf, r)";
  "    if err != nil{";
  "     do writeBufToChan(ctx, out, &packet.BufferData{Err: err})";
  "     continue";
  "    }";
  "    do writeBufToChan(ctx, out, &packet.BufferData{Buf: buf})";
  "  }";
  " }";
  "}";
  "return out"
].

Definition pin_writeBufToChan : list string := [
  "select{";
  " case <-ctx.Done():";
  "  return";
  " case out <- buf:";
  "}"
].

Definition pin_packetMultiGenerator_Packets : list string := [
  "assign workers := make([]<-chan *packet.BufferData, g.numWorkers)";
  "for i < g.numWorkers{";
  " assign workers[i] = g.gen.Packets(ctx, in)";
  "}";
  "return MergeBufferDataChan(ctx, workers...)"
].

Definition pin_MergeBufferDataChan : list string := [
  "do wg.Add(len(channels))";
  "assign out := make(chan *packet.BufferData, len(channels)*100)";
  "assign multiplex := func(c <-chan *packet.BufferData) {...}";
  " func{";
  "  defer wg.Done()";
  "  for {";
  "   select{";
  "    case <-ctx.Done():";
  "     return";
  "    case e, ok := <-c:";
  "     if !ok{";
  "      return";
  "     }";
  "     select{";
  "      case <-ctx.Done():";
  "       return";
  "      case out <- e:";
  "     }";
  "   }";
  "  }";
  " }";
  "range channels{";
  " go multiplex(c)";
  "}";
  "go{";
  " do wg.Wait()";
  " do close(out)";
  "}";
  "return out"
].

Definition pin_mergeErrChan : list string := [
  "do wg.Add(len(channels))";
  "assign out := make(chan error, 100)";
  "assign multiplex := func(c <-chan error) {...}";
  " func{";
  "  defer wg.Done()";
  "  for {";
  "   select{";
  "    case <-ctx.Done():";
  "     return";
  "    case e, ok := <-c:";
  "     if !ok{";
  "      return";
  "     }";
  "     do writeError(ctx, out, e)";
  "   }";
  "  }";
  " }";
  "range channels{";
  " go multiplex(c)";
  "}";
  "go{";
  " do wg.Wait()";
  " do close(out)";
  "}";
  "return out"
].

Definition pin_PacketEngine_Start : list string := [
  "assign packets := e.src.Packets(ctx, r)";
  "assign done, errc1 := e.snd.SendPackets(ctx, packets)";
  "assign errc2 := e.rcv.ReceivePackets(ctx)";
  "return done, mergeErrChan(ctx, errc1, errc2)"
].

Definition pin_packetSource_Packets : list string := [
  "assign requests, err := s.reqgen.GenerateRequests(ctx, r)";
  "if err != nil{";
  " assign out := make(chan *packet.BufferData, 1)";
  " send out <- &packet.BufferData{Err: err}";
  " do close(out)";
  " return out";
  "}";
  "return s.pktgen.Packets(ctx, requests)"
].

Definition pin_SetupPacketEngine : list string := [
  "assign sender := packet.NewSender(rw)";
  "assign receiver := packet.NewReceiver(rw, m)";
  "assign engine := NewPacketEngine(m, sender, receiver)";
  "return NewEngineResulter(engine, m)"
].

Definition pin_writeError : list string := [
  "select{";
  " case <-ctx.Done():";
  "  return";
  " case out <- err:";
  "}"
].

Definition shape_checks : list (string * bool) := [
  ("sender_SendPackets", strs_eqb pin_sender_SendPackets skel_sender_SendPackets);
  ("FreeSerializeBuffer", strs_eqb pin_FreeSerializeBuffer skel_FreeSerializeBuffer);
  ("packetGenerator_Packets", strs_eqb pin_packetGenerator_Packets skel_packetGenerator_Packets);
  ("writeBufToChan", strs_eqb pin_writeBufToChan skel_writeBufToChan);
  ("packetMultiGenerator_Packets", strs_eqb pin_packetMultiGenerator_Packets skel_packetMultiGenerator_Packets);
  ("MergeBufferDataChan", strs_eqb pin_MergeBufferDataChan skel_MergeBufferDataChan);
  ("mergeErrChan", strs_eqb pin_mergeErrChan skel_mergeErrChan);
  ("PacketEngine_Start", strs_eqb pin_PacketEngine_Start skel_PacketEngine_Start);
  ("packetSource_Packets", strs_eqb pin_packetSource_Packets skel_packetSource_Packets);
  ("SetupPacketEngine", strs_eqb pin_SetupPacketEngine skel_SetupPacketEngine);
  ("writeError", strs_eqb pin_writeError skel_writeError)
].

Definition shape_ok : bool := forallb snd shape_checks.
Definition shape_diff : list string := map fst (filter (fun p => negb (snd p)) shape_checks).
