(* Pinned concurrency skeletons: the source shape the hand-written behaviours of this topic were
   validated against. [shape_ok] compares them with Gen/Skeletons.v (regenerated from /repo on every run).
   Written by bin/pin-skeletons; edit only by re-running it after re-validating the model. *)
From Coq Require Import String List Bool.
From SX Require Import Gen.Skeletons.
Import ListNotations.
Local Open Scope string_scope.

Fixpoint strs_eqb (a b : list string) : bool :=
  match a, b with
  | [], [] => true
  | x :: a', y :: b' => String.eqb x y && strs_eqb a' b'
  | _, _ => false
  end.

Definition pin_FreeSerializeBuffer : list string := [
  "assign v1 = v0.Clear()";
  "if v1 != nil{";
  " return";
  "}";
  "do bufferPool.Put(v0)";
  "return"
].

Definition pin_MergeBufferDataChan : list string := [
  "do v2.Add(len(v1))";
  "assign v3 := make(chan *packet.BufferData, len(v1)*100)";
  "assign v4 := func(v7 <-chan *packet.BufferData) {...}";
  " func{";
  "  defer v2.Done()";
  "  for {";
  "   select{";
  "    case <-v0.Done():";
  "     return";
  "    case v5, v6 := <-v7:";
  "     if !v6{";
  "      return";
  "     }";
  "     select{";
  "      case <-v0.Done():";
  "       return";
  "      case v3 <- v5:";
  "     }";
  "   }";
  "  }";
  " }";
  "range v1{";
  " go v4(v7)";
  "}";
  "go{";
  " do v2.Wait()";
  " do close(v3)";
  "}";
  "return v3"
].

Definition pin_PacketEngine_Start : list string := [
  "assign v3 := v0.src.Packets(v1, v2)";
  "assign v4, v5 := v0.snd.SendPackets(v1, v3)";
  "assign v6 := v0.rcv.ReceivePackets(v1)";
  "return v4, mergeErrChan(v1, v5, v6)"
].

Definition pin_SetupPacketEngine : list string := [
  "assign v2 := packet.NewSender(v0)";
  "assign v3 := packet.NewReceiver(v0, v1)";
  "assign v4 := NewPacketEngine(v1, v2, v3)";
  "return NewEngineResulter(v4, v1)"
].

Definition pin_mergeErrChan : list string := [
  "do v2.Add(len(v1))";
  "assign v3 := make(chan error, 100)";
  "assign v4 := func(v7 <-chan error) {...}";
  " func{";
  "  defer v2.Done()";
  "  for {";
  "   select{";
  "    case <-v0.Done():";
  "     return";
  "    case v5, v6 := <-v7:";
  "     if !v6{";
  "      return";
  "     }";
  "     do writeError(v0, v3, v5)";
  "   }";
  "  }";
  " }";
  "range v1{";
  " go v4(v7)";
  "}";
  "go{";
  " do v2.Wait()";
  " do close(v3)";
  "}";
  "return v3"
].

Definition pin_packetGenerator_Packets : list string := [
  "assign v3 := make(chan *packet.BufferData, 100)";
  "go{";
  " defer close(v3)";
  " for {";
  "  select{";
  "   case <-v1.Done():";
  "    return";
  "   case v4, v5 := <-v2:";
  "    if !v5{";
  "     return";
  "    }";
  "    if v4.Err != nil{";
  "     do writeBufToChan(v1, v3, &packet.BufferData{Err: v4.Err})";
  "     continue";
  "    }";
  "    assign v6 := packet.NewSerializeBuffer()";
  "    assign v7 := v0.filler.Fill(v6, v4)";
  "    if v7 != nil{";
  "     do writeBufToChan(v1, v3, &packet.BufferData{Err: v7})";
  "     continue";
  "    }";
  "    do writeBufToChan(v1, v3, &packet.BufferData{Buf: v6})";
  "  }";
  " }";
  "}";
  "return v3"
].

Definition pin_packetMultiGenerator_Packets : list string := [
  "assign v3 := make([]<-chan *packet.BufferData, v0.numWorkers)";
  "for v4 < v0.numWorkers{";
  " assign v3[v4] = v0.gen.Packets(v1, v2)";
  "}";
  "return MergeBufferDataChan(v1, v3...)"
].

Definition pin_packetSource_Packets : list string := [
  "assign v3, v4 := v0.reqgen.GenerateRequests(v1, v2)";
  "if v4 != nil{";
  " assign v5 := make(chan *packet.BufferData, 1)";
  " send v5 <- &packet.BufferData{Err: v4}";
  " do close(v5)";
  " return v5";
  "}";
  "return v0.pktgen.Packets(v1, v3)"
].

Definition pin_sender_SendPackets : list string := [
  "assign v3 := make(chan interface{})";
  "assign v4 := make(chan error, 100)";
  "go{";
  " defer{";
  "  do close(v3)";
  "  do close(v4)";
  " }";
  " for {";
  "  select{";
  "   case <-v1.Done():";
  "    return";
  "   case v5, v6 := <-v2:";
  "    if !v6{";
  "     return";
  "    }";
  "    if v5.Err != nil{";
  "     send v4 <- v5.Err";
  "     continue";
  "    }";
  "    assign v7 := v0.w.WritePacketData(v5.Buf.Bytes())";
  "    if v7 != nil{";
  "     send v4 <- v7";
  "    }";
  "    assign v7 := FreeSerializeBuffer(v5.Buf)";
  "    if v7 != nil{";
  "     send v4 <- v7";
  "    }";
  "  }";
  " }";
  "}";
  "return v3, v4"
].

Definition pin_writeBufToChan : list string := [
  "select{";
  " case <-v0.Done():";
  "  return";
  " case v1 <- v2:";
  "}"
].

Definition pin_writeError : list string := [
  "select{";
  " case <-v0.Done():";
  "  return";
  " case v1 <- v2:";
  "}"
].

Definition shape_checks : list (string * bool) := [
  ("FreeSerializeBuffer", strs_eqb pin_FreeSerializeBuffer skel_FreeSerializeBuffer);
  ("MergeBufferDataChan", strs_eqb pin_MergeBufferDataChan skel_MergeBufferDataChan);
  ("PacketEngine_Start", strs_eqb pin_PacketEngine_Start skel_PacketEngine_Start);
  ("SetupPacketEngine", strs_eqb pin_SetupPacketEngine skel_SetupPacketEngine);
  ("mergeErrChan", strs_eqb pin_mergeErrChan skel_mergeErrChan);
  ("packetGenerator_Packets", strs_eqb pin_packetGenerator_Packets skel_packetGenerator_Packets);
  ("packetMultiGenerator_Packets", strs_eqb pin_packetMultiGenerator_Packets skel_packetMultiGenerator_Packets);
  ("packetSource_Packets", strs_eqb pin_packetSource_Packets skel_packetSource_Packets);
  ("sender_SendPackets", strs_eqb pin_sender_SendPackets skel_sender_SendPackets);
  ("writeBufToChan", strs_eqb pin_writeBufToChan skel_writeBufToChan);
  ("writeError", strs_eqb pin_writeError skel_writeError)
].

Definition shape_ok : bool := forallb snd shape_checks.
Definition shape_diff : list string := map fst (filter (fun p => negb (snd p)) shape_checks).
