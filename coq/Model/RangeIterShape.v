(* Pinned concurrency skeletons: the source shape the hand-written behaviours of this topic were
   validated against. [shape_ok] compares them with Gen/StmtShapes.v (regenerated from /repo on every run).
   Written by bin/pin-skeletons; edit only by re-running it after re-validating the model. *)
From Coq Require Import String List Bool.
From SX Require Import Gen.StmtShapes.
Import ListNotations.
Local Open Scope string_scope.

Fixpoint strs_eqb (a b : list string) : bool :=
  match a, b with
  | [], [] => true
  | x :: a', y :: b' => String.eqb x y && strs_eqb a' b'
  | _, _ => false
  end.

Definition pin_rangeIterator_Next : list string := [
  "func (v0 *rangeIterator) func() bool";
  " if ; v0.stop {";
  "  return false";
  " }";
  " for ; ;  {";
  "  v0.I.Mul(v0.I, v0.G)";
  "  v0.I.Mod(v0.I, v0.P)";
  "  if ; v0.I.Cmp(v0.startI) == 0 {";
  "   v0.stop = true";
  "   return false";
  "  }";
  "  if ; v0.I.Cmp(v0.rangeLimit) < 1 {";
  "   return true";
  "  }";
  " }"
].

Definition pin_rangeIterator_Int : list string := [
  "func (v0 *rangeIterator) func() *big.Int";
  " return v0.I"
].

Definition pin_newRangeIterator : list string := [
  "func func(v0 int64) (*rangeIterator, error)";
  " if ; v0 <= 0 {";
  "  return nil, errRangeSize";
  " }";
  " v1 := sort.Search(len(cyclicGroups), func(i int) bool { return cyclicGroups[i].P > v0 })";
  " if ; v1 == len(cyclicGroups) {";
  "  return nil, errRangeSize";
  " }";
  " v2 := cyclicGroups[v1]";
  " v3, v4, v5 := big.NewInt(v2.P), big.NewInt(v2.G), big.NewInt(v2.N)";
  " v6 := big.NewInt(rand.Int63())";
  " v7 := big.NewInt(1)";
  " v6.Add(v6, v7)";
  " v5.Exp(v5, v6, big.NewInt(v2.P-1))";
  " v4.Exp(v4, v5, v3)";
  " v6.SetInt64(rand.Int63()).Add(v6, v7)";
  " v8 := big.NewInt(0).Exp(v4, v6, v3)";
  " v9 := &rangeIterator{P: v3, G: v4, rangeLimit: big.NewInt(v0), I: big.NewInt(0).Set(v8), startI: big.NewInt(0).Set(v8), }";
  " if ; !v9.Next() && v0 > 1 {";
  "  return nil, fmt.Errorf(""invalid cyclic group: P = %+v G = %+v N = %+v startI = %+v"", v3, v4, v5, v9.startI)";
  " }";
  " v9.startI.Set(v9.I)";
  " return v9, nil"
].

Definition shape_checks : list (string * bool) := [
  ("rangeIterator_Next", strs_eqb pin_rangeIterator_Next skel_rangeIterator_Next);
  ("rangeIterator_Int", strs_eqb pin_rangeIterator_Int skel_rangeIterator_Int);
  ("newRangeIterator", strs_eqb pin_newRangeIterator skel_newRangeIterator)
].

Definition shape_ok : bool := forallb snd shape_checks.
Definition shape_diff : list string := map fst (filter (fun p => negb (snd p)) shape_checks).
