(* Executable model of the four probe frame builders: PacketFiller.Fill of pkg/scan/{tcp,udp,icmp,arp}
   driving gopacket's SerializeLayers (writer.go) and the SerializeTo methods of layers.Ethernet,
   IPv4, TCP, UDP, ICMPv4, ARP and gopacket.Payload.  Definitions only.

   What comes from where:
   - every constant the fillers pass to gopacket (versions, TTL, window, option bytes, spoofing
     arithmetic, defaults, ethertypes, serialize options, which filler field feeds which layer
     field) is Gen.FrameConsts, regenerated from the Go sources on every run;
   - the byte layout and the checksum arithmetic are gopacket's, modelled here by hand and tied to
     the real code by byte-for-byte differential testing (Spec/C05.v).

   SerializeLayers writes the layers innermost first, so a transport checksum is computed over
   exactly transport header ++ payload, the IPv4 total length over header ++ transport, and the
   Ethernet padding (to 60 bytes, unconditional) is appended last.  A result of [None] stands for
   Fill returning an error (bad MAC length, address that is not IPv4). *)
From Coq Require Import ZArith List Bool String.
From SX Require Import Base.Bytes Model.FramesBase Gen.FrameConsts.
Import ListNotations.
Open Scope Z_scope.

(* ------------------------------------------------------------------ checksum arithmetic *)

(* the accumulation loops of layers.checksum (ip4.go) and layers.tcpipChecksum (tcpip.go): big-endian
   16-bit words, a trailing odd byte is the high byte of a last word *)
Fixpoint sum16 (l : list Z) : Z :=
  match l with
  | [] => 0
  | [a] => a * 256
  | a :: b :: t => a * 256 + b + sum16 t
  end.

(* for csum > 0xffff { csum = (csum >> 16) + (csum & 0xffff) } *)
Fixpoint fold_carry (fuel : nat) (c : Z) : Z :=
  match fuel with
  | O => c
  | S f => if c >? 65535 then fold_carry f (c / 65536 + c mod 65536) else c
  end.

(* the accumulator is a uint32; the result is ^uint16(csum) *)
Definition csum_fin (c : Z) : Z := 65535 - fold_carry 4 (c mod 4294967296).

(* IPv4.pseudoheaderChecksum + the protocol and length terms of computeChecksum *)
Definition pseudo_init (s d : list Z) (proto len : Z) : Z :=
  (nth 0 s 0 + nth 2 s 0) * 256 + (nth 1 s 0 + nth 3 s 0) +
  ((nth 0 d 0 + nth 2 d 0) * 256 + (nth 1 d 0 + nth 3 d 0)) +
  proto + len mod 65536 + len / 65536.

Definition gopacket_proto_tcp : Z := 6.   (* layers.IPProtocolTCP, passed by TCP.SerializeTo *)
Definition gopacket_proto_udp : Z := 17.  (* layers.IPProtocolUDP, passed by UDP.SerializeTo *)

(* ------------------------------------------------------------------ addresses *)

(* net.IP.To4: 4 bytes as they are, 16 bytes with the ::ffff:0:0/96 prefix -> last 4, else nil *)
Definition v4_mapped_prefix : list Z := [0; 0; 0; 0; 0; 0; 0; 0; 0; 0; 255; 255].

Definition to4 (ip : list Z) : option (list Z) :=
  if (List.length ip =? 4)%nat then Some ip
  else if (List.length ip =? 16)%nat && bytes_eqb (firstn 12 ip) v4_mapped_prefix then Some (skipn 12 ip)
  else None.

(* ------------------------------------------------------------------ IPv4 (ip4.go SerializeTo, no options) *)

Definition ipv4_header (version ihl len id flags ttl proto ck : Z) (src dst : list Z) : list Z :=
  [ Z.lor ((version * 16) mod 256) ihl; 0 ] ++ u16_bytes len ++ u16_bytes id ++
  u16_bytes ((flags * 8192) mod 65536) ++ [ ttl; proto ] ++ u16_bytes ck ++ src ++ dst.

(* [fx] = opts.FixLengths: IHL := 5 + optionLength/4, Length := uint16(len(b.Bytes())) *)
Definition ipv4_datagram (fx cks : bool) (version ihl len id flags ttl proto : Z)
    (src dst l4 : list Z) : list Z :=
  let ihl' := if fx then 5 else ihl in
  let len' := if fx then (20 + Z.of_nat (List.length l4)) mod 65536 else len in
  let ck := if cks then csum_fin (sum16 (ipv4_header version ihl' len' id flags ttl proto 0 src dst)) else 0 in
  ipv4_header version ihl' len' id flags ttl proto ck src dst ++ l4.

(* ------------------------------------------------------------------ TCP (tcp.go SerializeTo) *)

Definition tcp_opt_len (o : Z * Z * list Z) : Z :=
  let '(k, _, d) := o in if (k =? 0) || (k =? 1) then 1 else 2 + Z.of_nat (List.length d).

Definition tcp_opt_bytes (fx : bool) (o : Z * Z * list Z) : list Z :=
  let '(k, declared, d) := o in
  if (k =? 0) || (k =? 1) then [k]
  else k :: (if fx then (Z.of_nat (List.length d) + 2) mod 256 else declared) :: d.

Definition tcp_options_len (os : list (Z * Z * list Z)) : Z := fold_right (fun o a => tcp_opt_len o + a) 0 os.

Definition tcp_padding_len (fx : bool) (os : list (Z * Z * list Z)) : Z :=
  if fx then (if tcp_options_len os mod 4 =? 0 then 0 else 4 - tcp_options_len os mod 4) else 0.

Definition tcp_data_offset (fx : bool) (os : list (Z * Z * list Z)) : Z :=
  if fx then ((tcp_padding_len fx os + tcp_options_len os + 20) / 4) mod 256 else 0.

Definition tcp_option_block (fx : bool) (os : list (Z * Z * list Z)) : list Z :=
  flat_map (tcp_opt_bytes fx) os ++ repeat 0 (Z.to_nat (tcp_padding_len fx os)).

(* flagsAndOffset: uint16(DataOffset) << 12 or-ed with one bit per flag *)
Definition tcp_flag_bits (f : tcp_flagset) : Z :=
  b2z (fFIN f) + 2 * b2z (fSYN f) + 4 * b2z (fRST f) + 8 * b2z (fPSH f) + 16 * b2z (fACK f) +
  32 * b2z (fURG f) + 64 * b2z (fECE f) + 128 * b2z (fCWR f) + 256 * b2z (fNS f).

Definition tcp_header (sport dport seq ack doff : Z) (fl : tcp_flagset) (win ck urg : Z)
    (optblock : list Z) : list Z :=
  u16_bytes sport ++ u16_bytes dport ++ u32_bytes seq ++ u32_bytes ack ++
  u16_bytes ((doff * 4096) mod 65536 + tcp_flag_bits fl) ++ u16_bytes win ++ u16_bytes ck ++
  u16_bytes urg ++ optblock.

Definition tcp_segment (fx cks : bool) (s d : list Z) (sport dport seq : Z) (fl : tcp_flagset)
    (win : Z) (os : list (Z * Z * list Z)) : list Z :=
  let blk := tcp_option_block fx os in
  let doff := tcp_data_offset fx os in
  let seg0 := tcp_header sport dport seq 0 doff fl win 0 0 blk in
  let ck := if cks then csum_fin (pseudo_init s d gopacket_proto_tcp (Z.of_nat (List.length seg0)) + sum16 seg0) else 0 in
  tcp_header sport dport seq 0 doff fl win ck 0 blk.

(* ------------------------------------------------------------------ UDP (udp.go SerializeTo) *)

Definition udp_header (sport dport len ck : Z) : list Z :=
  u16_bytes sport ++ u16_bytes dport ++ u16_bytes len ++ u16_bytes ck.

(* [explicit] = the filler sets layers.UDP.Length itself to uint16(base + len(payload)); with
   FixLengths gopacket overwrites it with uint16(len(payload)) + 8 *)
Definition udp_length_field (fx explicit : bool) (base : Z) (payload : list Z) : Z :=
  if fx then (Z.of_nat (List.length payload) mod 65536 + 8) mod 65536
  else if explicit then (base + Z.of_nat (List.length payload)) mod 65536 else 0.

Definition udp_segment (fx cks explicit : bool) (base : Z) (s d : list Z) (sport dport : Z)
    (payload : list Z) : list Z :=
  let len := udp_length_field fx explicit base payload in
  let seg0 := udp_header sport dport len 0 ++ payload in
  let ck := if cks then csum_fin (pseudo_init s d gopacket_proto_udp (Z.of_nat (List.length seg0)) + sum16 seg0) else 0 in
  udp_header sport dport len ck ++ payload.

(* ------------------------------------------------------------------ ICMPv4 (icmp4.go SerializeTo) *)

Definition icmp_header (typ code ck id sq : Z) : list Z :=
  [ typ; code ] ++ u16_bytes ck ++ u16_bytes id ++ u16_bytes sq.

Definition icmp_message (cks : bool) (typ code id sq : Z) (payload : list Z) : list Z :=
  let ck := if cks then csum_fin (sum16 (icmp_header typ code 0 id sq ++ payload)) else 0 in
  icmp_header typ code ck id sq ++ payload.

(* ------------------------------------------------------------------ Ethernet (ethernet.go SerializeTo) *)

Definition eth_frame (dst src : list Z) (ethertype : Z) (payload : list Z) : option (list Z) :=
  if negb (List.length dst =? 6)%nat then None
  else if negb (List.length src =? 6)%nat then None
  else let f := dst ++ src ++ u16_bytes ethertype ++ payload in
       Some (f ++ repeat 0 (60 - List.length f)).

(* if f.vpnMode { SerializeLayers(ip, ...) } else { SerializeLayers(eth, ip, ...) } *)
Definition link_wrap (vpn : bool) (q : request) (ethertype : Z) (dgram : list Z) : option (list Z) :=
  if vpn then Some dgram else eth_frame (q_dst_mac q) (q_src_mac q) ethertype dgram.

(* ------------------------------------------------------------------ spoofed fields *)

(* base + rand.Intn(n) converted to uint16; rand.Intn(n) is modelled as (raw draw) mod n *)
Definition spoof16 (base n draw : Z) : Z := (base + draw mod n) mod 65536.

Record draws := { d_id : Z; d_sport : Z; d_seq : Z; d_icmp_id : Z; d_payload : list Z }.

(* ------------------------------------------------------------------ the TCP filler *)

(* Fill copies the nine flag fields of the filler into layers.TCP as FrameConsts says *)
Definition flag_field (name : string) (f : tcp_flagset) : bool :=
  if String.eqb name "FIN" then fFIN f else if String.eqb name "SYN" then fSYN f
  else if String.eqb name "RST" then fRST f else if String.eqb name "PSH" then fPSH f
  else if String.eqb name "ACK" then fACK f else if String.eqb name "URG" then fURG f
  else if String.eqb name "ECE" then fECE f else if String.eqb name "CWR" then fCWR f
  else if String.eqb name "NS" then fNS f else false.

Fixpoint assoc_str (k : string) (t : list (string * string)) : string :=
  match t with
  | [] => EmptyString
  | (k', v) :: t' => if String.eqb k k' then v else assoc_str k t'
  end.

Definition layer_flag (wiring : list (string * string)) (name : string) (f : tcp_flagset) : bool :=
  flag_field (assoc_str name wiring) f.

Definition tcp_layer_flags (wiring : list (string * string)) (f : tcp_flagset) : tcp_flagset :=
  {| fFIN := layer_flag wiring "FIN" f; fSYN := layer_flag wiring "SYN" f; fRST := layer_flag wiring "RST" f;
     fPSH := layer_flag wiring "PSH" f; fACK := layer_flag wiring "ACK" f; fURG := layer_flag wiring "URG" f;
     fECE := layer_flag wiring "ECE" f; fCWR := layer_flag wiring "CWR" f; fNS := layer_flag wiring "NS" f |}.

(* tcp.NewPacketFiller(opts...): each With* constructor sets the filler fields FrameConsts lists *)
Definition set_flag_field (name : string) (f : tcp_flagset) : tcp_flagset :=
  {| fFIN := fFIN f || String.eqb name "FIN"; fSYN := fSYN f || String.eqb name "SYN";
     fRST := fRST f || String.eqb name "RST"; fPSH := fPSH f || String.eqb name "PSH";
     fACK := fACK f || String.eqb name "ACK"; fURG := fURG f || String.eqb name "URG";
     fECE := fECE f || String.eqb name "ECE"; fCWR := fCWR f || String.eqb name "CWR";
     fNS := fNS f || String.eqb name "NS" |}.

Fixpoint assoc_strs (k : string) (t : list (string * list string)) : list string :=
  match t with
  | [] => []
  | (k', v) :: t' => if String.eqb k k' then v else assoc_strs k t'
  end.

Definition no_flags : tcp_flagset :=
  {| fFIN := false; fSYN := false; fRST := false; fPSH := false; fACK := false; fURG := false;
     fECE := false; fCWR := false; fNS := false |}.

Definition tcp_filler_of (withs : list string) : tcp_flagset :=
  fold_left (fun f w => fold_left (fun f' fld => set_flag_field fld f') (assoc_strs w fc_tcp_with_fields) f)
            withs no_flags.

(* the datagram for given final values of the spoofed fields *)
Definition tcp_datagram (fl : tcp_flagset) (s d : list Z) (dport id sport sq : Z) : list Z :=
  ipv4_datagram fc_tcp_fix_lengths fc_tcp_compute_checksums fc_tcp_ip_version 0 0 id fc_tcp_ip_flags
    fc_tcp_ip_ttl fc_tcp_ip_proto s d
    (tcp_segment fc_tcp_fix_lengths fc_tcp_compute_checksums s d sport dport sq
       (tcp_layer_flags fc_tcp_layer_flag_sources fl) fc_tcp_window fc_tcp_options).

Definition tcp_frame_with (fl : tcp_flagset) (vpn : bool) (q : request) (id sport sq : Z) : option (list Z) :=
  match to4 (q_src_ip q), to4 (q_dst_ip q) with
  | Some s, Some d => link_wrap vpn q fc_tcp_ethertype (tcp_datagram fl s d (q_dport q) id sport sq)
  | _, _ => None
  end.

Definition tcp_frame (fl : tcp_flagset) (vpn : bool) (q : request) (r : draws) : option (list Z) :=
  tcp_frame_with fl vpn q (spoof16 fc_tcp_ip_id_base fc_tcp_ip_id_mod (d_id r))
    (spoof16 fc_tcp_sport_base fc_tcp_sport_mod (d_sport r)) (d_seq r mod 4294967296).

(* ------------------------------------------------------------------ the UDP and ICMP fillers *)

(* filler fields after NewPacketFiller(opts...) *)
Record ip_opts := { o_ttl : Z; o_len : Z; o_proto : Z; o_flags : Z; o_vpn : bool }.

Definition udp_default_opts : ip_opts :=
  {| o_ttl := fc_udp_default_ttl; o_len := 0; o_proto := fc_udp_default_proto; o_flags := fc_udp_default_flags;
     o_vpn := false |}.

Definition icmp_default_opts : ip_opts :=
  {| o_ttl := fc_icmp_default_ttl; o_len := 0; o_proto := fc_icmp_default_proto; o_flags := fc_icmp_default_flags;
     o_vpn := false |}.

(* opt := SerializeOptions{ComputeChecksums: ..}; if ip.Length == 0 { opt.FixLengths = true } *)
Definition fix_lengths (o : ip_opts) : bool := o_len o =? 0.

Definition udp_datagram (o : ip_opts) (payload s d : list Z) (dport id sport : Z) : list Z :=
  ipv4_datagram (fix_lengths o) fc_udp_compute_checksums fc_udp_ip_version fc_udp_ip_ihl (o_len o) id (o_flags o)
    (o_ttl o) (o_proto o) s d
    (udp_segment (fix_lengths o) fc_udp_compute_checksums fc_udp_length_explicit fc_udp_length_base s d sport dport
       payload).

Definition udp_frame_with (o : ip_opts) (payload : list Z) (q : request) (id sport : Z) : option (list Z) :=
  match to4 (q_src_ip q), to4 (q_dst_ip q) with
  | Some s, Some d => link_wrap (o_vpn o) q fc_udp_ethertype (udp_datagram o payload s d (q_dport q) id sport)
  | _, _ => None
  end.

Definition udp_frame (o : ip_opts) (payload : list Z) (q : request) (r : draws) : option (list Z) :=
  udp_frame_with o payload q (spoof16 fc_udp_ip_id_base fc_udp_ip_id_mod (d_id r))
    (spoof16 fc_udp_sport_base fc_udp_sport_mod (d_sport r)).

Definition icmp_datagram (o : ip_opts) (typ code : Z) (payload s d : list Z) (id icmpid : Z) : list Z :=
  ipv4_datagram (fix_lengths o) fc_icmp_compute_checksums fc_icmp_ip_version fc_icmp_ip_ihl (o_len o) id (o_flags o)
    (o_ttl o) (o_proto o) s d
    (icmp_message fc_icmp_compute_checksums typ code icmpid fc_icmp_seq payload).

Definition icmp_frame_with (o : ip_opts) (typ code : Z) (payload : list Z) (q : request) (id icmpid : Z)
    : option (list Z) :=
  match to4 (q_src_ip q), to4 (q_dst_ip q) with
  | Some s, Some d => link_wrap (o_vpn o) q fc_icmp_ethertype (icmp_datagram o typ code payload s d id icmpid)
  | _, _ => None
  end.

(* [payload = None]: no WithPayload option, the filler keeps the random bytes drawn by NewPacketFiller *)
Definition icmp_frame (o : ip_opts) (typ code : Z) (payload : option (list Z)) (q : request) (r : draws)
    : option (list Z) :=
  icmp_frame_with o typ code (match payload with Some p => p | None => d_payload r end) q
    (spoof16 fc_icmp_ip_id_base fc_icmp_ip_id_mod (d_id r)) (spoof16 fc_icmp_id_base fc_icmp_id_mod (d_icmp_id r)).

(* ------------------------------------------------------------------ the ARP filler (arp.go SerializeTo, no FixLengths) *)

(* SourceProtAddress: r.SrcIP as it is (any length), or r.SrcIP.To4() *)
Definition arp_spa (q : request) : list Z :=
  if fc_arp_spa_to4 then match to4 (q_src_ip q) with Some a => a | None => [] end else q_src_ip q.

Definition arp_body (q : request) : list Z :=
  u16_bytes fc_arp_addr_type ++ u16_bytes fc_arp_protocol ++ [ fc_arp_hw_size; fc_arp_prot_size ] ++
  u16_bytes fc_arp_operation ++ q_src_mac q ++ arp_spa q ++ fc_arp_target_hw ++
  match to4 (q_dst_ip q) with Some a => a | None => [] end.

Definition arp_frame (q : request) : option (list Z) :=
  eth_frame fc_arp_eth_dst (q_src_mac q) fc_arp_ethertype (arp_body q).
