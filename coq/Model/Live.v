(* Executable model of liveRequestGenerator (pkg/scan/request.go:353-401) as a transition system of
   the one goroutine it starts, for C19.  Definitions only; proofs are in Proofs/LiveProofs.v.

   The goroutine is sequential; its only nondeterminism is which ready case a select takes and when
   the environment (the delegate generator, the consumer of [out], the clock, the context) moves.  A
   [move] is one step of the goroutine, named after the select case that fires; a schedule is a list
   of moves; theorems quantify over ALL schedules ([run]).  Logical time is [Z] (nanoseconds in the
   tie); only the two moves that involve the clock carry a time.

     for {
       if request, ok = readRequest(ctx, requests); ok {      -- AtRead:  MDeliver | MEndPass | MDone
         writeRequest(ctx, out, request); continue            -- AtWrite: MAccept | MDone (request dropped)
       }
       select { case <-ctx.Done(): return                     -- AtTimer: MDone
                case <-time.After(rescan): requests, _ = delegate.GenerateRequests(ctx, r) }  -- MTick
     }                                                         -- Ended: close(out) done

   After a failing re-generation [requests] is nil ([cur = None]): receiving from a nil channel
   blocks, so at AtRead only ctx.Done can fire. *)
From Coq Require Import String List ZArith Bool Arith.
Import ListNotations.
Local Open Scope Z_scope.

Definition req := nat.

(* what one call of the delegate's GenerateRequests yields: a pass (the requests its channel will
   deliver before it is closed) or an error *)
Inductive pass := Pass (l : list req) | Fail.

Definition pass_reqs (p : pass) : list req := match p with Pass l => l | Fail => [] end.

(* requests of the first k delegate calls, in order *)
Definition total (k : nat) (script : list pass) : list req := flat_map pass_reqs (firstn k script).

Inductive loc :=
| AtRead                 (* in readRequest's select *)
| AtWrite (r : req)      (* in writeRequest's select, holding r *)
| AtTimer (t0 : Z)       (* in the bottom select; the timer was started at t0 *)
| Ended.                 (* returned; out is closed *)

Inductive levent :=
| EStart (k : nat) (t : Z) (n : nat) (ok : bool) (c : bool)
    (* delegate call number k at time t, n requests had been sent on out, the call succeeded (ok),
       the context was already cancelled (c) *)
| EEnd (k : nat) (t : Z).  (* the goroutine saw the channel of pass k closed at time t *)

Record lstate := {
  pc : loc;
  cur : option (list req);  (* current channel: Some l = l still to come, then closed; None = nil *)
  future : list pass;       (* results of the delegate calls still to be made *)
  calls : nat;              (* delegate calls made so far *)
  outl : list req;          (* requests sent on out so far, in order *)
  cancelled : bool;
  now : Z;
  log : list levent }.      (* newest first *)

Inductive move :=
| MDeliver           (* AtRead: the channel case fires with a request *)
| MEndPass (t : Z)   (* AtRead: the channel case fires with ok = false (closed), at time t *)
| MAccept            (* AtWrite: the send on out fires *)
| MTick (t : Z)      (* AtTimer: the timer case fires at time t; the delegate is called *)
| MCancel            (* the context is cancelled (environment) *)
| MDone.             (* the ctx.Done case of the current select fires *)

Definition set_pc (s : lstate) (p : loc) : lstate :=
  {| pc := p; cur := cur s; future := future s; calls := calls s; outl := outl s;
     cancelled := cancelled s; now := now s; log := log s |}.

Section Live.
Variable rescan : Z.

(* the bottom select is entered at time t.  If the context is already cancelled and the interval is
   positive, ctx.Done is ready and the fresh timer is not: the goroutine returns at once. *)
Definition enter_timer (s : lstate) (t : Z) : lstate :=
  if cancelled s && (0 <? rescan) then set_pc s Ended else set_pc s (AtTimer t).

Definition lstep (s : lstate) (m : move) : option lstate :=
  match m, pc s with
  | MCancel, _ =>
      Some {| pc := pc s; cur := cur s; future := future s; calls := calls s; outl := outl s;
              cancelled := true; now := now s; log := log s |}
  | MDeliver, AtRead =>
      match cur s with
      | Some (r :: l) =>
          Some {| pc := AtWrite r; cur := Some l; future := future s; calls := calls s; outl := outl s;
                  cancelled := cancelled s; now := now s; log := log s |}
      | _ => None
      end
  | MEndPass t, AtRead =>
      match cur s with
      | Some [] =>
          if now s <=? t then
            Some (enter_timer {| pc := pc s; cur := cur s; future := future s; calls := calls s; outl := outl s;
                                 cancelled := cancelled s; now := t; log := EEnd (pred (calls s)) t :: log s |} t)
          else None
      | _ => None
      end
  | MAccept, AtWrite r =>
      Some {| pc := AtRead; cur := cur s; future := future s; calls := calls s; outl := outl s ++ [r];
              cancelled := cancelled s; now := now s; log := log s |}
  | MTick t, AtTimer t0 =>
      if (now s <=? t) && (t0 + rescan <=? t) then
        match future s with
        | [] => None       (* the finite script of delegate results is used up *)
        | p :: f =>
            Some {| pc := AtRead;
                    cur := match p with Pass l => Some l | Fail => None end;   (* `requests, _ = ...` *)
                    future := f; calls := S (calls s); outl := outl s; cancelled := cancelled s; now := t;
                    log := EStart (calls s) t (length (outl s)) (match p with Pass _ => true | Fail => false end)
                                  (cancelled s) :: log s |}
        end
      else None
  | MDone, AtRead => if cancelled s then Some (enter_timer s (now s)) else None
  | MDone, AtWrite _ => if cancelled s then Some (set_pc s AtRead) else None
  | MDone, AtTimer _ => if cancelled s then Some (set_pc s Ended) else None
  | _, _ => None
  end.

Fixpoint run (s : lstate) (ms : list move) : option lstate :=
  match ms with
  | [] => Some s
  | m :: ms' => match lstep s m with Some s' => run s' ms' | None => None end
  end.

End Live.

(* GenerateRequests itself: the first delegate call is made synchronously; if it fails the error is
   returned and no goroutine exists *)
Inductive start_result := Started (s : lstate) | StartError | NoScript.

Definition live_start (script : list pass) : start_result :=
  match script with
  | [] => NoScript
  | Fail :: _ => StartError
  | Pass l :: f =>
      Started {| pc := AtRead; cur := Some l; future := f; calls := 1; outl := []; cancelled := false;
                 now := 0; log := [EStart 0 0 0 true false] |}
  end.

Definition inflight (s : lstate) : list req := match pc s with AtWrite r => [r] | _ => [] end.
Definition cur_rest (s : lstate) : list req := match cur s with Some l => l | None => [] end.

Fixpoint subseq (a b : list req) : bool :=
  match a, b with
  | [], _ => true
  | _ :: _, [] => false
  | x :: a', y :: b' => if Nat.eqb x y then subseq a' b' else subseq a b'
  end.

(* ---- the wiring of `sx arp --live` (command/arp.go), over the data Gen/LiveWiring.v holds *)
(* one assignment to the request generator variable: the constructor called, whether the previous
   generator is its first argument, the guard of the enclosing if ("" = unconditional), and the
   text of the remaining arguments *)
Record wrap := { w_ctor : string; w_wraps_prev : bool; w_guard : string; w_args : list string }.

Fixpoint last_wrap (l : list wrap) : option wrap :=
  match l with
  | [] => None
  | [w] => Some w
  | _ :: l' => last_wrap l'
  end.
