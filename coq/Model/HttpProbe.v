(* Model of the two HTTP API probes:
     pkg/scan/elastic/elastic.go  Scanner.Scan = GetInfo (fatal) then GetIndexes (best effort),
                                   each elasticClient.Get under its own context.WithTimeout
     pkg/scan/docker/docker.go    Scanner.Scan = one context.WithTimeout for the whole probe, moby client
                                   with API version negotiation (HEAD /_ping, possibly GET /_ping),
                                   Info (fatal), ServerVersion (best effort)

   Executable definitions only.  HTTP, TLS, JSON decoding and the moby client are library behaviour:
   what they do with a response is summarised by the response's CLASS (an input of the model); the
   model is the decision and sequencing logic on top, with logical time (Z, any unit).

   A request's fate is scripted as [After d ev]: after d time units either the transport fails
   ([EConnErr]) or a response with a status and a body of some class has been received completely
   enough for the decoder to return; [Never]: no answer (stalled connect, stalled headers).  Bodies
   that never end or stall midway ([BEndless], [BStall]) keep the decoder reading: such a request
   ends only by its deadline or by cancellation. *)
From Coq Require Import ZArith List Bool.
From SX Require Import Model.Socks.   (* sched, wait: blocking with deadline and cancellation *)
Import ListNotations.
Open Scope Z_scope.

(* ---------------------------------------------------------------- responses *)
Inductive body :=
  | BObject          (* a JSON object whose members fit the target type *)
  | BObjectTrailing  (* a JSON object followed by other data: Decoder.Decode reads ONE value *)
  | BObjectIllTyped  (* a JSON object, but a member has the wrong type for types.Info / types.Version *)
  | BNull            (* the JSON value null *)
  | BNonObject       (* array, string, number, true, false *)
  | BEmpty           (* no body: io.EOF *)
  | BTruncated       (* a prefix of a JSON value, then end of body / connection *)
  | BGarbage         (* not JSON *)
  | BEndless         (* a JSON prefix that never ends *)
  | BStall.          (* part of a body, then silence *)

Inductive conn_err := CRefused | COther.

Inductive resp_ev :=
  | EConnErr (k : conn_err)               (* client.Do returns an error *)
  | EResp (status : Z) (b : body).        (* headers arrived; [b] is what the body turns out to be *)

Definition body_never (b : body) : bool :=
  match b with BEndless | BStall => true | _ => false end.

(* when the request's outcome is known, measured from its start *)
Definition resp_due (r : sched resp_ev) : option Z :=
  match r with
  | After d (EResp _ b) => if body_never b then None else Some d
  | After d (EConnErr _) => Some d
  | Never => None
  end.

(* json.NewDecoder(body).Decode(&v) *)
Inductive decoded := DObject | DNull | DErr.

(* v : map[string]interface{} -- any object fits *)
Definition decode_map (b : body) : decoded :=
  match b with
  | BObject | BObjectTrailing | BObjectIllTyped => DObject
  | BNull => DNull          (* null into a map: no error, the map stays nil *)
  | _ => DErr
  end.

(* v : types.Info / types.Version -- struct targets *)
Definition decode_struct (b : body) : decoded :=
  match b with
  | BObject | BObjectTrailing => DObject
  | BNull => DNull          (* null into a struct: no error, the struct stays zero *)
  | _ => DErr
  end.

(* ---------------------------------------------------------------- results *)
Inductive info_kind := IObject | INull.    (* what the record's "info" holds: the served object, or nothing *)

Inductive target := Target (https : bool) (ip : list Z) (port : Z).

Inductive poutcome :=
  | PReport (t : target) (info : info_kind) (secondary : bool)   (* secondary: indexes / version present *)
  | PError.

(* requests as the server sees them *)
Inductive slot := SInfo | SIndexes | SPingHead | SPingGet | SVersion.

Record prun := {
  p_out : poutcome;
  p_fin : Z;
  p_reqs : list slot      (* requests that reach the server, in order (including ones that get no answer) *)
}.

Definition pmk (o : poutcome) (t : Z) (l : list slot) : prun := {| p_out := o; p_fin := t; p_reqs := l |}.

(* a request started at [now] with [limit] time left reaches the server only if some time is left
   and the context has not been cancelled yet (connection establishment is taken as instantaneous) *)
Definition issued (now limit : Z) (cancel : option Z) (s : slot) : list slot :=
  if (0 <? limit) && match cancel with Some tc => now <? tc | None => true end then [s] else [].

(* ---------------------------------------------------------------- elastic *)
Record escript := { e_info : sched resp_ev; e_indexes : sched resp_ev }.

(* elasticClient.Get: ctx, cancel := context.WithTimeout(ctx, dataTimeout); Do; Decode.
   Returns the time it ends and what it yields.  The HTTP status is not looked at. *)
Inductive get_res := GMap (t : Z) | GNil (t : Z) | GErr (t : Z).

Definition elastic_get (now : Z) (cancel : option Z) (timeout : Z) (r : sched resp_ev) : get_res :=
  match wait now cancel (Some (Z.max 0 timeout)) (resp_due r) with
  | Fired t =>
      match r with
      | After _ (EResp _ b) =>
          match decode_map b with DObject => GMap t | DNull => GNil t | DErr => GErr t end
      | _ => GErr t
      end
  | TimedOut t | Cancelled t => GErr t
  | Forever => GErr now      (* unreachable: there is always a deadline *)
  end.

(* [reject_nil]: whether Scan treats a nil info map (body null) as an error; read from the sources
   by tools/gen (Gen.ProbeConsts.elastic_rejects_nil_info) *)
Definition elastic_scan (reject_nil : bool) (timeout : Z) (cancel : option Z) (tg : target) (s : escript) : prun :=
  let r1 := issued 0 timeout cancel SInfo in
  match elastic_get 0 cancel timeout (e_info s) with
  | GErr t => pmk PError t r1
  | GNil t =>
      if reject_nil then pmk PError t r1
      else
        let r2 := r1 ++ issued t timeout cancel SIndexes in
        match elastic_get t cancel timeout (e_indexes s) with
        | GMap t' => pmk (PReport tg INull true) t' r2
        | GNil t' | GErr t' => pmk (PReport tg INull false) t' r2
        end
  | GMap t =>
      let r2 := r1 ++ issued t timeout cancel SIndexes in
      match elastic_get t cancel timeout (e_indexes s) with
      | GMap t' => pmk (PReport tg IObject true) t' r2
      | GNil t' | GErr t' => pmk (PReport tg IObject false) t' r2
      end
  end.

(* ---------------------------------------------------------------- docker *)
(* Every Scan builds its own moby client on its own copy of the scanner's http.Client / clone of its transport and
   clears the proxy function and dialer that moby's options install from the environment (tied by Gen.ProbeConsts:
   docker_client_opts, docker_probe_transport, docker_transport_resets): requests of a probe go to the probed host
   only, and probes of different workers share no mutable state.  That is what makes the single-probe model below
   applicable to a scanner used by many workers at once. *)
Record dscript := {
  d_ping_head : sched resp_ev;
  d_ping_get : sched resp_ev;
  d_info : sched resp_ev;
  d_version : sched resp_ev
}.

(* one request under the probe's single deadline [dl] (absolute); the remaining time is dl - now *)
Inductive req_res := RResp (t : Z) (status : Z) (b : body) | RConnErr (t : Z) (k : conn_err) | RCtx (t : Z).

(* how much of the response a call waits for:
   MHead  HEAD /_ping: headers only;
   MDrain GET /_ping: the body is not decoded, but ensureReaderClosed drains up to 512 bytes of it
          before the connection is released, which blocks on a body that stalls (not on an endless one);
   MBody  Info / ServerVersion: the decoder reads the body to the end of its first value *)
Inductive rmode := MHead | MDrain | MBody.

Definition req_due (m : rmode) (r : sched resp_ev) : option Z :=
  match m, r with
  | MBody, _ => resp_due r
  | _, Never => None
  | MHead, After d _ => Some d
  | MDrain, After d (EResp _ BStall) => None
  | MDrain, After d _ => Some d
  end.

Definition docker_req (now dl : Z) (cancel : option Z) (r : sched resp_ev) (m : rmode) : req_res :=
  let due := req_due m r in
  match wait now cancel (Some (Z.max 0 (dl - now))) due with
  | Fired t =>
      match r with
      | After _ (EResp st b) => RResp t st b
      | After _ (EConnErr k) => RConnErr t k
      | Never => RCtx t
      end
  | TimedOut t | Cancelled t => RCtx t
  | Forever => RCtx now
  end.

Definition rr_time (r : req_res) : Z :=
  match r with RResp t _ _ | RConnErr t _ | RCtx t => t end.

(* cli.Ping as used by NegotiateAPIVersion (errors are ignored): HEAD /_ping; done if it was answered
   with 200 or 500, or failed as "connection failed" (refused / net timeout); otherwise GET /_ping *)
Definition docker_ping (now dl : Z) (cancel : option Z) (s : dscript) : Z * list slot :=
  let r1 := issued now (dl - now) cancel SPingHead in
  let again t := (rr_time (docker_req t dl cancel (d_ping_get s) MDrain), r1 ++ issued t (dl - t) cancel SPingGet) in
  match docker_req now dl cancel (d_ping_head s) MHead with
  | RResp t st _ => if (st =? 200) || (st =? 500) then (t, r1) else again t
  | RConnErr t CRefused => (t, r1)
  | RConnErr t COther => again t
  | RCtx t => again t
  end.

(* cli.get + checkResponseErr + Decode into the struct *)
Definition docker_call (now dl : Z) (cancel : option Z) (r : sched resp_ev) : Z * decoded :=
  match docker_req now dl cancel r MBody with
  | RResp t st b => if (200 <=? st) && (st <? 400) then (t, decode_struct b) else (t, DErr)
  | RConnErr t _ => (t, DErr)
  | RCtx t => (t, DErr)
  end.

Definition docker_scan (timeout : Z) (cancel : option Z) (tg : target) (s : dscript) : prun :=
  let dl := Z.max 0 timeout in
  let '(t0, pings) := docker_ping 0 dl cancel s in
  let r1 := pings ++ issued t0 (dl - t0) cancel SInfo in
  match docker_call t0 dl cancel (d_info s) with
  | (t1, DErr) => pmk PError t1 r1
  | (t1, k) =>
      let info := match k with DNull => INull | _ => IObject end in
      let r2 := r1 ++ issued t1 (dl - t1) cancel SVersion in
      match docker_call t1 dl cancel (d_version s) with
      | (t2, DObject) => pmk (PReport tg info true) t2 r2
      | (t2, _) => pmk (PReport tg info false) t2 r2
      end
  end.

(* ---------------------------------------------------------------- specification vocabulary *)
(* the request is answered, in time, by a response whose body decodes to a JSON object *)
Definition answers_object (dec : body -> decoded) (limit : Z) (r : sched resp_ev) : Prop :=
  exists d st b, r = After d (EResp st b) /\ body_never b = false /\ Z.max 0 d < limit /\ dec b = DObject.

Definition answers_null (dec : body -> decoded) (limit : Z) (r : sched resp_ev) : Prop :=
  exists d st b, r = After d (EResp st b) /\ body_never b = false /\ Z.max 0 d < limit /\ dec b = DNull.

Definition status_ok (r : sched resp_ev) : Prop :=
  exists d st b, r = After d (EResp st b) /\ 200 <= st < 400.

Definition is_preport (o : poutcome) : bool := match o with PReport _ _ _ => true | PError => false end.

Definition poutcome_code (o : poutcome) : Z :=
  match o with
  | PReport _ IObject true => 0
  | PReport _ IObject false => 1
  | PReport _ INull true => 2
  | PReport _ INull false => 3
  | PError => 4
  end.

Definition slot_code (s : slot) : Z :=
  match s with SInfo => 0 | SIndexes => 1 | SPingHead => 2 | SPingGet => 3 | SVersion => 4 end.
