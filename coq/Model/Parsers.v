(* The option parsers of command/config.go and command/tcp.go (parsePortRange, parsePortRanges,
   parsePortsFile, parseRateLimit, parsePacketPayload (in Unquote.v), parseIPFlags, parseTCPFlags,
   parseExcludeFile) and validatePorts of pkg/scan/request.go, as total functions on byte strings.
   Tables, separators, bases and bit sizes come from Gen.ParserTables (regenerated from the sources).
   Library functions are modelled by hand and tied by differential testing: strings.Split / Index /
   Trim / ToLower, strconv.ParseUint / ParseInt, bufio.Scanner with ScanLines, time.ParseDuration
   (Duration.v), strconv.Unquote (Unquote.v).  Executable definitions only. *)
From Coq Require Import ZArith List Bool String Ascii.
From SX Require Import Model.Unquote Model.Duration Gen.ParserTables.
Import ListNotations.
Open Scope Z_scope.
Local Open Scope list_scope.

Fixpoint str (s : string) : bytes :=
  match s with
  | EmptyString => []
  | String a r => Z.of_N (N_of_ascii a) :: str r
  end.

Definition is_nil {A} (l : list A) : bool := match l with [] => true | _ => false end.
Definition zlen {A} (l : list A) : Z := Z.of_nat (List.length l).

(* ---------------------------------------------------------------- strings.* *)

(* strings.Split(s, sep) for a one-byte separator: always at least one piece *)
Fixpoint split_on (sep : Z) (s : bytes) : list bytes :=
  match s with
  | [] => [[]]
  | c :: t =>
    if c =? sep then [] :: split_on sep t
    else match split_on sep t with
         | h :: r => (c :: h) :: r
         | [] => [[c]]
         end
  end.

(* s[:strings.Index(s, c)] when c occurs, s otherwise *)
Fixpoint cut_at (c : Z) (s : bytes) : bytes :=
  match s with [] => [] | x :: t => if x =? c then [] else x :: cut_at c t end.

Fixpoint drop_leading (c : Z) (s : bytes) : bytes :=
  match s with [] => [] | x :: t => if x =? c then drop_leading c t else s end.

(* strings.Trim(s, cutset) for a one-character cutset *)
Definition frev (s : bytes) : bytes := rev_append s [].      (* linear-time list reversal *)
Definition trim (c : Z) (s : bytes) : bytes := frev (drop_leading c (frev (drop_leading c s))).

(* strings.ToLower, up to what a comparison with ASCII names can see: ASCII letters are lowered; the
   only non-ASCII runes whose lower case is ASCII are U+0130 (-> i) and U+212A KELVIN SIGN (-> k);
   every other non-ASCII byte is kept (Go maps it to some non-ASCII rune or to U+FFFD, which can
   never equal an ASCII flag name either). *)
Definition lower_byte (c : Z) : Z := if in_range 65 90 c then c + 32 else c.
Fixpoint to_lower (s : bytes) : bytes :=
  match s with
  | [] => []
  | a :: t =>
    match t with
    | b :: u =>
      if (a =? 196) && (b =? 176) then 105 :: to_lower u
      else match u with
           | c :: w => if (a =? 226) && (b =? 132) && (c =? 170) then 107 :: to_lower w
                       else lower_byte a :: to_lower t
           | [] => lower_byte a :: to_lower t
           end
    | [] => [lower_byte a]
    end
  end.

(* ---------------------------------------------------------------- strconv.ParseUint / ParseInt *)

(* digit value as in strconv.ParseUint with an explicit base (no prefixes, no underscores) *)
Definition digit_val (c : Z) : option Z :=
  if is_digit c then Some (c - 48)
  else let l := lower_byte c in
       if in_range 97 122 l then Some (l - 87) else None.

(* the digit loop of ParseUint on uint64: stops with ErrRange as soon as the value leaves uint64,
   with ErrSyntax at the first character that is not a digit of the base *)
Fixpoint digits_val (base acc : Z) (s : bytes) : option Z :=
  match s with
  | [] => Some acc
  | c :: t => match digit_val c with
              | Some d => if d <? base
                          then let acc' := acc * base + d in
                               if two64 <=? acc' then None else digits_val base acc' t
                          else None
              | None => None
              end
  end.

(* strconv.ParseUint(s, base, bits): Some v, or None for ErrSyntax / ErrRange *)
Definition parse_uint (base bits : Z) (s : bytes) : option Z :=
  match s with
  | [] => None
  | _ => match digits_val base 0 s with
         | Some v => if v <? 2 ^ bits then Some v else None
         | None => None
         end
  end.

(* strconv.ParseInt(s, base, bits) *)
Definition parse_int (base bits : Z) (s : bytes) : option Z :=
  match s with
  | [] => None
  | c :: t =>
    let '(neg, r) := if c =? 43 then (false, t) else if c =? 45 then (true, t) else (false, s) in
    match r with
    | [] => None
    | _ => match digits_val base 0 r with
           | None => None
           | Some v =>
             let cutoff := 2 ^ (bits - 1) in
             if neg then (if cutoff <? v then None else Some (- v))
             else (if cutoff <=? v then None else Some v)
           end
    end
  end.

(* ---------------------------------------------------------------- ports *)

(* parsePortRange. [strict] = with the fix that rejects more than two '-'-separated parts
   (the code before the fix ignored everything after the second part). *)
Definition parse_port_range_gen (strict : bool) (s : bytes) : option (Z * Z) :=
  let ps := split_on port_range_sep s in
  if strict && (2 <? zlen ps) then None else
  match ps with
  | [] => None
  | p0 :: rest =>
    match parse_uint port_base port_bits p0 with
    | None => None
    | Some a =>
      let a16 := a mod 65536 in                       (* uint16(port) *)
      match rest with
      | [] => Some (a16, a16)
      | p1 :: _ => match parse_uint port_base port_bits p1 with
                   | None => None
                   | Some b => Some (a16, b mod 65536)
                   end
      end
    end
  end.
Definition parse_port_range := parse_port_range_gen true.
Definition parse_port_range_v0 := parse_port_range_gen false.

Fixpoint map_all {A B} (f : A -> option B) (l : list A) : option (list B) :=
  match l with
  | [] => Some []
  | x :: t => match f x with
              | None => None
              | Some y => match map_all f t with None => None | Some r => Some (y :: r) end
              end
  end.

(* parsePortRanges *)
Definition parse_port_ranges (s : bytes) : option (list (Z * Z)) :=
  map_all parse_port_range (split_on port_list_sep s).

(* pkg/scan validatePorts: true = nil error *)
Definition validate_ports (l : list (Z * Z)) : bool :=
  negb (is_nil l) && forallb (fun r => fst r <=? snd r) l.

(* ---------------------------------------------------------------- bufio.Scanner + ScanLines *)

Definition max_token : Z := 65536.          (* bufio.MaxScanTokenSize *)

Fixpoint drop_cr (s : bytes) : bytes :=
  match s with
  | [] => []
  | c :: t => match t with
              | [] => if c =? 13 then [] else [c]
              | _ => c :: drop_cr t
              end
  end.

(* [segs] = the input split at newlines.  Returns the tokens Scan yields before it stops and whether
   it stopped with ErrTooLong: a line of 65536 bytes or more (without its newline, with its carriage
   return) does not fit the buffer.  A final piece without newline is a token unless it is empty. *)
Fixpoint scan_segments (segs : list bytes) : list bytes * bool :=
  match segs with
  | [] => ([], false)
  | seg :: rest =>
    match rest with
    | [] => if is_nil seg then ([], false)
            else if max_token <=? zlen seg then ([], true)
            else ([drop_cr seg], false)
    | _ => if max_token <=? zlen seg then ([], true)
           else let (ts, e) := scan_segments rest in (drop_cr seg :: ts, e)
    end
  end.
Definition scan_lines (data : bytes) : list bytes * bool := scan_segments (split_on 10 data).

(* the per-line preparation shared by parsePortsFile and parseExcludeFile *)
Definition clean_line (comment trimc : Z) (line : bytes) : bytes := trim trimc (cut_at comment line).

Fixpoint map_lines {A} (f : bytes -> option A) (comment trimc : Z) (lines : list bytes) : option (list A) :=
  match lines with
  | [] => Some []
  | l :: t =>
    let c := clean_line comment trimc l in
    if is_nil c then map_lines f comment trimc t
    else match f c with
         | None => None
         | Some y => match map_lines f comment trimc t with None => None | Some r => Some (y :: r) end
         end
  end.

(* [check_err] = with the fix that reports scanner.Err(); the code before the fix returned the lines
   read so far as if the file had ended there. *)
Definition parse_lines_gen {A} (check_err : bool) (f : bytes -> option A) (comment trimc : Z) (data : bytes)
  : option (list A) :=
  let (toks, toolong) := scan_lines data in
  match map_lines f comment trimc toks with
  | None => None
  | Some l => if check_err && toolong then None else Some l
  end.

(* parsePortsFile on the content of the file *)
Definition parse_ports_file_gen (check_err : bool) (data : bytes) : option (list (Z * Z)) :=
  parse_lines_gen check_err parse_port_range ports_file_comment ports_file_trim data.
Definition parse_ports_file := parse_ports_file_gen true.
Definition parse_ports_file_v0 := parse_ports_file_gen false.

(* parseExcludeFile; ip.ParseIPNet is an oracle input ([Some (address, ones)] for an accepted IPv4
   network).  The result is the list of networks inserted into the ranger. *)
Definition parse_exclude_gen (check_err : bool) (parse_ipnet : bytes -> option (Z * Z)) (data : bytes)
  : option (list (Z * Z)) :=
  parse_lines_gen check_err parse_ipnet exclude_file_comment exclude_file_trim data.
Definition parse_exclude := parse_exclude_gen true.
Definition parse_exclude_v0 := parse_exclude_gen false.

Definition net_contains (n : Z * Z) (ip : Z) : bool :=
  let size := 2 ^ (32 - snd n) in (fst n / size =? ip / size).
Definition exclude_contains (nets : list (Z * Z)) (ip : Z) : bool := existsb (fun n => net_contains n ip) nets.

(* ---------------------------------------------------------------- rate limit *)

Definition one_second : Z := 1000000000.

(* parseRateLimit. [fixed] = with the fix: a window is prefixed with "1" only when it starts with a
   unit, not when it starts with '.' (before: whenever it does not start with a digit). *)
Definition parse_rate_limit_gen (fixed : bool) (s : bytes) : option (Z * Z) :=
  let parts := split_on rate_sep s in
  if 2 <? zlen parts then None else
  match parts with
  | [] => None
  | p0 :: rest =>
    match parse_int rate_base rate_bits p0 with
    | None => None
    | Some rate =>
      if rate <? 0 then None else
      match rest with
      | [] => Some (rate, one_second)
      | w :: _ =>
        let win := match w with
                   | c :: _ => if negb (is_digit c) && negb (fixed && (c =? 46)) then 49 :: w else w
                   | [] => w
                   end in
        match parse_duration win with
        | None => None
        | Some d => if d <? 0 then None else Some (rate, d)
        end
      end
    end
  end.
Definition parse_rate_limit := parse_rate_limit_gen true.
Definition parse_rate_limit_v0 := parse_rate_limit_gen false.

(* ---------------------------------------------------------------- flags *)

Fixpoint lookup_key {A} (k : bytes) (t : list (string * A)) : option A :=
  match t with
  | [] => None
  | (k', v) :: t' => if bytes_eq k (str k') then Some v else lookup_key k t'
  end.

Fixpoint lookup_s {A} (k : string) (t : list (string * A)) : option A :=
  match t with
  | [] => None
  | (k', v) :: t' => if String.eqb k k' then Some v else lookup_s k t'
  end.

(* parseTCPFlags: the lower-cased names, in order *)
Definition parse_tcp_flags (s : bytes) : option (list bytes) :=
  if is_nil s then Some [] else
  map_all (fun p => let l := to_lower p in
                    match lookup_key l tcp_flag_options with Some _ => Some l | None => None end)
          (split_on tcp_flag_sep s).

(* the RunE closure looks every name up in tcpPacketFlagOptions and NewPacketFiller applies the
   options in order; the state is the set of PacketFiller fields that are true *)
Definition apply_set (st : list string) (f : string) : list string :=
  match f with
  | String "!"%char g => filter (fun x => negb (String.eqb x g)) st
  | _ => f :: st
  end.
Definition apply_option (st : list string) (name : bytes) : list string :=
  match lookup_key name tcp_flag_options with
  | None => st
  | Some w => match lookup_s w tcp_with_sets with
              | None => st
              | Some fs => fold_left apply_set fs st
              end
  end.
Definition filler_fields (names : list bytes) : list string := fold_left apply_option names [].

(* gopacket layers.TCP serialisation: header field -> bit of the 9-bit flags value
   (byte 13 of the TCP header, NS = low bit of byte 12) *)
Definition layers_tcp_bit (field : string) : Z :=
  if String.eqb field "FIN"%string then 1 else if String.eqb field "SYN"%string then 2
  else if String.eqb field "RST"%string then 4 else if String.eqb field "PSH"%string then 8
  else if String.eqb field "ACK"%string then 16 else if String.eqb field "URG"%string then 32
  else if String.eqb field "ECE"%string then 64 else if String.eqb field "CWR"%string then 128
  else if String.eqb field "NS"%string then 256 else 0.

Definition mem_s (x : string) (l : list string) : bool := existsb (String.eqb x) l.

(* PacketFiller.Fill: which header flags are set for a filler state *)
Definition wire_bits (st : list string) : Z :=
  fold_left (fun acc hf => if String.eqb (snd hf) "=true"%string || mem_s (snd hf) st
                           then Z.lor acc (layers_tcp_bit (fst hf)) else acc)
            tcp_fill_fields 0.

Definition tcp_flag_bits (names : list bytes) : Z := wire_bits (filler_fields names).

(* parseIPFlags *)
Definition ip_case_value (consts : list string) : Z :=
  fold_left (fun acc c => match lookup_s c ipv4_flag_consts with Some v => Z.lor acc v | None => acc end) consts 0.

Definition parse_ip_flags (s : bytes) : option Z :=
  if is_nil s then Some 0 else
  match map_all (fun p => match lookup_key p ip_flag_cases with
                          | Some cs => Some (ip_case_value cs)
                          | None => None
                          end)
                (split_on ip_flag_sep (to_lower s)) with
  | None => None
  | Some vs => Some (fold_left Z.lor vs 0 mod 256)
  end.

(* ---------------------------------------------------------------- denotation and canonical renderings *)

(* the number a string of decimal digits denotes, positionally *)
Fixpoint dec_val (s : bytes) : Z :=
  match s with
  | [] => 0
  | c :: t => (c - 48) * 10 ^ Z.of_nat (List.length t) + dec_val t
  end.
Definition all_digits (s : bytes) : bool := forallb is_digit s.
Definition is_number (s : bytes) : bool := negb (is_nil s) && all_digits s.


Fixpoint render_dec_f (fuel : nat) (n : Z) (acc : bytes) : bytes :=
  match fuel with
  | O => acc
  | S f => let acc' := (48 + n mod 10) :: acc in
           if n <? 10 then acc' else render_dec_f f (n / 10) acc'
  end.
Definition render_dec (n : Z) : bytes := render_dec_f (S (Z.to_nat (Z.log2 n))) n [].

Definition render_range (r : Z * Z) : bytes := render_dec (fst r) ++ [45] ++ render_dec (snd r).
Definition render_single (p : Z) : bytes := render_dec p.

Fixpoint join (sep : Z) (l : list bytes) : bytes :=
  match l with
  | [] => []
  | [x] => x
  | x :: t => x ++ sep :: join sep t
  end.

(* ---------------------------------------------------------------- what the flag names mean (RFC tables) *)

(* the 9-bit flags value of the TCP header (RFC 793, 3168, 3540) *)
Definition rfc_tcp_flags : list (string * Z) :=
  [ ("fin", 1); ("syn", 2); ("rst", 4); ("psh", 8); ("ack", 16); ("urg", 32); ("ece", 64); ("cwr", 128);
    ("ns", 256) ]%string.
(* the 3-bit flags value of the IPv4 header (RFC 791; the reserved bit is RFC 3514's evil bit) *)
Definition rfc_ip_flags : list (string * Z) := [ ("mf", 1); ("df", 2); ("evil", 4) ]%string.

Definition rfc_bit (table : list (string * Z)) (name : bytes) : Z :=
  match lookup_key name table with Some b => b | None => 0 end.
Definition rfc_bits (table : list (string * Z)) (names : list bytes) : Z :=
  fold_right (fun n acc => Z.lor (rfc_bit table n) acc) 0 names.
Definition is_flag_name (table : list (string * Z)) (name : bytes) : bool :=
  match lookup_key name table with Some _ => true | None => false end.

(* ---------------------------------------------------------------- what a line-oriented file denotes *)

(* every line of the file, however long: the text between newlines without one trailing carriage return;
   an empty piece after the last newline is not a line *)
Fixpoint strip_last_empty (segs : list bytes) : list bytes :=
  match segs with
  | [] => []
  | seg :: rest => match rest with
                   | [] => if is_nil seg then [] else [seg]
                   | _ => seg :: strip_last_empty rest
                   end
  end.
Definition all_lines (data : bytes) : list bytes := map drop_cr (strip_last_empty (split_on 10 data)).
(* the lines that carry content: comment removed, surrounding blanks removed, not empty *)
Definition content_lines (comment trimc : Z) (data : bytes) : list bytes :=
  filter (fun l => negb (is_nil l)) (map (clean_line comment trimc) (all_lines data)).

Definition render_ports_file (l : list (Z * Z)) : bytes := flat_map (fun r => render_range r ++ [10]) l.
