(* Executable timed model of command/root.go startScanEngine (lines 187-219):

     ctx, cancel := context.WithCancel(ctx); defer cancel()
     go logger.LogResults(ctx, engine.Results())                 -- "logger", waited for
     done, errc := engine.Start(ctx, &conf.scanRange)
     go func() { defer cancel(); <-done; <-time.After(conf.exitDelay) }()   -- "delay goroutine"
     go func() { for err := range errc { logger.Error(err) } }() -- "drain", waited for
     wg.Wait(); return nil

   Logical clock in Z nanoseconds.  The environment (engine, caller, network) is a time-ordered list
   of events; the model processes it with one small state machine per goroutine.  The timer of
   time.After is the only internal event.  Goroutines react instantly (the fairness assumption of
   the model: a goroutine that can run does run; real scheduling latency is not modelled).
   Definitions only, no proofs. *)
From Coq Require Import ZArith List Bool.
Import ListNotations.
Open Scope Z_scope.

(* what the outside does, and when *)
Inductive ev :=
| EvDone                 (* the engine closes done (all probes have been handed to the wire) *)
| EvParentCancel         (* the caller's context is cancelled (SIGINT) *)
| EvResult (id : Z)      (* the engine puts a result on Results() *)
| EvResultsClosed        (* the engine closes Results() *)
| EvErr (id : Z)         (* the engine puts an error on errc *)
| EvErrcClosed.          (* the engine closes errc *)

Definition tev := (Z * ev)%type.

Inductive dstate :=
| DWaitDone                   (* blocked in <-done *)
| DWaitTimer (deadline : Z)   (* blocked in <-time.After(exitDelay) *)
| DExited.                    (* deferred cancel() has run *)

Record state := {
  st_delay : dstate;
  st_ctx : option Z;            (* time at which the derived context was cancelled *)
  st_internal : option Z;       (* time at which the delay goroutine called cancel() *)
  st_logger : option Z;         (* Some t: LogResults returned at t *)
  st_drain : option Z;          (* Some t: the error drain ended at t *)
  st_written : list Z;          (* result ids written by the logger, newest first *)
  st_errors : list Z            (* error ids logged, newest first *)
}.

Definition init : state :=
  {| st_delay := DWaitDone; st_ctx := None; st_internal := None; st_logger := None; st_drain := None;
     st_written := []; st_errors := [] |}.

(* the derived context becomes Done at t (first cancellation wins); LogResults sees ctx.Done() *)
Definition cancel_ctx (t : Z) (s : state) : state :=
  match st_ctx s with
  | Some _ => s
  | None =>
      {| st_delay := st_delay s; st_ctx := Some t; st_internal := st_internal s;
         st_logger := match st_logger s with Some x => Some x | None => Some t end;
         st_drain := st_drain s; st_written := st_written s; st_errors := st_errors s |}
  end.

(* the timer of time.After fires at its deadline: the goroutine returns, deferred cancel() runs *)
Definition fire_timer (upto : Z) (s : state) : state :=
  match st_delay s with
  | DWaitTimer dl =>
      if dl <=? upto then
        let s' := cancel_ctx dl s in
        {| st_delay := DExited; st_ctx := st_ctx s'; st_internal := Some dl; st_logger := st_logger s';
           st_drain := st_drain s'; st_written := st_written s'; st_errors := st_errors s' |}
      else s
  | _ => s
  end.

(* time.After(d) with d <= 0 fires immediately *)
Definition timer_deadline (now delay : Z) : Z := now + Z.max delay 0.

Definition apply_ev (delay : Z) (t : Z) (e : ev) (s : state) : state :=
  match e with
  | EvDone =>
      match st_delay s with
      | DWaitDone =>
          fire_timer t
            {| st_delay := DWaitTimer (timer_deadline t delay); st_ctx := st_ctx s; st_internal := st_internal s;
               st_logger := st_logger s; st_drain := st_drain s; st_written := st_written s;
               st_errors := st_errors s |}
      | _ => s
      end
  | EvParentCancel => cancel_ctx t s
  | EvResult id =>
      match st_logger s with
      | None => {| st_delay := st_delay s; st_ctx := st_ctx s; st_internal := st_internal s;
                   st_logger := None; st_drain := st_drain s; st_written := id :: st_written s;
                   st_errors := st_errors s |}
      | Some _ => s            (* nobody listens any more *)
      end
  | EvResultsClosed =>
      match st_logger s with
      | None => {| st_delay := st_delay s; st_ctx := st_ctx s; st_internal := st_internal s;
                   st_logger := Some t; st_drain := st_drain s; st_written := st_written s;
                   st_errors := st_errors s |}
      | Some _ => s
      end
  | EvErr id =>
      match st_drain s with
      | None => {| st_delay := st_delay s; st_ctx := st_ctx s; st_internal := st_internal s;
                   st_logger := st_logger s; st_drain := None; st_written := st_written s;
                   st_errors := id :: st_errors s |}
      | Some _ => s
      end
  | EvErrcClosed =>
      match st_drain s with
      | None => {| st_delay := st_delay s; st_ctx := st_ctx s; st_internal := st_internal s;
                   st_logger := st_logger s; st_drain := Some t; st_written := st_written s;
                   st_errors := st_errors s |}
      | Some _ => s
      end
  end.

(* one external event at time t: a timer whose deadline is <= t fires first *)
Definition step (delay : Z) (s : state) (te : tev) : state :=
  apply_ev delay (fst te) (snd te) (fire_timer (fst te) s).

Definition run_from (delay : Z) (s : state) (evs : list tev) : state := fold_left (step delay) evs s.

(* after the last external event the pending timer, if any, still fires *)
Definition settle (s : state) : state :=
  match st_delay s with DWaitTimer dl => fire_timer dl s | _ => s end.

Definition run (delay : Z) (evs : list tev) : state := settle (run_from delay init evs).

(* startScanEngine returns when wg.Wait() does: logger and drain have both ended *)
Definition return_time (s : state) : option Z :=
  match st_logger s, st_drain s with
  | Some a, Some b => Some (Z.max a b)
  | _, _ => None
  end.

Definition written (s : state) : list Z := rev (st_written s).
Definition errors_logged (s : state) : list Z := rev (st_errors s).

(* events are given in time order (ties in list order = the order in which the runtime serves them) *)
Fixpoint sorted_from (t : Z) (evs : list tev) : Prop :=
  match evs with
  | [] => True
  | (t', _) :: r => t <= t' /\ sorted_from t' r
  end.
Definition sorted (evs : list tev) : Prop :=
  match evs with [] => True | (t, _) :: r => sorted_from t r end.

Fixpoint sorted_fromb (t : Z) (evs : list tev) : bool :=
  match evs with
  | [] => true
  | (t', _) :: r => (t <=? t') && sorted_fromb t' r
  end.

Definition is_done (e : ev) : bool := match e with EvDone => true | _ => false end.
Definition is_parent (e : ev) : bool := match e with EvParentCancel => true | _ => false end.
Definition is_results_closed (e : ev) : bool := match e with EvResultsClosed => true | _ => false end.
Definition is_errc_closed (e : ev) : bool := match e with EvErrcClosed => true | _ => false end.
