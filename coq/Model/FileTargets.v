(* Executable model of the target-file generators of pkg/scan/request.go (fileIPPortGenerator,
   fileIPGenerator), of the stdin recorder of command/config.go (stdinReplay) and of the generator chains
   the commands build from them.  A file is a list of LINE OUTCOMES: what the easyjson decoder and
   net.ParseIP make of each line (both are library code; the harness knows the outcome of every line it
   generates by construction and the tie checks it).  No proofs here. *)
From Coq Require Import ZArith List Bool.
From SX Require Import Base.Loop Base.Bytes Model.RangeIter Model.IPNet Model.Exclude Model.Targets.
Import ListNotations.
Open Scope Z_scope.

(* what one line does to the decoded entry:
   LJson ipf portf : the line decodes without error; ipf = None: no "ip" member (or null) - the field is
   left as it was; Some None: an "ip" string that net.ParseIP rejects ("" included); Some (Some a): the 16
   bytes net.ParseIP returns.  portf = None: no "port" member (or null); Some p: its integer value.
   LBad: the decoder reports an error (invalid JSON, wrong member type, blank line, trailing garbage).
   LTooLong: bufio.Scanner gives up (line longer than 64 KiB): Scan returns false and Err is ErrTooLong *)
Inductive line := LJson (ipf : option (option ip)) (portf : option Z) | LBad | LTooLong.

Definition valid_port (p : Z) : bool := (0 <? p) && (p <=? 65535).

(* ---------- fileIPPortGenerator: one request per line; ErrJSON and scanner errors stop, ErrIP and
   ErrPort continue; the entry is reset before every line ---------- *)
Definition pair_line (l : line) : req * bool (* stop after it *) :=
  match l with
  | LBad => (err_req GJSON, true)
  | LTooLong => (err_req GTooLong, true)
  | LJson ipf portf =>
      match ipf with
      | Some (Some a) =>
          let p := match portf with Some p => p | None => 0 end in
          if valid_port p then (mk_req a p, false) else (err_req GPort, false)
      | _ => (err_req GIP, false)
      end
  end.
Fixpoint pairs_walk (ls : list line) : list req :=
  match ls with
  | [] => []
  | l :: ls' => let '(r, stop) := pair_line l in if stop then [r] else r :: pairs_walk ls'
  end.
(* [content] = None: the file cannot be opened *)
Definition file_pairs_gen (content : option (list line)) : out req :=
  match content with None => Fail GOpen | Some ls => Emit (pairs_walk ls) Done end.

(* ---------- fileIPGenerator: ErrJSON, ErrIP and scanner errors all stop.  [reset] = the entry is
   cleared before every line (true: the code with the fix; false: the code as found, where a line
   without "ip" re-uses the address decoded from an earlier line); [cur] = net.ParseIP(entry.IP) ---------- *)
Fixpoint ips_walk (reset : bool) (cur : option ip) (ls : list line) : list (getter ip) :=
  match ls with
  | [] => []
  | LBad :: _ => [inr GJSON]
  | LTooLong :: _ => [inr GTooLong]
  | LJson ipf _ :: ls' =>
      let cur0 := if reset then None else cur in
      let cur1 := match ipf with None => cur0 | Some x => x end in
      match cur1 with
      | None => [inr GIP]
      | Some a => inl a :: ips_walk reset cur1 ls'
      end
  end.
Definition file_ips_gen (reset : bool) (content : option (list line)) : out (getter ip) :=
  match content with None => Fail GOpen | Some ls => Emit (ips_walk reset None ls) Done end.

(* the same two generators seen line by line: what a line becomes, whether reading stops after it, and
   the lines that are read at all *)
Definition pair_stops (l : line) : bool := snd (pair_line l).
Definition addr_line (l : line) : getter ip :=
  match l with
  | LBad => inr GJSON
  | LTooLong => inr GTooLong
  | LJson (Some (Some a)) _ => inl a
  | LJson _ _ => inr GIP
  end.
Definition addr_stops (l : line) : bool := match addr_line l with inl _ => false | inr _ => true end.
Fixpoint processed (stops : line -> bool) (ls : list line) : list line :=
  match ls with
  | [] => []
  | l :: ls' => if stops l then [l] else l :: processed stops ls'
  end.

(* the k-th open of the target file: its content, or None when it cannot be opened *)
Definition opener := nat -> option (list line).
Definition file_source (op : opener) : ip_source := fun k => file_ips_gen true (op k).

(* ---------- command/config.go stdinReplay: the first reader streams stdin through a recorder, every
   later open first records what is still unread and then replays the recording ---------- *)
Section Replay.
Context {A : Type}.
Record replay := { rp_rest : list A; rp_buf : list A; rp_opened : bool }.
Definition replay_new (stdin : list A) : replay := {| rp_rest := stdin; rp_buf := []; rp_opened := false |}.
(* the stream offered to the new reader, and the new state *)
Definition replay_open (s : replay) : list A * replay :=
  if rp_opened s
  then let b := rp_buf s ++ rp_rest s in (b, {| rp_rest := []; rp_buf := b; rp_opened := true |})
  else (rp_rest s, {| rp_rest := rp_rest s; rp_buf := rp_buf s; rp_opened := true |}).
(* the streaming (first) reader has pulled n more bytes through the TeeReader (there is no such reader
   before the first open) *)
Definition replay_read (n : nat) (s : replay) : replay :=
  if rp_opened s
  then {| rp_rest := skipn n (rp_rest s); rp_buf := rp_buf s ++ firstn n (rp_rest s); rp_opened := true |}
  else s.
(* a session: reads by the streaming reader interleaved with opens; returns what each open offered *)
Inductive rp_op := RpOpen | RpRead (n : nat).
Fixpoint replay_run (ops : list rp_op) (s : replay) : list (list A) :=
  match ops with
  | [] => []
  | RpOpen :: ops' => let '(c, s') := replay_open s in c :: replay_run ops' s'
  | RpRead n :: ops' => replay_run ops' (replay_read n s)
  end.
End Replay.
Arguments replay A : clear implicits.

(* ---------- the chains the commands build ---------- *)
Inductive target :=
  | TSubnet (dst : option ipnet)        (* no -f: Range.DstSubnet from the argument *)
  | TFilePairs (op : opener)            (* -f pairs.jsonl, no port ranges *)
  | TFileIPs (op : opener).             (* -f addresses.jsonl with port ranges *)
Record stages := { st_filter : option (list ipnet); st_cache : option arp_cache }.
Definition apply_stages (st : stages) (o : out req) : out req :=
  let o1 := match st_filter st with Some nets => filter_stage nets o | None => o end in
  match st_cache st with Some c => cache_stage c o1 | None => o1 end.

(* newIPPortGenerator (+ decorators): the requests of one GenerateRequests call with Range.Ports = ports *)
Definition ipport_requests (table : list row) (dp di : draws) (t : target) (st : stages) (ports : list prange) : out req :=
  apply_stages st
    match t with
    | TSubnet dst => ip_port_gen (ports_gen table dp ports) (subnet_source table di dst)
    | TFilePairs op => file_pairs_gen (op 0%nat)
    | TFileIPs op => ip_port_gen (ports_gen table dp ports) (file_source op)
    end.
(* newARPScanMethod / newICMPScanMethod: port-less *)
Definition ip_requests (table : list row) (di : draws) (t : target) (st : stages) : out req :=
  apply_stages st
    match t with
    | TSubnet dst => ip_req_gen (subnet_source table di dst)
    | TFilePairs op => ip_req_gen (file_source op)      (* icmp -f: the file is read as an address list *)
    | TFileIPs op => ip_req_gen (file_source op)
    end.

(* one whole port scan: packet scans go through the chunk loop (draws and opens are per engine run),
   application scans run one engine on the whole list *)
Definition packet_port_scan (table : list row) (chunk_size : Z) (empty_once : bool)
           (dp di : nat -> draws) (t : nat -> target) (st : stages) (ports : list prange) : list event :=
  port_scan_engine chunk_size empty_once
    (fun c chunk => events (ipport_requests table (dp c) (di c) (t c) st chunk)) ports.
Definition generic_port_scan (table : list row) (dp di : draws) (t : target) (st : stages) (ports : list prange) : list event :=
  events (ipport_requests table dp di t st ports).
Definition portless_scan (table : list row) (di : draws) (t : target) (st : stages) : list event :=
  events (ip_requests table di t st).

(* ---------- what a target specification denotes ---------- *)
Definition range_ports (r : prange) : list Z :=
  map (fun i => fst r + Z.of_nat i) (seq 0 (Z.to_nat (snd r - fst r + 1))).
Definition all_ports (rs : list prange) : list Z := flat_map range_ports rs.
Definition kept (st : stages) (a : ip) : bool :=
  match st_filter st with Some nets => negb (excluded nets a) | None => true end.
Definition cross (ports : list Z) (addrs : list ip) : list (ip * Z) :=
  flat_map (fun p => map (fun a => (a, p)) addrs) ports.
Definition denote_subnet_ports (n : ipnet) (rs : list prange) (st : stages) : list (ip * Z) :=
  cross (all_ports rs) (filter (kept st) (net_addrs n)).
Definition denote_subnet (n : ipnet) (st : stages) : list (ip * Z) :=
  map (fun a => (a, 0)) (filter (kept st) (net_addrs n)).

(* a well-formed line of a pairs file / of an address file *)
Definition addr_okb (a : ip) : bool := (len a =? 4) || (len a =? 16).
Definition line_pair (l : line) : list (ip * Z) :=
  match l with LJson (Some (Some a)) (Some p) => if valid_port p && addr_okb a then [(a, p)] else [] | _ => [] end.
Definition line_addr (l : line) : list ip :=
  match l with LJson (Some (Some a)) _ => if addr_okb a then [a] else [] | _ => [] end.
Definition wf_pair_line (l : line) : bool := match line_pair l with [] => false | _ => true end.
Definition wf_addr_line (l : line) : bool := match line_addr l with [] => false | _ => true end.
Definition denote_file_pairs (ls : list line) (st : stages) : list (ip * Z) :=
  filter (fun ap => kept st (fst ap)) (flat_map line_pair ls).
Definition denote_file_ports (ls : list line) (rs : list prange) (st : stages) : list (ip * Z) :=
  cross (all_ports rs) (filter (kept st) (flat_map line_addr ls)).
Definition denote_file_addrs (ls : list line) (st : stages) : list (ip * Z) :=
  map (fun a => (a, 0)) (filter (kept st) (flat_map line_addr ls)).
