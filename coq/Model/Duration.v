(* time.ParseDuration (Go 1.23 time/format.go), modelled statement by statement including the
   overflow checks, the uint64 wrap of the running sum and the float64 arithmetic of the fractional
   part (IEEE-754 binary64, round to nearest even, through Coq's SpecFloat).  Library behaviour:
   modelled by hand, tied by differential testing.  Durations are nanoseconds in Z (int64 range).
   Executable definitions only. *)
From Coq Require Import ZArith List Bool SpecFloat.
From SX Require Import Model.Unquote.
Import ListNotations.
Open Scope Z_scope.

Definition two63 : Z := 9223372036854775808.
Definition two64 : Z := 18446744073709551616.

Definition is_digit (c : Z) : bool := in_range 48 57 c.

(* leadingInt: consumes [0-9]*, fails when the value would exceed 2^63 *)
Fixpoint leading_int (x : Z) (s : bytes) : option (Z * bytes) :=
  match s with
  | c :: t =>
    if is_digit c then
      if two63 / 10 <? x then None
      else let x' := x * 10 + (c - 48) in
           if two63 <? x' then None else leading_int x' t
    else Some (x, s)
  | [] => Some (x, s)
  end.

(* leadingFraction: consumes [0-9]*, stops accumulating precision instead of failing;
   returns (x, k, rest) with scale = 10^k *)
Fixpoint leading_fraction (x k : Z) (ovf : bool) (s : bytes) : Z * Z * bytes :=
  match s with
  | c :: t =>
    if is_digit c then
      if ovf then leading_fraction x k true t
      else if (two63 - 1) / 10 <? x then leading_fraction x k true t
      else let y := x * 10 + (c - 48) in
           if two63 <? y then leading_fraction x k true t
           else leading_fraction y (k + 1) false t
    else (x, k, s)
  | [] => (x, k, s)
  end.

(* the unit: everything up to the next '.' or digit *)
Fixpoint span_unit (s : bytes) : bytes * bytes :=
  match s with
  | c :: t => if (c =? 46) || is_digit c then ([], s)
              else let (u, r) := span_unit t in (c :: u, r)
  | [] => ([], [])
  end.

Fixpoint bytes_eq (a b : bytes) : bool :=
  match a, b with
  | [], [] => true
  | x :: a', y :: b' => (x =? y) && bytes_eq a' b'
  | _, _ => false
  end.

(* unitMap *)
Definition unit_table : list (bytes * Z) :=
  [ ([110; 115], 1);                       (* ns *)
    ([117; 115], 1000);                    (* us *)
    ([194; 181; 115], 1000);               (* U+00B5 micro sign, s *)
    ([206; 188; 115], 1000);               (* U+03BC greek mu, s *)
    ([109; 115], 1000000);                 (* ms *)
    ([115], 1000000000);                   (* s *)
    ([109], 60000000000);                  (* m *)
    ([104], 3600000000000) ].              (* h *)

Fixpoint assoc_bytes {A} (k : bytes) (t : list (bytes * A)) : option A :=
  match t with
  | [] => None
  | (k', v) :: t' => if bytes_eq k k' then Some v else assoc_bytes k t'
  end.

Definition unit_of (u : bytes) : option Z := assoc_bytes u unit_table.

(* float64 *)
Definition f64 (z : Z) : spec_float := binary_normalize 53 1024 z 0 false.
Definition f64_to_u64 (x : spec_float) : Z :=      (* uint64(x) for 0 <= x < 2^64: truncation *)
  match x with
  | S754_finite false m e => if 0 <=? e then Zpos m * 2 ^ e else Zpos m / 2 ^ (- e)
  | _ => 0
  end.
(* uint64(float64(f) * (float64(unit) / scale)), scale = 10^k built by repeated multiplication
   (exact in binary64 for k <= 22; here k <= 19) *)
Definition frac_ns (f unit k : Z) : Z :=
  f64_to_u64 (SFmul 53 1024 (f64 f) (SFdiv 53 1024 (f64 unit) (f64 (10 ^ k)))).

(* one pass of the component loop per round; every round consumes at least one byte *)
Fixpoint dur_loop (fuel : nat) (s : bytes) (d : Z) : option Z :=
  match s with
  | [] => Some d
  | c0 :: _ =>
    match fuel with
    | O => None
    | S fu =>
      if negb ((c0 =? 46) || is_digit c0) then None else
      match leading_int 0 s with
      | None => None
      | Some (v, s1) =>
        let pre := negb (Nat.eqb (length s1) (length s)) in
        let '(f, k, s2, post) :=
          match s1 with
          | c1 :: t => if c1 =? 46
                       then let '(f, k, r) := leading_fraction 0 0 false t in
                            (f, k, r, negb (Nat.eqb (length r) (length t)))
                       else (0, 0, s1, false)
          | [] => (0, 0, s1, false)
          end in
        if negb pre && negb post then None else
        let (u, s3) := span_unit s2 in
        match u with
        | [] => None                                     (* missing unit *)
        | _ =>
          match unit_of u with
          | None => None                                 (* unknown unit *)
          | Some unit =>
            if two63 / unit <? v then None else
            let v1 := v * unit in
            let v2 := if 0 <? f then v1 + frac_ns f unit k else v1 in
            if (0 <? f) && (two63 <? v2) then None else
            let d' := (d + v2) mod two64 in              (* d += v on uint64 *)
            if two63 <? d' then None else dur_loop fu s3 d'
          end
        end
      end
    end
  end.

Definition parse_duration (s : bytes) : option Z :=
  let '(neg, s1) := match s with
                    | c :: t => if c =? 45 then (true, t) else if c =? 43 then (false, t) else (false, s)
                    | [] => (false, s)
                    end in
  if bytes_eq s1 [48] then Some 0
  else match s1 with
       | [] => None
       | _ => match dur_loop (length s1) s1 0 with
              | None => None
              | Some d => if neg then Some (- d)
                          else if two63 - 1 <? d then None else Some d
              end
       end.
