(* The generator chains of the commands as DATA (Gen/TargetWiring.v is generated from the Go ASTs of
   command/*.go by tools/gen/targets_wiring.go) and their meaning in terms of the generator models.
   No proofs here. *)
From Coq Require Import ZArith List Bool String.
From SX Require Import Base.Loop Base.Bytes Model.RangeIter Model.IPNet Model.Exclude Model.Targets Model.FileTargets.
Import ListNotations.
Open Scope Z_scope.

(* the conditions the commands branch on when they assemble a generator chain *)
Inductive cond :=
  | CNoFile        (* len(o.ipFile) == 0 *)
  | CHasFile       (* len(o.ipFile) > 0 *)
  | CNoPorts       (* len(o.portRanges) == 0 *)
  | CExclude       (* o.excludeIPs != nil *)
  | CCache         (* o.cache != nil *)
  | CLive          (* o.liveTimeout > 0 *)
  | CStdin.        (* o.ipFile == "-" *)

(* constructor calls, as written in the source *)
Inductive gexpr :=
  | GIf (c : cond) (a b : gexpr)
  | GIPPort (ipg portg : gexpr)        (* scan.NewIPPortGenerator(ipg, portg) *)
  | GIPReq (ipg : gexpr)               (* scan.NewIPRequestGenerator(ipg) *)
  | GFilePairs (op : gexpr)            (* scan.NewFileIPPortGenerator(op) *)
  | GFileIPs (op : gexpr)              (* scan.NewFileIPGenerator(op) *)
  | GSubnetIPs                         (* scan.NewIPGenerator() *)
  | GPorts                             (* scan.NewPortGenerator() *)
  | GFilter (g : gexpr)                (* scan.NewFilterIPRequestGenerator(g, o.excludeIPs) *)
  | GCache (g : gexpr)                 (* arp.NewCacheRequestGenerator(g, o.gatewayMAC, o.cache) *)
  | GLive (g : gexpr)                  (* scan.NewLiveRequestGenerator(g, o.liveTimeout) *)
  | GOpenFile                          (* func() { return os.Open(o.ipFile) } *)
  | GOpenStdinReplay                   (* "-" -> the stdin recorder (stdinReplay.open), else os.Open *)
  | GOpenStdinRaw.                     (* "-" -> io.NopCloser(os.Stdin), else os.Open *)

Inductive engine_kind :=
  | EChunked        (* startPortScanEngine: one packet engine per chunk of port ranges *)
  | EPacketOnce     (* startPacketScanEngine *)
  | EGeneric.       (* startScanEngine with a GenericEngine *)

Record command := { c_name : string; c_gen : gexpr; c_engine : engine_kind }.

(* which options are set *)
Record cfg := { f_file : bool; f_ports : bool; f_exclude : bool; f_cache : bool; f_live : bool; f_stdin : bool }.
Definition eval_cond (f : cfg) (c : cond) : bool :=
  match c with
  | CNoFile => negb (f_file f) | CHasFile => f_file f | CNoPorts => negb (f_ports f)
  | CExclude => f_exclude f | CCache => f_cache f | CLive => f_live f | CStdin => f_stdin f
  end.
Fixpoint resolve (f : cfg) (g : gexpr) : gexpr :=
  match g with
  | GIf c a b => if eval_cond f c then resolve f a else resolve f b
  | GIPPort a b => GIPPort (resolve f a) (resolve f b)
  | GIPReq a => GIPReq (resolve f a)
  | GFilePairs a => GFilePairs (resolve f a)
  | GFileIPs a => GFileIPs (resolve f a)
  | GFilter a => GFilter (resolve f a)
  | GCache a => GCache (resolve f a)
  | GLive a => GLive (resolve f a)
  | other => other
  end.

Fixpoint gexpr_eqb (a b : gexpr) : bool :=
  match a, b with
  | GIPPort a1 a2, GIPPort b1 b2 => gexpr_eqb a1 b1 && gexpr_eqb a2 b2
  | GIPReq a1, GIPReq b1 | GFilePairs a1, GFilePairs b1 | GFileIPs a1, GFileIPs b1
  | GFilter a1, GFilter b1 | GCache a1, GCache b1 | GLive a1, GLive b1 => gexpr_eqb a1 b1
  | GSubnetIPs, GSubnetIPs | GPorts, GPorts | GOpenFile, GOpenFile
  | GOpenStdinReplay, GOpenStdinReplay | GOpenStdinRaw, GOpenStdinRaw => true
  | _, _ => false                        (* GIf never survives [resolve] *)
  end.

(* ---------- the chains the theorems are about, per class of command ---------- *)
Inductive class := KPortPacket | KPortGeneric | KArp | KIcmp.
Definition wrap (b : bool) (w : gexpr -> gexpr) (g : gexpr) : gexpr := if b then w g else g.
Definition port_base (f : cfg) : gexpr :=
  if negb (f_file f) then GIPPort GSubnetIPs GPorts
  else if negb (f_ports f) then GFilePairs GOpenFile
  else GIPPort (GFileIPs GOpenStdinReplay) GPorts.
Definition expected (k : class) (f : cfg) : gexpr :=
  match k with
  | KPortPacket => wrap (f_cache f) GCache (wrap (f_exclude f) GFilter (port_base f))
  | KPortGeneric => wrap (f_exclude f) GFilter (port_base f)
  | KArp => wrap (f_live f) GLive (wrap (f_exclude f) GFilter (GIPReq GSubnetIPs))
  | KIcmp => wrap (f_cache f) GCache (wrap (f_exclude f) GFilter
                (GIPReq (if f_file f then GFileIPs GOpenFile else GSubnetIPs)))
  end.
Definition class_engine (k : class) : engine_kind :=
  match k with KPortPacket => EChunked | KPortGeneric => EGeneric | KArp | KIcmp => EPacketOnce end.
Definition engine_eqb (a b : engine_kind) : bool :=
  match a, b with EChunked, EChunked | EPacketOnce, EPacketOnce | EGeneric, EGeneric => true | _, _ => false end.

Definition bools : list bool := [false; true].
Definition all_cfgs : list cfg :=
  flat_map (fun a => flat_map (fun b => flat_map (fun c => flat_map (fun d => flat_map (fun e => map (fun g =>
    {| f_file := a; f_ports := b; f_exclude := c; f_cache := d; f_live := e; f_stdin := g |}) bools) bools) bools) bools) bools) bools.

Definition has_class (cmd : command) (k : class) : bool :=
  engine_eqb (c_engine cmd) (class_engine k) &&
  forallb (fun f => gexpr_eqb (resolve f (c_gen cmd)) (expected k f)) all_cfgs.
Definition class_of (cmd : command) : option class :=
  if has_class cmd KPortPacket then Some KPortPacket
  else if has_class cmd KPortGeneric then Some KPortGeneric
  else if has_class cmd KArp then Some KArp
  else if has_class cmd KIcmp then Some KIcmp
  else None.

(* ---------- meaning ---------- *)
Record inputs := {
  i_dst : option ipnet;                 (* Range.DstSubnet *)
  i_file : list line;                   (* content of the -f file (or of stdin) *)
  i_openable : bool;                    (* the file can be opened *)
  i_nets : list ipnet;                  (* networks of the --exclude file *)
  i_cache : arp_cache;                  (* ARP cache + gateway MAC *)
  i_ports : list prange;                (* Range.Ports of the whole scan *)
  i_dp : nat -> draws; i_di : nat -> draws }.   (* random draws, per engine run *)

Section Interp.
Variable table : list row.
Variable f : cfg.
Variable inp : inputs.
Variable c : nat.                        (* index of the engine run *)

Definition content : option (list line) := if i_openable inp then Some (i_file inp) else None.
(* the k-th open in engine run c *)
Definition interp_open (g : gexpr) : option opener :=
  match g with
  | GOpenFile => Some (fun _ => content)
  | GOpenStdinReplay => Some (fun _ => content)       (* see C01_stdin_replay: every open offers all of stdin *)
  | GOpenStdinRaw =>                                   (* stdin is consumed by the very first reader *)
      Some (fun k => if f_stdin f then (if Nat.eqb c 0 && Nat.eqb k 0 then content else Some []) else content)
  | _ => None
  end.
Definition interp_src (g : gexpr) : option ip_source :=
  match g with
  | GSubnetIPs => Some (subnet_source table (i_di inp c) (i_dst inp))
  | GFileIPs o => match interp_open o with Some op => Some (file_source op) | None => None end
  | _ => None
  end.
Fixpoint interp_req (g : gexpr) (ports : list prange) : option (out req) :=
  match g with
  | GIPPort ig GPorts =>
      match interp_src ig with Some src => Some (ip_port_gen (ports_gen table (i_dp inp c) ports) src) | None => None end
  | GIPReq ig => match interp_src ig with Some src => Some (ip_req_gen src) | None => None end
  | GFilePairs o => match interp_open o with Some op => Some (file_pairs_gen (op 0%nat)) | None => None end
  | GFilter g1 => match interp_req g1 ports with Some o => Some (filter_stage (i_nets inp) o) | None => None end
  | GCache g1 => match interp_req g1 ports with Some o => Some (cache_stage (i_cache inp) o) | None => None end
  | _ => None                            (* GLive: repeated passes are the subject of C19 *)
  end.
End Interp.

(* one whole scan of a command; None = a chain this model gives no meaning to *)
Definition well_formed (table : list row) (f : cfg) (inp : inputs) (g : gexpr) : bool :=
  match interp_req table f inp 0 g [] with Some _ => true | None => false end.
Definition run_engine (table : list row) (f : cfg) (inp : inputs) (g : gexpr) (c : nat) (ports : list prange) : list event :=
  match interp_req table f inp c g ports with Some o => events o | None => [] end.
Definition run_command (table : list row) (chunk_size : Z) (empty_once : bool)
           (cmd : command) (f : cfg) (inp : inputs) : option (list event) :=
  let g := resolve f (c_gen cmd) in
  if well_formed table f inp g then
    Some match c_engine cmd with
         | EChunked => port_scan_engine chunk_size empty_once (run_engine table f inp g) (i_ports inp)
         | EPacketOnce | EGeneric => run_engine table f inp g 0 (i_ports inp)
         end
  else None.

(* the option settings must describe the inputs *)
Definition cfg_matches (f : cfg) (inp : inputs) : Prop :=
  (f_ports f = true <-> i_ports inp <> []).
