(* Correspondence oracle for C09.  [socks_proto] instantiates the model with the constants the
   translator read from the sources; one [case] is a scripted server behaviour together with what
   the harness observed from the real socks5.Scanner.Scan; [check_case] returns the codes of
   everything that disagrees with the model. *)
From Coq Require Import ZArith List Bool String.
From SX Require Import Model.Socks Gen.SocksConsts.
Import ListNotations.
Open Scope Z_scope.

Definition socks_proto : proto := {|
  p_greet_ver := socks_greet_version;
  p_greet_methods := socks_greet_methods;
  p_accept_ver := nth 0 socks_accept (-1);
  p_accept_method := nth 1 socks_accept (-1);
  p_reply_len := Z.to_nat socks_reply_len;
  p_result_version := socks_result_version |}.

(* the structural facts of the sources the hand-written model relies on, as read by tools/gen *)
Definition str_list_eqb (a b : list string) : bool :=
  if list_eq_dec string_dec a b then true else false.

Definition socks_wiring_ok : bool :=
  (* MethodReply is two bytes, Ver then Method, filled by binary.Read from the receiver; its Len
     is the number of bytes io.ReadFull waits for; the condition constrains both fields *)
  str_list_eqb socks_reply_fields ["Ver"; "Method"]%string &&
  str_list_eqb socks_reply_field_types ["byte"; "byte"]%string &&
  (socks_reply_len =? 2) && (Z.of_nat (List.length socks_accept) =? 2) &&
  str_list_eqb socks_reply_decode ["binary.BigEndian"; "receiver"]%string &&
  (* MethodRequest: Ver, NMethods = byte(len(methods)), Methods; one Write of Ver, NMethods, Methods... *)
  str_list_eqb socks_request_ctor ["Ver=arg0"; "NMethods=byte(len(arg1))"; "Methods=arg1"]%string &&
  str_list_eqb socks_request_wire ["recv.Ver"; "recv.NMethods"; "recv.Methods..."]%string &&
  (socks_request_writes =? 1) &&
  (* one Scanner is shared by all workers of the engine: the reply is decoded into a value that
     belongs to this call alone, and Scan neither writes to the Scanner nor hands out pointers into it *)
  socks_reply_fresh_local &&
  str_list_eqb socks_scan_writes_scanner [] && str_list_eqb socks_scan_scanner_field_addrs [] &&
  (* SO_LINGER is given in SECONDS and is small: the final Close may block that long when the peer has vanished, which
     the property's "scheduling slack" has to absorb *)
  (1 <=? socks_linger_seconds) && (socks_linger_seconds <=? 2) &&
  (* every Read / Write first arms a fresh deadline now + timeout, unconditionally: a zero or negative data timeout is
     an already expired deadline, never "no deadline" *)
  String.eqb socks_read_deadline "time.Now().Add(recv.timeout)" &&
  String.eqb socks_write_deadline "time.Now().Add(recv.timeout)" &&
  (* "nothing to report" is the nil INTERFACE: the value Scan stores in its scan.Result result does not come from a
     helper whose declared result is a pointer type (a nil *ScanResult in the interface is a typed nil, which the
     engine's `result != nil` takes for a record and whose printing panics) *)
  negb socks_result_typed_nil_hazard &&
  (* the record's address and port are the request's *)
  String.eqb socks_result_ip_from "request.DstIP.String()" &&
  String.eqb socks_result_port_from "request.DstPort" &&
  String.eqb socks_dial_network "tcp" &&
  String.eqb socks_dial_target "fmt.Sprintf('%s:%d',request.DstIP,request.DstPort)" &&
  (* timeouts: NewScanner installs the defaults; the options overwrite dial / data timeout; the
     connection wrapper uses the data timeout; the CLI passes --timeout to both options *)
  (socks_new_dial_timeout_ns =? socks_default_dial_timeout_ns) &&
  (socks_new_data_timeout_ns =? socks_default_data_timeout_ns) &&
  String.eqb socks_opt_dial_target "scanner.dialer.Timeout" &&
  String.eqb socks_opt_data_target "scanner.dataTimeout" &&
  String.eqb socks_conn_timeout_from "scanner.dataTimeout" &&
  String.eqb socks_cli_timeout_var "opts.timeout" &&
  str_list_eqb socks_cli_scanner_opts
    ["socks5.WithDialTimeout(opts.timeout)"; "socks5.WithDataTimeout(opts.timeout)"]%string.

(* ---------------------------------------------------------------- cases *)
Record case := {
  c_tdial : Z; c_tdata : Z;            (* timeouts given to the scanner, milliseconds *)
  c_cancel : option Z;                 (* when the harness cancels the context *)
  c_ip : list Z; c_port : Z;           (* the request *)
  c_script : script;                   (* what the scripted server / network does *)
  c_obs : Z;                           (* observed outcome, coded as [outcome_code] *)
  c_dur : Z;                           (* observed duration of Scan, milliseconds *)
  c_slack : Z;                         (* scheduling slack granted to the duration *)
  c_greet : option (list Z);           (* bytes the server read from the connection, if it read *)
  c_rec : option (list Z * Z * Z)      (* the record: ip, port, version *)
}.

Fixpoint zlist_eqb (a b : list Z) : bool :=
  match a, b with
  | [], [] => true
  | x :: a', y :: b' => (x =? y) && zlist_eqb a' b'
  | _, _ => false
  end.

(* codes: 1 outcome class differs from the model; 2 the server received other bytes than the
   model's greeting; 3 the record's fields differ; 4 Scan took longer than the model's logical
   duration plus slack; 105 (informational) Scan returned earlier than the model says *)
Definition check_case (c : case) : list Z :=
  let r := scan socks_proto (c_tdial c) (c_tdata c) (c_cancel c) (c_ip c) (c_port c) (c_script c) in
  (if outcome_code (r_out r) =? c_obs c then [] else [1]) ++
  (match c_greet c, r_sent r with
   | Some g, Some m => if zlist_eqb g m then [] else [2]
   | Some (_ :: _), None => [2]
   | _, _ => []
   end) ++
  (match r_out r, c_rec c with
   | Report ip port v, Some (ip', port', v') =>
       if zlist_eqb ip ip' && (port =? port') && (v =? v') then [] else [3]
   | Report _ _ _, None => if c_obs c =? 0 then [3] else []
   | _, _ => []
   end) ++
  (match r_out r with
   | Hang | OutOfFuel => []
   | _ => (if c_dur c <=? r_fin r + c_slack c then [] else [4]) ++
          (if (outcome_code (r_out r) =? c_obs c) && (c_dur c <? r_fin r - 15) then [105] else [])
   end).

Fixpoint check_all (i : nat) (cs : list case) : list (nat * list Z) :=
  match cs with
  | [] => []
  | c :: cs' => match check_case c with
                | [] => check_all (S i) cs'
                | codes => (i, codes) :: check_all (S i) cs'
                end
  end.

(* what the model says for a case (used by the failing-input search and for diagnostics) *)
Definition model_of (c : case) : Z * Z :=
  let r := scan socks_proto (c_tdial c) (c_tdata c) (c_cancel c) (c_ip c) (c_port c) (c_script c) in
  (outcome_code (r_out r), r_fin r).
