(* Correspondence oracle for C01: the real port generator (exact sequence from seeded math/rand), the real
   nested generator over scripted sources (exact nested order), and the generator chains the commands build
   (multiset of probes and of error classes) compared with the model and with what the specification
   denotes. *)
From Coq Require Import ZArith List Bool Sorting.Mergesort Orders.
From SX Require Import Base.Loop Base.Bytes Model.RangeIter Model.IPNet Model.Exclude Model.Targets Model.FileTargets
  Gen.GroupsTable Spec.C02 Spec.C13.
Import ListNotations.
Open Scope Z_scope.

Module ZOrder <: TotalLeBool.
  Definition t := Z.
  Definition leb := Z.leb.
  Theorem leb_total : forall a b, leb a b = true \/ leb b a = true.
  Proof. intros a b. unfold leb. destruct (Z.leb_spec a b); [left; reflexivity|right; apply Z.leb_le; apply Z.lt_le_incl; assumption]. Qed.
End ZOrder.
Module ZSort := Sort ZOrder.

Fixpoint zlist_eqb (a b : list Z) : bool :=
  match a, b with
  | [], [] => true
  | x :: a', y :: b' => (x =? y) && zlist_eqb a' b'
  | _, _ => false
  end.

(* ---------- portGenerator alone ---------- *)
Record ports_case := {
  pt_ranges : list prange; pt_draws : list (Z * Z);
  pt_err : Z;                        (* class of the error Ports returned, 0 = none *)
  pt_complete : bool;
  pt_out : packed }.                 (* two bytes per port, in order *)
Fixpoint group2 (fuel : nat) (l : list Z) : list Z :=
  match fuel with
  | O => []
  | S f => match l with hi :: lo :: l' => (hi * 256 + lo) :: group2 f l' | _ => [] end
  end.
Fixpoint getters_ports (l : list (getter Z)) : option (list Z) :=
  match l with
  | [] => Some []
  | inl p :: l' => match getters_ports l' with Some r => Some (p :: r) | None => None end
  | inr _ :: _ => None
  end.
(* codes: 1 error differs; 2 port sequence differs; 3 not closed *)
Definition check_ports (c : ports_case) : list Z :=
  match ports_gen cyclic_groups (fun i => nth i (pt_draws c) (0, 0)) (pt_ranges c) with
  | Fail e => if gerr_class e =? pt_err c then [] else [1]
  | Emit l en =>
      if negb (pt_err c =? 0) then [1] else
      let b := unpack (pt_out c) in
      match getters_ports l with
      | Some ps => (if zlist_eqb ps (group2 (length b) b) then [] else [2]) ++
                   (match en with Done => if pt_complete c then [] else [3] | _ => [3] end)
      | None => [2]
      end
  end.

(* ---------- ipPortGenerator over scripted sources ---------- *)
(* getters: (value, error class) with class 0 = value *)
Definition mk_getter {A} (v : A) (e : Z) : getter A :=
  match class_gerr e with Some g => inr g | None => inl v end.
Record nested_case := {
  ns_ports_err : Z;                         (* Ports() returns this error (0 = none) *)
  ns_ports : list (Z * Z);                  (* scripted port getters *)
  ns_ips : list (Z * list (ip * Z));        (* per IPs() call: error class of the call (0 = none), scripted getters *)
  ns_err : Z; ns_complete : bool; ns_out : packed }.
Definition nested_model (c : nested_case) : out req :=
  let ports := match class_gerr (ns_ports_err c) with
               | Some g => Fail g
               | None => Emit (map (fun pe => mk_getter (fst pe) (snd pe)) (ns_ports c)) Done
               end in
  let src : ip_source := fun k =>
    match nth_error (ns_ips c) k with
    | None => Emit [] Done
    | Some (e, l) => match class_gerr e with
                     | Some g => Fail g
                     | None => Emit (map (fun ae => mk_getter (fst ae) (snd ae)) l) Done
                     end
    end in
  ip_port_gen ports src.
Definition check_nested (c : nested_case) : list Z := check_out (nested_model c) (ns_err c) (ns_complete c) (ns_out c).

(* ---------- the chains of the commands: multisets ---------- *)
Record chain_case := {
  cc_portless : bool;
  cc_target : Z;                     (* 0 subnet, 1 pairs file, 2 address file *)
  cc_net : option ipnet;
  cc_lines : packed; cc_openable : bool;
  cc_stages : stage_cfg;
  cc_ranges : list prange;
  cc_err : Z;                        (* error return of GenerateRequests / first error of the engine, 0 = none *)
  cc_probes : packed;                (* sorted; 4 address bytes + 2 port bytes each *)
  cc_errors : list Z }.              (* sorted error classes of the error records *)
Definition probe_key (ap : ip * Z) : Z := be_num (ip_key (fst ap)) * 65536 + snd ap.
Fixpoint group6 (fuel : nat) (l : list Z) : list Z :=
  match fuel with
  | O => []
  | S f => match l with
           | a :: b :: c :: d :: e :: g :: l' => (be_num [a; b; c; d] * 65536 + (e * 256 + g)) :: group6 f l'
           | _ => []
           end
  end.
Definition chain_target (c : chain_case) : target :=
  let bl := unpack (cc_lines c) in
  let ls := decode_lines (length bl) bl in
  let op : opener := fun _ => if cc_openable c then Some ls else None in
  if cc_target c =? 0 then TSubnet (cc_net c) else if cc_target c =? 1 then TFilePairs op else TFileIPs op.
Definition chain_model (c : chain_case) : list event :=
  let z : draws := fun _ => (0, 0) in
  let st := to_stages (cc_stages c) in
  if cc_portless c then events (ip_requests cyclic_groups z (chain_target c) st)
  else events (ipport_requests cyclic_groups z z (chain_target c) st (cc_ranges c)).
Definition chain_denote (c : chain_case) : option (list (ip * Z)) :=
  let bl := unpack (cc_lines c) in
  let ls := decode_lines (length bl) bl in
  let st := to_stages (cc_stages c) in
  match cc_target c, cc_net c with
  | 0, Some n => Some (if cc_portless c then denote_subnet n st else denote_subnet_ports n (cc_ranges c) st)
  | 1, _ => Some (denote_file_pairs ls st)
  | 2, _ => Some (if cc_portless c then denote_file_addrs ls st else denote_file_ports ls (cc_ranges c) st)
  | _, _ => None
  end.
(* codes: 1 error records differ (as a multiset of classes); 2 probes differ from the model chain (as a
   multiset); 3 the model chain ends abnormally; 4 probes differ from what the specification denotes *)
Definition check_chain (c : chain_case) : list Z :=
  let evs := chain_model c in
  let b := unpack (cc_probes c) in
  let got := group6 (length b) b in
  (if zlist_eqb (ZSort.sort (map gerr_class (errors evs))) (cc_errors c) then [] else [1]) ++
  (if zlist_eqb (ZSort.sort (map probe_key (probes evs))) got then [] else [2]) ++
  (if normal evs then [] else [3]) ++
  (if (cc_err c =? 0) && match cc_errors c with [] => true | _ => false end then
     match chain_denote c with
     | Some d => if zlist_eqb (ZSort.sort (map probe_key d)) got then [] else [4]
     | None => []
     end
   else []).

Inductive case := CPorts (c : ports_case) | CNested (c : nested_case) | CChain (c : chain_case).
Definition check_case (c : case) : list Z :=
  match c with
  | CPorts c => check_ports c
  | CNested c => map (Z.add 10) (check_nested c)
  | CChain c => map (Z.add 20) (check_chain c)
  end.
Fixpoint check_all (i : nat) (cs : list case) : list (nat * list Z) :=
  match cs with
  | [] => []
  | c :: cs' => match check_case c with
                | [] => check_all (S i) cs'
                | codes => (i, codes) :: check_all (S i) cs'
                end
  end.
