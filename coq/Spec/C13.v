(* Correspondence oracle for C13 (and the file modes of C01): what the harness observed from the real
   generator chains on generated target files, and from the real decorators on request streams that already
   carry errors, compared with the model. *)
From Coq Require Import ZArith List Bool.
From SX Require Import Base.Loop Base.Bytes Model.RangeIter Model.IPNet Model.Exclude Model.Targets Model.FileTargets
  Gen.GroupsTable Spec.C02.
Import ListNotations.
Open Scope Z_scope.

(* line outcomes travel packed: kind [ipf [n ip...] portf [sign b7 .. b0]] *)
Fixpoint decode_lines (fuel : nat) (l : list Z) : list line :=
  match fuel with
  | O => []
  | S f =>
      match l with
      | [] => []
      | 0 :: l1 => LBad :: decode_lines f l1
      | 1 :: l1 => LTooLong :: decode_lines f l1
      | _ :: ipf :: l1 =>
          let '(ipv, l2) :=
            match ipf, l1 with
            | 2, n :: l1' => (Some (Some (firstn (Z.to_nat n) l1')), skipn (Z.to_nat n) l1')
            | 1, _ => (Some None, l1)
            | _, _ => (None, l1)
            end in
          match l2 with
          | 1 :: s :: b7 :: b6 :: b5 :: b4 :: b3 :: b2 :: b1 :: b0 :: l3 =>
              let v := be_num [b7; b6; b5; b4; b3; b2; b1; b0] in
              LJson ipv (Some (if s =? 1 then - v else v)) :: decode_lines f l3
          | _ :: l3 => LJson ipv None :: decode_lines f l3
          | [] => []
          end
      | _ => []
      end
  end.

(* cache: n, per entry (len ip) ip (len mac) mac; then (len gw) gw *)
Fixpoint decode_entries (n : nat) (l : list Z) : list (ip * list Z) * list Z :=
  match n with
  | O => ([], l)
  | S n' =>
      match l with
      | k :: l1 =>
          let a := firstn (Z.to_nat k) l1 in
          match skipn (Z.to_nat k) l1 with
          | m :: l2 =>
              let '(es, rest) := decode_entries n' (skipn (Z.to_nat m) l2) in
              ((a, firstn (Z.to_nat m) l2) :: es, rest)
          | [] => ([], [])
          end
      | [] => ([], [])
      end
  end.
Definition decode_cache (l : list Z) : arp_cache :=
  match l with
  | n :: l1 =>
      let '(es, rest) := decode_entries (Z.to_nat n) l1 in
      match rest with
      | g :: gw => {| ac_entries := es; ac_gateway := firstn (Z.to_nat g) gw |}
      | [] => {| ac_entries := es; ac_gateway := [] |}
      end
  | [] => {| ac_entries := []; ac_gateway := [] |}
  end.

Record stage_cfg := {
  sc_filter : option (list (Z * Z));      (* exclusion entries base/prefix, as written in the file *)
  sc_cache : option packed }.
Definition to_stages (s : stage_cfg) : stages :=
  {| st_filter := match sc_filter s with
                  | Some l => Some (map (fun bp => (ip_mask (u32_bytes (fst bp)) (cidr_mask (snd bp) 32), cidr_mask (snd bp) 32)) l)
                  | None => None
                  end;
     st_cache := match sc_cache s with Some p => Some (decode_cache (unpack p)) | None => None end |}.

Record file_case := {
  fc_mode : Z;                            (* 0 pairs, 1 addresses x ports, 2 port-less *)
  fc_lines : packed;
  fc_openable : bool;
  fc_stages : stage_cfg;
  fc_ranges : list prange;
  fc_draws : list (Z * Z);                (* the two draws of the i-th port range *)
  fc_err : Z;                             (* class of the error GenerateRequests returned, 0 = none *)
  fc_complete : bool;
  fc_out : packed }.

Definition model_file (c : file_case) : out req :=
  let bl := unpack (fc_lines c) in
  let ls := decode_lines (length bl) bl in
  let op : opener := fun _ => if fc_openable c then Some ls else None in
  let dp : draws := fun i => nth i (fc_draws c) (0, 0) in
  let di : draws := fun _ => (0, 0) in
  let st := to_stages (fc_stages c) in
  if fc_mode c =? 0 then ipport_requests cyclic_groups dp di (TFilePairs op) st (fc_ranges c)
  else if fc_mode c =? 1 then ipport_requests cyclic_groups dp di (TFileIPs op) st (fc_ranges c)
  else ip_requests cyclic_groups di (TFileIPs op) st.

(* codes: 1 error return differs; 2 request sequence differs; 3 the channel was not closed *)
Definition check_out (m : out req) (err : Z) (complete : bool) (got : packed) : list Z :=
  match m with
  | Fail e => if gerr_class e =? err then [] else [1]
  | Emit l en =>
      if negb (err =? 0) then [1] else
      let b := unpack got in
      (if reqs_eqb l (decode_reqs (length b) b) then [] else [2]) ++
      (match en with Done => if complete then [] else [3] | _ => [3] end)
  end.
Definition check_file (c : file_case) : list Z := check_out (model_file c) (fc_err c) (fc_complete c) (fc_out c).

Record stages_case := { gc_stages : stage_cfg; gc_in : packed; gc_complete : bool; gc_out : packed }.
Definition check_stages (c : stages_case) : list Z :=
  let b := unpack (gc_in c) in
  check_out (apply_stages (to_stages (gc_stages c)) (Emit (decode_reqs (length b) b) Done)) 0 (gc_complete c) (gc_out c).

Inductive case := CFile (c : file_case) | CStages (c : stages_case).
Definition check_case (c : case) : list Z :=
  match c with CFile c => check_file c | CStages c => map (Z.add 10) (check_stages c) end.
Fixpoint check_all (i : nat) (cs : list case) : list (nat * list Z) :=
  match cs with
  | [] => []
  | c :: cs' => match check_case c with
                | [] => check_all (S i) cs'
                | codes => (i, codes) :: check_all (S i) cs'
                end
  end.
