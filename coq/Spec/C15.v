(* Correspondence oracle for C15.  A [lcase] is what the harness observed from the REAL
   ratelimit.New(rate, Per(per), WithClock(fake)) on one scripted run; a [wcase] is what a counting
   limiter and a recording delegate observed around the REAL NewRateLimitReadWriter /
   NewRateLimitScanner.  [check_*] return the codes of everything that disagrees with the model. *)
From Coq Require Import ZArith List Bool.
From SX Require Import Model.Limiter.
Import ListNotations.
Open Scope Z_scope.

Record lcase := {
  l_rate : Z; l_per : Z;
  l_mode : Z;               (* 0: serial caller, l_in = gaps before each call, Sleep advances the clock
                               1: scripted clock, l_in = the reading returned by the i-th Now() *)
  l_in : list Z;
  l_obs : list (Z * Z * Z)  (* per call: clock reading used, returned time, total slept in the call *)
}.

Definition triple_eqb (a b : Z * Z * Z) : bool :=
  let '(a1, a2, a3) := a in let '(b1, b2, b3) := b in (a1 =? b1) && (a2 =? b2) && (a3 =? b3).

Fixpoint first_diff (i : nat) (a b : list (Z * Z * Z)) : option nat :=
  match a, b with
  | [], [] => None
  | x :: a', y :: b' => if triple_eqb x y then first_diff (S i) a' b' else Some i
  | _, _ => Some i
  end.

Definition model_obs (c : lcase) : list (Z * Z * Z) :=
  let cf := mk_conf (l_rate c) (l_per c) in
  if l_mode c =? 0 then run_serial cf Fresh 0 (l_in c)
  else map (fun nt => (fst nt, t_grant (snd nt), t_sleep (snd nt)))
           (combine (l_in c) (run_takes cf Fresh (l_in c))).

(* codes: 1 the real limiter's (reading, returned time, sleep) sequence differs from the model
   (second component of the pair = index of the first differing call) *)
Definition check_lcase (c : lcase) : list Z :=
  match first_diff 0 (l_obs c) (model_obs c) with
  | None => []
  | Some i => [1; Z.of_nat i]
  end.

(* the property itself on a list of grants, as a boolean: every pair i <= j is spaced by at least
   (j - i - b) * p.  Used to cross-check the Python oracle on the model's own output. *)
Fixpoint spaced_from (p b g0 : Z) (k : Z) (rest : list Z) : bool :=
  match rest with
  | [] => true
  | g :: r => ((k - b) * p <=? g - g0) && spaced_from p b g0 (k + 1) r
  end.
Fixpoint spaced (p b : Z) (gs : list Z) : bool :=
  match gs with
  | [] => true
  | g0 :: r => spaced_from p b g0 1 r && spaced p b r
  end.

Inductive wop := WWrite (pkt : Z) | WRead | WScan (req : Z).
Definition to_op (w : wop) : op :=
  match w with WWrite p => OpWrite p | WRead => OpRead | WScan r => OpScan r end.

(* observed call log: 0 = Take, (1,p) = delegate write of p, 2 = delegate read, (3,r) = delegate scan *)
Record wcase := { w_ops : list wop; w_log : list (Z * Z) }.

Definition call_code (c : call) : Z * Z :=
  match c with CTake => (0, 0) | CWrite p => (1, p) | CRead => (2, 0) | CScan r => (3, r) end.

Fixpoint pairs_eqb (a b : list (Z * Z)) : bool :=
  match a, b with
  | [], [] => true
  | (x1, x2) :: a', (y1, y2) :: b' => (x1 =? y1) && (x2 =? y2) && pairs_eqb a' b'
  | _, _ => false
  end.

(* codes: 2 the calls the real wrapper made on limiter and delegate differ from the model *)
Definition check_wcase (c : wcase) : list Z :=
  if pairs_eqb (w_log c) (map call_code (rl_trace (map to_op (w_ops c)))) then [] else [2].

Fixpoint check_list {A} (f : A -> list Z) (i : nat) (cs : list A) : list (nat * list Z) :=
  match cs with
  | [] => []
  | c :: cs' => match f c with
                | [] => check_list f (S i) cs'
                | codes => (i, codes) :: check_list f (S i) cs'
                end
  end.

Definition check_lall := check_list check_lcase 0.
Definition check_wall := check_list check_wcase 0.

(* ---------------------------------------------------------------- wiring (Gen/RateWiring.v) *)
From Coq Require Import String.
From SX Require Import Gen.RateWiring.
Local Open Scope string_scope.

(* meaning of the guard `<lhs> <op> <rhs>` for a given rate count; None = an operator this
   judgement does not understand *)
Definition guard_holds (gop : string) (rhs count : Z) : option bool :=
  if gop =? ">" then Some (rhs <? count)%Z
  else if gop =? ">=" then Some (rhs <=? count)%Z
  else if gop =? "!=" then Some (negb (count =? rhs)%Z)
  else None.

Fixpoint str_in (s : string) (l : list string) : bool :=
  match l with [] => false | x :: r => (s =? x) || str_in s r end.

Definition opts_are_per_window (o : list (string * string)) : bool :=
  match o with
  | [(f, a)] => (f =? "ratelimit.Per") && (a =? "rateWindow")
  | _ => false
  end.

(* the construction site has the shape the model describes: one ratelimit.New(<x>.rateCount,
   ratelimit.Per(<x>.rateWindow)) inside `if <x>.rateCount OP lit { v = wrapper(v0, limiter) }`, v
   holds v0 otherwise, v is not reassigned, v goes to the engine constructor *)
Definition site_shape_ok (s : rate_site) : bool :=
  Nat.eqb (rs_new_calls s) 1 && (rs_guard_lhs s =? "rateCount") && negb (rs_has_else s) &&
  negb (rs_extra_stmts s) && (rs_new_rate s =? "rateCount") && opts_are_per_window (rs_new_opts s) &&
  rs_same_value s && Nat.eqb (rs_other_assigns s) 0.

(* what the site constructs for a given (count, window): None = not understood; Some None = no
   limiter, the engine gets the bare source/scanner; Some (Some c) = a limiter with configuration c
   in front of it *)
Definition site_limiter (s : rate_site) (count window : Z) : option (option lconf) :=
  if site_shape_ok s then
    match guard_holds (rs_guard_op s) (rs_guard_rhs s) count with
    | Some true => Some (Some (mk_conf count window))
    | Some false => Some None
    | None => None
    end
  else None.

Definition packet_site_ok (s : rate_site) : bool :=
  (rs_func s =? "startPacketScanEngine") && (rs_wrapper s =? "packet.NewRateLimitReadWriter") &&
  (rs_wrapped s =? "afpacket.NewPacketSource") && (rs_sink s =? "scan.SetupPacketEngine") &&
  Nat.eqb (rs_sink_arg s) 0 && (rs_sink_result_to s =? "startScanEngine").

Definition generic_site_ok (s : rate_site) : bool :=
  (rs_func s =? "genericScanCmdOpts.newScanEngine") && (rs_wrapper s =? "scan.NewRateLimitScanner") &&
  (rs_wrapped s =? "param:scan.Scanner") && (rs_sink s =? "scan.NewScanEngine") &&
  Nat.eqb (rs_sink_arg s) 1 && (rs_sink_result_to s =? "return").

Definition packet_cmd_ok (c : rate_packet_cmd) : bool :=
  str_in (rp_start c) ["startPortScanEngine"; "startPacketScanEngine"] &&
  Nat.eqb (rp_count_n c) 1 && (rp_count_field c =? "rateCount") &&
  Nat.eqb (rp_window_n c) 1 && (rp_window_field c =? "rateWindow") &&
  (rp_count_root c =? rp_window_root c).

Definition generic_cmd_ok (c : rate_generic_cmd) : bool :=
  match rg_ctor_returns c with
  | [r] => r =? ".newScanEngine"
  | _ => false
  end.

Definition setter_ok (want_name want_field : string) (s : string * string * bool) : bool :=
  let '(n, f, from_param) := s in (n =? want_name) && (f =? want_field) && from_param.

Definition parse_ok (q : rate_parse) : bool :=
  str_in "rate" (rq_flag_names q) && (rq_flag_var q =? "rawRateLimit") &&
  match rq_parse_lhs q with
  | [a; b; _] => (a =? "rateCount") && (b =? "rateWindow")
  | _ => false
  end && (rq_parse_fun q =? "parseRateLimit") && (rq_parse_arg q =? "rawRateLimit").

Definition files_of_packet := map rp_file rate_packet_cmds.
Definition files_of_generic := map rg_file rate_generic_cmds.

(* every scan command of the program is covered: the packet commands and the application commands *)
Definition all_commands_present : bool :=
  forallb (fun f => str_in f files_of_packet)
          ["arp.go"; "icmp.go"; "tcp.go"; "tcp_fin.go"; "tcp_null.go"; "tcp_syn.go"; "tcp_xmas.go"; "udp.go"] &&
  forallb (fun f => str_in f files_of_generic) ["docker.go"; "elastic.go"; "socks.go"].

Definition rate_wiring_ok : bool :=
  packet_site_ok packet_rate_site && site_shape_ok packet_rate_site &&
  generic_site_ok generic_rate_site && site_shape_ok generic_rate_site &&
  Nat.eqb (List.length ratelimit_new_sites) 2 &&
  (* the chunks of a port scan (one limiter each) run one after the other: exactly one plain call in the loop *)
  (* (a `return startPacketScanEngine(..)` statement outside the loop ends the function: it runs instead of the loop) *)
  match filter (fun f => negb (f =? "tail-return startPacketScanEngine")) port_scan_chunk_loop_calls with
  | [f] => f =? "startPacketScanEngine" | _ => false end &&
  forallb packet_cmd_ok rate_packet_cmds && forallb generic_cmd_ok rate_generic_cmds &&
  all_commands_present &&
  match rate_setters with
  | [a; b] => setter_ok "withRateCount" "rateCount" a && setter_ok "withRateWindow" "rateWindow" b
  | _ => false
  end &&
  Nat.eqb (List.length rate_parses) 2 && forallb parse_ok rate_parses.

(* ---------------------------------------------------------------- the library the model describes (Gen/RateLib.v) *)
From SX Require Import Gen.RateLib.

(* Model/Limiter.v models go.uber.org/ratelimit v0.2.0 (content hash from go.sum); when the source is
   present in the module cache, its defaults and the two configuration expressions are compared too *)
Definition rate_lib_ok : bool :=
  (ratelimit_version =? "v0.2.0") &&
  (ratelimit_sum =? "h1:UQE2Bgi7p2B85uP5dC2bbRtig0C+OeNRnNEafLjsLPA=") &&
  negb ratelimit_replaced &&
  (if ratelimit_src_found then
     (ratelimit_default_slack =? default_slack)%Z && (ratelimit_default_per =? "time.Second") &&
     (ratelimit_new_impl =? "newAtomicBased") &&
     (ratelimit_per_request_expr =? "config.per / time.Duration(rate)") &&
     (ratelimit_max_slack_expr =? "-1 * time.Duration(config.slack) * perRequest")
   else true).
