(* Correspondence oracle for C14: what the harness observed from the real code (MarshalJSON of the
   seven result types, jwriter.String / json.Marshal on raw strings, encoding/json as decoder, the
   real logger and the real UniqueLogger), compared with the model inside Coq.  Byte strings travel
   packed (Base.Bytes). *)
From Coq Require Import ZArith Bool List Uint63.
From SX Require Import Base.Bytes Model.Json Gen.Schemas.
Import ListNotations.
Open Scope Z_scope.

Inductive ptree :=
| PNull | PBool (b : bool) | PNum (p : packed) | PStr (p : packed)
| PArr (l : list ptree) | PObj (l : list (packed * ptree)) | PMap (l : list (packed * ptree)).

Fixpoint tree_of (t : ptree) : jvalue :=
  match t with
  | PNull => JNull
  | PBool b => JBool b
  | PNum p => JNum (unpack p)
  | PStr p => JStr (unpack p)
  | PArr l => JArr (map tree_of l)
  | PObj l => JObj (map (fun kv => match kv with (k, x) => (unpack k, tree_of x) end) l)
  | PMap l => JMap (map (fun kv => match kv with (k, x) => (unpack k, tree_of x) end) l)
  end.

Inductive cval :=
| CS (p : packed) | CN (z : Z) | CB (b : bool) | CNil | CPtr (l : list cval) | CT (t : ptree).

Definition sval_c (c : cval) : sval :=
  match c with
  | CS p => VStr (unpack p)
  | CN z => VNum z
  | CB b => VBool b
  | _ => VBool false
  end.

Definition fval_c (c : cval) : fval :=
  match c with
  | CNil => VPtr None
  | CPtr l => VPtr (Some (map sval_c l))
  | CT t => VTree (tree_of t)
  | _ => VS (sval_c c)
  end.

Definition result := (nat * list cval)%type.     (* index into Gen.schemas, values *)

Definition schema_at (k : nat) : schema :=
  nth k schemas {| sc_name := []; sc_flavour := Std; sc_fields := []; sc_id := [] |}.

Definition res_line (r : result) : list Z := line (schema_at (fst r)) (map fval_c (snd r)).
Definition res_id (r : result) : list Z := result_id (schema_at (fst r)) (map fval_c (snd r)).

Inductive case :=
(* one result: MarshalJSON bytes and ID() *)
| KRec (kind : nat) (vals : list cval) (id : packed) (out : packed)
(* one raw string through jwriter.Writer.String (std = false) or json.Marshal (std = true) *)
| KStr (std : bool) (s : packed) (out : packed)
(* a JSON text through Go's encoding/json (token stream, UseNumber): accepted or not, and the tree *)
| KDec (txt : packed) (ok : bool) (t : ptree)
(* the real logger with JSON(): results fed in order; stop = -1: channel closed after all of them,
   stop = k >= 0: context cancelled after k results were taken; ticks: flush interval so small
   that the ticker fires all the time; writes = the Write calls seen by the underlying writer (only
   their concatenation is compared: how the stream is cut into Write calls is not part of C14) *)
| KLog (rs : list result) (stop : Z) (writes : list packed)
(* the real UniqueLogger: results fed in order, the indices of those passed downstream;
   drop = the last fresh result was offered while nobody received and the context was cancelled *)
| KUniq (rs : list result) (drop : bool) (outs : list Z)
(* the logger `sx arp --json --live` builds (arpCmdOpts.getLogger: unique logger around the JSON
   logger on standard output): results fed in order, channel closed; the bytes on standard output *)
| KLive (rs : list result) (stream : packed).

Definition fl_of (std : bool) : flavour := if std then Std else Easy.

Fixpoint no_lf (l : list Z) : bool :=
  match l with [] => true | b :: t => negb (b =? 10) && no_lf t end.

(* structural equality of trees (literal comparison of strings and number texts) *)
Fixpoint jv_eqb (a b : jvalue) {struct a} : bool :=
  match a, b with
  | JNull, JNull => true
  | JBool x, JBool y => Bool.eqb x y
  | JNum x, JNum y => bytes_eqb x y
  | JStr x, JStr y => bytes_eqb x y
  | JArr x, JArr y =>
      (fix go (x : list jvalue) (y : list jvalue) {struct x} : bool :=
         match x, y with
         | [], [] => true
         | a' :: x', b' :: y' => jv_eqb a' b' && go x' y'
         | _, _ => false
         end) x y
  | JObj x, JObj y | JMap x, JMap y =>
      (fix go (x : list (list Z * jvalue)) (y : list (list Z * jvalue)) {struct x} : bool :=
         match x, y with
         | [], [] => true
         | (k, a') :: x', (k', b') :: y' => bytes_eqb k k' && jv_eqb a' b' && go x' y'
         | _, _ => false
         end) x y
  | _, _ => false
  end.

Definition sval_eqb (a b : sval) : bool :=
  match a, b with
  | VStr x, VStr y => bytes_eqb x y
  | VNum x, VNum y => x =? y
  | VBool x, VBool y => Bool.eqb x y
  | _, _ => false
  end.

Fixpoint list_eqb {A} (eq : A -> A -> bool) (a b : list A) : bool :=
  match a, b with
  | [], [] => true
  | x :: a', y :: b' => eq x y && list_eqb eq a' b'
  | _, _ => false
  end.

Definition fval_eqb (a b : fval) : bool :=
  match a, b with
  | VS x, VS y => sval_eqb x y
  | VPtr None, VPtr None => true
  | VPtr (Some x), VPtr (Some y) => list_eqb sval_eqb x y
  | VTree x, VTree y => jv_eqb x y
  | _, _ => false
  end.

Fixpoint taken_until (rs : list result) (k : nat) : list result :=
  match k, rs with
  | S k', r :: t => r :: taken_until t k'
  | _, _ => []
  end.

Fixpoint index_from (i : Z) (rs : list result) : list (Z * result) :=
  match rs with [] => [] | r :: t => (i, r) :: index_from (i + 1) t end.

Fixpoint uniq_events (rs : list (Z * result)) (drop : bool) (seen : list (list Z)) : list (uniq_ev (Z * result)) :=
  match rs with
  | [] => [UClosed]
  | r :: t =>
      let fresh := negb (mem_bytes (res_id (snd r)) seen) in
      match t with
      | [] => [UResult r (negb (drop && fresh)); UClosed]
      | _ => UResult r true :: uniq_events t drop (res_id (snd r) :: seen)
      end
  end.

(* mismatch codes.
   KRec:  1 MarshalJSON bytes differ from enc_record; 2 the bytes do not decode (model decoder) to
          the sanitized values; 3 a line feed inside the object; 4 ID() differs from result_id;
          5 values are not of the declared types (harness/schema disagreement)
   KStr:  11 escaped bytes differ; 12 reading them back does not give sanitize s
   KDec:  21 acceptance differs from encoding/json; 22 decoded tree differs
   KLog:  31 the bytes written (all Write calls concatenated) differ from one line per taken result,
          in order
   KUniq: 41 passed-on results differ from the model's first sightings
   KLive: 51 standard output differs from the lines of the first sightings, in order *)
Definition check_case (c : case) : list Z :=
  match c with
  | KRec kind vals id out =>
      let sc := schema_at kind in
      let v := map fval_c vals in
      let o := unpack out in
      (if wt_record sc v then [] else [5]) ++
      (if bytes_eqb (enc_record sc v) o then [] else [1]) ++
      (match dec_record sc o with
       | Some d => if list_eqb fval_eqb d (map san_fval v) then [] else [2]
       | None => [2]
       end) ++
      (if no_lf o then [] else [3]) ++
      (if bytes_eqb (result_id sc v) (unpack id) then [] else [4])
  | KStr std s out =>
      let fl := fl_of std in
      let o := unpack out in
      (if bytes_eqb (esc_string fl (unpack s)) o then [] else [11]) ++
      (match o with
       | q :: t => match (if q =? 34 then lex_str t else None) with
                   | Some (d, []) => if bytes_eqb d (sanitize (unpack s)) then [] else [12]
                   | _ => [12]
                   end
       | [] => [12]
       end)
  | KDec txt ok t =>
      match dec_json (unpack txt) with
      | Some v => if ok then (if jv_eqb v (tree_of t) then [] else [22]) else [21]
      | None => if ok then [21] else []
      end
  | KLog rs stop writes =>
      let evs := if stop <? 0 then map (@LResult result) rs ++ [@LClosed result]
                 else map (@LResult result) (taken_until rs (Z.to_nat stop)) ++ [@LCancel result] in
      if bytes_eqb (concat (log_results (fun r => Some (res_line r)) evs)) (concat (map unpack writes)) then [] else [31]
  | KUniq rs drop outs =>
      let evs := uniq_events (index_from 0 rs) drop [] in
      if list_eqb Z.eqb (map fst (uniq_run (fun r => res_id (snd r)) [] evs)) outs then [] else [41]
  | KLive rs stream =>
      let passed := uniq_run (fun r => res_id (snd r)) [] (uniq_events (index_from 0 rs) false []) in
      let evs := map (fun r => @LResult result (snd r)) passed ++ [@LClosed result] in
      if bytes_eqb (concat (log_results (fun r => Some (res_line r)) evs)) (unpack stream) then [] else [51]
  end.

Fixpoint check_all (i : nat) (cs : list case) : list (nat * list Z) :=
  match cs with
  | [] => []
  | c :: cs' => match check_case c with
                | [] => check_all (S i) cs'
                | codes => (i, codes) :: check_all (S i) cs'
                end
  end.
