(* C03 -- Detection exactness: the property's vocabulary and the correspondence oracle.

   [reported w vpn r st f]  what the composed receive path of command w does with frame f while the
                            engine scans range r (one chunk's range for the port scans): the kernel
                            delivers it (capture filter of the wiring, on the link type of the packet
                            source) AND ProcessPacketData of the wiring's scan method emits a record.
   [reply_shape c raw r f]  the property statement's "reply shape" for scan class c (from the command
                            NAME, not from the wiring), transcribed.
   [wf_unfrag raw f]        "unfragmented well-formed frame". *)
From Coq Require Import ZArith List Bool String.
From SX Require Import Base.Bytes Model.Decode Model.Process Model.Bpf Gen.ValidPacket Gen.Wiring Spec.C06.
Import ListNotations.
Open Scope Z_scope.

(* ------------------------------------------------------------------ the composed receive path *)
Definition kind_of_method (m : method) : kind :=
  match m with
  | MTcp pf af => KTcp pf af
  | MUdp | MIcmp => KIcmp          (* the udp scan listens for ICMP with the icmp processor *)
  | MArp => KArp
  end.

(* does the scan method constructor receive the command's VPN flag? (Gen/Wiring.v) *)
Definition method_gets_vpn (m : method) : bool :=
  match m with
  | MTcp _ _ => tcp_method_gets_vpn && tcp_method_gets_funcs
  | MUdp => udp_method_gets_vpn && udp_uses_icmp_processor
  | MIcmp => icmp_method_gets_vpn
  | MArp => false
  end.

Definition source_raw (w : wiring) (vpn : bool) : bool := w_vpn_source w && vpn.
Definition method_raw (w : wiring) (vpn : bool) : bool := method_gets_vpn (w_method w) && vpn.

(* the snapshot length each filter builder returns next to the text (Gen/Wiring.v): it is compiled
   into the accept instruction of the socket filter, and the kernel hands over at most that many bytes
   of an accepted frame *)
Definition snaplen_of (ff : filter_fn) : Z :=
  match ff with
  | FTcpBPF => tcp_snaplen
  | FTcpSynAckBPF => synack_snaplen
  | FIcmpBPF => icmp_snaplen
  | FArpBPF => arp_snaplen
  end.

(* the filter runs on the whole frame; the processor sees the frame cut to the snapshot length *)
Definition reported (w : wiring) (vpn : bool) (r : range) (st : dstate) (f : bytes) : bool :=
  bpf_sem (source_raw w vpn) (filter_of (w_filter w) r) f
  && is_record (snd (process (kind_of_method (w_method w)) (method_raw w vpn)
                             (code_valid (kind_of_method (w_method w))) st
                             (take (snaplen_of (w_filter w)) f))).

(* bytes of a frame the processors may need: link header + largest IPv4 header + largest TCP header /
   ICMP header; Ethernet + ARP body *)
Definition snap_need (k : kind) : Z :=
  match k with KTcp _ _ => 14 + 60 + 60 | KIcmp => 14 + 60 + 8 | KArp => 14 + 28 end.

(* ------------------------------------------------------------------ the property statement *)
Inductive scan_class := STcp | STcpSyn | SIcmp | SArp.

(* which scan a command is, by its name *)
Definition class_of_cmd (name : string) : option scan_class :=
  if String.eqb name "tcp syn" then Some STcpSyn
  else if String.eqb name "tcp --flags" || String.eqb name "tcp fin" || String.eqb name "tcp null"
          || String.eqb name "tcp xmas" then Some STcp
  else if String.eqb name "udp" || String.eqb name "icmp" then Some SIcmp
  else if String.eqb name "arp" then Some SArp
  else None.

Definition src_addr (p : bytes) : Z := be32 (byte_at 12 p) (byte_at 13 p) (byte_at 14 p) (byte_at 15 p).
Definition in_subnet (r : range) (a : Z) : bool :=
  match r_subnet r with None => true | Some n => in_net a (fst n) (snd n) end.
Definition in_ports (r : range) (sp : Z) : bool :=
  match r_ports r with [] => true | ps => existsb (fun ab => (fst ab <=? sp) && (sp <=? snd ab)) ps end.
Definition flags9 (s : bytes) : Z := (byte_at 12 s mod 2) * 256 + byte_at 13 s.

(* "the scanned protocol (ARP; TCP; ICMP other than echo-request for icmp and udp scans), a source
   address inside the target subnet when one was given, a source port inside the port ranges being
   scanned when ports were given, and for the SYN scan exactly the flags SYN+ACK" *)
Definition reply_shape (c : scan_class) (raw : bool) (r : range) (f : bytes) : bool :=
  let p := if raw then f else drop 14 f in
  let s := ip_body p in
  match c with
  | STcp => (raw || eth_header 2048 f) && (byte_at 9 p =? 6) && in_subnet r (src_addr p)
            && in_ports r (be16 (byte_at 0 s) (byte_at 1 s))
  | STcpSyn => (raw || eth_header 2048 f) && (byte_at 9 p =? 6) && in_subnet r (src_addr p)
               && in_ports r (be16 (byte_at 0 s) (byte_at 1 s)) && (flags9 s =? 18)
  | SIcmp => (raw || eth_header 2048 f) && (byte_at 9 p =? 1) && negb (byte_at 0 s =? 8)
             && in_subnet r (src_addr p)
  | SArp => negb raw && eth_header 2054 f && in_subnet r (src_addr (drop 16 f))
            (* sender protocol address = bytes 28..31 of the frame *)
  end.

(* an unfragmented well-formed frame: a byte string shorter than 64 KiB; Ethernet II or raw IPv4; an IPv4 packet has version
   4, IHL >= 5, header <= total length <= captured length (a zero total length, as segmentation
   offload leaves it, counts as the captured length), MF = 0 and offset 0, TLV-well-formed options,
   and, when it carries TCP or ICMP, a complete transport header (TCP: data offset >= 5 inside the
   segment, TLV-well-formed options); an ARP packet is Ethernet/IPv4 ARP (sizes 6/4, 28 bytes).
   Frames of other protocols (IPv6, VLAN, ...) are admitted as they are. *)
Definition wf_ip (p : bytes) : bool :=
  let d1 := if ip_total p <? Zlength p then take (ip_total p) p else p in
  (20 <=? Zlength p) && (byte_at 0 p / 16 =? 4) && (5 <=? ip_ihl p) && (ip_ihl p * 4 <=? ip_total p)
  && (ip_total p <=? Zlength p) && ip_unfragmented p
  && match ip_opts 41 (take (ip_ihl p * 4 - 20) (drop 20 d1)) with None => true | Some _ => false end
  && (if byte_at 9 p =? 6
      then tcp_header (ip_body p)
           && match tcp_opts 41 (take ((byte_at 12 (ip_body p) / 16) mod 16 * 4 - 20) (drop 20 (ip_body p)))
              with None => true | Some _ => false end
      else if byte_at 9 p =? 1 then icmp_header (ip_body p) else true).

Definition wf_unfrag (raw : bool) (f : bytes) : bool :=
  wf_bytes f && (Zlength f <? 65536) &&
  if raw then wf_ip f
  else if eth_header 2048 f then wf_ip (drop 14 f)
  else if eth_header 2054 f then arp_6_4 (drop 14 f)
  else true.

(* ------------------------------------------------------------------ is a wiring right for its command? *)
Definition flags512 : list Z := map Z.of_nat (seq 0 512).

Definition cmd_wiring_ok (w : wiring) : bool :=
  (* the snapshot length never cuts into a header chain the scan method has to decode *)
  (snap_need (kind_of_method (w_method w)) <=? snaplen_of (w_filter w)) &&
  match class_of_cmd (w_cmd w), w_method w, w_filter w with
  | Some STcp, MTcp pf _, FTcpBPF =>
      forallb pf flags512 && method_gets_vpn (w_method w) && w_vpn_source w
      && (negb (w_chunked w) || filter_on_chunk_range) && true_filter_is_true
  | Some STcpSyn, MTcp pf _, FTcpSynAckBPF =>
      (* kernel filter tcp[13] == 18 together with the result filter = exactly SYN+ACK of the 9 flags *)
      forallb (fun fl => Bool.eqb ((fl mod 256 =? 18) && pf fl) (fl =? 18)) flags512
      && method_gets_vpn (w_method w) && w_vpn_source w && (negb (w_chunked w) || filter_on_chunk_range)
  | Some SIcmp, (MUdp | MIcmp), FIcmpBPF =>
      method_gets_vpn (w_method w) && w_vpn_source w && (negb (w_chunked w) || filter_on_chunk_range)
  | Some SArp, MArp, FArpBPF => negb (w_vpn_source w)
  | _, _, _ => false
  end.

(* ------------------------------------------------------------------ correspondence oracle *)
(* one case = one (filter builder, link type, range) with the text the real builder produced, and frames
   with the verdict of the libpcap-compiled program run by the BPF VM *)
Record case := { k_filter : Z;            (* 0 tcp.BPFFilter 1 tcp.SYNACKBPFFilter 2 icmp.BPFFilter 3 arp.BPFFilter *)
                 k_raw : bool;
                 k_subnet : option (Z * Z); k_ports : list (Z * Z);
                 k_text : packed; k_snap : Z;
                 k_frames : list packed;
                 k_verdicts : list bool }.

Definition filter_fn_of (c : Z) : filter_fn :=
  if c =? 0 then FTcpBPF else if c =? 1 then FTcpSynAckBPF else if c =? 2 then FIcmpBPF else FArpBPF.

(* codes: 1 the filter text differs; 3 the snapshot length differs; 100 + i: frame i gets a different verdict *)
Fixpoint verdict_mismatches (raw : bool) (e : bexpr) (i : Z) (fs : list packed) (vs : list bool) : list Z :=
  match fs, vs with
  | f :: fs', v :: vs' =>
      (if Bool.eqb (bpf_sem raw e (unpack f)) v then [] else [100 + i]) ++ verdict_mismatches raw e (i + 1) fs' vs'
  | [], [] => []
  | _, _ => [2]
  end.

Definition check_case (c : case) : list Z :=
  let r := {| r_subnet := k_subnet c; r_ports := k_ports c |} in
  let ff := filter_fn_of (k_filter c) in
  (if bytes_eqb (text_of ff r) (unpack (k_text c)) then [] else [1])
  ++ (if snaplen_of ff =? k_snap c then [] else [3])
  ++ verdict_mismatches (k_raw c) (filter_of ff r) 0 (k_frames c) (k_verdicts c).

Fixpoint check_all (i : nat) (cs : list case) : list (nat * list Z) :=
  match cs with
  | [] => []
  | c :: cs' => match check_case c with
                | [] => check_all (S i) cs'
                | codes => (i, codes) :: check_all (S i) cs'
                end
  end.

Definition total_frames (cs : list case) : nat := fold_left (fun a c => (a + List.length (k_frames c))%nat) cs O.

(* the translated wirings in a form the check driver can read back: per command
   [method; allflags; filter; chunked; vpn_source; vpn_method; wiring_ok] ++ the result filter's
   truth table over the 512 flag sets (empty for non-tcp methods) *)
Definition b2z (b : bool) : Z := if b then 1 else 0.
Definition dump_wiring (w : wiring) : list Z :=
  let '(mc, af, tbl) := match w_method w with
                        | MTcp pf af => (0, af, map (fun fl => b2z (pf fl)) flags512)
                        | MUdp => (1, false, [])
                        | MIcmp => (2, false, [])
                        | MArp => (3, false, [])
                        end in
  [mc; b2z af;
   match w_filter w with FTcpBPF => 0 | FTcpSynAckBPF => 1 | FIcmpBPF => 2 | FArpBPF => 3 end;
   b2z (w_chunked w); b2z (w_vpn_source w); b2z (method_gets_vpn (w_method w)); b2z (cmd_wiring_ok w)] ++ tbl.
Definition wiring_names : list string := map w_cmd wirings.
Definition wiring_dump : list (list Z) := map dump_wiring wirings.
