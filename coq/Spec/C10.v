(* Correspondence oracle for C10: scripted HTTP(S) peer behaviours and what the harness observed from
   the real elastic.Scanner.Scan / docker.Scanner.Scan, compared with Model.HttpProbe. *)
From Coq Require Import ZArith List Bool String.
From SX Require Import Model.Socks Model.HttpProbe Gen.ProbeConsts.
Import ListNotations.
Open Scope Z_scope.

Definition strs_eqb (a b : list string) : bool := if list_eq_dec string_dec a b then true else false.

(* the structural facts of the sources the hand-written model relies on, as read by tools/gen *)
Definition probe_wiring_ok : bool :=
  (* elastic: GetInfo fatal, GetIndexes best effort, both on the scan context with the record's host;
     Get = GET under context.WithTimeout(ctx, dataTimeout) taken first, status not examined; the
     record's proto/host/info/indexes are the scanner's proto, the request's address and port, and
     the two results *)
  elastic_info_err_fatal && elastic_indexes_err_ignored &&
  elastic_rec_info_is_getinfo && elastic_rec_indexes_is_getindexes &&
  elastic_calls_use_rec_host && elastic_calls_use_scan_ctx &&
  String.eqb elastic_rec_scantype "ScanType" && String.eqb elastic_scan_type "elastic" &&
  String.eqb elastic_rec_proto "scanner.proto" &&
  String.eqb elastic_rec_host "fmt.Sprintf('%s:%d',request.DstIP.String(),request.DstPort)" &&
  String.eqb elastic_url_getinfo "fmt.Sprintf('%s://%s/',client.proto,host)" &&
  String.eqb elastic_url_getindexes "fmt.Sprintf('%s://%s/_aliases',client.proto,host)" &&
  String.eqb elastic_get_timeout_from "client.dataTimeout" && elastic_get_timeout_first &&
  String.eqb elastic_get_method "GET" && negb elastic_get_checks_status &&
  (elastic_new_timeout_ns =? elastic_default_timeout_ns) && String.eqb elastic_new_proto_from "proto" &&
  (* docker: one context.WithTimeout(ctx, dataTimeout) taken first and used by both calls; Info fatal,
     ServerVersion best effort; client options: version negotiation, a per-probe copy of the scanner's HTTP client, the
     scanner's scheme, host tcp://ip:port which is also the record's host *)
  docker_info_err_fatal && docker_version_err_ignored &&
  docker_rec_info_is_info && docker_rec_version_is_version &&
  String.eqb docker_rec_scantype "ScanType" && String.eqb docker_scan_type "docker" &&
  String.eqb docker_rec_proto "scanner.proto" &&
  String.eqb docker_rec_host "fmt.Sprintf('tcp://%s:%d',request.DstIP.String(),request.DstPort)" &&
  String.eqb docker_timeout_from "scanner.dataTimeout" && docker_timeout_first && docker_calls_use_timeout_ctx &&
  strs_eqb docker_client_opts
    ["WithAPIVersionNegotiation()"; "WithHTTPClient(copy(scanner.client))"; "WithScheme(scanner.proto)";
     "WithHost(fmt.Sprintf('tcp://%s:%d',request.DstIP.String(),request.DstPort))"]%string &&
  (* moby's options configure the transport they are given from the environment (WithHost -> sockets.ConfigureTransport:
     Proxy := ProxyFromEnvironment, Dial := a dialer from ALL_PROXY).  The client handed to moby is therefore the probe's
     OWN copy of the scanner's http.Client with its OWN clone of the scanner's transport (nothing mutable is shared
     between the probes of different workers), and after the options ran the proxy function and the dialer are taken out
     again, so the probed host is the only host the probe connects to *)
  String.eqb docker_probe_transport "clone(scanner.client.Transport)" &&
  strs_eqb docker_transport_resets ["Dial"; "Proxy"]%string &&
  (docker_new_timeout_ns =? docker_default_timeout_ns) && String.eqb docker_new_proto_from "proto" &&
  (* one Scanner is shared by all workers of the engine: Scan (and elasticClient.Get) neither write to
     their receiver nor hand out pointers into it; the moby client is created inside Scan (docker_client_opts) *)
  strs_eqb elastic_scan_shared_state [] && strs_eqb elastic_get_shared_state [] && strs_eqb docker_scan_shared_state [] &&
  (* the configured timeout is the ONLY time limit of a probe: the http.Client / http.Transport (/ net.Dialer ...)
     literals of both NewScanner functions set no Timeout / ...Timeout / ...Deadline field of their own *)
  strs_eqb elastic_new_literal_timeouts [] && strs_eqb docker_new_literal_timeouts [] &&
  (* CLI: --proto (http or https only, default http) and --timeout go to the scanner *)
  strs_eqb elastic_cli_scanner_args ["opts.proto"; "elastic.WithDataTimeout(opts.timeout)"]%string &&
  strs_eqb docker_cli_scanner_args ["opts.proto"; "docker.WithDataTimeout(opts.timeout)"]%string &&
  String.eqb elastic_cli_timeout_var "opts.timeout" && String.eqb elastic_cli_proto_var "opts.proto" &&
  String.eqb docker_cli_timeout_var "opts.timeout" && String.eqb docker_cli_proto_var "opts.proto" &&
  strs_eqb elastic_cli_protos ["http"; "https"]%string && strs_eqb docker_cli_protos ["http"; "https"]%string &&
  String.eqb elastic_cli_default_proto "http" && String.eqb docker_cli_default_proto "http".

(* ---------------------------------------------------------------- cases *)
Inductive pscript := PElastic (s : escript) | PDocker (s : dscript).

Record case := {
  c_timeout : Z;                       (* milliseconds *)
  c_cancel : option Z;
  c_target : target;
  c_script : pscript;
  c_obs : Z;                           (* observed outcome, coded as [poutcome_code] *)
  c_dur : Z;
  c_slack : Z;
  c_reqs : option (list Z);            (* requests the peer saw, coded as [slot_code]; None: not comparable *)
  c_rec : option target                (* proto/host of the record *)
}.

Definition run_case (c : case) : prun :=
  match c_script c with
  | PElastic s => elastic_scan elastic_rejects_nil_info (c_timeout c) (c_cancel c) (c_target c) s
  | PDocker s => docker_scan (c_timeout c) (c_cancel c) (c_target c) s
  end.

Fixpoint zl_eqb (a b : list Z) : bool :=
  match a, b with
  | [], [] => true
  | x :: a', y :: b' => (x =? y) && zl_eqb a' b'
  | _, _ => false
  end.

Definition target_eqb (a b : target) : bool :=
  match a, b with
  | Target h1 i1 p1, Target h2 i2 p2 => Bool.eqb h1 h2 && zl_eqb i1 i2 && (p1 =? p2)
  end.

(* codes: 1 outcome differs; 2 the record's scheme/address/port differ from the probed target;
   3 the peer saw another request sequence; 4 Scan took longer than the model's logical duration
   plus slack *)
Definition check_case (c : case) : list Z :=
  let r := run_case c in
  (if poutcome_code (p_out r) =? c_obs c then [] else [1]) ++
  (match p_out r, c_rec c with
   | PReport t _ _, Some t' => if target_eqb t t' then [] else [2]
   | _, _ => []
   end) ++
  (match c_reqs c with
   | Some l => if zl_eqb l (map slot_code (p_reqs r)) then [] else [3]
   | None => []
   end) ++
  (if c_dur c <=? p_fin r + c_slack c then [] else [4]).

Fixpoint check_all (i : nat) (cs : list case) : list (nat * list Z) :=
  match cs with
  | [] => []
  | c :: cs' => match check_case c with
                | [] => check_all (S i) cs'
                | codes => (i, codes) :: check_all (S i) cs'
                end
  end.

Definition model_of (c : case) : Z * Z * list Z :=
  let r := run_case c in (poutcome_code (p_out r), p_fin r, map slot_code (p_reqs r)).
