(* C05: the statement of the property as expected decoder views (used by the theorems of
   Properties/C05.v), and the correspondence oracle: one [case] is what the harness observed from a
   real PacketFiller.Fill; [check_case] compares it with the model of Model/Frames.v. *)
From Coq Require Import ZArith List Bool Uint63.
From SX Require Import Base.Bytes Model.FramesBase Model.FramesParse Model.Frames Gen.FrameConsts.
Import ListNotations.
Open Scope Z_scope.

(* ------------------------------------------------------------------ the property, as decoder views *)

(* advertised ranges of the spoofed fields *)
Definition ip_id_ok (id : Z) : bool := (1 <=? id) && (id <=? 65535).
Definition sport_ok (p : Z) : bool := (32768 <=? p) && (p <=? 60999).

(* well-formed requests: what the pipeline hands to Fill (SrcIP is To4()'d, DstIP has 4 bytes or is the
   16-byte form of an IPv4 address, MACs have 6 bytes; without link header the MACs are not read) *)
Definition wf_ip4 (a : list Z) : Prop := length a = 4%nat /\ wf_bytes a = true.
Definition wf_mac (a : list Z) : Prop := length a = 6%nat /\ wf_bytes a = true.

Definition link_view (vpn : bool) (q : request) : option (list Z * list Z * Z) :=
  if vpn then None else Some (q_dst_mac q, q_src_mac q, 2048).

(* the IPv4 header every probe must decode to *)
Definition ip_expected (total_len id flags ttl proto : Z) (src dst : list Z) : ip_view :=
  {| iv_version := 4; iv_ihl := 5; iv_tos := 0; iv_total_len := total_len; iv_id := id; iv_flags := flags;
     iv_frag_off := 0; iv_ttl := ttl; iv_proto := proto; iv_csum_ok := true; iv_src := src; iv_dst := dst;
     iv_options := [] |}.

(* Ethernet padding: a frame shorter than 60 bytes is filled up with zeros *)
Definition eth_padding (vpn : bool) (dgram_len : nat) : list Z :=
  if vpn then [] else repeat 0 (60 - (14 + dgram_len)).

(* what the TCP probe for flag set [fl] must decode to: 20-byte IPv4 header, 32-byte TCP header whose
   data offset (8 words) and the total length (52) say exactly that, checksums valid, the flag set as
   requested, the option block well formed, no payload, no padding (66 >= 60) *)
Definition tcp_probe_view (fl : tcp_flagset) (vpn : bool) (q : request) (src dst : list Z)
    (id sport sq : Z) : probe_view :=
  {| pv_eth := link_view vpn q;
     pv_ip := ip_expected 52 id fc_tcp_ip_flags fc_tcp_ip_ttl 6 src dst;
     pv_l4 := L4tcp {| tv_sport := sport; tv_dport := q_dport q; tv_seq := sq; tv_ack := 0;
                       tv_data_offset := 8; tv_reserved := 0; tv_flags := fl; tv_window := fc_tcp_window;
                       tv_urgent := 0; tv_options := Some [(2, [5; 180]); (4, []); (3, [7])];
                       tv_payload := [] |} true;
     pv_trailer := [] |}.

(* the UDP probe with payload [p] and no override: total length 28 + |p|, UDP length 8 + |p| *)
Definition udp_probe_view (ttl flags : Z) (p : list Z) (vpn : bool) (q : request) (src dst : list Z)
    (id sport : Z) : probe_view :=
  let n := Z.of_nat (length p) in
  {| pv_eth := link_view vpn q;
     pv_ip := ip_expected (28 + n) id flags ttl 17 src dst;
     pv_l4 := L4udp {| uv_sport := sport; uv_dport := q_dport q; uv_length := 8 + n; uv_payload := p;
                       uv_after := [] |} true;
     pv_trailer := eth_padding vpn (28 + length p) |}.

(* the ICMP probe with payload [p] and no override *)
Definition icmp_probe_view (ttl flags typ code : Z) (p : list Z) (vpn : bool) (q : request)
    (src dst : list Z) (id icmpid : Z) : probe_view :=
  {| pv_eth := link_view vpn q;
     pv_ip := ip_expected (28 + Z.of_nat (length p)) id flags ttl 1 src dst;
     pv_l4 := L4icmp {| cv_type := typ; cv_code := code; cv_csum_ok := true; cv_id := icmpid; cv_seq := fc_icmp_seq;
                        cv_payload := p |};
     pv_trailer := eth_padding vpn (28 + length p) |}.

(* with or without overrides: the IPv4 header carries an explicit total length / protocol verbatim *)
Definition ip_with_overrides (o : ip_opts) (natural_len id : Z) (src dst : list Z) : ip_view :=
  ip_expected (if o_len o =? 0 then natural_len else o_len o) id (o_flags o) (o_ttl o) (o_proto o) src dst.

(* the ARP request *)
Definition arp_request_view (q : request) (target : list Z) : arp_view :=
  {| av_htype := 1; av_ptype := 2048; av_hlen := 6; av_plen := 4; av_oper := 1;
     av_sha := q_src_mac q; av_spa := q_src_ip q; av_tha := fc_arp_target_hw; av_tpa := target;
     av_after := repeat 0 18 |}.

(* ------------------------------------------------------------------ the correspondence oracle *)

Record case := {
  c_kind : Z;                 (* 0 tcp, 1 udp, 2 icmp, 3 arp *)
  c_cli : bool;               (* options went through the command line plumbing *)
  c_vpn : bool;
  c_flags : Z;                (* tcp flag set number *)
  c_ttl : Z; c_iplen : Z; c_proto : Z; c_ipflags : Z; c_typ : Z; c_code : Z;   (* -1: option not given *)
  c_has_payload : bool; c_payload : packed;
  c_src_ip : packed; c_dst_ip : packed; c_src_mac : packed; c_dst_mac : packed;
  c_dport : Z;
  c_err : bool; c_frame : packed;
  c_predicted : bool;         (* the predicted draws below are meaningful *)
  c_d_id : Z; c_d_sport : Z; c_d_seq : Z; c_d_icmpid : Z; c_d_payload : packed }.

Definition pick (v api_default cli_default : Z) (cli : bool) : Z :=
  if v <? 0 then (if cli then cli_default else api_default) else v.

Definition udp_opts_of (c : case) : ip_opts :=
  {| o_ttl := pick (c_ttl c) fc_udp_default_ttl fc_udp_cli_default_ttl (c_cli c);
     o_len := pick (c_iplen c) 0 fc_udp_cli_default_iplen (c_cli c);
     o_proto := pick (c_proto c) fc_udp_default_proto fc_udp_cli_default_ipproto (c_cli c);
     o_flags := pick (c_ipflags c) fc_udp_default_flags fc_udp_cli_default_ipflags (c_cli c);
     o_vpn := c_vpn c |}.

Definition icmp_opts_of (c : case) : ip_opts :=
  {| o_ttl := pick (c_ttl c) fc_icmp_default_ttl fc_icmp_cli_default_ttl (c_cli c);
     o_len := pick (c_iplen c) 0 fc_icmp_cli_default_iplen (c_cli c);
     o_proto := pick (c_proto c) fc_icmp_default_proto fc_icmp_cli_default_ipproto (c_cli c);
     o_flags := pick (c_ipflags c) fc_icmp_default_flags fc_icmp_cli_default_ipflags (c_cli c);
     o_vpn := c_vpn c |}.

Definition request_of (c : case) : request :=
  {| q_src_ip := unpack (c_src_ip c); q_dst_ip := unpack (c_dst_ip c); q_src_mac := unpack (c_src_mac c);
     q_dst_mac := unpack (c_dst_mac c); q_dport := c_dport c |}.

Definition opt_eqb (a : option (list Z)) (b : list Z) : bool :=
  match a with Some x => bytes_eqb x b | None => false end.

(* codes:
     1  Fill returned an error where the model builds a frame, or the other way round
     2  the frame differs from the model's frame for the same options, request and spoofed fields
     3  the frame is too short to carry the spoofed fields
    10  IPv4 id outside 1..65535        11  source port outside 32768..60999
    12  ICMP id outside 1..65535        13  default ICMP payload is not the advertised number of bytes
   100  (informational) the spoofed fields are not what the model derives from the predicted draws *)
Definition check_case (c : case) : list Z :=
  let q := request_of c in
  let f := unpack (c_frame c) in
  let L := if c_vpn c then 0%nat else 14%nat in
  let id := word_at f (L + 4) in
  let fl := flagset_of_Z (c_flags c) in
  let range (b : bool) (code : Z) := if b then [] else [code] in
  let same (m : option (list Z)) := if opt_eqb m f then [] else [2] in
  if c_kind c =? 3 then
    match arp_frame q, c_err c with
    | None, true => []
    | Some m, false => if bytes_eqb m f then [] else [2]
    | _, _ => [1]
    end
  else
  let model_err :=
    match (if c_kind c =? 0 then tcp_frame_with fl (c_vpn c) q 1 32768 0
           else if c_kind c =? 1 then udp_frame_with (udp_opts_of c) [] q 1 32768
           else icmp_frame_with (icmp_opts_of c) 0 0 [] q 1 1) with
    | None => true | Some _ => false end in
  if c_err c then (if model_err then [] else [1])
  else if model_err then [1]
  else if (length f <? L + 28)%nat then [3]
  else if c_kind c =? 0 then
    let sport := word_at f (L + 20) in
    let sq := dword_at f (L + 24) in
    same (tcp_frame_with fl (c_vpn c) q id sport sq) ++ range (ip_id_ok id) 10 ++ range (sport_ok sport) 11 ++
    (if c_predicted c then
       let r := {| d_id := c_d_id c; d_sport := c_d_sport c; d_seq := c_d_seq c; d_icmp_id := 0; d_payload := [] |} in
       if opt_eqb (tcp_frame fl (c_vpn c) q r) f then [] else [100]
     else [])
  else if c_kind c =? 1 then
    let sport := word_at f (L + 20) in
    let pl := unpack (c_payload c) in
    same (udp_frame_with (udp_opts_of c) pl q id sport) ++ range (ip_id_ok id) 10 ++ range (sport_ok sport) 11 ++
    (if c_predicted c then
       let r := {| d_id := c_d_id c; d_sport := c_d_sport c; d_seq := 0; d_icmp_id := 0; d_payload := [] |} in
       if opt_eqb (udp_frame (udp_opts_of c) pl q r) f then [] else [100]
     else [])
  else
    let icmpid := word_at f (L + 24) in
    let dflt := skipn (L + 28) f in
    let dflt := if c_vpn c then dflt else firstn (Z.to_nat fc_icmp_default_payload_len) dflt in
    let pl := if c_has_payload c then unpack (c_payload c) else dflt in
    let typ := pick (c_typ c) fc_icmp_default_type fc_icmp_cli_default_type (c_cli c) in
    let code := pick (c_code c) fc_icmp_default_code fc_icmp_cli_default_code (c_cli c) in
    same (icmp_frame_with (icmp_opts_of c) typ code pl q id icmpid) ++ range (ip_id_ok id) 10 ++
    range (ip_id_ok icmpid) 12 ++
    range (c_has_payload c || (Z.of_nat (length dflt) =? 48)) 13 ++
    (if c_predicted c then
       let r := {| d_id := c_d_id c; d_sport := 0; d_seq := 0; d_icmp_id := c_d_icmpid c;
                   d_payload := unpack (c_d_payload c) |} in
       if opt_eqb (icmp_frame (icmp_opts_of c) typ code (if c_has_payload c then Some pl else None) q r) f
       then [] else [100]
     else []).

Fixpoint check_all (i : nat) (cs : list case) : list (nat * list Z) :=
  match cs with
  | [] => []
  | c :: cs' => match check_case c with
                | [] => check_all (S i) cs'
                | codes => (i, codes) :: check_all (S i) cs'
                end
  end.
