(* Correspondence oracle for C04: one [case] is what the harness observed from the real
   newRangeIterator; [check_case] returns the codes of everything that disagrees with the model. *)
From Coq Require Import ZArith List Bool.
From SX Require Import Base.Loop Model.RangeIter Gen.GroupsTable.
Import ListNotations.
Open Scope Z_scope.

Record case := {
  cn : Z; cr1 : Z; cr2 : Z; ck : positive;
  cerr : Z;                    (* 0 none, 1 RangeSize, 2 InvalidGroup *)
  cP : Z; cG : Z; cS : Z;      (* it.P, it.G, it.startI after construction *)
  couts : list Z; ccomplete : bool }.

(* prime factors of P-1 per row, computed once *)
Definition qs_table : list (Z * list Z) :=
  Eval vm_compute in map (fun r => (rowP r, factorize 64 (rowP r - 1))) cyclic_groups.

Fixpoint lookup_qs (p : Z) (t : list (Z * list Z)) : option (list Z) :=
  match t with
  | [] => None
  | (p', qs) :: t' => if p =? p' then Some qs else lookup_qs p t'
  end.

Definition is_generator_b (p : Z) (qs : list Z) (g : Z) : bool :=
  (powm g (p - 1) p =? 1) && forallb (fun q => negb (powm g ((p - 1) / q) p =? 1)) qs.

Definition err_code (r : result iter) : Z :=
  match r with Ok _ => 0 | Err RangeSize => 1 | Err InvalidGroup => 2 | Err OutOfFuel => 3 end.

Fixpoint list_eqb (a b : list Z) : bool :=
  match a, b with
  | [], [] => true
  | x :: a', y :: b' => (x =? y) && list_eqb a' b'
  | _, _ => false
  end.

Definition outputs_eqb (o : outputs) (complete : bool) (l : list Z) : bool :=
  match o with
  | Complete l' => complete && list_eqb l l'
  | Prefix l' => negb complete && list_eqb l l'
  | Stuck => false
  end.

(* codes: 1 error kind differs; 2 group differs from sort.Search on the table; 3 the generator the
   code chose is not a generator; 4 start outside 1..n; 5 outputs differ from the model's walk
   from the code's own generator and start; 100 (informational) the code spent its random draws
   differently from the model *)
Definition check_case (c : case) : list Z :=
  let m := new_iter cyclic_groups (cn c) (cr1 c) (cr2 c) in
  if negb (err_code m =? cerr c) then [1]
  else if negb (cerr c =? 0) then []
  else
    match search cyclic_groups (cn c) with
    | None => [2]
    | Some r =>
        if negb (rowP r =? cP c) then [2] else
        match lookup_qs (cP c) qs_table with
        | None => [2]
        | Some qs =>
            if negb (is_generator_b (cP c) qs (cG c)) then [3]
            else if negb ((1 <=? cS c) && (cS c <=? cn c)) then [4]
            else
              let it := {| itP := cP c; itG := cG c; itI := cS c; itStart := cS c;
                           itLim := cn c; itStop := false |} in
              (if outputs_eqb (collect (ck c) it) (ccomplete c) (couts c) then [] else [5])
              ++ match m with
                 | Ok mi => if (itG mi =? cG c) && (itStart mi =? cS c) then [] else [100]
                 | Err _ => []
                 end
        end
    end.

Fixpoint check_all (i : nat) (cs : list case) : list (nat * list Z) :=
  match cs with
  | [] => []
  | c :: cs' => match check_case c with
                | [] => check_all (S i) cs'
                | codes => (i, codes) :: check_all (S i) cs'
                end
  end.

(* which rows of the table fail the certificate (used by the failing-input search) *)
Definition bad_rows : list (Z * Z * Z) := filter (fun r => negb (check_row r)) cyclic_groups.
