(* Correspondence oracle for C08: a complete run of the REAL application-scan path (GenericEngine,
   ResultChan, logger, startScanEngine) against the terminal state of the model network executed by
   the deterministic scheduler on the same script. *)
From stdpp Require Import list.
From SX Require Import Base.Net Base.NetExec Model.AppEngine.

Record case := {
  cW : nat; ccap : nat;
  creqs : list (nat * bool);      (* id, carries an error *)
  couts : list nat;               (* Scan outcome of request id = position: 0 pos, 1 neg, 2 fail *)
  cscans : list nat;              (* ids for which Scan was called, sorted *)
  cprinted : list nat;            (* ids printed, sorted *)
  cerrs : list nat }.             (* ids of logged errors, sorted *)

Definition out_of (l : list nat) (id : nat) : scan_res :=
  match nth id l 1 with 0 => SPos | 1 => SNeg | _ => SFail end.

(* scheduling policy of the reference run: the request source's input never stalls *)
Definition no_stall (l : loc) : bool := match l with Src _ => true | _ => false end.

Definition final (c : case) : net val loc ev :=
  let len := length (creqs c) in
  exec (beh (cW c) (out_of (couts c))) (fun _ => 0) no_stall
       (rounds (8 * len + 40 + 2 * cW c) (cW c + 6)) (init (cW c) (ccap c) (creqs c)).

Definition scan_ids (l : list ev) : list nat := omap (fun e => match e with EScan id => Some id | _ => None end) l.
Definition print_ids (l : list ev) : list nat := omap (fun e => match e with EPrint (VRes id) => Some id | _ => None end) l.
Definition err_ids (l : list ev) : list nat := omap (fun e => match e with EErrLog (VErr id) => Some id | _ => None end) l.

Definition sorted_of (len : nat) (ids : list nat) : list nat :=
  filter (fun id => bool_decide (id ∈ ids)) (seq 0 len).
Definition same (len : nat) (model obs : list nat) : bool :=
  bool_decide (sorted_of len model = obs) && bool_decide (length model = length obs).

Definition at_rest (n : net val loc ev) : bool :=
  forallb (fun ch => match cbuf ch with [] => true | _ => false end) (chans n) &&
  forallb (fun l => match l with End _ | CIdle | LIdle | MWait => true | _ => false end) (procs n).

(* codes: 1 Scan calls differ, 2 printed results differ, 3 logged errors differ,
   4 (harness) model schedule too short, 5 the model run panicked or was cancelled *)
Definition check_case (c : case) : list nat :=
  let n := final c in
  let len := length (creqs c) in
  (if at_rest n then [] else [4]) ++
  (if panicked n || cancelled n then [5] else []) ++
  (if same len (scan_ids (log n)) (cscans c) then [] else [1]) ++
  (if same len (print_ids (log n)) (cprinted c) then [] else [2]) ++
  (if same len (err_ids (log n)) (cerrs c) then [] else [3]).

Fixpoint check_all (i : nat) (cs : list case) : list (nat * list nat) :=
  match cs with
  | [] => []
  | c :: cs' => match check_case c with
                | [] => check_all (S i) cs'
                | codes => (i, codes) :: check_all (S i) cs'
                end
  end.
