(* Correspondence oracle for C07: a complete run of the REAL packet engine (N workers, scripted
   requests and Fill/Write outcomes) against the terminal state of the model network executed by
   the deterministic scheduler of Base/NetExec.v on the same script. *)
From stdpp Require Import list.
From SX Require Import Base.Net Base.NetExec Model.Pipeline.

Record case := {
  cN : nat; ccap : nat;
  creqs : list (nat * bool);          (* id, carries an error *)
  cfill : list bool; cwrite : list bool;   (* outcome of Fill / Write for request id = position *)
  cwire : list nat;                   (* ids handed to the wire, sorted *)
  cerrs : list nat;                   (* ids reported on the error stream, sorted *)
  cfillcalls : nat }.

Definition fn_of (l : list bool) (id : nat) : bool := nth id l false.

(* scheduling policy of the reference run: the request source's input never stalls *)
Definition no_stall (l : loc) : bool := match l with Src _ => true | _ => false end.

Definition final (c : case) : net val loc ev :=
  let len := length (creqs c) in
  exec (beh (cN c) (fn_of (cfill c)) (fn_of (cwrite c))) (fun _ => 0) no_stall
       (rounds (8 * len + 40 + 4 * cN c) (2 * cN c + 8)) (init (cN c) (ccap c) (creqs c)).

Definition wire_ids (l : list ev) : list nat := omap (fun e => match e with EWire id => Some id | _ => None end) l.
Definition err_ids (l : list ev) : list nat :=
  omap (fun e => match e with EErrOut (VErr id) => Some id | _ => None end) l.
Definition fill_count (l : list ev) : nat := length (omap (fun e => match e with EFill id => Some id | _ => None end) l).

Definition sorted_of (len : nat) (ids : list nat) : list nat :=
  filter (fun id => bool_decide (id ∈ ids)) (seq 0 len).

Definition upstream_quiet (n : net val loc ev) : bool :=
  forallb (fun ch => match cbuf ch with [] => true | _ => false end) (chans n) &&
  forallb (fun l => match l with End _ | RLoop | RRead | EIdle _ | ECWait | DIdle => true | _ => false end) (procs n).

(* codes: 1 wire multiset differs, 2 error multiset differs, 3 number of Fill calls differs,
   4 the model run did not come to rest (schedule too short: a harness problem, not a verdict),
   5 the model panicked or was cancelled *)
Definition check_case (c : case) : list nat :=
  let n := final c in
  let len := length (creqs c) in
  (if upstream_quiet n then [] else [4]) ++
  (if panicked n || cancelled n then [5] else []) ++
  (if bool_decide (sorted_of len (wire_ids (log n)) = cwire c) && bool_decide (length (wire_ids (log n)) = length (cwire c)) then [] else [1]) ++
  (if bool_decide (sorted_of len (err_ids (log n)) = cerrs c) && bool_decide (length (err_ids (log n)) = length (cerrs c)) then [] else [2]) ++
  (if bool_decide (fill_count (log n) = cfillcalls c) then [] else [3]).

Fixpoint check_all (i : nat) (cs : list case) : list (nat * list nat) :=
  match cs with
  | [] => []
  | c :: cs' => match check_case c with
                | [] => check_all (S i) cs'
                | codes => (i, codes) :: check_all (S i) cs'
                end
  end.
