(* Correspondence oracle for C06: one [case] is a sequence of frames fed to one real processor
   (ProcessPacketData of pkg/scan/tcp, icmp, arp) together with what the harness observed per frame;
   [check_case] runs the model on the same frames and returns the model's outcomes when they differ.

   Observations and model outcomes are compared in a normal form [nf] = (kind, numbers, byte strings):
     (0, [], [])                          no record, nil error
     (1, [10; port], [ip; flagletters])   one tcp record
     (1, [11; ttl; type; code], [ip])     one icmp record
     (1, [12; v], [ip; mac])              one arp record; v = 1 vendor is the vendor of the MAC's first
                                          three bytes, 0 it is not, 2 MAC shorter than 3 bytes
     (2, [class], [])                     error of that class
     (3, [], [])                          panic outside gopacket's recover
   IP addresses are compared as the harness recovers them from net.IP.String (a 16-byte v4-mapped
   address prints as dotted quad: [canon_ip]). *)
From Coq Require Import ZArith List Bool.
From SX Require Import Base.Bytes Model.Decode Model.Process Gen.ValidPacket.
Import ListNotations.
Open Scope Z_scope.

(* ------------------------------------------------------------------ the property's vocabulary *)
(* "a well-formed header chain of the scanned protocol", written from the header layouts (RFC 894,
   791, 793, 792, 826), not from the decoders.  [p] = the bytes from the start of the IPv4 header
   to the end of the frame, [s] = the IPv4 payload.  The IP version nibble is not examined (neither
   gopacket nor the capture filter examine it); header checksums are not examined either. *)
Definition eth_header (ty : Z) (f : bytes) : bool :=
  (14 <=? Zlength f) && (be16 (byte_at 12 f) (byte_at 13 f) =? ty).

Definition ip_ihl (p : bytes) : Z := byte_at 0 p mod 16.
(* total length; 0 (segmentation offload) means "the captured length" *)
Definition ip_total (p : bytes) : Z :=
  let l := be16 (byte_at 2 p) (byte_at 3 p) in if l =? 0 then Zlength p mod 65536 else l.
Definition ip_unfragmented (p : bytes) : bool :=
  let ff := be16 (byte_at 6 p) (byte_at 7 p) in ((ff / 8192) mod 2 =? 0) && (ff mod 8192 =? 0).
(* header of at least 20 bytes, IHL >= 5, header inside the total length and inside the frame,
   not a fragment, carrying the given protocol *)
Definition ipv4_header (proto : Z) (p : bytes) : bool :=
  (20 <=? Zlength p) && (5 <=? ip_ihl p) && (ip_ihl p * 4 <=? ip_total p)
  && (ip_ihl p * 4 <=? Zlength p) && ip_unfragmented p && (byte_at 9 p =? proto).
(* the IPv4 payload: after the header, up to the total length or the end of the frame *)
Definition ip_body (p : bytes) : bytes :=
  drop (ip_ihl p * 4) (if ip_total p <? Zlength p then take (ip_total p) p else p).

Definition tcp_header (s : bytes) : bool :=
  let off := (byte_at 12 s / 16) mod 16 in
  (20 <=? Zlength s) && (5 <=? off) && (off * 4 <=? Zlength s).
Definition icmp_header (s : bytes) : bool := 8 <=? Zlength s.
(* ARP body with 6-byte hardware and 4-byte protocol addresses: 8 + 2*6 + 2*4 = 28 bytes *)
Definition arp_6_4 (a : bytes) : bool :=
  (28 <=? Zlength a) && (byte_at 4 a =? 6) && (byte_at 5 a =? 4).

Definition l3 (k : kind) (vpn : bool) (f : bytes) : bytes :=
  match k with
  | KArp => drop 14 f
  | _ => if vpn then f else drop 14 f
  end.

Definition has_chain (k : kind) (vpn : bool) (f : bytes) : bool :=
  match k with
  | KTcp _ _ => (vpn || eth_header 2048 f) && ipv4_header 6 (l3 k vpn f) && tcp_header (ip_body (l3 k vpn f))
  | KIcmp => (vpn || eth_header 2048 f) && ipv4_header 1 (l3 k vpn f) && icmp_header (ip_body (l3 k vpn f))
  | KArp => eth_header 2054 f && arp_6_4 (drop 14 f)
  end.

(* the record a frame with such a chain stands for: every field read off the frame itself *)
Definition fields_of (k : kind) (vpn : bool) (f : bytes) : record :=
  let p := l3 k vpn f in
  let s := ip_body p in
  match k with
  | KTcp _ allflags =>
      RTcp (take 4 (drop 12 p)) (be16 (byte_at 0 s) (byte_at 1 s))
           (if allflags then flag_letters ((byte_at 12 s mod 2) * 256 + byte_at 13 s) else [])
  | KIcmp => RIcmp (take 4 (drop 12 p)) (byte_at 8 p) (byte_at 0 s) (byte_at 1 s)
  | KArp => RArp (take 4 (drop 14 p)) (take 6 (drop 8 p)) (take 3 (drop 8 p))
  end.

(* the validity test of the CURRENT sources, translated by tools/gen/validpacket.go *)
Definition code_valid (k : kind) : validity :=
  match k with
  | KTcp _ _ => tcp_valid_packet
  | KIcmp => icmp_valid_packet
  | KArp => arp_valid_packet
  end.

(* the decoders the CURRENT sources hand to NewDecodingLayerParser, and IgnoreUnsupported *)
Definition code_decoders (k : kind) : list ltype :=
  match k with KTcp _ _ => tcp_decoders | KIcmp => icmp_decoders | KArp => arp_decoders end.
Definition code_ignore_unsupported : bool :=
  tcp_ignore_unsupported && icmp_ignore_unsupported && arp_ignore_unsupported.

(* ------------------------------------------------------------------ correspondence oracle *)
Definition nf := (Z * list Z * list bytes)%type.

Definition canon_ip (ip : bytes) : bytes :=
  if (Zlength ip =? 16) && bytes_eqb (take 12 ip) [0; 0; 0; 0; 0; 0; 0; 0; 0; 0; 255; 255]
  then drop 12 ip else ip.

Definition nf_of (o : outcome) : nf :=
  match o with
  | ONone => (0, [], [])
  | OError e => (2, [derr_code e], [])
  | OCrash => (3, [], [])
  | ORecord (RTcp ip port fl) => (1, [10; port], [canon_ip ip; fl])
  | ORecord (RIcmp ip ttl ty code) => (1, [11; ttl; ty; code], [canon_ip ip])
  | ORecord (RArp ip mac pfx) =>
      (1, [12; if Zlength mac <? 3 then 2 else if bytes_eqb pfx (take 3 mac) then 1 else 0],
       [canon_ip ip; mac])
  end.

Fixpoint bytes_list_eqb (a b : list bytes) : bool :=
  match a, b with
  | [], [] => true
  | x :: a', y :: b' => bytes_eqb x y && bytes_list_eqb a' b'
  | _, _ => false
  end.

Definition nf_eqb (a b : nf) : bool :=
  let '(ka, ia, sa) := a in
  let '(kb, ib, sb) := b in
  (ka =? kb) && bytes_eqb ia ib && bytes_list_eqb sa sb.

Fixpoint nfs_eqb (a b : list nf) : bool :=
  match a, b with
  | [], [] => true
  | x :: a', y :: b' => nf_eqb x y && nfs_eqb a' b'
  | _, _ => false
  end.

Definition kind_of (c : Z) : kind :=
  if c =? 0 then KTcp pf_true true         (* TrueFilter + AllFlags: tcp flags/fin/null/xmas scans *)
  else if c =? 1 then KTcp pf_syn_ack false (* SYN&&ACK + EmptyFlags: the harness's copy of the SYN wiring *)
  else if c =? 2 then KIcmp
  else KArp.

Record case := { c_kind : Z; c_vpn : bool; c_frames : list packed; c_obs : list nf }.

Definition model_obs (valid : kind -> validity) (c : case) : list nf :=
  let k := kind_of (c_kind c) in
  map nf_of (run k (c_vpn c) (valid k) init_state (map unpack (c_frames c))).

Fixpoint check_all (valid : kind -> validity) (i : nat) (cs : list case) : list (nat * list nf) :=
  match cs with
  | [] => []
  | c :: cs' =>
      let m := model_obs valid c in
      if nfs_eqb m (c_obs c) then check_all valid (S i) cs'
      else (i, m) :: check_all valid (S i) cs'
  end.

(* number of outcomes the model produced over all cases (checked against the harness's count) *)
Definition total_outcomes (valid : kind -> validity) (cs : list case) : nat :=
  fold_left (fun a c => (a + length (model_obs valid c))%nat) cs O.
