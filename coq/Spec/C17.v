(* Correspondence oracle for C17.  One [case] = the host configuration as the kernel reported it to
   the harness (net.Interfaces / Addrs / netlink.RouteList order), a target, the three override
   flags, and what the REAL option code decided; [check_case] returns the codes of everything that
   disagrees with the model of Model/Iface.v. *)
From Coq Require Import ZArith List Bool String.
From SX Require Import Model.Iface.
Import ListNotations.
Open Scope Z_scope.

Record case := {
  c_cfg : config;
  c_entry : Z;                 (* 0 getScanRange (packetScanCmdOpts); 1 ipScanCmdOpts.parseOptions;
                                  2 the arp command itself, 3 the icmp command itself: error class, and for
                                  accepted runs the interface the probes left through and the source they
                                  carried, as seen on the virtual wire (vpn = raw IP read from a tun device) *)
  c_txt : option target_text;  (* what net.ParseCIDR / netip.ParseAddr make of the positional argument (the
                                  harness calls them itself); None: no argument (targets from a file) *)
  c_target : option target;    (* what the real ip.ParseIPNet returned for it; None: no argument, or refused *)
  c_refused : bool;            (* the real ip.ParseIPNet refused the argument *)
  c_ov : overrides;
  c_err : Z;                   (* 0 none, 1 errSrcInterface, 2 errSrcIP, 3 errSrcMAC, 4 ip.ErrInvalidAddr (target
                                  refused), 9 any other error *)
  c_ifindex : Z;
  c_ifname : string;
  c_srcip : option ip;         (* None = nil SrcIP *)
  c_srcmac : option ip;        (* None = nil SrcMAC *)
  c_vpn : bool;
  c_gwmac : option ip }.       (* entry 1: gatewayMAC found in the synthetic ARP cache (02:00:<gateway IPv4>) *)

Definition err_code (e : error) : Z :=
  match e with
  | ErrSrcInterface => 1
  | ErrSrcIP => 2
  | ErrSrcMAC => 3
  | ErrTarget => 4
  | _ => 9
  end.

Definition opt_bytes_eqb (a b : option ip) : bool :=
  match a, b with
  | None, None => true
  | Some x, Some y => bytes_eqb x y
  | _, _ => false
  end.

(* the synthetic ARP cache maps every IPv4 gateway g to the MAC 02:00:g *)
Definition gw_mac (g : ip) : option ip :=
  match g with
  | [] => None
  | _ => match to4 g with Some g4 => Some (2 :: 0 :: g4) | None => None end
  end.

Definition target_eqb (a b : target) : bool :=
  bytes_eqb (t_ip a) (t_ip b) && bytes_eqb (t_mask a) (t_mask b).

(* the model of ParseIPNet's decision agrees with the real ParseIPNet on this argument *)
Definition parse_agrees (c : case) : bool :=
  match c_txt c with
  | None => negb (c_refused c) && match c_target c with None => true | Some _ => false end
  | Some x =>
      match parse_ipnet x with
      | Err _ => c_refused c
      | Ok t => negb (c_refused c) && match c_target c with Some t' => target_eqb t t' | None => false end
      end
  end.

(* codes: 1 error class differs; 2 interface differs; 3 source IP differs; 4 source MAC differs;
   5 vpn flag differs; 6 gateway differs; 7 ParseIPNet accepts/refuses/returns something else than
   the model of it *)
Definition check_case (c : case) : list Z :=
  let m := if (c_entry c =? 0) || (c_entry c =? 2) then
             (if c_entry c =? 2 then run_arp (c_cfg c) (c_txt c) (c_ov c)
              else (* the hook parses the target first, like the arp command, but has no errSrcMAC test *)
                match c_txt c with
                | Some x => match parse_ipnet x with Err e => Err e | Ok t => choose (c_cfg c) (Some t) (c_ov c) end
                | None => choose (c_cfg c) None (c_ov c)
                end)
           else run (c_cfg c) (c_txt c) (c_ov c) in
  (if parse_agrees c then [] else [7]) ++
  match m with
  | Err e => if err_code e =? c_err c then [] else [1]
  | Ok o =>
      if negb (c_err c =? 0) then [1]
      else
        (if (if_index (o_iface o) =? c_ifindex c) && String.eqb (if_name (o_iface o)) (c_ifname c) then [] else [2])
        ++ (if opt_bytes_eqb (o_srcip o) (c_srcip c) then [] else [3])
        ++ (if opt_bytes_eqb (o_srcmac o) (c_srcmac c) then [] else [4])
        ++ (if (c_entry c =? 1) || (c_entry c =? 3) then
              (if Bool.eqb (o_vpn o) (c_vpn c) then [] else [5])
            else [])
        ++ (if c_entry c =? 1 then
              (if o_vpn o then []
               else match gateway_of (c_cfg c) o with
                    | Ok g => if opt_bytes_eqb (gw_mac g) (c_gwmac c) then [] else [6]
                    | Err _ => [6]
                    end)
            else [])
  end.

Fixpoint check_all (i : nat) (cs : list case) : list (nat * list Z) :=
  match cs with
  | [] => []
  | c :: cs' => match check_case c with
                | [] => check_all (S i) cs'
                | codes => (i, codes) :: check_all (S i) cs'
                end
  end.

(* what the code as it was found (no IPv4 check on the source) would decide: used only to label a
   disagreement as the known defect class in reports *)
Definition orig_srcip_nil (c : case) : bool :=
  match choose_orig (c_cfg c) (c_target c) (c_ov c) with
  | Ok o => match o_srcip o with None => true | Some _ => false end
  | Err _ => false
  end.
