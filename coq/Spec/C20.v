(* C20: (a) the declarative vocabulary the theorems of Properties/C20.v are stated in; (b) the
   correspondence oracle: one [case] is what the harness observed from the real packet.NewReceiver
   driven by scripted Reader/Processor mocks; [check_case] returns the codes of everything that
   disagrees with the model. *)
From Coq Require Import List String Ascii Bool Arith ZArith Uint63.
From SX Require Import Base.Bytes Gen.ReceiverTable Model.Receiver.
Import ListNotations.

(* ---------------------------------------------------------------- (a) specification vocabulary *)

Definition step_frames (st : step) : list nat :=
  match st with SFrame id _ => [id] | SErr _ => [] end.

(* ids of the frames of a script, in order *)
Definition frames_of (s : list step) : list nat := flat_map step_frames s.

(* what step number i must put on the error channel: an unknown read error, a processor error *)
Definition step_reports (i : nat) (st : step) : list report :=
  match st with
  | SErr e => match classify e with Unknown => [RRead i e] | _ => [] end
  | SFrame id (Some e) => [RProc id e]
  | SFrame _ None => []
  end.

Fixpoint reports_from (i : nat) (s : list step) : list report :=
  match s with
  | [] => []
  | st :: s' => step_reports i st ++ reports_from (S i) s'
  end.

Definition is_unrec_step (st : step) : bool :=
  match st with
  | SErr e => match classify e with Unrecoverable => true | _ => false end
  | SFrame _ _ => false
  end.

Definition is_transient_step (st : step) : bool :=
  match st with
  | SErr e => match classify e with Transient => true | _ => false end
  | SFrame _ _ => false
  end.

(* number of read calls an uncancelled, never blocked receiver makes on a script: everything up to
   and including the first unrecoverable error *)
Fixpoint consumed (s : list step) : nat :=
  match s with
  | [] => 0
  | st :: s' => if is_unrec_step st then 1 else S (consumed s')
  end.

(* the error of a report without the position of the read call *)
Definition report_key (r : report) : option nat * err_val :=
  match r with RRead _ e => (None, e) | RProc id e => (Some id, e) end.

(* ---------------------------------------------------------------- (b) correspondence oracle *)

Local Open Scope Z_scope.

Definition string_bytes (s : string) : list Z :=
  map (fun a => Z.of_nat (nat_of_ascii a)) (list_ascii_of_string s).

(* what the harness measured on the REAL error value it built for an alphabet entry *)
Record errattr := {
  ea_err : err_val;
  ea_text : packed;           (* err.Error() *)
  ea_neterr : bool;           (* err.(net.Error) ok *)
  ea_timeout : bool;          (* ok && Timeout() *)
  ea_is : list bool;          (* errors.Is(err, v) for every package-level value v of [names] *)
  ea_eq : list bool }.        (* err == v *)

Fixpoint bools_eqb (a b : list bool) : bool :=
  match a, b with
  | [], [] => true
  | x :: a', y :: b' => Bool.eqb x y && bools_eqb a' b'
  | _, _ => false
  end.

(* codes: 11 text, 12 net.Error-ness, 13 Timeout, 14 errors.Is, 15 == *)
Definition check_attr (names : list string) (a : errattr) : list Z :=
  let e := ea_err a in
  (if bytes_eqb (string_bytes (err_text e)) (unpack (ea_text a)) then [] else [11])
  ++ (if Bool.eqb (is_neterr e) (ea_neterr a) then [] else [12])
  ++ (if Bool.eqb (is_neterr e && timeout_m e) (ea_timeout a) then [] else [13])
  ++ (if bools_eqb (map (errors_is e) names) (ea_is a) then [] else [14])
  ++ (if bools_eqb (map (err_eq_sent e) names) (ea_eq a) then [] else [15]).

Fixpoint check_alpha (names : list string) (i : nat) (l : list errattr) : list (nat * list Z) :=
  match l with
  | [] => []
  | a :: l' => match check_attr names a with
               | [] => check_alpha names (S i) l'
               | codes => (i, codes) :: check_alpha names (S i) l'
               end
  end.

Record case := {
  c_script : packed;     (* one byte per read call: 0 frame, processor ok; 64+j frame, processor
                            returns alphabet entry j; 128+j the read returns alphabet entry j *)
  c_drained : bool;      (* the harness received from the error channel all the time *)
  c_cancel : Z;          (* -2 never cancelled before the channel closed; -1 cancelled before
                            ReceivePackets; k >= 0 cancelled during read call k *)
  c_frames : packed;     (* ids (= script positions) the Processor saw, 2 bytes big endian each *)
  c_errs : packed;       (* errors received: 2*position + (0 read error | 1 processor error) *)
  c_reads : Z;           (* read calls made *)
  c_closed : bool }.     (* the error channel was closed *)

Fixpoint decode_script (alpha : list err_val) (i : nat) (bs : list Z) : list step :=
  match bs with
  | [] => []
  | b :: bs' =>
      let j := Z.to_nat (b mod 64) in
      let e := nth j alpha (ENew "?") in
      (if b <? 64 then SFrame i None else if b <? 128 then SFrame i (Some e) else SErr e)
      :: decode_script alpha (S i) bs'
  end.

Fixpoint u16s (bs : list Z) : list Z :=
  match bs with
  | hi :: lo :: bs' => (hi * 256 + lo) :: u16s bs'
  | _ => []
  end.

Definition report_code (r : report) : Z :=
  match r with
  | RRead pos _ => 2 * Z.of_nat pos
  | RProc id _ => 2 * Z.of_nat id + 1
  end.

Definition cancel_of (z : Z) : cancel :=
  if z =? -2 then NoCancel else if z <? 0 then PreCancel else CancelDuring (Z.to_nat z).

Fixpoint zlist_eqb (a b : list Z) : bool :=
  match a, b with
  | [], [] => true
  | x :: a', y :: b' => (x =? y) && zlist_eqb a' b'
  | _, _ => false
  end.

Definition final_closed (f : final) : bool := match f with Closed => true | _ => false end.

(* codes: 1 frames handed to the processor; 2 errors on the channel; 3 number of read calls;
   4 closing of the channel *)
Definition diff (c : case) (o : obs) : list Z :=
  (if zlist_eqb (map Z.of_nat (o_frames o)) (u16s (unpack (c_frames c))) then [] else [1])
  ++ (if zlist_eqb (map report_code (o_errs o)) (u16s (unpack (c_errs c))) then [] else [2])
  ++ (if Z.of_nat (o_reads o) =? c_reads c then [] else [3])
  ++ (if Bool.eqb (final_closed (o_final o)) (c_closed c) then [] else [4]).

(* the observation must be the model's for one of the two outcomes of the select race *)
Definition check_case (alpha : list err_val) (c : case) : list Z :=
  let s := decode_script alpha 0 (unpack (c_script c)) in
  let run w := receive (code_params (c_drained c) w (cancel_of (c_cancel c))) s in
  match diff c (run true) with
  | [] => []
  | d => match diff c (run false) with
         | [] => []
         | _ => d
         end
  end.

Fixpoint check_all (alpha : list err_val) (i : nat) (cs : list case) : list (nat * list Z) :=
  match cs with
  | [] => []
  | c :: cs' => match check_case alpha c with
                | [] => check_all alpha (S i) cs'
                | codes => (i, codes) :: check_all alpha (S i) cs'
                end
  end.
