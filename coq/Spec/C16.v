(* Correspondence oracle for C16.  A [case] is one scripted run of the REAL startScanEngine (through
   the hook VerifC16StartScanEngine) with a scripted engine and the real logger: the events at the
   times they were measured (ns relative to the call) and what was observed (ids written by the
   logger in order, error ids logged, whether the call returned).  [check_case] compares the
   discrete outcome with the model run on those events; real times are judged as inequalities by
   the check driver, never compared exactly.  [script]/[script_events] describe how the harness
   generates its scripts (documentation and non-vacuity example). *)
From Coq Require Import ZArith List Bool.
From SX Require Import Model.ScanCall.
Import ListNotations.
Open Scope Z_scope.

Record script := {
  k_delay : Z;
  k_done : option Z;              (* the engine closes done at this time *)
  k_parent : option Z;            (* the caller cancels at this time *)
  k_results : list (Z * Z);       (* (time, id): the engine offers a result until taken or ctx.Done *)
  k_errs : list (Z * Z);          (* (time, id): the engine offers an error on errc *)
  k_errc_lag : option Z;          (* the engine closes errc this long after its ctx is cancelled *)
  k_resclose_lag : option Z       (* the engine closes Results() this long after its ctx is cancelled *)
}.

Definition omin (a b : option Z) : option Z :=
  match a, b with
  | Some x, Some y => Some (Z.min x y)
  | Some x, None => Some x
  | None, b => b
  end.

(* when the scripted engine sees ctx.Done(): what the model says about the derived context *)
Definition script_cancel (k : script) : option Z :=
  omin (option_map (fun d => timer_deadline d (k_delay k)) (k_done k)) (k_parent k).

Fixpoint insert_ev (x : tev) (l : list tev) : list tev :=
  match l with
  | [] => [x]
  | y :: r => if fst x <=? fst y then x :: l else y :: insert_ev x r
  end.
Definition sort_evs (l : list tev) : list tev := fold_right insert_ev [] l.

Definition opt_list {A} (o : option A) : list A := match o with Some x => [x] | None => [] end.

Definition script_events (k : script) : list tev :=
  let c := script_cancel k in
  sort_evs (
    map (fun d => (d, EvDone)) (opt_list (k_done k)) ++
    map (fun p => (p, EvParentCancel)) (opt_list (k_parent k)) ++
    map (fun r => (fst r, EvResult (snd r))) (k_results k) ++
    map (fun r => (fst r, EvErr (snd r))) (k_errs k) ++
    match c, k_errc_lag k with Some c, Some l => [(c + l, EvErrcClosed)] | _, _ => [] end ++
    match c, k_resclose_lag k with Some c, Some l => [(c + l, EvResultsClosed)] | _, _ => [] end).

Record case := {
  c_delay : Z;
  c_evs : list tev;        (* what the scripted engine and the caller did, at the MEASURED times, any order *)
  c_logged : list Z;       (* ids written by the real logger, in order *)
  c_errors : list Z;       (* error ids handed to logger.Error, in order *)
  c_returned : bool        (* the call returned before the watchdog *)
}.

Fixpoint zlist_eqb (a b : list Z) : bool :=
  match a, b with
  | [], [] => true
  | x :: a', y :: b' => (x =? y) && zlist_eqb a' b'
  | _, _ => false
  end.

(* codes: 1 written results differ from the model; 2 logged errors differ; 3 returned/hung differs *)
Definition check_case (c : case) : list Z :=
  let s := run (c_delay c) (sort_evs (c_evs c)) in
  (if zlist_eqb (c_logged c) (written s) then [] else [1]) ++
  (if zlist_eqb (c_errors c) (errors_logged s) then [] else [2]) ++
  (if Bool.eqb (c_returned c) (match return_time s with Some _ => true | None => false end) then [] else [3]).

Fixpoint check_all (i : nat) (cs : list case) : list (nat * list Z) :=
  match cs with
  | [] => []
  | c :: cs' => match check_case c with
                | [] => check_all (S i) cs'
                | codes => (i, codes) :: check_all (S i) cs'
                end
  end.

(* ---------------------------------------------------------------- wiring (Gen/ExitDelayWiring.v) *)
From Coq Require Import String.
From SX Require Import Gen.ExitDelayWiring.
Local Open Scope string_scope.

Fixpoint str_in (s : string) (l : list string) : bool :=
  match l with [] => false | x :: r => (s =? x) || str_in s r end.

Fixpoint strs_eqb (a b : list string) : bool :=
  match a, b with
  | [], [] => true
  | x :: a', y :: b' => (x =? y) && strs_eqb a' b'
  | _, _ => false
  end.

Definition flag_ok (f : ed_flag) : bool :=
  (ef_var f =? "exitDelay") && (ef_name f =? "exit-delay") && (ef_default f =? "defaultExitDelay") &&
  Nat.eqb (ef_n f) 1.

(* withExitDelay(<opts>.exitDelay) exactly once, and the configuration goes to a start function *)
Definition cmd_ok (c : ed_cmd) : bool :=
  Nat.eqb (ec_n c) 1 && (ec_field c =? "exitDelay") &&
  (strs_eqb (ec_path c) ["startScanEngine"] ||
   strs_eqb (ec_path c) ["withPacketEngineConfig"; "newPacketScanConfig"; "startPacketScanEngine"] ||
   strs_eqb (ec_path c) ["withPacketEngineConfig"; "newPacketScanConfig"; "startPortScanEngine"]).

Definition ed_all_commands_present : bool :=
  forallb (fun f => str_in f (map ec_file ed_cmds))
          ["arp.go"; "icmp.go"; "tcp.go"; "tcp_fin.go"; "tcp_null.go"; "tcp_syn.go"; "tcp_xmas.go"; "udp.go";
           "docker.go"; "elastic.go"; "socks.go"].

Definition setter_ok (want_name want_field : string) (s : string * string * bool) : bool :=
  let '(n, f, from_param) := s in (n =? want_name) && (f =? want_field) && from_param.

(* the three goroutines of startScanEngine, as the model describes them (local names abstracted by
   the translator: ctx' / cancel = results of context.WithCancel, Start.0 / Start.1 = done / errc) *)
Definition sse_shape_ok : bool :=
  sse_ctx_derived && (sse_start_ctx =? "ctx'") &&
  strs_eqb sse_frame ["defer cancel()"; ".Add"; "go"; "go"; ".Add"; "go"; ".Wait"] &&
  match sse_goroutines with
  | [lg; dl; dr] =>
      strs_eqb lg ["defer .Done()"; ".LogResults(ctx', .Results())"] &&
      strs_eqb dl ["defer cancel()"; "<-Start.0"; "<-time.After(.exitDelay)"] &&
      strs_eqb dr ["defer .Done()"; "range Start.1 {.Error(elem)}"]
  | _ => false
  end.

Definition exit_delay_wiring_ok : bool :=
  (default_exit_delay_ns =? 300000000)%Z &&
  Nat.eqb (List.length ed_flags) 2 && forallb flag_ok ed_flags &&
  (ed_config_default =? "defaultExitDelay") && ed_config_applies_opts &&
  match ed_setters with
  | [a; b] => setter_ok "withExitDelay" "exitDelay" a && setter_ok "withPacketEngineConfig" "engineConfig" b
  | _ => false
  end &&
  forallb cmd_ok ed_cmds && ed_all_commands_present &&
  sse_shape_ok &&
  match packet_start_scan_engine_args with
  | [_; _; c] => c =? "&.engineConfig"
  | _ => false
  end &&
  (port_chunk_passes =? "&copy of parameter *packetScanConfig") &&
  strs_eqb port_chunk_assigns [".scanRange.Ports"].

(* ---------------------------------------------------------------- receive latency (Gen/RecvLatency.v) *)
From SX Require Import Gen.RecvLatency.

Fixpoint opt_value (name : string) (l : list (string * Z)) : option Z :=
  match l with
  | [] => None
  | (n, v) :: r => if n =? name then Some v else opt_value name r
  end.

Fixpoint count_opt (name : string) (l : list (string * Z)) : nat :=
  match l with
  | [] => O
  | (n, _) :: r => if n =? name then S (count_opt name r) else count_opt name r
  end.

(* TPACKET_V3 hands a block of received frames to user space when the block is full or when the
   block timeout expires; on a filtered scan socket blocks do not fill, so the block timeout is the
   time a reply can sit in the kernel before ReadPacketData sees it: the value passed to
   afp.NewTPacket, else gopacket's default *)
Definition block_timeout_ns : Z :=
  match opt_value "afp.OptBlockTimeout" tpacket_opts with
  | Some v => v
  | None => gopacket_default_block_timeout_ns
  end.

(* the margin the end-to-end stage of the check tests: replies put on the wire 110..150 ms before
   the exit delay runs out must be reported; the hand-over latency must stay below 100 ms *)
Definition recv_latency_bound_ns : Z := 100000000.

Definition known_tpacket_opt (o : string * Z) : bool :=
  str_in (fst o) ["afp.SocketRaw"; "afp.OptInterface"; "afp.OptPollTimeout"; "afp.OptBlockTimeout"].

Definition recv_latency_ok : bool :=
  Nat.eqb tpacket_new_calls 1 && forallb known_tpacket_opt tpacket_opts &&
  Nat.eqb (count_opt "afp.SocketRaw" tpacket_opts) 1 && Nat.eqb (count_opt "afp.OptInterface" tpacket_opts) 1 &&
  Nat.leb (count_opt "afp.OptBlockTimeout" tpacket_opts) 1 && Nat.eqb (count_opt "afp.OptPollTimeout" tpacket_opts) 1 &&
  (* reads return at least every 100 ms so that cancellation is noticed (bounded exit) *)
  match opt_value "afp.OptPollTimeout" tpacket_opts with
  | Some v => (0 <? v)%Z && (v <=? 100000000)%Z
  | None => false
  end &&
  gopacket_defaults_found && (gopacket_default_block_timeout_ns =? 64000000)%Z &&
  (0 <? block_timeout_ns)%Z && (block_timeout_ns <? recv_latency_bound_ns)%Z.
