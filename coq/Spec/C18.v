(* Correspondence oracle for C18: one [case] is what the harness observed from one call of a real
   parser; [check_case] returns the codes of everything that disagrees with the model. *)
From Coq Require Import ZArith List Bool Uint63.
From SX Require Import Base.Bytes Model.Unquote Model.Duration Model.Parsers.
Import ListNotations.
Open Scope Z_scope.

Record case := {
  ckind : Z;        (* 1 portrange 2 portranges 3 portsfile 4 rate 5 payload 6 ipflags 7 tcpflags 8 exclude *)
  cin : packed;     (* the input bytes *)
  cok : bool;       (* accepted (no error) *)
  cnums : list Z;   (* ports flattened / [count; window] / [value; wire bits] / [names; wire bits] / contains per probe *)
  cout : packed;    (* payload bytes / flag names joined by comma *)
  cvok : Z;         (* validatePorts on the accepted list: 1 nil, 0 error, -1 not applicable *)
  coracle : list (packed * (bool * (Z * Z)));   (* exclude: what ip.ParseIPNet answers for a token *)
  cprobes : list Z }.

Fixpoint zlist_eqb (a b : list Z) : bool :=
  match a, b with
  | [], [] => true
  | x :: a', y :: b' => (x =? y) && zlist_eqb a' b'
  | _, _ => false
  end.

Fixpoint flatten (l : list (Z * Z)) : list Z :=
  match l with [] => [] | (a, b) :: t => a :: b :: flatten t end.

(* codes: 1 accepted/rejected differs from the model; 2 the value differs; 3 validatePorts differs;
   4 the harness did not ask ip.ParseIPNet about a line the model reads (harness defect);
   5 the flag bits on the wire differ; 90 (info) outside the model (non-IPv4 exclusion entry) *)
Definition cmp_ports (c : case) (m : option (list (Z * Z))) : list Z :=
  match m with
  | None => if cok c then [1] else []
  | Some l =>
    if negb (cok c) then [1]
    else (if zlist_eqb (flatten l) (cnums c) then [] else [2])
         ++ (if (cvok c =? -1) || (cvok c =? (if validate_ports l then 1 else 0)) then [] else [3])
  end.

Definition miss : Z * Z := (-9, -9).
Fixpoint oracle_lookup (t : list (bytes * (bool * (Z * Z)))) (k : bytes) : option (Z * Z) :=
  match t with
  | [] => Some miss
  | (k', (ok, v)) :: t' => if bytes_eq k k' then (if ok then Some v else None) else oracle_lookup t' k
  end.

Definition check_case (c : case) : list Z :=
  let s := unpack (cin c) in
  let k := ckind c in
  if k =? 1 then cmp_ports c (option_map (fun r => [r]) (parse_port_range s))
  else if k =? 2 then cmp_ports c (parse_port_ranges s)
  else if k =? 3 then cmp_ports c (parse_ports_file s)
  else if k =? 4 then
    match parse_rate_limit s with
    | None => if cok c then [1] else []
    | Some (n, w) => if negb (cok c) then [1] else if zlist_eqb [n; w] (cnums c) then [] else [2]
    end
  else if k =? 5 then
    match parse_payload s with
    | None => if cok c then [1] else []
    | Some b => if negb (cok c) then [1] else if bytes_eq b (unpack (cout c)) then [] else [2]
    end
  else if k =? 6 then
    match parse_ip_flags s with
    | None => if cok c then [1] else []
    | Some v => if negb (cok c) then [1] else
                match cnums c with
                | [v'; w'] => (if v =? v' then [] else [2]) ++ (if v mod 8 =? w' then [] else [5])
                | _ => [2]
                end
    end
  else if k =? 7 then
    match parse_tcp_flags s with
    | None => if cok c then [1] else []
    | Some names => if negb (cok c) then [1] else
                match cnums c with
                | [n'; w'] => (if (zlen names =? n') && bytes_eq (join 44 names) (unpack (cout c)) then [] else [2])
                              ++ (if tcp_flag_bits names =? w' then [] else [5])
                | _ => [2]
                end
    end
  else if k =? 8 then
    let t := map (fun e => (unpack (fst e), snd e)) (coracle c) in
    match parse_exclude (oracle_lookup t) s with
    | None => if cok c then [1] else []
    | Some nets =>
      if existsb (fun n => fst n =? -9) nets then [4]
      else if existsb (fun n => fst n =? -1) nets then [90]
      else if negb (cok c) then [1]
      else if zlist_eqb (map (fun p => if exclude_contains nets p then 1 else 0) (cprobes c)) (cnums c) then [] else [2]
    end
  else [1].

Fixpoint check_all (i : nat) (cs : list case) : list (nat * list Z) :=
  match cs with
  | [] => []
  | c :: cs' => match check_case c with
                | [] => check_all (S i) cs'
                | codes => (i, codes) :: check_all (S i) cs'
                end
  end.
