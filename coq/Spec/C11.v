(* Correspondence oracle for C11: what the harness observed from the real code (net.IP.String,
   HardwareAddr.String, net.ParseIP, net.ParseMAC, arp.FillCache + Cache.Get, the composition
   ARP frames -> ARP processor -> JSON logger -> FillCache -> NewCacheRequestGenerator -> fillers,
   getGatewayMAC), compared with the model inside Coq. *)
From Coq Require Import ZArith Bool List Uint63.
From SX Require Import Base.Bytes Model.Json Model.ArpCache.
Import ListNotations.
Open Scope Z_scope.

Inductive case :=
| KIpText (ip text : packed)
| KMacText (mac text : packed)
| KParseIP (s : packed) (ok : bool) (ip : packed)
| KParseMAC (s : packed) (ok : bool) (mac : packed)
(* a cache file; errkind 0 loaded / 1 bad JSON / 2 bad IP / 3 bad MAC / 4 line too long; queries:
   address bytes given to Cache.Get, hit?, MAC returned *)
| KFill (file : packed) (errkind : Z) (queries : list (packed * bool * packed))
(* replies (4-byte address, 6-byte MAC, vendor string the processor attached) -> bytes the JSON
   logger wrote -> cache -> per request (destination bytes, replaced by an error?, DstMAC) *)
| KChain (replies : list (packed * packed * packed)) (logged : packed) (gw : option packed)
         (reqs : list (packed * bool * packed))
| KGw (file : packed) (flag : option packed) (route_err : bool) (gwip : packed) (ok : bool) (got : option packed).

Definition opt_eqb (a b : option (list Z)) : bool :=
  match a, b with
  | None, None => true
  | Some x, Some y => bytes_eqb x y
  | _, _ => false
  end.

Definition err_code (e : load_err) : Z :=
  match e with BadJSON => 1 | BadIP => 2 | BadMAC => 3 | LineTooLong => 4 end.

Definition opt_unpack (o : option packed) : option (list Z) :=
  match o with Some p => Some (unpack p) | None => None end.

(* codes: 1 IP.String differs; 2 HardwareAddr.String differs; 3 ParseIP acceptance differs; 4 ParseIP
   value differs; 5 ParseMAC acceptance differs; 6 ParseMAC value differs; 7 FillCache outcome
   (loaded / error class) differs; 8 a Cache.Get answer differs; 9 the logged bytes differ from the
   model's lines for the reported replies; 10 the model cannot load what the real loader loaded;
   11 a request leaves the cache stage differently (error flag or DstMAC); 12 getGatewayMAC differs *)
Definition check_case (c : case) : list Z :=
  match c with
  | KIpText ip text => if bytes_eqb (ip_text (unpack ip)) (unpack text) then [] else [1]
  | KMacText mac text => if bytes_eqb (mac_text (unpack mac)) (unpack text) then [] else [2]
  | KParseIP s ok ip =>
      match parse_ip_text (unpack s) with
      | Some v => if ok then (if bytes_eqb v (unpack ip) then [] else [4]) else [3]
      | None => if ok then [3] else []
      end
  | KParseMAC s ok mac =>
      match parse_mac_text (unpack s) with
      | Some v => if ok then (if bytes_eqb v (unpack mac) then [] else [6]) else [5]
      | None => if ok then [5] else []
      end
  | KFill file errkind queries =>
      match fill_cache_text (unpack file) with
      | inr e => if err_code e =? errkind then [] else [7]
      | inl ch =>
          if negb (errkind =? 0) then [7]
          else if forallb (fun q : packed * bool * packed => match q with
                                    | (ip, hit, mac) =>
                                        opt_eqb (cache_get ch (unpack ip)) (if hit then Some (unpack mac) else @None (list Z))
                                    end) queries then [] else [8]
      end
  | KChain replies logged gw reqs =>
      let lines := flat_map (fun r : packed * packed * packed => match r with (ip, mac, v) => arp_line (unpack ip) (unpack mac) (unpack v) end) replies in
      (if bytes_eqb lines (unpack logged) then [] else [9]) ++
      match fill_cache_text (unpack logged) with
      | inr _ => [10]
      | inl ch =>
          if forallb (fun q : packed * bool * packed => match q with
                               | (dst, err, dmac) =>
                                   let r := cache_stage1 ch (opt_unpack gw)
                                              {| rq_dst := unpack dst; rq_port := 0; rq_dstmac := []; rq_err := false |} in
                                   Bool.eqb (rq_err r) err && bytes_eqb (rq_dstmac r) (unpack dmac)
                               end) reqs then [] else [11]
      end
  | KGw file flag route_err gwip ok got =>
      match fill_cache_text (unpack file) with
      | inr _ => [10]
      | inl ch =>
          match gateway_mac (opt_unpack flag) route_err (unpack gwip) ch with
          | None => if ok then [12] else []
          | Some m => if ok && opt_eqb m (opt_unpack got) then [] else [12]
          end
      end
  end.

Fixpoint check_all (i : nat) (cs : list case) : list (nat * list Z) :=
  match cs with
  | [] => []
  | c :: cs' => match check_case c with
                | [] => check_all (S i) cs'
                | codes => (i, codes) :: check_all (S i) cs'
                end
  end.
