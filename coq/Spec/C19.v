(* C19: (a) the wiring predicate over Gen/LiveWiring.v; (b) the correspondence oracles.

   Rendezvous runs (delegate channels of capacity 0, so [out] has capacity 0 too): the harness is a
   single goroutine that offers the next request, is ready to take from [out], learns about delegate
   calls, closes the pass channel, cancels -- and records the events in the order they happened.
   Each event is one move of the goroutine of Model/Live.v (plus, possibly, moves that are invisible
   from outside: a request dropped because ctx.Done won the select, the goroutine noticing the closed
   channel).  [check_trace] replays the events through [lstep]: the observed behaviour must be a
   behaviour of the model, so every theorem about all schedules of the model applies to it.

   Buffered runs (capacity > 0): only the sequence received from [out], the delegate calls and the
   time stamps are observed; [check_seq] checks them against what the theorems say about every
   schedule (output a subsequence of the generated passes, exact up to the cancellation, the interval). *)
From Coq Require Import String List ZArith Bool Arith.
From SX Require Import Model.Live Gen.LiveWiring.
Import ListNotations.
Local Open Scope Z_scope.

(* ---------------------------------------------------------------- (a) wiring *)
Definition str_eqb := String.eqb.

Definition is_live (w : wrap) : bool := str_eqb (w_ctor w) "scan.NewLiveRequestGenerator".
Definition is_unique_logger (w : wrap) : bool := str_eqb (w_ctor w) "log.NewUniqueLogger".
Definition live_guard : string := "o.liveTimeout > 0".

(* every assignment after the first one wraps the previous generator (the chain is linear) *)
Definition chain_linear (l : list wrap) : bool :=
  match l with
  | [] => false
  | w :: l' => negb (w_wraps_prev w) && forallb w_wraps_prev l'
  end.

Definition live_outermost (l : list wrap) : bool :=
  match last_wrap l with
  | Some w => is_live w && w_wraps_prev w && str_eqb (w_guard w) live_guard
              && match w_args w with [a] => str_eqb a "o.liveTimeout" | _ => false end
  | None => false
  end
  && (Nat.eqb (List.length (filter is_live l)) 1).

Definition unique_logger_in_live_mode (l : list wrap) : bool :=
  match last_wrap l with
  | Some w => is_unique_logger w && w_wraps_prev w && str_eqb (w_guard w) live_guard
              && match w_args w with [] => true | _ => false end
  | None => false
  end
  && (Nat.eqb (List.length (filter is_unique_logger l)) 1).

Definition live_wiring_ok : bool :=
  chain_linear arp_reqgen_chain && live_outermost arp_reqgen_chain
  && str_eqb arp_reqgen_consumer "scan.NewPacketSource" && (arp_reqgen_consumer_arg =? 0)
  && chain_linear arp_logger_chain && unique_logger_in_live_mode arp_logger_chain
  && arp_run_uses_logger && arp_run_uses_method
  && str_eqb arp_live_flag "live" && str_eqb arp_live_flag_field "o.liveTimeout" && (arp_live_flag_default =? 0).

(* ---------------------------------------------------------------- (b1) rendezvous traces *)
Inductive vevent :=
| VD (r : nat)           (* the harness' send of r on the pass channel completed: the goroutine took r *)
| VO (r : nat)           (* the harness received r from out *)
| VC (t : Z)             (* the harness closed the pass channel at time t (everything was delivered) *)
| VG (k : nat) (t : Z)   (* the delegate was called for the k-th time (0-based) at time t *)
| VK                     (* the harness cancelled the context *)
| VX.                    (* the harness saw out closed *)

Record vstate := { vs : lstate; vclose : Z }.

Definition obind {A B} (o : option A) (f : A -> option B) : option B :=
  match o with Some a => f a | None => None end.

Section Trace.
Variable rescan : Z.

(* invisible from outside: ctx.Done won the select in writeRequest, the request is dropped *)
Definition drop_inflight (s : lstate) : option lstate :=
  match pc s with AtWrite _ => lstep rescan s MDone | _ => Some s end.

(* invisible from outside: the goroutine notices that the pass channel is closed *)
Definition notice_close (tc : Z) (s : lstate) : option lstate :=
  match pc s with AtRead => lstep rescan s (MEndPass (Z.max tc (now s))) | _ => Some s end.

Definition is_ended (s : lstate) : bool := match pc s with Ended => true | _ => false end.

(* ctx.Done fires at every select from here on (at most three selects) *)
Definition finish (s : lstate) : option lstate :=
  if is_ended s then Some s else
  obind (lstep rescan s MDone) (fun s1 =>
  if is_ended s1 then Some s1 else
  obind (lstep rescan s1 MDone) (fun s2 =>
  if is_ended s2 then Some s2 else
  obind (lstep rescan s2 MDone) (fun s3 =>
  if is_ended s3 then Some s3 else None))).

Definition vstep (v : vstate) (e : vevent) : option vstate :=
  let s := vs v in
  let keep o := match o with Some s' => Some {| vs := s'; vclose := vclose v |} | None => None end in
  match e with
  | VK => keep (lstep rescan s MCancel)
  | VD r =>
      keep (obind (drop_inflight s) (fun s1 =>
            match cur s1 with
            | Some (r' :: _) => if Nat.eqb r r' then lstep rescan s1 MDeliver else None
            | _ => None
            end))
  | VO r =>
      match pc s with
      | AtWrite r' => if Nat.eqb r r' then keep (lstep rescan s MAccept) else None
      | _ => None
      end
  | VC t => match cur s with Some [] => Some {| vs := s; vclose := t |} | _ => None end
  | VG k t =>
      if Nat.eqb k (calls s) then
        keep (obind (drop_inflight s) (fun s1 =>
              obind (notice_close (vclose v) s1) (fun s2 => lstep rescan s2 (MTick t))))
      else None
  | VX => keep (finish s)
  end.

(* returns the index of the first event the model cannot do, or the final state *)
Fixpoint vrun (i : nat) (v : vstate) (tr : list vevent) : nat + vstate :=
  match tr with
  | [] => inr v
  | e :: tr' => match vstep v e with Some v' => vrun (S i) v' tr' | None => inl i end
  end.

End Trace.

Record tcase := {
  t_script : list pass;     (* what the scripted delegate yields call by call *)
  t_rescan : Z;             (* the interval given to NewLiveRequestGenerator minus the tolerance, ns *)
  t_start_err : bool;       (* GenerateRequests returned an error (and a nil channel) *)
  t_trace : list vevent;    (* events after the first delegate call *)
  t_outs : list nat }.      (* everything received from out, in order *)

Fixpoint nat_list_eqb (a b : list nat) : bool :=
  match a, b with
  | [], [] => true
  | x :: a', y :: b' => Nat.eqb x y && nat_list_eqb a' b'
  | _, _ => false
  end.

(* codes: 1 the start (error or not) differs from the model; 1000+i event number i is not a move the
   model can make; 2 the run did not end with out closed; 3 what was received from out is not what the
   accepted moves sent *)
Definition check_trace (c : tcase) : list Z :=
  match live_start (t_script c) with
  | NoScript => [1]
  | StartError => if t_start_err c then [] else [1]
  | Started s0 =>
      if t_start_err c then [1] else
      match vrun (t_rescan c) 0 {| vs := s0; vclose := 0 |} (t_trace c) with
      | inl i => [1000 + Z.of_nat i]
      | inr v =>
          (if is_ended (vs v) then [] else [2])
          ++ (if nat_list_eqb (outl (vs v)) (t_outs c) then [] else [3])
      end
  end.

(* ---------------------------------------------------------------- (b2) buffered runs *)
Record scase := {
  q_script : list pass;
  q_rescan : Z;
  q_calls : nat;            (* delegate calls observed *)
  q_before : nat;           (* requests the consumer had received when it cancelled *)
  q_outs : list nat;        (* everything received from out *)
  q_closed : bool;
  q_starts : list Z;        (* time of each delegate call *)
  q_closes : list Z }.      (* time at which the feeder closed the channel of each pass that it closed *)

Fixpoint first_fail (i : nat) (l : list pass) : option nat :=
  match l with
  | [] => None
  | Fail :: _ => Some i
  | Pass _ :: l' => first_fail (S i) l'
  end.

(* starts[k+1] >= closes[k] + rescan *)
Fixpoint interval_ok (rescan : Z) (starts closes : list Z) : bool :=
  match starts, closes with
  | _ :: ((s1 :: _) as starts'), c0 :: closes' => (c0 + rescan <=? s1) && interval_ok rescan starts' closes'
  | _, _ => true
  end.

(* codes: 1 the output is not a subsequence of the generated passes (something duplicated, reordered,
   invented); 2 what was received before the cancellation is not exactly the beginning of the
   concatenation of the passes (something lost or a pass incomplete); 3 a pass started earlier than
   the interval after the previous one ended; 4 out not closed after the cancellation; 5 the delegate
   was called again after a failed pass; 6 fewer delegate calls than the output needs *)
Definition check_seq (c : scase) : list Z :=
  let gen := total (q_calls c) (q_script c) in
  (if subseq (q_outs c) gen then [] else [1])
  ++ (if nat_list_eqb (firstn (q_before c) (q_outs c)) (firstn (q_before c) (total (List.length (q_script c)) (q_script c)))
         && Nat.leb (q_before c) (List.length (q_outs c)) then [] else [2])
  ++ (if interval_ok (q_rescan c) (q_starts c) (q_closes c) then [] else [3])
  ++ (if q_closed c then [] else [4])
  ++ (match first_fail 0 (q_script c) with
      | Some i => if Nat.leb (q_calls c) (S i) then [] else [5]
      | None => []
      end)
  ++ (if Nat.leb (List.length (q_outs c)) (List.length gen) then [] else [6]).

Fixpoint check_all {A} (f : A -> list Z) (i : nat) (cs : list A) : list (nat * list Z) :=
  match cs with
  | [] => []
  | c :: cs' => match f c with
                | [] => check_all f (S i) cs'
                | codes => (i, codes) :: check_all f (S i) cs'
                end
  end.
