(* Correspondence oracle for C02: what the harness observed from the real ip.ParseIPNet, ipGenerator.IPs,
   parseExcludeFile + cidranger and filterIPRequestGenerator, compared with the model.  [check_*] return
   the codes of everything that disagrees. *)
From Coq Require Import ZArith List Bool.
From SX Require Import Base.Loop Base.Bytes Model.RangeIter Model.IPNet Model.Exclude Model.Targets Gen.GroupsTable.
Import ListNotations.
Open Scope Z_scope.

Definition ip_eqb (a b : ip) : bool := bytes_eqb a b.
Definition net_eqb (a b : ipnet) : bool := bytes_eqb (fst a) (fst b) && bytes_eqb (snd a) (snd b).

(* ---------- ParseIPNet on one string ---------- *)
Record parse_case := {
  pc_cidr : option ipnet;        (* net.ParseCIDR(s) *)
  pc_addr : option ip;           (* netip.ParseAddr(s).AsSlice() *)
  pc_impl : option ipnet }.      (* ip.ParseIPNet(s); None = error *)
(* codes: 1 accept/reject differs; 2 accepted net differs; 3 a library result violates what the theorems
   assume about the library (lib_cidr_ok / lib_addr_ok) *)
Definition check_parse (c : parse_case) : list Z :=
  (if lib_cidr_ok (pc_cidr c) && lib_addr_ok (pc_addr c) then [] else [3]) ++
  match parse_ipnet (pc_cidr c) (pc_addr c), pc_impl c with
  | PErr, None => []
  | POk n, Some n' => if net_eqb n n' then [] else [2]
  | _, _ => [1]
  end.

(* ---------- ipGenerator.IPs on one net ---------- *)
Record ips_case := {
  ic_net : option ipnet; ic_r1 : Z; ic_r2 : Z;
  ic_fuel : positive;            (* the harness read at most this many addresses *)
  ic_err : Z;                    (* 0 none, 1 ErrSubnet, 2 range size, 3 invalid group *)
  ic_crashed : bool;             (* the process panicked *)
  ic_complete : bool;            (* the channel was closed by the generator *)
  ic_addrs : packed }.           (* 4 bytes per address, in order *)
Fixpoint group4 (fuel : nat) (l : list Z) : list ip :=
  match fuel with
  | O => []
  | S f => match l with
           | a :: b :: c :: d :: l' => [a; b; c; d] :: group4 f l'
           | _ => []
           end
  end.
Fixpoint ips_eqb (a b : list ip) : bool :=
  match a, b with
  | [], [] => true
  | x :: a', y :: b' => ip_eqb x y && ips_eqb a' b'
  | _, _ => false
  end.
Fixpoint is_prefix (a b : list ip) : bool :=
  match a, b with
  | [], _ => true
  | x :: a', y :: b' => ip_eqb x y && is_prefix a' b'
  | _, _ => false
  end.
Definition gerr_code (e : gerr) : Z :=
  match e with GSubnet => 1 | GIter RangeSize => 2 | GIter InvalidGroup => 3 | _ => 9 end.
(* codes: 1 error differs; 2 addresses differ; 3 completion differs; 4 crash differs *)
Definition check_ips (c : ips_case) : list Z :=
  let bytes := unpack (ic_addrs c) in
  let got := group4 (length bytes) bytes in
  match ips_gen_fuel cyclic_groups (Some (ic_fuel c)) (ic_r1 c, ic_r2 c) (ic_net c) with
  | Fail e => if gerr_code e =? ic_err c then [] else [1]
  | Emit l en =>
      if negb (ic_err c =? 0) then [1] else
      match en with
      | Crashed => if ic_crashed c then (if is_prefix got l then [] else [2]) else [4]
      | Done => if ic_crashed c then [4] else
                (if ips_eqb got l then [] else [2]) ++ (if ic_complete c then [] else [3])
      | Cut => if ic_crashed c then [4] else
               (if ips_eqb got l then [] else [2]) ++ (if ic_complete c then [3] else [])
      | StuckIter => [2]
      end
  end.

(* ---------- parseExcludeFile + membership + the filter stage ---------- *)
(* requests travel packed: per request  len(ip) ip... port_hi port_lo err  (err 0 = none) *)
Definition gerr_class (e : gerr) : Z :=
  match e with
  | GPortRange => 1 | GSubnet => 2 | GIP => 3 | GPort => 4 | GJSON => 5 | GTooLong => 6 | GOpen => 7
  | GIter RangeSize => 8 | GIter InvalidGroup => 9 | GIter OutOfFuel => 10 | GContains => 11 | GNoMAC => 12
  end.
Definition class_gerr (c : Z) : option gerr :=
  match c with
  | 1 => Some GPortRange | 2 => Some GSubnet | 3 => Some GIP | 4 => Some GPort | 5 => Some GJSON
  | 6 => Some GTooLong | 7 => Some GOpen | 8 => Some (GIter RangeSize) | 9 => Some (GIter InvalidGroup)
  | 10 => Some (GIter OutOfFuel) | 11 => Some GContains | 12 => Some GNoMAC | _ => None
  end.
Fixpoint decode_reqs (fuel : nat) (l : list Z) : list req :=
  match fuel with
  | O => []
  | S f => match l with
           | [] => []
           | n :: l1 =>
               let a := firstn (Z.to_nat n) l1 in
               match skipn (Z.to_nat n) l1 with
               | ph :: pl :: e :: m :: l2 =>
                   {| rip := a; rport := ph * 256 + pl; rerr := class_gerr e;
                      rmac := firstn (Z.to_nat m) l2 |} :: decode_reqs f (skipn (Z.to_nat m) l2)
               | _ => []
               end
           end
  end.
Definition req_eqb (a b : req) : bool :=
  ip_eqb (rip a) (rip b) && (rport a =? rport b) && bytes_eqb (rmac a) (rmac b) &&
  match rerr a, rerr b with
  | None, None => true
  | Some x, Some y => gerr_class x =? gerr_class y
  | _, _ => false
  end.
Fixpoint reqs_eqb (a b : list req) : bool :=
  match a, b with
  | [], [] => true
  | x :: a', y :: b' => req_eqb x y && reqs_eqb a' b'
  | _, _ => false
  end.

Record excl_line := {
  el_raw : list Z;               (* the line as bufio.ScanLines yields it *)
  el_clean : list Z;             (* what the harness computed with the code's own expressions *)
  el_cidr : option ipnet; el_addr : option ip }.  (* the library parsers on the cleaned line *)
Record excl_case := {
  ec_lines : list excl_line;
  ec_impl_ok : bool;             (* parseExcludeFile returned no error *)
  ec_net : ipnet;                (* every address of this net was asked: Contains(addr) *)
  ec_member : packed;            (* one byte per address: 0 not contained, 1 contained, 2 error *)
  ec_extra : list (ip * Z);      (* other spellings (16-byte, nil, odd lengths) and the answers *)
  ec_in : packed; ec_out : packed }.   (* requests fed to / obtained from filterIPRequestGenerator *)

Fixpoint lookup_line (ls : list excl_line) (s : list Z) : option excl_line :=
  match ls with
  | [] => None
  | l :: ls' => if bytes_eqb (el_clean l) s then Some l else lookup_line ls' s
  end.
Definition res_code (r : option bool) : Z := match r with None => 2 | Some true => 1 | Some false => 0 end.
Fixpoint members_eqb (nets : list ipnet) (addrs : list ip) (m : list Z) : bool :=
  match addrs, m with
  | [], [] => true
  | a :: addrs', b :: m' => (res_code (excluded_res nets a) =? b) && members_eqb nets addrs' m'
  | _, _ => false
  end.
(* codes: 1 cleaned line differs; 2 accept/reject of the file differs; 3 membership differs on the net;
   4 membership differs on an extra spelling; 5 filter stage output differs; 6 library guarantee violated *)
Definition check_excl (c : excl_case) : list Z :=
  let ls := ec_lines c in
  (if forallb (fun l => bytes_eqb (clean_line (el_raw l)) (el_clean l)) ls then [] else [1]) ++
  (if forallb (fun l => lib_cidr_ok (el_cidr l) && lib_addr_ok (el_addr l)) ls then [] else [6]) ++
  let cidr_of := fun s => match lookup_line ls s with Some l => el_cidr l | None => None end in
  let addr_of := fun s => match lookup_line ls s with Some l => el_addr l | None => None end in
  match parse_exclude cidr_of addr_of (map el_raw ls) with
  | None => if ec_impl_ok c then [2] else []
  | Some nets =>
      if negb (ec_impl_ok c) then [2] else
      (if members_eqb nets (net_addrs (ec_net c)) (unpack (ec_member c)) then [] else [3]) ++
      (if forallb (fun am => res_code (excluded_res nets (fst am)) =? snd am) (ec_extra c) then [] else [4]) ++
      let bin := unpack (ec_in c) in let bout := unpack (ec_out c) in
      match filter_stage nets (Emit (decode_reqs (length bin) bin) Done) with
      | Emit l _ => if reqs_eqb l (decode_reqs (length bout) bout) then [] else [5]
      | Fail _ => [5]
      end
  end.

Inductive case := CParse (c : parse_case) | CIps (c : ips_case) | CExcl (c : excl_case).
Definition check_case (c : case) : list Z :=
  match c with
  | CParse c => check_parse c
  | CIps c => map (Z.add 10) (check_ips c)
  | CExcl c => map (Z.add 20) (check_excl c)
  end.
Fixpoint check_all (i : nat) (cs : list case) : list (nat * list Z) :=
  match cs with
  | [] => []
  | c :: cs' => match check_case c with
                | [] => check_all (S i) cs'
                | codes => (i, codes) :: check_all (S i) cs'
                end
  end.
