(* A deterministic executor for the networks of Base/Net.v: it follows a given schedule (a list of
   goroutine indices, or a cancellation request) and takes, for the scheduled goroutine, its first
   enabled alternative.  Everything it does is an [nstep] ([exec_reachable]), so every invariant
   proved over all schedules holds along each executed one; it provides concrete reachable states
   (non-vacuity of the theorems) and an executable reference for the correspondence harness. *)
From stdpp Require Import list.
From SX Require Import Base.Net.

Section exec.
Context {V L O E : Type}.
Variable beh : L -> pend V L O E.
Variable oracle : nat -> O.        (* answer of the k-th external call, k = length of the log so far *)
Variable skip_default : L -> bool.  (* scheduling policy: states in which a [default] branch is not taken *)

Notation net := (net V L E).

Definition is_ended (l : L) : bool := match beh l with PEnd => true | _ => false end.

Definition all_ended_b (n : net) (ids : list nat) : bool :=
  forallb (fun i => match procs n !! i with Some l => is_ended l | None => false end) ids.

(* first alternative of goroutine j that can receive on rendezvous channel c *)
Fixpoint find_recv_alt (c : nat) (alts : list (gd V * (resp V -> L))) : option (resp V -> L) :=
  match alts with
  | [] => None
  | (GRecv c', k) :: r => if decide (c' = c) then Some k else find_recv_alt c r
  | _ :: r => find_recv_alt c r
  end.

Fixpoint find_partner (n : net) (c : nat) (i : nat) (j : nat) (ps : list L) : option (nat * (resp V -> L)) :=
  match ps with
  | [] => None
  | l :: r =>
      match (if decide (j = i) then None else
               match beh l with PSel alts => find_recv_alt c alts | _ => None end) with
      | Some k => Some (j, k)
      | None => find_partner n c i (S j) r
      end
  end.

Definition try_alt (n : net) (i : nat) (l : L) (g : gd V) (k : resp V -> L) : option net :=
  match g with
  | GRecv c =>
      match chans n !! c with
      | Some ch =>
          match cbuf ch with
          | v :: rest => Some (set_chan (set_proc n i (k (RVal v))) c (Chan rest (ccap ch) (cclosed ch)))
          | [] => if cclosed ch then Some (set_proc n i (k RClosed)) else None
          end
      | None => None
      end
  | GSend c v =>
      match chans n !! c with
      | Some ch =>
          if cclosed ch then Some (Net (procs n) (chans n) (cancelled n) (log n) true)
          else if decide (length (cbuf ch) < ccap ch)
               then Some (set_chan (set_proc n i (k RSent)) c (Chan (cbuf ch ++ [v]) (ccap ch) false))
               else if decide (ccap ch = 0)
                    then match find_partner n c i 0 (procs n) with
                         | Some (j, kj) => Some (set_proc (set_proc n i (k RSent)) j (kj (RVal v)))
                         | None => None
                         end
                    else None
      | None => None
      end
  | GDone => if cancelled n then Some (set_proc n i (k RCancelled)) else None
  | GDefault => if skip_default l then None else Some (set_proc n i (k RDefault))
  end.

Fixpoint try_alts (n : net) (i : nat) (l : L) (alts : list (gd V * (resp V -> L))) : option net :=
  match alts with
  | [] => None
  | (g, k) :: r => match try_alt n i l g k with Some n' => Some n' | None => try_alts n i l r end
  end.

Definition try_step (n : net) (i : nat) : option net :=
  match procs n !! i with
  | None => None
  | Some l =>
      match beh l with
      | PSel alts => try_alts n i l alts
      | PClose c k =>
          match chans n !! c with
          | Some ch => if cclosed ch then Some (Net (procs n) (chans n) (cancelled n) (log n) true)
                       else Some (set_chan (set_proc n i k) c (Chan (cbuf ch) (ccap ch) true))
          | None => None
          end
      | PCall ev k => let o := oracle (length (log n)) in
                      Some (Net (<[i := k o]> (procs n)) (chans n) (cancelled n) (log n ++ ev o) (panicked n))
      | PWait ids k => if all_ended_b n ids then Some (set_proc n i k) else None
      | PEnd => None
      end
  end.

Inductive action := Run (i : nat) | Cancel.

Definition do_action (n : net) (a : action) : net :=
  match a with
  | Run i => match try_step n i with Some n' => n' | None => n end
  | Cancel => Net (procs n) (chans n) true (log n) (panicked n)
  end.

Definition exec (sched : list action) (n : net) : net := fold_left do_action sched n.

(* [rounds k m]: k rounds of round-robin over goroutines 0..m-1 *)
Fixpoint rounds (k m : nat) : list action :=
  match k with 0 => [] | S k' => (Run <$> seq 0 m) ++ rounds k' m end.

(* ---------------------------------------------------------------- soundness *)
Lemma find_recv_alt_sound c alts k : find_recv_alt c alts = Some k -> (GRecv c, k) ∈ alts.
Proof.
  induction alts as [|[g k'] r IH]; simpl; [done|].
  destruct g as [c'|c' v| |]; try (intros H; right; apply IH; exact H).
  destruct (decide (c' = c)) as [->|Hne]; [intros [= ->]; left|intros H; right; apply IH; exact H].
Qed.

Lemma find_partner_sound n c i j0 ps j k :
  find_partner n c i j0 ps = Some (j, k) ->
  j <> i /\ exists l alts, ps !! (j - j0) = Some l /\ j0 <= j /\ beh l = PSel alts /\ (GRecv c, k) ∈ alts.
Proof.
  revert j0. induction ps as [|l r IH]; intros j0; simpl; [done|].
  destruct (decide (j0 = i)) as [->|Hne].
  - intros H. destruct (IH _ H) as (H1 & l' & alts & H2 & H3 & H4 & H5). split; [assumption|].
    exists l', alts. replace (j - i) with (S (j - S i)) by lia. simpl. repeat split; auto; lia.
  - destruct (beh l) as [alts| | | |] eqn:Hb.
    + destruct (find_recv_alt c alts) as [k'|] eqn:Hf.
      * intros [= <- <-]. split; [assumption|]. exists l, alts. rewrite Nat.sub_diag. simpl.
        repeat split; auto. apply find_recv_alt_sound. assumption.
      * intros H. destruct (IH _ H) as (H1 & l' & alts' & H2 & H3 & H4 & H5). split; [assumption|].
        exists l', alts'. replace (j - j0) with (S (j - S j0)) by lia. simpl. repeat split; auto; lia.
    + intros H. destruct (IH _ H) as (H1 & l' & alts' & H2 & H3 & H4 & H5). split; [assumption|].
      exists l', alts'. replace (j - j0) with (S (j - S j0)) by lia. simpl. repeat split; auto; lia.
    + intros H. destruct (IH _ H) as (H1 & l' & alts' & H2 & H3 & H4 & H5). split; [assumption|].
      exists l', alts'. replace (j - j0) with (S (j - S j0)) by lia. simpl. repeat split; auto; lia.
    + intros H. destruct (IH _ H) as (H1 & l' & alts' & H2 & H3 & H4 & H5). split; [assumption|].
      exists l', alts'. replace (j - j0) with (S (j - S j0)) by lia. simpl. repeat split; auto; lia.
    + intros H. destruct (IH _ H) as (H1 & l' & alts' & H2 & H3 & H4 & H5). split; [assumption|].
      exists l', alts'. replace (j - j0) with (S (j - S j0)) by lia. simpl. repeat split; auto; lia.
Qed.

Lemma try_alt_sound n i l alts g k n' :
  procs n !! i = Some l -> beh l = PSel alts -> (g, k) ∈ alts ->
  try_alt n i l g k = Some n' -> nstep beh n n'.
Proof.
  intros Hi Hb Ha. destruct g as [c|c v| |]; simpl.
  - destruct (chans n !! c) as [ch|] eqn:Hc; [|done].
    destruct (cbuf ch) as [|v rest] eqn:Hbuf.
    + destruct (cclosed ch) eqn:Hcl; [|done]. intros [= <-]. eapply NRecvClosed; eauto.
    + intros [= <-]. eapply NRecv; eauto.
  - destruct (chans n !! c) as [ch|] eqn:Hc; [|done].
    destruct (cclosed ch) eqn:Hcl.
    + intros [= <-]. eapply NSendClosed; eauto.
    + destruct (decide (length (cbuf ch) < ccap ch)) as [Hlt|Hge].
      * intros [= <-]. eapply NSend; eauto.
      * destruct (decide (ccap ch = 0)) as [Hz|Hnz]; [|done].
        destruct (find_partner n c i 0 (procs n)) as [[j kj]|] eqn:Hf; [|done].
        intros [= <-]. destruct (find_partner_sound _ _ _ _ _ _ _ Hf) as (Hne & lj & altsj & Hj & _ & Hbj & Haj).
        rewrite Nat.sub_0_r in Hj. eapply NRendezvous; eauto.
  - destruct (cancelled n) eqn:Hcan; [|done]. intros [= <-]. eapply NDone; eauto.
  - destruct (skip_default l); [done|]. intros [= <-]. eapply NDefault; eauto.
Qed.

Lemma try_alts_sound n i l alts0 alts n' :
  procs n !! i = Some l -> beh l = PSel alts0 -> (forall x, x ∈ alts -> x ∈ alts0) ->
  try_alts n i l alts = Some n' -> nstep beh n n'.
Proof.
  intros Hi Hb. induction alts as [|[g k] r IH]; simpl; intros Hsub; [done|].
  destruct (try_alt n i l g k) as [n1|] eqn:Ht.
  - intros [= <-]. eapply try_alt_sound; eauto. apply Hsub. left.
  - apply IH. intros x Hx. apply Hsub. right. assumption.
Qed.

Lemma all_ended_b_sound n ids : all_ended_b n ids = true -> all_ended beh n ids.
Proof.
  unfold all_ended_b, all_ended. rewrite forallb_forall, Forall_forall. intros H i Hi.
  specialize (H i). rewrite <- elem_of_list_In in H. specialize (H Hi).
  destruct (procs n !! i) as [l|]; [|done]. exists l. split; [reflexivity|].
  unfold is_ended in H. unfold ended. destruct (beh l); done.
Qed.

Lemma try_step_sound n i n' : try_step n i = Some n' -> nstep beh n n'.
Proof.
  unfold try_step. destruct (procs n !! i) as [l|] eqn:Hi; [|done].
  destruct (beh l) as [alts|c k|ev k|ids k|] eqn:Hb.
  - intros H. eapply try_alts_sound; eauto.
  - destruct (chans n !! c) as [ch|] eqn:Hc; [|done]. destruct (cclosed ch) eqn:Hcl.
    + intros [= <-]. eapply NCloseClosed; eauto.
    + intros [= <-]. eapply NClose; eauto.
  - intros [= <-]. eapply NCall; eauto.
  - destruct (all_ended_b n ids) eqn:Ha; [|done]. intros [= <-]. eapply NWait; eauto. apply all_ended_b_sound. assumption.
  - done.
Qed.

Theorem exec_reachable sched n0 n : reachable beh n0 n -> reachable beh n0 (exec sched n).
Proof.
  revert n. induction sched as [|a sched IH]; intros n Hr; simpl; [assumption|].
  apply IH. destruct a as [i|]; simpl.
  - destruct (try_step n i) as [n'|] eqn:Ht; [|assumption]. eapply RS; [eassumption|]. eapply try_step_sound; eauto.
  - eapply RS; [eassumption|]. apply NCancel.
Qed.

End exec.
