(* Byte strings are [list Z] with every element in 0..255.  Case files written by the harness carry
   them packed, 7 bytes per primitive 63-bit integer literal (little endian), because the cost of
   loading a case file is proportional to the number of constructors in it; [unpack] turns them
   back into [list Z].  Primitive integers are used ONLY for this data transport, never in a model
   or a theorem. *)
From Coq Require Import ZArith List Uint63 Bool.
Import ListNotations.

Definition packed := (nat * list int)%type.

Fixpoint unpack7 (k : nat) (w : int) : list Z :=
  match k with
  | O => []
  | S k' => Uint63.to_Z (Uint63.land w 255) :: unpack7 k' (Uint63.lsr w 8)
  end.

Fixpoint unpack_words (len : nat) (ws : list int) : list Z :=
  match ws with
  | [] => []
  | w :: ws' => if Nat.leb len 7 then unpack7 len w else unpack7 7 w ++ unpack_words (len - 7) ws'
  end.

Definition unpack (p : packed) : list Z := unpack_words (fst p) (snd p).

Open Scope Z_scope.

Definition is_byte (b : Z) : bool := (0 <=? b) && (b <? 256).
Definition wf_bytes (l : list Z) : bool := forallb is_byte l.

Fixpoint bytes_eqb (a b : list Z) : bool :=
  match a, b with
  | [], [] => true
  | x :: a', y :: b' => (x =? y) && bytes_eqb a' b'
  | _, _ => false
  end.

Lemma bytes_eqb_eq a : forall b, bytes_eqb a b = true <-> a = b.
Proof.
  induction a as [|x a IH]; intros [|y b]; cbn; split; intros H; try reflexivity; try discriminate.
  - apply andb_true_iff in H. destruct H as [H1 H2]. apply Z.eqb_eq in H1. apply IH in H2. subst. reflexivity.
  - injection H as -> ->. apply andb_true_iff. split; [apply Z.eqb_refl|apply IH; reflexivity].
Qed.

(* big-endian numbers *)
Definition be16 (hi lo : Z) : Z := hi * 256 + lo.
Definition be32 (a b c d : Z) : Z := ((a * 256 + b) * 256 + c) * 256 + d.
Definition u16_bytes (v : Z) : list Z := [(v / 256) mod 256; v mod 256].
Definition u32_bytes (v : Z) : list Z :=
  [(v / 16777216) mod 256; (v / 65536) mod 256; (v / 256) mod 256; v mod 256].
