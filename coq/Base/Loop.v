(* Fuelled loops with early exit.

   [ploop] recurses structurally on a binary [positive], so a fuel of 2^33 is a 34-bit number and
   never a unary [nat]; it stops as soon as the body returns [inr].  [nloop] is the same loop on
   unary fuel and is only used in proofs ([ploop_nloop]). *)
From Coq Require Import PArith Arith Lia.

Section Loop.
Context {S R : Type} (step : S -> S + R).

Fixpoint ploop (fuel : positive) (s : S) : S + R :=
  match fuel with
  | xH => step s
  | xO p => match ploop p s with
            | inl s' => ploop p s'
            | inr r => inr r
            end
  | xI p => match step s with
            | inl s0 => match ploop p s0 with
                        | inl s' => ploop p s'
                        | inr r => inr r
                        end
            | inr r => inr r
            end
  end.

Fixpoint nloop (fuel : nat) (s : S) : S + R :=
  match fuel with
  | O => inl s
  | Datatypes.S f => match step s with
                     | inl s' => nloop f s'
                     | inr r => inr r
                     end
  end.

Lemma nloop_add a b s :
  nloop (a + b) s = match nloop a s with inl s' => nloop b s' | inr r => inr r end.
Proof.
  revert s. induction a as [|a IH]; intros s; cbn [nloop plus]; [reflexivity|].
  destruct (step s) as [s'|r]; [apply IH|reflexivity].
Qed.

Lemma ploop_nloop p : forall s, ploop p s = nloop (Pos.to_nat p) s.
Proof.
  induction p as [p IH|p IH|]; intros s; cbn [ploop].
  - rewrite Pos2Nat.inj_xI. replace (Datatypes.S (2 * Pos.to_nat p)) with (1 + (Pos.to_nat p + Pos.to_nat p)) by lia.
    cbn [plus nloop]. destruct (step s) as [s0|r]; [|reflexivity].
    rewrite nloop_add, <- IH. destruct (ploop p s0) as [s'|r]; [apply IH|reflexivity].
  - rewrite Pos2Nat.inj_xO. replace (2 * Pos.to_nat p) with (Pos.to_nat p + Pos.to_nat p) by lia.
    rewrite nloop_add, <- IH. destruct (ploop p s) as [s'|r]; [apply IH|reflexivity].
  - change (Pos.to_nat 1) with 1. cbn [nloop]. destruct (step s); reflexivity.
Qed.

(* once finished, more fuel changes nothing *)
Lemma nloop_more a b s r : nloop a s = inr r -> nloop (a + b) s = inr r.
Proof. intros H. rewrite nloop_add, H. reflexivity. Qed.

End Loop.
