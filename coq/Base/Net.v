(* A small interleaving semantics for goroutine networks in the idiom of this code base.

   A goroutine is a behaviour [beh : L -> pend]: from local state [l] it is about to do
     - [PSel alts]   a select (or a single blocking operation = one alternative); alternatives are
                     receive from a channel, send a value on a channel, <-ctx.Done();
     - [PClose c k]  close(c);
     - [PCall ev k]  a non-blocking effect / external call whose answer [o : O] is an oracle value
                     (Fill, WritePacketData, Scan, ...); [ev o] are the observable events it logs;
     - [PWait ids k] sync.WaitGroup.Wait() for the goroutines [ids] (enabled when all have ended);
     - [PEnd]        returned.
   Channels have a capacity (0 = rendezvous, modelled exactly), a FIFO buffer and a closed flag.
   Send on a closed channel and double close set [panicked].  [NCancel] may fire at any moment.
   Schedules are exactly the [nstep] sequences: any goroutine, any enabled alternative.
   The number of goroutines and all data are unbounded parameters. *)
From stdpp Require Import gmultiset list.
Set Default Proof Using "Type".

Section net.
Context {V : Type}.   (* values travelling on channels *)
Context {L : Type}.   (* goroutine local states *)
Context {O : Type}.   (* oracle answers of external calls *)
Context {E : Type}.   (* observable events *)

Inductive gd := GRecv (c : nat) | GSend (c : nat) (v : V) | GDone | GDefault.
Inductive resp := RVal (v : V) | RClosed | RSent | RCancelled | RDefault.
Inductive pend :=
| PSel (alts : list (gd * (resp -> L)))
| PClose (c : nat) (k : L)
| PCall (ev : O -> list E) (k : O -> L)
| PWait (ids : list nat) (k : L)
| PEnd.

Variable beh : L -> pend.

Record chan := Chan { cbuf : list V; ccap : nat; cclosed : bool }.
Record net := Net { procs : list L; chans : list chan; cancelled : bool; log : list E; panicked : bool }.

Definition set_proc (n : net) (i : nat) (l : L) : net :=
  Net (<[i := l]> (procs n)) (chans n) (cancelled n) (log n) (panicked n).
Definition set_chan (n : net) (c : nat) (ch : chan) : net :=
  Net (procs n) (<[c := ch]> (chans n)) (cancelled n) (log n) (panicked n).

Definition ended (l : L) : Prop := beh l = PEnd.
Definition all_ended (n : net) (ids : list nat) : Prop :=
  Forall (fun i => exists l, procs n !! i = Some l /\ ended l) ids.

Inductive nstep : net -> net -> Prop :=
| NRecv n i l alts c k ch v rest :
    procs n !! i = Some l -> beh l = PSel alts -> (GRecv c, k) ∈ alts ->
    chans n !! c = Some ch -> cbuf ch = v :: rest ->
    nstep n (set_chan (set_proc n i (k (RVal v))) c (Chan rest (ccap ch) (cclosed ch)))
| NRecvClosed n i l alts c k ch :
    procs n !! i = Some l -> beh l = PSel alts -> (GRecv c, k) ∈ alts ->
    chans n !! c = Some ch -> cbuf ch = [] -> cclosed ch = true ->
    nstep n (set_proc n i (k RClosed))
| NSend n i l alts c v k ch :
    procs n !! i = Some l -> beh l = PSel alts -> (GSend c v, k) ∈ alts ->
    chans n !! c = Some ch -> cclosed ch = false -> length (cbuf ch) < ccap ch ->
    nstep n (set_chan (set_proc n i (k RSent)) c (Chan (cbuf ch ++ [v]) (ccap ch) false))
| NSendClosed n i l alts c v k ch :
    procs n !! i = Some l -> beh l = PSel alts -> (GSend c v, k) ∈ alts ->
    chans n !! c = Some ch -> cclosed ch = true ->
    nstep n (Net (procs n) (chans n) (cancelled n) (log n) true)
| NRendezvous n i j li lj altsi altsj c v ki kj ch :
    i ≠ j -> procs n !! i = Some li -> procs n !! j = Some lj ->
    beh li = PSel altsi -> (GSend c v, ki) ∈ altsi ->
    beh lj = PSel altsj -> (GRecv c, kj) ∈ altsj ->
    chans n !! c = Some ch -> ccap ch = 0 -> cclosed ch = false ->
    nstep n (set_proc (set_proc n i (ki RSent)) j (kj (RVal v)))
| NDone n i l alts k :
    procs n !! i = Some l -> beh l = PSel alts -> (GDone, k) ∈ alts -> cancelled n = true ->
    nstep n (set_proc n i (k RCancelled))
| NDefault n i l alts k :
    (* a select with a default branch; over-approximated: the default may be taken at any time *)
    procs n !! i = Some l -> beh l = PSel alts -> (GDefault, k) ∈ alts ->
    nstep n (set_proc n i (k RDefault))
| NClose n i l c k ch :
    procs n !! i = Some l -> beh l = PClose c k -> chans n !! c = Some ch -> cclosed ch = false ->
    nstep n (set_chan (set_proc n i k) c (Chan (cbuf ch) (ccap ch) true))
| NCloseClosed n i l c k ch :
    procs n !! i = Some l -> beh l = PClose c k -> chans n !! c = Some ch -> cclosed ch = true ->
    nstep n (Net (procs n) (chans n) (cancelled n) (log n) true)
| NCall n i l ev k o :
    procs n !! i = Some l -> beh l = PCall ev k ->
    nstep n (Net (<[i := k o]> (procs n)) (chans n) (cancelled n) (log n ++ ev o) (panicked n))
| NWait n i l ids k :
    procs n !! i = Some l -> beh l = PWait ids k -> all_ended n ids ->
    nstep n (set_proc n i k)
| NCancel n :
    nstep n (Net (procs n) (chans n) true (log n) (panicked n)).

Inductive reachable (n0 : net) : net -> Prop :=
| R0 : reachable n0 n0
| RS n n' : reachable n0 n -> nstep n n' -> reachable n0 n'.

Lemma invariant_reachable (Inv : net -> Prop) n0 :
  Inv n0 -> (forall n n', Inv n -> nstep n n' -> Inv n') -> forall n, reachable n0 n -> Inv n.
Proof. intros H0 HS n Hr. induction Hr; eauto. Qed.

Lemma reachable_trans n0 n1 n2 : reachable n0 n1 -> reachable n1 n2 -> reachable n0 n2.
Proof. intros H1 H2. induction H2; [exact H1|]. eapply RS; eauto. Qed.

(* ------------------------------------------------------------------------------------------
   Conservation by a potential function.  [W l] is the multiset of tokens a goroutine holds in
   local state [l]; [tokV] / [tokE] project channel values and logged events to tokens.  If every
   local move of [beh] balances ([conserving]), then in every reachable state that has not been
   cancelled:  tokens held by goroutines ⊎ tokens in channel buffers ⊎ tokens in the log
   is what it was initially.  Nothing here depends on the number or the kinds of goroutines. *)
Context {T : Type} `{Countable T}.
Variable W : L -> gmultiset T.
Variable tokV : V -> gmultiset T.
Variable tokE : E -> gmultiset T.

Definition msum {A} (f : A -> gmultiset T) (l : list A) : gmultiset T := foldr (fun a acc => f a ⊎ acc) ∅ l.

Lemma msum_app {A} (f : A -> gmultiset T) l1 l2 : msum f (l1 ++ l2) = msum f l1 ⊎ msum f l2.
Proof. induction l1 as [|a l1 IH]; simpl; [multiset_solver|]. rewrite IH. multiset_solver. Qed.

Lemma msum_insert {A} (f : A -> gmultiset T) l i a a' :
  l !! i = Some a -> msum f (<[i := a']> l) ⊎ f a = msum f l ⊎ f a'.
Proof.
  revert i. induction l as [|x l IH]; intros i Hi; [done|].
  destruct i as [|i]; simpl in *.
  - injection Hi as ->. multiset_solver.
  - specialize (IH i Hi). multiset_solver.
Qed.

Definition bufW (ch : chan) : gmultiset T := msum tokV (cbuf ch).
Definition potential (n : net) : gmultiset T :=
  msum W (procs n) ⊎ msum bufW (chans n) ⊎ msum tokE (log n).

Definition conserving : Prop :=
  forall l,
    match beh l with
    | PSel alts => forall g k, (g, k) ∈ alts ->
        match g with
        | GRecv _ => (forall v, W (k (RVal v)) = W l ⊎ tokV v) /\ W (k RClosed) = W l
        | GSend _ v => W l = W (k RSent) ⊎ tokV v
        | GDone => True
        | GDefault => W (k RDefault) = W l
        end
    | PClose _ k => W k = W l
    | PCall ev k => forall o, W l = W (k o) ⊎ msum tokE (ev o)
    | PWait _ k => W k = W l
    | PEnd => True
    end.

Lemma potential_step n n' :
  conserving -> nstep n n' -> cancelled n' = false -> potential n' = potential n.
Proof.
  intros Hc Hstep. unfold potential.
  destruct Hstep as
    [n i l alts c k ch v rest Hp Hb Ha Hch Hbuf
    |n i l alts c k ch Hp Hb Ha Hch Hbuf Hcl
    |n i l alts c v k ch Hp Hb Ha Hch Hcl Hlen
    |n i l alts c v k ch Hp Hb Ha Hch Hcl
    |n i j li lj altsi altsj c v ki kj ch Hij Hpi Hpj Hbi Hai Hbj Haj Hch Hcap Hcl
    |n i l alts k Hp Hb Ha Hcan'
    |n i l alts k Hp Hb Ha
    |n i l c k ch Hp Hb Hch Hcl
    |n i l c k ch Hp Hb Hch Hcl
    |n i l ev k o Hp Hb
    |n i l ids k Hp Hb Hall
    |n]; simpl; intros Hcan; try discriminate.
  - (* NRecv *)
    pose proof (Hc l) as Hl. rewrite Hb in Hl. specialize (Hl _ _ Ha). simpl in Hl. destruct Hl as [Hv _].
    pose proof (msum_insert W (procs n) i l (k (RVal v)) Hp) as A.
    pose proof (msum_insert bufW (chans n) c ch (Chan rest (ccap ch) (cclosed ch)) Hch) as B.
    rewrite Hv in A.
    change (bufW (Chan rest (ccap ch) (cclosed ch))) with (msum tokV rest) in B.
    change (bufW ch) with (msum tokV (cbuf ch)) in B. rewrite Hbuf in B. simpl in B.
    clear -A B. multiset_solver.
  - (* NRecvClosed *)
    pose proof (Hc l) as Hl. rewrite Hb in Hl. specialize (Hl _ _ Ha). simpl in Hl. destruct Hl as [_ Hcl'].
    pose proof (msum_insert W (procs n) i l (k RClosed) Hp) as A. rewrite Hcl' in A.
    clear -A. multiset_solver.
  - (* NSend *)
    pose proof (Hc l) as Hl. rewrite Hb in Hl. specialize (Hl _ _ Ha). simpl in Hl.
    pose proof (msum_insert W (procs n) i l (k RSent) Hp) as A.
    pose proof (msum_insert bufW (chans n) c ch (Chan (cbuf ch ++ [v]) (ccap ch) false) Hch) as B.
    change (bufW (Chan (cbuf ch ++ [v]) (ccap ch) false)) with (msum tokV (cbuf ch ++ [v])) in B.
    change (bufW ch) with (msum tokV (cbuf ch)) in B.
    rewrite msum_app in B. simpl in B. rewrite Hl in A.
    clear -A B. multiset_solver.
  - (* NSendClosed *) reflexivity.
  - (* NRendezvous *)
    pose proof (Hc li) as Hli. rewrite Hbi in Hli. specialize (Hli _ _ Hai). simpl in Hli.
    pose proof (Hc lj) as Hlj. rewrite Hbj in Hlj. specialize (Hlj _ _ Haj). simpl in Hlj. destruct Hlj as [Hv _].
    pose proof (msum_insert W (procs n) i li (ki RSent) Hpi) as A.
    assert (Hj : <[i:=ki RSent]> (procs n) !! j = Some lj) by (rewrite list_lookup_insert_ne; done).
    pose proof (msum_insert W (<[i:=ki RSent]> (procs n)) j lj (kj (RVal v)) Hj) as B.
    rewrite Hv in B. rewrite Hli in A. clear -A B. multiset_solver.
  - (* NDone *) rewrite Hcan' in Hcan. discriminate.
  - (* NDefault *)
    pose proof (Hc l) as Hl. rewrite Hb in Hl. specialize (Hl _ _ Ha). simpl in Hl.
    pose proof (msum_insert W (procs n) i l (k RDefault) Hp) as A. rewrite Hl in A.
    clear -A. multiset_solver.
  - (* NClose *)
    pose proof (Hc l) as Hl. rewrite Hb in Hl.
    pose proof (msum_insert W (procs n) i l k Hp) as A. rewrite Hl in A.
    pose proof (msum_insert bufW (chans n) c ch (Chan (cbuf ch) (ccap ch) true) Hch) as B.
    change (bufW (Chan (cbuf ch) (ccap ch) true)) with (msum tokV (cbuf ch)) in B.
    change (bufW ch) with (msum tokV (cbuf ch)) in B.
    clear -A B. multiset_solver.
  - (* NCloseClosed *) reflexivity.
  - (* NCall *)
    pose proof (Hc l) as Hl. rewrite Hb in Hl. specialize (Hl o).
    pose proof (msum_insert W (procs n) i l (k o) Hp) as A. rewrite msum_app. rewrite Hl in A.
    clear -A. multiset_solver.
  - (* NWait *)
    pose proof (Hc l) as Hl. rewrite Hb in Hl.
    pose proof (msum_insert W (procs n) i l k Hp) as A. rewrite Hl in A. clear -A. multiset_solver.
Qed.

Lemma cancelled_mono n n' : nstep n n' -> cancelled n = true -> cancelled n' = true.
Proof. intros Hs Hc. inversion Hs; subst; simpl; auto. Qed.

Theorem conservation n0 n :
  conserving -> reachable n0 n -> cancelled n = false -> potential n = potential n0.
Proof.
  intros Hc Hr. induction Hr as [|n n' Hr IH Hstep]; [reflexivity|].
  intros Hcan. rewrite (potential_step n n' Hc Hstep Hcan). apply IH.
  destruct (cancelled n) eqn:Ecn; [|reflexivity]. rewrite (cancelled_mono n n' Hstep Ecn) in Hcan. discriminate.
Qed.

(* ------------------------------------------------------------------------------------------
   Generic safety disciplines, again independent of the number and kinds of goroutines.

   [typed]      every value in a channel buffer satisfies PV and every local state satisfies PL.
   [roles]      goroutine j keeps the role it had initially.
   [fin]        the goroutines a local state "knows to have ended" (through WaitGroup.Wait) have ended.
   [live]       an over-approximation of the channels a goroutine may still send on or close; it
                only shrinks; a channel is closed only when it is live for no other goroutine; then
                no reachable state has panicked (no send on a closed channel, no double close). *)

Lemma ended_no_step_proc n n' j l :
  nstep n n' -> procs n !! j = Some l -> ended l -> procs n' !! j = Some l.
Proof.
  intros Hs Hj He. unfold ended in He.
  assert (Hins : forall (ps : list L) (i : nat) (l0 x : L), ps !! i = Some l0 -> ps !! j = Some l -> beh l0 <> PEnd ->
                 <[i := x]> ps !! j = Some l).
  { intros ps i l0 x Hi Hjj Hne. destruct (decide (i = j)) as [->|Hij].
    - exfalso. apply Hne. congruence.
    - rewrite list_lookup_insert_ne by done. assumption. }
  destruct Hs as
    [n i l0 alts c k ch v rest Hpi Hbl Ha Hch Hbuf
    |n i l0 alts c k ch Hpi Hbl Ha Hch Hbuf Hcl
    |n i l0 alts c v k ch Hpi Hbl Ha Hch Hcl Hlen
    |n i l0 alts c v k ch Hpi Hbl Ha Hch Hcl
    |n i j0 li lj altsi altsj c v ki kj ch Hij Hpi Hpj Hbi Hai Hbj Haj Hch Hcap Hcl
    |n i l0 alts k Hpi Hbl Ha Hcan'
    |n i l0 alts k Hpi Hbl Ha
    |n i l0 c k ch Hpi Hbl Hch Hcl
    |n i l0 c k ch Hpi Hbl Hch Hcl
    |n i l0 ev k o Hpi Hbl
    |n i l0 ids k Hpi Hbl Hall
    |n]; simpl; try assumption;
    try (eapply Hins; [eassumption|assumption|congruence]).
  (* rendezvous *)
  eapply (Hins _ j0 lj); [|eapply Hins; [eassumption|assumption|congruence]|congruence].
  rewrite list_lookup_insert_ne by done. assumption.
Qed.

Section typed.
Variable PL : L -> Prop.
Variable PV : nat -> V -> Prop.   (* channel index, value *)
Variable PE : E -> Prop.
Definition typed_beh : Prop := forall l, PL l ->
  match beh l with
  | PSel alts => forall g k, (g, k) ∈ alts ->
      match g with
      | GRecv c => (forall v, PV c v -> PL (k (RVal v))) /\ PL (k RClosed)
      | GSend c v => PV c v /\ PL (k RSent)
      | GDone => PL (k RCancelled)
      | GDefault => PL (k RDefault)
      end
  | PClose _ k => PL k
  | PCall ev k => forall o, PL (k o) /\ Forall PE (ev o)
  | PWait _ k => PL k
  | PEnd => True
  end.
Definition typed (n : net) : Prop :=
  (Forall PL (procs n) /\ Forall PE (log n)) /\
  forall c ch, chans n !! c = Some ch -> Forall (PV c) (cbuf ch).

Lemma Forall_insert_2 {A} (P : A -> Prop) (l : list A) i x : Forall P l -> P x -> Forall P (<[i := x]> l).
Proof. intros Hl Hx. apply Forall_insert; assumption. Qed.

Lemma typed_step n n' : typed_beh -> typed n -> nstep n n' -> typed n'.
Proof.
  intros Hb [[Hp Hlog] Hgc] Hs.
  assert (Hget : forall i l, procs n !! i = Some l -> PL l) by (intros i l Hi; eapply Forall_lookup_1; eauto).
  assert (Hupd : forall c0 ch0 ch1, chans n !! c0 = Some ch0 -> Forall (PV c0) (cbuf ch1) ->
            forall c ch, <[c0 := ch1]> (chans n) !! c = Some ch -> Forall (PV c) (cbuf ch)).
  { intros c0 ch0 ch1 H0 H1 c ch Hc. destruct (decide (c0 = c)) as [->|Hne].
    - rewrite list_lookup_insert in Hc by (eapply lookup_lt_Some; eassumption). injection Hc as <-. assumption.
    - rewrite list_lookup_insert_ne in Hc by done. eauto. }
  destruct Hs as
    [n i l alts c k ch v rest Hpi Hbl Ha Hch Hbuf
    |n i l alts c k ch Hpi Hbl Ha Hch Hbuf Hcl
    |n i l alts c v k ch Hpi Hbl Ha Hch Hcl Hlen
    |n i l alts c v k ch Hpi Hbl Ha Hch Hcl
    |n i j li lj altsi altsj c v ki kj ch Hij Hpi Hpj Hbi Hai Hbj Haj Hch Hcap Hcl
    |n i l alts k Hpi Hbl Ha Hcan'
    |n i l alts k Hpi Hbl Ha
    |n i l c k ch Hpi Hbl Hch Hcl
    |n i l c k ch Hpi Hbl Hch Hcl
    |n i l ev k o Hpi Hbl
    |n i l ids k Hpi Hbl Hall
    |n]; simpl in *; try (split; [split|]; assumption).
  - pose proof (Hb l (Hget _ _ Hpi)) as H1. rewrite Hbl in H1. destruct (H1 _ _ Ha) as [H2 _].
    pose proof (Hgc _ _ Hch) as H3. rewrite Hbuf in H3. apply Forall_cons in H3. destruct H3 as [Hv Hrest].
    split; [split; [apply Forall_insert_2; auto|assumption]|]. eapply Hupd; eauto.
  - pose proof (Hb l (Hget _ _ Hpi)) as H1. rewrite Hbl in H1. destruct (H1 _ _ Ha) as [_ H2].
    split; [split; [apply Forall_insert_2; auto|assumption]|assumption].
  - pose proof (Hb l (Hget _ _ Hpi)) as H1. rewrite Hbl in H1. destruct (H1 _ _ Ha) as [Hv H2].
    split; [split; [apply Forall_insert_2; auto|assumption]|]. eapply Hupd; eauto. simpl.
    apply Forall_app. split; [eauto|]. constructor; [assumption|constructor].
  - pose proof (Hb li (Hget _ _ Hpi)) as H1. rewrite Hbi in H1. destruct (H1 _ _ Hai) as [Hv H2].
    pose proof (Hb lj (Hget _ _ Hpj)) as H3. rewrite Hbj in H3. destruct (H3 _ _ Haj) as [H4 _].
    split; [split; [|assumption]|assumption]. apply Forall_insert_2; [apply Forall_insert_2; auto|auto].
  - pose proof (Hb l (Hget _ _ Hpi)) as H1. rewrite Hbl in H1. specialize (H1 _ _ Ha). simpl in H1.
    split; [split; [apply Forall_insert_2; auto|assumption]|assumption].
  - pose proof (Hb l (Hget _ _ Hpi)) as H1. rewrite Hbl in H1. specialize (H1 _ _ Ha). simpl in H1.
    split; [split; [apply Forall_insert_2; auto|assumption]|assumption].
  - pose proof (Hb l (Hget _ _ Hpi)) as H1. rewrite Hbl in H1.
    split; [split; [apply Forall_insert_2; auto|assumption]|]. eapply Hupd; eauto. simpl. eauto.
  - pose proof (Hb l (Hget _ _ Hpi)) as H1. rewrite Hbl in H1. destruct (H1 o) as [H2 H3].
    split; [split|assumption]; [apply Forall_insert_2; auto|apply Forall_app; split; assumption].
  - pose proof (Hb l (Hget _ _ Hpi)) as H1. rewrite Hbl in H1.
    split; [split; [apply Forall_insert_2; auto|assumption]|assumption].
Qed.

Theorem typed_reachable n0 n : typed_beh -> typed n0 -> reachable n0 n -> typed n.
Proof. intros Hb H0 Hr. induction Hr; [assumption|]. eapply typed_step; eauto. Qed.
End typed.

Section discipline.
Context {R : Type}.
Variable role : L -> R.
Variable fin : L -> list nat.
Variable live : L -> nat -> Prop.

Definition conts (l : L) (l' : L) : Prop :=
  match beh l with
  | PSel alts => exists g k r, (g, k) ∈ alts /\ l' = k r
  | PClose _ k => l' = k
  | PCall _ k => exists o, l' = k o
  | PWait _ k => l' = k
  | PEnd => False
  end.

Definition disciplined : Prop := forall l,
  (forall l', conts l l' -> role l' = role l) /\
  match beh l with
  | PSel alts => forall g k, (g, k) ∈ alts ->
      (match g with GSend c _ => live l c | _ => True end) /\
      forall r, fin (k r) ⊆ fin l /\ forall c, live (k r) c -> live l c
  | PClose c k => live l c /\ fin k ⊆ fin l /\ (forall c', live k c' -> live l c') /\ ~ live k c
  | PCall _ k => forall o, fin (k o) ⊆ fin l /\ forall c, live (k o) c -> live l c
  | PWait ids k => fin k ⊆ fin l ++ ids /\ forall c, live k c -> live l c
  | PEnd => forall c, ~ live l c
  end.

Definition roles_of (n : net) : list R := role <$> procs n.

Definition fin_ok (n : net) : Prop :=
  forall j l i, procs n !! j = Some l -> i ∈ fin l -> exists li, procs n !! i = Some li /\ ended li.

(* a closed channel is live for nobody *)
Definition closed_dead (n : net) : Prop :=
  forall c ch, chans n !! c = Some ch -> cclosed ch = true ->
  forall j l, procs n !! j = Some l -> ~ live l c.

(* the network-specific side condition: whoever closes c is the last goroutine for which c is live *)
Definition exclusive_close (layout : list R) : Prop :=
  forall n i l c k, roles_of n = layout -> fin_ok n ->
    procs n !! i = Some l -> beh l = PClose c k ->
    forall j lj, j <> i -> procs n !! j = Some lj -> ~ live lj c.

Lemma roles_step n n' : disciplined -> nstep n n' -> roles_of n' = roles_of n.
Proof.
  intros Hd Hs. unfold roles_of.
  assert (Hupd : forall (ps : list L) (i : nat) (l l' : L), ps !! i = Some l -> role l' = role l -> role <$> <[i := l']> ps = role <$> ps).
  { intros ps i l l' Hi Hr. rewrite list_fmap_insert. rewrite Hr. apply list_insert_id. rewrite list_lookup_fmap, Hi. done. }
  destruct Hs as
    [n i l alts c k ch v rest Hpi Hbl Ha Hch Hbuf
    |n i l alts c k ch Hpi Hbl Ha Hch Hbuf Hcl
    |n i l alts c v k ch Hpi Hbl Ha Hch Hcl Hlen
    |n i l alts c v k ch Hpi Hbl Ha Hch Hcl
    |n i j li lj altsi altsj c v ki kj ch Hij Hpi Hpj Hbi Hai Hbj Haj Hch Hcap Hcl
    |n i l alts k Hpi Hbl Ha Hcan'
    |n i l alts k Hpi Hbl Ha
    |n i l c k ch Hpi Hbl Hch Hcl
    |n i l c k ch Hpi Hbl Hch Hcl
    |n i l ev k o Hpi Hbl
    |n i l ids k Hpi Hbl Hall
    |n]; simpl; try done.
  all: try (eapply Hupd; [eassumption|]; apply (proj1 (Hd l)); unfold conts; rewrite Hbl; eauto; fail).
  - (* rendezvous *)
    assert (Hj : <[i:=ki RSent]> (procs n) !! j = Some lj) by (rewrite list_lookup_insert_ne; done).
    rewrite (Hupd _ j lj (kj (RVal v)) Hj).
    + eapply Hupd; [eassumption|]. apply (proj1 (Hd li)). unfold conts. rewrite Hbi. eauto.
    + apply (proj1 (Hd lj)). unfold conts. rewrite Hbj. eauto.
Qed.

Lemma roles_reachable n0 n : disciplined -> reachable n0 n -> roles_of n = roles_of n0.
Proof. intros Hd Hr. induction Hr; [done|]. rewrite <- IHHr. apply roles_step; assumption. Qed.

(* the continuation relation, as seen by a step: which goroutines changed, and to what *)
Lemma step_frame n n' j l' :
  nstep n n' -> procs n' !! j = Some l' ->
  procs n !! j = Some l' \/ exists l, procs n !! j = Some l /\ conts l l' /\
     (forall ids k, beh l = PWait ids k -> all_ended n ids).
Proof.
  intros Hs Hj.
  destruct Hs as
    [n i l alts c k ch v rest Hpi Hbl Ha Hch Hbuf
    |n i l alts c k ch Hpi Hbl Ha Hch Hbuf Hcl
    |n i l alts c v k ch Hpi Hbl Ha Hch Hcl Hlen
    |n i l alts c v k ch Hpi Hbl Ha Hch Hcl
    |n i j0 li lj altsi altsj c v ki kj ch Hij Hpi Hpj Hbi Hai Hbj Haj Hch Hcap Hcl
    |n i l alts k Hpi Hbl Ha Hcan'
    |n i l alts k Hpi Hbl Ha
    |n i l c k ch Hpi Hbl Hch Hcl
    |n i l c k ch Hpi Hbl Hch Hcl
    |n i l ev k o Hpi Hbl
    |n i l ids k Hpi Hbl Hall
    |n]; simpl in *; try (left; assumption).
  all: try (destruct (decide (i = j)) as [->|Hne];
            [ rewrite list_lookup_insert in Hj by (eapply lookup_lt_Some; eassumption); injection Hj as <-;
              right; eexists; split; [eassumption|]; split; [unfold conts; rewrite Hbl; eauto|intros ? ? Hw; congruence]
            | rewrite list_lookup_insert_ne in Hj by done; left; assumption ]; fail).
  - (* rendezvous *)
    destruct (decide (j0 = j)) as [->|Hnej].
    + rewrite list_lookup_insert in Hj by (rewrite insert_length; eapply lookup_lt_Some; eassumption). injection Hj as <-.
      right. eexists; split; [eassumption|]. split; [unfold conts; rewrite Hbj; eauto|intros ? ? Hw; congruence].
    + rewrite list_lookup_insert_ne in Hj by done.
      destruct (decide (i = j)) as [->|Hnei].
      * rewrite list_lookup_insert in Hj by (eapply lookup_lt_Some; eassumption). injection Hj as <-.
        right. eexists; split; [eassumption|]. split; [unfold conts; rewrite Hbi; eauto|intros ? ? Hw; congruence].
      * rewrite list_lookup_insert_ne in Hj by done. left; assumption.
Qed.

Lemma ended_stable n n' i li : nstep n n' -> procs n !! i = Some li -> ended li ->
  exists li', procs n' !! i = Some li' /\ ended li'.
Proof. intros Hs Hi He. exists li. split; [eapply ended_no_step_proc; eauto|assumption]. Qed.

Lemma fin_of_cont l l' : disciplined -> conts l l' ->
  (forall i, i ∈ fin l' -> i ∈ fin l \/ exists ids k, beh l = PWait ids k /\ i ∈ ids).
Proof.
  intros Hd Hc i Hi. destruct (Hd l) as [_ Hm]. unfold conts in Hc.
  destruct (beh l) as [alts|c k|ev k|ids k|] eqn:Hb.
  - destruct Hc as (g & k & r & Ha & ->). destruct (Hm g k Ha) as [_ Hr]. destruct (Hr r) as [Hf _]. left. apply Hf, Hi.
  - subst l'. destruct Hm as (_ & Hf & _). left. apply Hf, Hi.
  - destruct Hc as [o ->]. destruct (Hm o) as [Hf _]. left. apply Hf, Hi.
  - subst l'. destruct Hm as [Hf _]. apply Hf in Hi. apply elem_of_app in Hi. destruct Hi as [Hi|Hi]; [left; assumption|].
    right. exists ids, k. split; [reflexivity|assumption].
  - destruct Hc.
Qed.

Lemma fin_step n n' : disciplined -> fin_ok n -> nstep n n' -> fin_ok n'.
Proof.
  intros Hd Hf Hs j l' i Hj Hi.
  assert (Hstable : forall li, procs n !! i = Some li -> ended li -> exists li', procs n' !! i = Some li' /\ ended li').
  { intros li H1 H2. eapply ended_stable; eauto. }
  destruct (step_frame n n' j l' Hs Hj) as [Hsame|(l & Hl & Hc & Hw)].
  - destruct (Hf j l' i Hsame Hi) as (li & H1 & H2). eauto.
  - destruct (fin_of_cont l l' Hd Hc i Hi) as [Hold|(ids & k & Hb & Hin)].
    + destruct (Hf j l i Hl Hold) as (li & H1 & H2). eauto.
    + specialize (Hw ids k Hb). unfold all_ended in Hw. rewrite Forall_forall in Hw.
      destruct (Hw i Hin) as (li & H1 & H2). eauto.
Qed.

Lemma live_of_cont l l' c : disciplined -> conts l l' -> live l' c -> live l c.
Proof.
  intros Hd Hc Hl. destruct (Hd l) as [_ Hm]. unfold conts in Hc.
  destruct (beh l) as [alts|c0 k|ev k|ids k|] eqn:Hb.
  - destruct Hc as (g & k & r & Ha & ->). destruct (Hm g k Ha) as [_ Hr]. destruct (Hr r) as [_ Hlv]. auto.
  - subst l'. destruct Hm as (_ & _ & Hlv & _). auto.
  - destruct Hc as [o ->]. destruct (Hm o) as [_ Hlv]. auto.
  - subst l'. destruct Hm as [_ Hlv]. auto.
  - destruct Hc.
Qed.

Definition safe (layout : list R) (n : net) : Prop :=
  roles_of n = layout /\ fin_ok n /\ closed_dead n /\ panicked n = false.

Lemma chan_closed_step n n' c ch' :
  nstep n n' -> chans n' !! c = Some ch' -> cclosed ch' = true ->
  (exists ch, chans n !! c = Some ch /\ cclosed ch = true) \/
  (exists i l k, procs n !! i = Some l /\ beh l = PClose c k /\ procs n' !! i = Some k /\
                 forall j, j <> i -> procs n' !! j = procs n !! j).
Proof.
  intros Hs Hc Hcl.
  destruct Hs as
    [n i l alts c0 k ch v rest Hpi Hbl Ha Hch Hbuf
    |n i l alts c0 k ch Hpi Hbl Ha Hch Hbuf Hcl0
    |n i l alts c0 v k ch Hpi Hbl Ha Hch Hcl0 Hlen
    |n i l alts c0 v k ch Hpi Hbl Ha Hch Hcl0
    |n i j0 li lj altsi altsj c0 v ki kj ch Hij Hpi Hpj Hbi Hai Hbj Haj Hch Hcap Hcl0
    |n i l alts k Hpi Hbl Ha Hcan'
    |n i l alts k Hpi Hbl Ha
    |n i l c0 k ch Hpi Hbl Hch Hcl0
    |n i l c0 k ch Hpi Hbl Hch Hcl0
    |n i l ev k o Hpi Hbl
    |n i l ids k Hpi Hbl Hall
    |n]; simpl in *; try (left; eauto; fail).
  - destruct (decide (c0 = c)) as [->|Hne].
    + rewrite list_lookup_insert in Hc by (eapply lookup_lt_Some; eassumption). injection Hc as <-. simpl in Hcl. left; eauto.
    + rewrite list_lookup_insert_ne in Hc by done. left; eauto.
  - destruct (decide (c0 = c)) as [->|Hne].
    + rewrite list_lookup_insert in Hc by (eapply lookup_lt_Some; eassumption). injection Hc as <-. simpl in Hcl. discriminate.
    + rewrite list_lookup_insert_ne in Hc by done. left; eauto.
  - destruct (decide (c0 = c)) as [->|Hne].
    + right. exists i, l, k. split; [assumption|]. split; [assumption|]. split.
      * apply list_lookup_insert. eapply lookup_lt_Some; eassumption.
      * intros j Hj. apply list_lookup_insert_ne. congruence.
    + rewrite list_lookup_insert_ne in Hc by done. left; eauto.
Qed.

Lemma safe_step layout n n' :
  disciplined -> exclusive_close layout -> safe layout n -> nstep n n' -> safe layout n'.
Proof.
  intros Hd Hex (Hroles & Hfin & Hdead & Hpan) Hs.
  assert (Hroles' : roles_of n' = layout) by (rewrite (roles_step n n' Hd Hs); assumption).
  assert (Hfin' : fin_ok n') by (eapply fin_step; eauto).
  split; [assumption|]. split; [assumption|]. split.
  - (* closed_dead *)
    intros c ch' Hc Hcl j l' Hj Hlive.
    destruct (chan_closed_step n n' c ch' Hs Hc Hcl) as [(ch & Hch & Hclo)|(i & l & k & Hpi & Hbl & Hpi' & Hothers)].
    + destruct (step_frame n n' j l' Hs Hj) as [Hsame|(l & Hl & Hcont & _)].
      * exact (Hdead c ch Hch Hclo j l' Hsame Hlive).
      * apply (Hdead c ch Hch Hclo j l Hl). eapply live_of_cont; eauto.
    + destruct (decide (j = i)) as [->|Hne].
      * rewrite Hpi' in Hj. injection Hj as <-. destruct (Hd l) as [_ Hm]. rewrite Hbl in Hm.
        destruct Hm as (_ & _ & _ & Hnl). exact (Hnl Hlive).
      * rewrite (Hothers j Hne) in Hj. exact (Hex n i l c k Hroles Hfin Hpi Hbl j l' Hne Hj Hlive).
  - (* no panic *)
    destruct Hs as
      [n i l alts c0 k ch v rest Hpi Hbl Ha Hch Hbuf
      |n i l alts c0 k ch Hpi Hbl Ha Hch Hbuf Hcl0
      |n i l alts c0 v k ch Hpi Hbl Ha Hch Hcl0 Hlen
      |n i l alts c0 v k ch Hpi Hbl Ha Hch Hcl0
      |n i j0 li lj altsi altsj c0 v ki kj ch Hij Hpi Hpj Hbi Hai Hbj Haj Hch Hcap Hcl0
      |n i l alts k Hpi Hbl Ha Hcan'
      |n i l alts k Hpi Hbl Ha
      |n i l c0 k ch Hpi Hbl Hch Hcl0
      |n i l c0 k ch Hpi Hbl Hch Hcl0
      |n i l ev k o Hpi Hbl
      |n i l ids k Hpi Hbl Hall
      |n]; simpl in *; try assumption.
    + (* send on closed: impossible *)
      exfalso. destruct (Hd l) as [_ Hm]. rewrite Hbl in Hm. destruct (Hm _ _ Ha) as [Hlv _]. simpl in Hlv.
      exact (Hdead c0 ch Hch Hcl0 i l Hpi Hlv).
    + (* double close: impossible *)
      exfalso. destruct (Hd l) as [_ Hm]. rewrite Hbl in Hm. destruct Hm as (Hlv & _).
      exact (Hdead c0 ch Hch Hcl0 i l Hpi Hlv).
Qed.

Theorem safe_reachable layout n0 n :
  disciplined -> exclusive_close layout -> safe layout n0 -> reachable n0 n -> safe layout n.
Proof. intros Hd Hex H0 Hr. induction Hr; [assumption|]. eapply safe_step; eauto. Qed.

End discipline.

(* ------------------------------------------------------------------------------------------
   [needs]: channels that are closed AND drained whenever a goroutine is in a given local state
   (it got there by observing "closed" on a receive), as long as the context is not cancelled.
   [has_closed]: a closed channel has a goroutine that closed it. *)
Lemma step_frame_fwd n n' j l :
  nstep n n' -> procs n !! j = Some l ->
  procs n' !! j = Some l \/
  exists l', procs n' !! j = Some l' /\
    match beh l with
    | PSel alts => exists g k r, (g, k) ∈ alts /\ l' = k r
    | PClose _ k => l' = k
    | PCall _ k => exists o, l' = k o
    | PWait _ k => l' = k
    | PEnd => False
    end.
Proof.
  intros Hs Hj.
  assert (Hlt : j < length (procs n)) by (eapply lookup_lt_Some; eassumption).
  destruct Hs as
    [n i l0 alts c k ch v rest Hpi Hbl Ha Hch Hbuf
    |n i l0 alts c k ch Hpi Hbl Ha Hch Hbuf Hcl
    |n i l0 alts c v k ch Hpi Hbl Ha Hch Hcl Hlen
    |n i l0 alts c v k ch Hpi Hbl Ha Hch Hcl
    |n i j0 li lj altsi altsj c v ki kj ch Hij Hpi Hpj Hbi Hai Hbj Haj Hch Hcap Hcl
    |n i l0 alts k Hpi Hbl Ha Hcan'
    |n i l0 alts k Hpi Hbl Ha
    |n i l0 c k ch Hpi Hbl Hch Hcl
    |n i l0 c k ch Hpi Hbl Hch Hcl
    |n i l0 ev k o Hpi Hbl
    |n i l0 ids k Hpi Hbl Hall
    |n]; simpl in *; try (left; assumption).
  all: try (destruct (decide (i = j)) as [->|Hne];
            [ right; eexists; split; [apply list_lookup_insert; assumption|];
              assert (l0 = l) by congruence; subst l0; rewrite Hbl; eauto
            | left; rewrite list_lookup_insert_ne by done; assumption ]; fail).
  (* rendezvous *)
  destruct (decide (j0 = j)) as [->|Hnej].
  - right. eexists; split; [apply list_lookup_insert; rewrite insert_length; assumption|].
    assert (lj = l) by congruence; subst lj. rewrite Hbj. eauto.
  - rewrite list_lookup_insert_ne by done.
    destruct (decide (i = j)) as [->|Hnei].
    + right. eexists; split; [apply list_lookup_insert; assumption|].
      assert (li = l) by congruence; subst li. rewrite Hbi. eauto.
    + left. rewrite list_lookup_insert_ne by done. assumption.
Qed.

Definition closed_empty (n : net) (c : nat) : Prop :=
  exists ch, chans n !! c = Some ch /\ cclosed ch = true /\ cbuf ch = [].

Lemma closed_empty_step n n' c : nstep n n' -> closed_empty n c -> closed_empty n' c.
Proof.
  intros Hs (ch & Hch & Hcl & Hbuf).
  assert (Hupd : forall c0 ch1, (c0 = c -> cclosed ch1 = true /\ cbuf ch1 = []) ->
            exists ch', <[c0 := ch1]> (chans n) !! c = Some ch' /\ cclosed ch' = true /\ cbuf ch' = []).
  { intros c0 ch1 H1. destruct (decide (c0 = c)) as [->|Hne].
    - exists ch1. rewrite list_lookup_insert by (eapply lookup_lt_Some; eassumption). destruct (H1 eq_refl). auto.
    - exists ch. rewrite list_lookup_insert_ne by done. auto. }
  unfold closed_empty.
  destruct Hs as
    [n i l0 alts c0 k ch0 v rest Hpi Hbl Ha Hch0 Hbuf0
    |n i l0 alts c0 k ch0 Hpi Hbl Ha Hch0 Hbuf0 Hcl0
    |n i l0 alts c0 v k ch0 Hpi Hbl Ha Hch0 Hcl0 Hlen
    |n i l0 alts c0 v k ch0 Hpi Hbl Ha Hch0 Hcl0
    |n i j0 li lj altsi altsj c0 v ki kj ch0 Hij Hpi Hpj Hbi Hai Hbj Haj Hch0 Hcap Hcl0
    |n i l0 alts k Hpi Hbl Ha Hcan'
    |n i l0 alts k Hpi Hbl Ha
    |n i l0 c0 k ch0 Hpi Hbl Hch0 Hcl0
    |n i l0 c0 k ch0 Hpi Hbl Hch0 Hcl0
    |n i l0 ev k o Hpi Hbl
    |n i l0 ids k Hpi Hbl Hall
    |n]; simpl in *; eauto.
  - apply Hupd. intros ->. exfalso. congruence.
  - apply Hupd. intros ->. exfalso. congruence.
  - apply Hupd. intros ->. simpl. assert (ch0 = ch) by congruence. subst. auto.
Qed.

Section drained.
Variable needs : L -> list nat.
Definition needs_beh : Prop := forall l,
  match beh l with
  | PSel alts => forall g k, (g, k) ∈ alts ->
      match g with
      | GRecv c => (forall v, needs (k (RVal v)) ⊆ needs l) /\ needs (k RClosed) ⊆ c :: needs l
      | GSend _ _ => needs (k RSent) ⊆ needs l
      | GDone => True
      | GDefault => needs (k RDefault) ⊆ needs l
      end
  | PClose _ k => needs k ⊆ needs l
  | PCall _ k => forall o, needs (k o) ⊆ needs l
  | PWait _ k => needs k ⊆ needs l
  | PEnd => True
  end.

Definition needs_ok (n : net) : Prop :=
  cancelled n = false -> forall j l c, procs n !! j = Some l -> c ∈ needs l -> closed_empty n c.

Lemma needs_step n n' : needs_beh -> needs_ok n -> nstep n n' -> needs_ok n'.
Proof.
  intros Hb Hok Hs Hcan' j l' c Hj Hc.
  assert (Hcan : cancelled n = false).
  { destruct (cancelled n) eqn:Ec; [|reflexivity]. rewrite (cancelled_mono n n' Hs Ec) in Hcan'. discriminate. }
  specialize (Hok Hcan).
  assert (Hold : forall l, procs n !! j = Some l -> c ∈ needs l -> closed_empty n' c).
  { intros l H1 H2. eapply closed_empty_step; eauto. }
  assert (Hins : forall i (x : L) l0, procs n !! i = Some l0 -> <[i := x]> (procs n) !! j = Some l' ->
            (i = j /\ x = l') \/ (i <> j /\ procs n !! j = Some l')).
  { intros i x l0 Hi Hl. destruct (decide (i = j)) as [->|Hne].
    - left. rewrite list_lookup_insert in Hl by (eapply lookup_lt_Some; eassumption). split; congruence.
    - right. rewrite list_lookup_insert_ne in Hl by done. auto. }
  destruct Hs as
    [n i l0 alts c0 k ch0 v rest Hpi Hbl Ha Hch0 Hbuf0
    |n i l0 alts c0 k ch0 Hpi Hbl Ha Hch0 Hbuf0 Hcl0
    |n i l0 alts c0 v k ch0 Hpi Hbl Ha Hch0 Hcl0 Hlen
    |n i l0 alts c0 v k ch0 Hpi Hbl Ha Hch0 Hcl0
    |n i j0 li lj altsi altsj c0 v ki kj ch0 Hij Hpi Hpj Hbi Hai Hbj Haj Hch0 Hcap Hcl0
    |n i l0 alts k Hpi Hbl Ha Hcan0
    |n i l0 alts k Hpi Hbl Ha
    |n i l0 c0 k ch0 Hpi Hbl Hch0 Hcl0
    |n i l0 c0 k ch0 Hpi Hbl Hch0 Hcl0
    |n i l0 ev k o Hpi Hbl
    |n i l0 ids k Hpi Hbl Hall
    |n]; simpl in *; try discriminate; try (eapply Hold; eassumption).
  - destruct (Hins _ _ _ Hpi Hj) as [[-> <-]|[_ Hj0]]; [|eapply Hold; eassumption].
    pose proof (Hb l0) as H1. rewrite Hbl in H1. destruct (H1 _ _ Ha) as [H2 _]. eapply Hold; [eassumption|]. apply (H2 v), Hc.
  - destruct (Hins _ _ _ Hpi Hj) as [[-> <-]|[_ Hj0]]; [|eapply Hold; eassumption].
    pose proof (Hb l0) as H1. rewrite Hbl in H1. destruct (H1 _ _ Ha) as [_ H2].
    apply H2 in Hc. apply elem_of_cons in Hc. destruct Hc as [->|Hc]; [|eapply Hold; eassumption].
    exists ch0. auto.
  - destruct (Hins _ _ _ Hpi Hj) as [[-> <-]|[_ Hj0]]; [|eapply Hold; eassumption].
    pose proof (Hb l0) as H1. rewrite Hbl in H1. specialize (H1 _ _ Ha). simpl in H1. eapply Hold; [eassumption|]. apply H1, Hc.
  - (* rendezvous *)
    destruct (decide (j0 = j)) as [->|Hnej].
    + rewrite list_lookup_insert in Hj by (rewrite insert_length; eapply lookup_lt_Some; eassumption). injection Hj as <-.
      pose proof (Hb lj) as H1. rewrite Hbj in H1. destruct (H1 _ _ Haj) as [H2 _]. eapply Hold; [eassumption|]. apply (H2 v), Hc.
    + rewrite list_lookup_insert_ne in Hj by done.
      destruct (Hins _ _ _ Hpi Hj) as [[-> <-]|[_ Hj0]]; [|eapply Hold; eassumption].
      pose proof (Hb li) as H1. rewrite Hbi in H1. specialize (H1 _ _ Hai). simpl in H1. eapply Hold; [eassumption|]. apply H1, Hc.
  - congruence.
  - destruct (Hins _ _ _ Hpi Hj) as [[-> <-]|[_ Hj0]]; [|eapply Hold; eassumption].
    pose proof (Hb l0) as H1. rewrite Hbl in H1. specialize (H1 _ _ Ha). simpl in H1. eapply Hold; [eassumption|]. apply H1, Hc.
  - destruct (Hins _ _ _ Hpi Hj) as [[-> <-]|[_ Hj0]]; [|eapply Hold; eassumption].
    pose proof (Hb l0) as H1. rewrite Hbl in H1. eapply Hold; [eassumption|]. apply H1, Hc.
  - destruct (Hins _ _ _ Hpi Hj) as [[-> <-]|[_ Hj0]]; [|eapply Hold; eassumption].
    pose proof (Hb l0) as H1. rewrite Hbl in H1. eapply Hold; [eassumption|]. apply (H1 o), Hc.
  - destruct (Hins _ _ _ Hpi Hj) as [[-> <-]|[_ Hj0]]; [|eapply Hold; eassumption].
    pose proof (Hb l0) as H1. rewrite Hbl in H1. eapply Hold; [eassumption|]. apply H1, Hc.
Qed.

Theorem needs_reachable n0 n : needs_beh -> needs_ok n0 -> reachable n0 n -> needs_ok n.
Proof. intros Hb H0 Hr. induction Hr; [assumption|]. eapply needs_step; eauto. Qed.
End drained.

Lemma chan_closed_mono n n' c ch : nstep n n' -> chans n !! c = Some ch -> cclosed ch = true ->
  exists ch', chans n' !! c = Some ch' /\ cclosed ch' = true.
Proof.
  intros Hs Hc Hcl.
  assert (Hupd : forall c0 ch1, (c0 = c -> cclosed ch1 = true) ->
            exists ch', <[c0 := ch1]> (chans n) !! c = Some ch' /\ cclosed ch' = true).
  { intros c0 ch1 H1. destruct (decide (c0 = c)) as [->|Hne].
    - exists ch1. rewrite list_lookup_insert by (eapply lookup_lt_Some; eassumption). auto.
    - exists ch. rewrite list_lookup_insert_ne by done. auto. }
  destruct Hs as
    [n i l0 alts c0 k ch0 v rest Hpi Hbl Ha Hch0 Hbuf0
    |n i l0 alts c0 k ch0 Hpi Hbl Ha Hch0 Hbuf0 Hcl0
    |n i l0 alts c0 v k ch0 Hpi Hbl Ha Hch0 Hcl0 Hlen
    |n i l0 alts c0 v k ch0 Hpi Hbl Ha Hch0 Hcl0
    |n i j0 li lj altsi altsj c0 v ki kj ch0 Hij Hpi Hpj Hbi Hai Hbj Haj Hch0 Hcap Hcl0
    |n i l0 alts k Hpi Hbl Ha Hcan'
    |n i l0 alts k Hpi Hbl Ha
    |n i l0 c0 k ch0 Hpi Hbl Hch0 Hcl0
    |n i l0 c0 k ch0 Hpi Hbl Hch0 Hcl0
    |n i l0 ev k o Hpi Hbl
    |n i l0 ids k Hpi Hbl Hall
    |n]; simpl in *; eauto.
  - apply Hupd. intros ->. simpl. congruence.
  - apply Hupd. intros ->. exfalso. congruence.
Qed.

(* [did l c]: in local state l the goroutine has already closed channel c; then c is closed *)
Section didclose.
Variable did : L -> nat -> Prop.
Definition did_beh : Prop := forall l,
  match beh l with
  | PSel alts => forall g k r c, (g, k) ∈ alts -> did (k r) c -> did l c
  | PClose c k => forall c', did k c' -> c' = c \/ did l c'
  | PCall _ k => forall o c, did (k o) c -> did l c
  | PWait _ k => forall c, did k c -> did l c
  | PEnd => True
  end.
Definition did_ok (n : net) : Prop :=
  forall j l c, procs n !! j = Some l -> did l c -> exists ch, chans n !! c = Some ch /\ cclosed ch = true.

Lemma did_step n n' : did_beh -> did_ok n -> nstep n n' -> did_ok n'.
Proof.
  intros Hb Hok Hs j l' c Hj Hd.
  assert (Hold : forall l, procs n !! j = Some l -> did l c -> exists ch, chans n' !! c = Some ch /\ cclosed ch = true).
  { intros l H1 H2. destruct (Hok j l c H1 H2) as (ch & H3 & H4). eapply chan_closed_mono; eauto. }
  assert (Hins : forall i (x : L) l0, procs n !! i = Some l0 -> <[i := x]> (procs n) !! j = Some l' ->
            (i = j /\ x = l') \/ (i <> j /\ procs n !! j = Some l')).
  { intros i x l0 Hi Hl. destruct (decide (i = j)) as [->|Hne].
    - left. rewrite list_lookup_insert in Hl by (eapply lookup_lt_Some; eassumption). split; congruence.
    - right. rewrite list_lookup_insert_ne in Hl by done. auto. }
  destruct Hs as
    [n i l0 alts c0 k ch0 v rest Hpi Hbl Ha Hch0 Hbuf0
    |n i l0 alts c0 k ch0 Hpi Hbl Ha Hch0 Hbuf0 Hcl0
    |n i l0 alts c0 v k ch0 Hpi Hbl Ha Hch0 Hcl0 Hlen
    |n i l0 alts c0 v k ch0 Hpi Hbl Ha Hch0 Hcl0
    |n i j0 li lj altsi altsj c0 v ki kj ch0 Hij Hpi Hpj Hbi Hai Hbj Haj Hch0 Hcap Hcl0
    |n i l0 alts k Hpi Hbl Ha Hcan0
    |n i l0 alts k Hpi Hbl Ha
    |n i l0 c0 k ch0 Hpi Hbl Hch0 Hcl0
    |n i l0 c0 k ch0 Hpi Hbl Hch0 Hcl0
    |n i l0 ev k o Hpi Hbl
    |n i l0 ids k Hpi Hbl Hall
    |n]; simpl in *; try (eapply Hold; eassumption).
  - destruct (Hins _ _ _ Hpi Hj) as [[-> <-]|[_ Hj0]]; [|eapply Hold; eassumption].
    pose proof (Hb l0) as H1. rewrite Hbl in H1. eapply Hold; [eassumption|]. eapply H1; eauto.
  - destruct (Hins _ _ _ Hpi Hj) as [[-> <-]|[_ Hj0]]; [|eapply Hold; eassumption].
    pose proof (Hb l0) as H1. rewrite Hbl in H1. eapply Hold; [eassumption|]. eapply H1; eauto.
  - destruct (Hins _ _ _ Hpi Hj) as [[-> <-]|[_ Hj0]]; [|eapply Hold; eassumption].
    pose proof (Hb l0) as H1. rewrite Hbl in H1. eapply Hold; [eassumption|]. eapply H1; eauto.
  - destruct (decide (j0 = j)) as [->|Hnej].
    + rewrite list_lookup_insert in Hj by (rewrite insert_length; eapply lookup_lt_Some; eassumption). injection Hj as <-.
      pose proof (Hb lj) as H1. rewrite Hbj in H1. eapply Hold; [eassumption|]. eapply H1; eauto.
    + rewrite list_lookup_insert_ne in Hj by done.
      destruct (Hins _ _ _ Hpi Hj) as [[-> <-]|[_ Hj0]]; [|eapply Hold; eassumption].
      pose proof (Hb li) as H1. rewrite Hbi in H1. eapply Hold; [eassumption|]. eapply H1; eauto.
  - destruct (Hins _ _ _ Hpi Hj) as [[-> <-]|[_ Hj0]]; [|eapply Hold; eassumption].
    pose proof (Hb l0) as H1. rewrite Hbl in H1. eapply Hold; [eassumption|]. eapply H1; eauto.
  - destruct (Hins _ _ _ Hpi Hj) as [[-> <-]|[_ Hj0]]; [|eapply Hold; eassumption].
    pose proof (Hb l0) as H1. rewrite Hbl in H1. eapply Hold; [eassumption|]. eapply H1; eauto.
  - (* NClose *)
    destruct (Hins _ _ _ Hpi Hj) as [[-> <-]|[_ Hj0]]; [|eapply Hold; eassumption].
    pose proof (Hb l0) as H1. rewrite Hbl in H1. destruct (H1 c Hd) as [->|Hd'].
    + eexists. split; [apply list_lookup_insert; eapply lookup_lt_Some; eassumption|reflexivity].
    + eapply Hold; eassumption.
  - destruct (Hins _ _ _ Hpi Hj) as [[-> <-]|[_ Hj0]]; [|eapply Hold; eassumption].
    pose proof (Hb l0) as H1. rewrite Hbl in H1. eapply Hold; [eassumption|]. eapply H1; eauto.
  - destruct (Hins _ _ _ Hpi Hj) as [[-> <-]|[_ Hj0]]; [|eapply Hold; eassumption].
    pose proof (Hb l0) as H1. rewrite Hbl in H1. eapply Hold; [eassumption|]. eapply H1; eauto.
Qed.

Theorem did_reachable n0 n : did_beh -> did_ok n0 -> reachable n0 n -> did_ok n.
Proof. intros Hb H0 Hr. induction Hr; [assumption|]. eapply did_step; eauto. Qed.
End didclose.

Section closers.
Variable has_closed : L -> nat -> Prop.
Definition closers_beh : Prop := forall l,
  match beh l with
  | PSel alts => forall g k r c, (g, k) ∈ alts -> has_closed l c -> has_closed (k r) c
  | PClose c k => has_closed k c /\ forall c', has_closed l c' -> has_closed k c'
  | PCall _ k => forall o c, has_closed l c -> has_closed (k o) c
  | PWait _ k => forall c, has_closed l c -> has_closed k c
  | PEnd => True
  end.
Definition closers_ok (n : net) : Prop :=
  forall c ch, chans n !! c = Some ch -> cclosed ch = true -> exists j l, procs n !! j = Some l /\ has_closed l c.

Lemma closers_step n n' : closers_beh -> closers_ok n -> nstep n n' -> closers_ok n'.
Proof.
  intros Hb Hok Hs c ch' Hc Hcl.
  destruct (chan_closed_step n n' c ch' Hs Hc Hcl) as [(ch & Hch & Hclo)|(i & l & k & Hpi & Hbl & Hpi' & _)].
  - destruct (Hok c ch Hch Hclo) as (j & l & Hj & Hhc).
    destruct (step_frame_fwd n n' j l Hs Hj) as [Hsame|(l' & Hj' & Hcont)]; [eauto|].
    exists j, l'. split; [assumption|]. pose proof (Hb l) as H1.
    destruct (beh l) as [alts|c0 k|ev k|ids k|].
    + destruct Hcont as (g & k & r & Ha & ->). eauto.
    + subst l'. destruct H1 as [_ H1]. eauto.
    + destruct Hcont as [o ->]. eauto.
    + subst l'. eauto.
    + destruct Hcont.
  - exists i, k. split; [assumption|]. pose proof (Hb l) as H1. rewrite Hbl in H1. destruct H1 as [H1 _]. exact H1.
Qed.

Theorem closers_reachable n0 n : closers_beh -> closers_ok n0 -> reachable n0 n -> closers_ok n.
Proof. intros Hb H0 Hr. induction Hr; [assumption|]. eapply closers_step; eauto. Qed.
End closers.

End net.

Arguments gd : clear implicits.
Arguments resp : clear implicits.
Arguments pend : clear implicits.
Arguments chan : clear implicits.
Arguments net : clear implicits.
