(* Lemmas for C03: forward evaluation of the decoders on well-formed frames (completeness of the
   receive path), evaluation of the capture filters on such frames, and the iff between [reported]
   and [reply_shape]. *)
From Coq Require Import ZArith List Bool Lia String.
From SX Require Import Base.Bytes Model.Decode Model.Process Model.Bpf Gen.ValidPacket Gen.Wiring
  Spec.C06 Spec.C03 Proofs.DecodeProofs Proofs.ProcessProofs Proofs.ValidPacketProofs.
Import ListNotations.
Open Scope Z_scope.

(* ------------------------------------------------------------------ bytes *)
Lemma drop_nonpos n (l : bytes) : n <= 0 -> drop n l = l.
Proof. intros H. destruct l; cbn; [reflexivity|]. destruct (Z.leb_spec n 0); [reflexivity|lia]. Qed.

Lemma drop_drop (l : bytes) : forall n i, 0 <= n -> 0 <= i -> drop i (drop n l) = drop (n + i) l.
Proof.
  induction l as [|x l IH]; intros n i Hn Hi; [reflexivity|].
  cbn [drop]. destruct (Z.leb_spec n 0).
  - assert (n = 0) by lia. subst. cbn [Z.add]. reflexivity.
  - destruct (Z.leb_spec (n + i) 0); [lia|]. rewrite IH by lia. f_equal. lia.
Qed.

Lemma byte_at_drop (l : bytes) n i : 0 <= n -> 0 <= i -> byte_at i (drop n l) = byte_at (n + i) l.
Proof. intros. unfold byte_at. rewrite drop_drop by assumption. reflexivity. Qed.

Lemma drop_take (l : bytes) : forall m i, 0 <= i -> drop i (take m l) = take (m - i) (drop i l).
Proof.
  induction l as [|x l IH]; intros m i Hi; [reflexivity|].
  cbn [take drop]. destruct (Z.leb_spec m 0).
  - destruct (Z.leb_spec i 0).
    + cbn [take]. destruct (Z.leb_spec (m - i) 0); [reflexivity|lia].
    + cbn [drop]. assert (Hn : take (m - i) (drop (i - 1) l) = []).
      { destruct (drop (i - 1) l); cbn; [reflexivity|]. destruct (Z.leb_spec (m - i) 0); [reflexivity|lia]. }
      rewrite Hn. reflexivity.
  - destruct (Z.leb_spec i 0).
    + assert (i = 0) by lia. subst. cbn [drop]. destruct (Z.leb_spec 0 0); [|lia].
      cbn [take]. rewrite Z.sub_0_r. destruct (Z.leb_spec m 0); [lia|reflexivity].
    + cbn [drop]. destruct (Z.leb_spec i 0); [lia|]. rewrite IH by lia. f_equal. lia.
Qed.

Lemma hd_take (l : bytes) k : 0 < k -> hd 0 (take k l) = hd 0 l.
Proof. intros. destruct l; cbn; [reflexivity|]. destruct (Z.leb_spec k 0); [lia|reflexivity]. Qed.

Lemma byte_at_take (l : bytes) m i : 0 <= i < m -> byte_at i (take m l) = byte_at i l.
Proof. intros. unfold byte_at. rewrite drop_take by lia. apply hd_take. lia. Qed.

Lemma forallb_take (l : bytes) p : forall n, forallb p l = true -> forallb p (take n l) = true.
Proof.
  induction l as [|x l IH]; intros n H; [reflexivity|]. cbn in H |- *.
  apply andb_true_iff in H. destruct H as [H1 H2]. destruct (n <=? 0); [reflexivity|].
  cbn. rewrite H1. apply IH. exact H2.
Qed.

Lemma forallb_drop (l : bytes) p : forall n, forallb p l = true -> forallb p (drop n l) = true.
Proof.
  induction l as [|x l IH]; intros n H; [reflexivity|]. cbn [drop].
  destruct (n <=? 0); [exact H|]. cbn in H. apply andb_true_iff in H. apply IH. apply H.
Qed.

Lemma byte_at_range (l : bytes) i : wf_bytes l = true -> 0 <= byte_at i l < 256.
Proof.
  intros H. unfold byte_at. pose proof (forallb_drop l is_byte i H) as Hd.
  destruct (drop i l) as [|x t]; cbn; [lia|]. cbn in Hd. apply andb_true_iff in Hd. destruct Hd as [Hx _].
  unfold is_byte in Hx. apply andb_true_iff in Hx. destruct Hx as [H1 H2].
  apply Z.leb_le in H1. apply Z.ltb_lt in H2. lia.
Qed.

Lemma nonempty_of_len (l : bytes) : 0 < Zlength l -> exists x t, l = x :: t.
Proof. destruct l; [rewrite Zlength_nil; lia|]. intros _. eauto. Qed.

(* ------------------------------------------------------------------ forward decoding *)
Lemma eth_fwd st f ty :
  eth_header ty f = true -> 1536 <= ty -> decode_eth st f = DOk st (eth_next ty) (drop 14 f).
Proof.
  unfold eth_header, decode_eth. intros H Hty. apply andb_true_iff in H. destruct H as [H1 H2].
  apply Z.leb_le in H1. apply Z.eqb_eq in H2. rewrite H2.
  destruct (Z.ltb_spec (Zlength f) 14); [lia|]. destruct (Z.ltb_spec ty 1536); [lia|]. reflexivity.
Qed.

(* the IPv4-header part of wf_ip, as far as the captured bytes must go: the header lies inside the
   captured bytes (the total length may exceed them: a frame cut to the snapshot length) *)
Definition ip_hdr_ok (p : bytes) : bool :=
  let d1 := if ip_total p <? Zlength p then take (ip_total p) p else p in
  (20 <=? Zlength p) && (5 <=? ip_ihl p) && (ip_ihl p * 4 <=? ip_total p) && (ip_ihl p * 4 <=? Zlength p)
  && match ip_opts 41 (take (ip_ihl p * 4 - 20) (drop 20 d1)) with None => true | Some _ => false end.

Lemma ip_fwd st p :
  ip_hdr_ok p = true ->
  decode_ip st p = DOk (set_ip st {| ip_src := take 4 (drop 12 p); ip_ttl := byte_at 8 p |})
                       (ip_next (be16 (byte_at 6 p) (byte_at 7 p)) (byte_at 9 p)) (ip_body p).
Proof.
  unfold ip_hdr_ok, decode_ip, ip_body, ip_total, ip_ihl. intros H.
  repeat (apply andb_true_iff in H; destruct H as [H ?]).
  set (ihl := byte_at 0 p mod 16) in *.
  set (tl := if be16 (byte_at 2 p) (byte_at 3 p) =? 0 then Zlength p mod 65536 else be16 (byte_at 2 p) (byte_at 3 p)) in *.
  repeat match goal with Hx : (_ <=? _) = true |- _ => apply Z.leb_le in Hx end.
  destruct (Z.ltb_spec (Zlength p) 20); [lia|].
  destruct (Z.ltb_spec tl 20); [lia|]. destruct (Z.ltb_spec ihl 5); [lia|].
  destruct (Z.ltb_spec tl (ihl * 4)); [lia|].
  destruct (Z.ltb_spec (Zlength p) (ihl * 4)); [lia|].
  destruct (Z.ltb_spec (Zlength p) tl); cbn [andb]; (destruct (ip_opts 41 _); [discriminate|]); reflexivity.
Qed.

Lemma tcp_fwd st s :
  tcp_header s = true ->
  tcp_opts 41 (take ((byte_at 12 s / 16) mod 16 * 4 - 20) (drop 20 s)) = None ->
  decode_tcp st s = DOk (set_tcp st {| tcp_sport := be16 (byte_at 0 s) (byte_at 1 s); tcp_flags := flags9 s |})
                        LOther (drop ((byte_at 12 s / 16) mod 16 * 4) s).
Proof.
  unfold tcp_header, decode_tcp, flags9. intros H Ho.
  repeat (apply andb_true_iff in H; destruct H as [H ?]).
  repeat match goal with Hx : (_ <=? _) = true |- _ => apply Z.leb_le in Hx end.
  destruct (Z.ltb_spec (Zlength s) 20); [lia|].
  destruct (Z.ltb_spec ((byte_at 12 s / 16) mod 16) 5); [lia|].
  destruct (Z.ltb_spec (Zlength s) ((byte_at 12 s / 16) mod 16 * 4)); [lia|].
  rewrite Ho. reflexivity.
Qed.

Lemma icmp_fwd st s :
  icmp_header s = true ->
  decode_icmp st s = DOk (set_icmp st {| ic_type := byte_at 0 s; ic_code := byte_at 1 s |}) LOther (drop 8 s).
Proof.
  unfold icmp_header, decode_icmp. intros H. apply Z.leb_le in H.
  destruct (Z.ltb_spec (Zlength s) 8); [lia|]. reflexivity.
Qed.

Lemma arp_fwd st a :
  arp_6_4 a = true ->
  decode_arp st a = DOk (set_arp st {| ar_hw := 6; ar_pr := 4; ar_sha := take 6 (drop 8 a); ar_sha_cap := drop 8 a;
                                       ar_spa := take 4 (drop 14 a) |}) LOther (drop 28 a).
Proof.
  unfold arp_6_4, decode_arp. intros H.
  repeat (apply andb_true_iff in H; destruct H as [H ?]).
  apply Z.leb_le in H. repeat match goal with Hx : (_ =? _) = true |- _ => apply Z.eqb_eq in Hx end.
  match goal with Hx : byte_at 4 a = 6 |- _ => rewrite Hx end.
  match goal with Hx : byte_at 5 a = 4 |- _ => rewrite Hx end.
  change (u8 (8 + 2 * 6 + 2 * 4)) with 28. change (u8 (8 + 6)) with 14. change (u8 (8 + 6 + 4)) with 18.
  change (u8 (8 + 2 * 6 + 4)) with 24.
  destruct (Z.ltb_spec (Zlength a) 8); [lia|]. destruct (Z.ltb_spec (Zlength a) 28); [lia|].
  unfold slice.
  repeat match goal with |- context [?x <=? ?y] => destruct (Z.leb_spec x y); [|lia] end.
  cbn [andb]. reflexivity.
Qed.

(* ------------------------------------------------------------------ completeness of the receive path *)
(* what wf_ip says, split *)
Lemma wf_ip_parts p : wf_ip p = true ->
  ip_hdr_ok p = true /\ byte_at 0 p / 16 = 4 /\ ip_unfragmented p = true /\
  (byte_at 9 p = 6 -> tcp_header (ip_body p) = true /\
     tcp_opts 41 (take ((byte_at 12 (ip_body p) / 16) mod 16 * 4 - 20) (drop 20 (ip_body p))) = None) /\
  (byte_at 9 p = 1 -> icmp_header (ip_body p) = true).
Proof.
  unfold wf_ip, ip_hdr_ok. intros H.
  repeat (apply andb_true_iff in H; destruct H as [H ?]).
  split.
  { repeat match goal with Hx : ?b = true |- context [?b] => rewrite Hx end. rewrite !andb_true_r.
    repeat match goal with Hx : (_ <=? _) = true |- _ => apply Z.leb_le in Hx end. apply Z.leb_le. lia. }
  split; [apply Z.eqb_eq; assumption|]. split; [assumption|].
  match goal with Hx : (if byte_at 9 p =? 6 then _ else _) = true |- _ => rename Hx into Ht end.
  split.
  - intros E. rewrite E in Ht. change (6 =? 6) with true in Ht. cbv iota in Ht.
    apply andb_true_iff in Ht. destruct Ht as [Ht1 Ht2].
    split; [exact Ht1|]. destruct (tcp_opts 41 _); [discriminate|reflexivity].
  - intros E. rewrite E in Ht. change (1 =? 6) with false in Ht. change (1 =? 1) with true in Ht.
    cbv iota in Ht. exact Ht.
Qed.

Lemma ip_next_unfrag p proto :
  ip_unfragmented p = true -> byte_at 9 p = proto ->
  ip_next (be16 (byte_at 6 p) (byte_at 7 p)) (byte_at 9 p) =
  if proto =? 6 then LTCP else if proto =? 1 then LICMP else if (proto =? 4) || (proto =? 94) then LIPv4 else LOther.
Proof.
  unfold ip_unfragmented, ip_next. intros H <-. apply andb_true_iff in H. destruct H as [H1 H2].
  rewrite H1, H2. reflexivity.
Qed.

Lemma ip_body_len p : ip_hdr_ok p = true ->
  Zlength (ip_body p) = Z.min (ip_total p) (Zlength p) - ip_ihl p * 4 /\
  ip_ihl p * 4 <= ip_total p /\ ip_ihl p * 4 <= Zlength p /\ 5 <= ip_ihl p.
Proof.
  unfold ip_hdr_ok, ip_body. intros H. repeat (apply andb_true_iff in H; destruct H as [H ?]).
  repeat match goal with Hx : (_ <=? _) = true |- _ => apply Z.leb_le in Hx end.
  destruct (Z.ltb_spec (ip_total p) (Zlength p)); rewrite Zlength_drop; [rewrite Zlength_take|]; lia.
Qed.

(* what the receive path needs of a captured IPv4 packet carrying the scanned transport *)
Definition ip_chain_ok (p : bytes) : Prop :=
  ip_hdr_ok p = true /\ ip_unfragmented p = true /\
  (byte_at 9 p = 6 -> tcp_header (ip_body p) = true /\
     tcp_opts 41 (take ((byte_at 12 (ip_body p) / 16) mod 16 * 4 - 20) (drop 20 (ip_body p))) = None) /\
  (byte_at 9 p = 1 -> icmp_header (ip_body p) = true).

Lemma wf_ip_chain p : wf_ip p = true -> ip_chain_ok p.
Proof.
  intros H. destruct (wf_ip_parts p H) as [H1 [_ [H2 [H3 H4]]]]. unfold ip_chain_ok.
  split; [exact H1|split; [exact H2|split; [exact H3|exact H4]]].
Qed.

Lemma loop_step_fwd has fuel t st d acc st1 next pl :
  decode_layer t st d = DOk st1 next pl -> 0 < Zlength pl -> has next = true ->
  decode_loop has (S fuel) t st d acc = decode_loop has fuel next st1 pl (acc ++ [t]).
Proof.
  intros H Hpl Hn. cbn [decode_loop]. rewrite H. destruct pl; [rewrite Zlength_nil in Hpl; lia|].
  rewrite Hn. reflexivity.
Qed.

Lemma loop_last_fwd has fuel t st d acc st1 next pl :
  decode_layer t st d = DOk st1 next pl -> has next = false ->
  decode_loop has (S fuel) t st d acc = (st1, acc ++ [t], None).
Proof. intros H Hn. cbn [decode_loop]. rewrite H. destruct pl; [reflexivity|]. rewrite Hn. reflexivity. Qed.

(* the loop from the IPv4 layer on, on a well-formed packet carrying the scanned transport *)
Lemma loop_ip_transport k st p acc fuel :
  ip_chain_ok p ->
  (match k with KTcp _ _ => byte_at 9 p = 6 | KIcmp => byte_at 9 p = 1 | KArp => False end) ->
  exists st',
    decode_loop (has_dec k) (S (S fuel)) LIPv4 st p acc = (st', (acc ++ [LIPv4]) ++ [transport k], None) /\
    s_ip st' = {| ip_src := take 4 (drop 12 p); ip_ttl := byte_at 8 p |} /\
    match k with
    | KTcp _ _ => s_tcp st' = {| tcp_sport := be16 (byte_at 0 (ip_body p)) (byte_at 1 (ip_body p));
                                 tcp_flags := flags9 (ip_body p) |}
    | KIcmp => s_icmp st' = {| ic_type := byte_at 0 (ip_body p); ic_code := byte_at 1 (ip_body p) |}
    | KArp => True
    end.
Proof.
  intros Hwf Hk. destruct Hwf as [Hh [Hu [Ht Hi]]].
  pose proof (ip_fwd st p Hh) as Hip.
  destruct k as [pf af| |]; [| |contradiction].
  - rewrite (ip_next_unfrag p 6 Hu Hk) in Hip. change (6 =? 6) with true in Hip. cbv iota in Hip.
    destruct (Ht Hk) as [Hth Hto].
    assert (Hne : 0 < Zlength (ip_body p)).
    { unfold tcp_header in Hth. repeat (apply andb_true_iff in Hth; destruct Hth as [Hth ?]). apply Z.leb_le in Hth. lia. }
    rewrite (loop_step_fwd _ _ LIPv4 st p acc _ _ _ Hip Hne eq_refl).
    rewrite (loop_last_fwd _ _ LTCP _ _ _ _ _ _ (tcp_fwd _ _ Hth Hto) eq_refl).
    eexists. split; [reflexivity|]. split; reflexivity.
  - rewrite (ip_next_unfrag p 1 Hu Hk) in Hip. change (1 =? 6) with false in Hip. change (1 =? 1) with true in Hip.
    cbv iota in Hip. pose proof (Hi Hk) as Hth.
    assert (Hne : 0 < Zlength (ip_body p)) by (unfold icmp_header in Hth; apply Z.leb_le in Hth; lia).
    rewrite (loop_step_fwd _ _ LIPv4 st p acc _ _ _ Hip Hne eq_refl).
    rewrite (loop_last_fwd _ _ LICMP _ _ _ _ _ _ (icmp_fwd _ _ Hth) eq_refl).
    eexists. split; [reflexivity|]. split; reflexivity.
Qed.

Lemma length_ge_2 (l : bytes) : 2 <= Zlength l -> exists n, List.length l = S (S n).
Proof.
  rewrite Zlength_correct. destruct (List.length l) as [|[|n]]; [lia|lia|]. intros _. exists n. reflexivity.
Qed.

(* the outcome of processing a frame that has the header chain and well-formed options *)
Definition expected_outcome (k : kind) (raw : bool) (f : bytes) : outcome :=
  match k with
  | KTcp pf _ => if negb (pf (flags9 (ip_body (l3 k raw f)))) then ONone else ORecord (fields_of k raw f)
  | _ => ORecord (fields_of k raw f)
  end.

Lemma process_complete_ip k raw st f :
  (match k with KTcp _ _ => byte_at 9 (l3 k raw f) = 6 | KIcmp => byte_at 9 (l3 k raw f) = 1 | KArp => False end) ->
  (raw = true \/ eth_header 2048 f = true) -> ip_chain_ok (l3 k raw f) ->
  snd (process k raw (code_valid k) st f) = expected_outcome k raw f.
Proof.
  intros Hk Hl Hwf. unfold process, decode_layers.
  destruct Hwf as [Hh Hrest]. destruct (ip_body_len _ Hh) as [_ [_ [Hb Hihl]]].
  assert (Hwf : ip_chain_ok (l3 k raw f)) by (split; assumption).
  destruct raw.
  - (* raw IPv4 *)
    assert (El : l3 k true f = f) by (destruct k; try reflexivity; contradiction). rewrite El in *.
    assert (Ef : first_layer k true = LIPv4) by (destruct k; try reflexivity; contradiction). rewrite Ef.
    destruct (length_ge_2 f ltac:(lia)) as [n En]. rewrite En.
    destruct (loop_ip_transport k st f [] (S n) Hwf Hk) as [st' [Hrun [Hip Htr]]].
    rewrite Hrun. cbn [app].
    assert (Hv : code_valid k [LIPv4; transport k] st' = true)
      by (apply code_valid_complete; destruct k; try reflexivity; contradiction).
    rewrite Hv. cbn [negb]. unfold expected_outcome, fields_of. rewrite El.
    destruct k as [pf af| |]; [| |contradiction]; rewrite Hip, Htr;
      cbn [tcp_flags tcp_sport ip_src ip_ttl ic_type ic_code l3];
      [destruct (negb (pf _)); reflexivity|reflexivity].
  - destruct Hl as [Hl|Hl]; [discriminate|].
    assert (El : l3 k false f = drop 14 f) by (destruct k; try reflexivity; contradiction). rewrite El in *.
    assert (Ef : first_layer k false = LEth) by (destruct k; reflexivity). rewrite Ef.
    assert (H14 : 14 <= Zlength f) by (unfold eth_header in Hl; apply andb_true_iff in Hl; destruct Hl as [Hl _]; apply Z.leb_le in Hl; exact Hl).
    assert (Hd : Zlength (drop 14 f) = Zlength f - 14) by (rewrite Zlength_drop; lia).
    assert (Hlen3 : exists n, List.length f = S (S (S n))).
    { rewrite Zlength_correct in H14. destruct (List.length f) as [|[|[|n]]]; try lia. exists n. reflexivity. }
    destruct Hlen3 as [n En]. rewrite En.
    assert (Hhas : has_dec k LIPv4 = true) by (destruct k; try reflexivity; contradiction).
    rewrite (loop_step_fwd _ _ LEth st f [] st LIPv4 (drop 14 f) (eth_fwd st f 2048 Hl ltac:(lia)) ltac:(lia) Hhas).
    destruct (loop_ip_transport k st (drop 14 f) ([] ++ [LEth]) (S n) Hwf Hk) as [st' [Hrun [Hip Htr]]].
    rewrite Hrun. cbn [app].
    assert (Hv : code_valid k [LEth; LIPv4; transport k] st' = true)
      by (apply code_valid_complete; destruct k; try reflexivity; contradiction).
    rewrite Hv. cbn [negb]. unfold expected_outcome, fields_of. rewrite El.
    destruct k as [pf af| |]; [| |contradiction]; rewrite Hip, Htr;
      cbn [tcp_flags tcp_sport ip_src ip_ttl ic_type ic_code l3];
      [destruct (negb (pf _)); reflexivity|reflexivity].
Qed.

Lemma process_complete_arp st f :
  eth_header 2054 f = true -> arp_6_4 (drop 14 f) = true ->
  snd (process KArp false (code_valid KArp) st f) = ORecord (fields_of KArp false f).
Proof.
  intros Hl Ha. unfold process, decode_layers. cbn [first_layer].
  assert (H14 : 14 <= Zlength f) by (unfold eth_header in Hl; apply andb_true_iff in Hl; destruct Hl as [Hl _]; apply Z.leb_le in Hl; exact Hl).
  assert (H28 : 28 <= Zlength (drop 14 f)).
  { unfold arp_6_4 in Ha. repeat (apply andb_true_iff in Ha; destruct Ha as [Ha ?]). apply Z.leb_le in Ha. exact Ha. }
  destruct (length_ge_2 f ltac:(lia)) as [n En]. rewrite En.
  rewrite (loop_step_fwd _ _ LEth st f [] st LARP (drop 14 f) (eth_fwd st f 2054 Hl ltac:(lia)) ltac:(lia) eq_refl).
  rewrite (loop_last_fwd _ _ LARP _ _ _ _ _ _ (arp_fwd st _ Ha) eq_refl).
  set (st' := set_arp st _). cbn [app].
  assert (Hv : code_valid KArp [LEth; LARP] st' = true).
  { apply code_valid_complete. subst st'. cbn. rewrite Zlength_take, Zlength_drop.
    apply Z.leb_le. lia. }
  rewrite Hv. cbn [negb]. subst st'. cbn [s_arp set_arp ar_sha_cap ar_sha ar_spa].
  destruct (Z.ltb_spec (Zlength (drop 8 (drop 14 f))) 3) as [Hlt|_]; [rewrite Zlength_drop in Hlt; lia|].
  reflexivity.
Qed.

(* ------------------------------------------------------------------ the capture filters on well-formed frames *)
Definition lp (raw : bool) (f : bytes) : bytes := if raw then f else drop 14 f.
Definition link_ok (raw : bool) (f : bytes) : Prop := raw = true \/ 14 <= Zlength f.

Lemma lp_len raw f : link_ok raw f -> Zlength (lp raw f) = Zlength f - nl raw.
Proof. intros [->|H]; unfold lp, nl; [lia|]. destruct raw; [lia|]. rewrite Zlength_drop. lia. Qed.

Lemma byte_at_lp raw f i : 0 <= i -> byte_at i (lp raw f) = byte_at (nl raw + i) f.
Proof. intros. unfold lp, nl. destruct raw; [reflexivity|]. apply byte_at_drop; lia. Qed.

Lemma ld8_p raw f i : link_ok raw f -> 0 <= i < Zlength (lp raw f) ->
  ld8 (nl raw + i) f = Some (byte_at i (lp raw f)).
Proof.
  intros Hl Hi. rewrite lp_len in Hi by exact Hl. unfold ld8. rewrite byte_at_lp by lia.
  assert (0 <= nl raw) by (unfold nl; destruct raw; lia).
  destruct (Z.leb_spec 0 (nl raw + i)); [|lia]. destruct (Z.ltb_spec (nl raw + i) (Zlength f)); [|lia]. reflexivity.
Qed.

Lemma ld16_p raw f i : link_ok raw f -> 0 <= i -> i + 2 <= Zlength (lp raw f) ->
  ld16 (nl raw + i) f = Some (be16 (byte_at i (lp raw f)) (byte_at (i + 1) (lp raw f))).
Proof.
  intros Hl Hi Hj. rewrite lp_len in Hj by exact Hl. unfold ld16. rewrite !byte_at_lp by lia.
  assert (0 <= nl raw) by (unfold nl; destruct raw; lia).
  destruct (Z.leb_spec 0 (nl raw + i)); [|lia]. destruct (Z.leb_spec (nl raw + i + 2) (Zlength f)); [|lia].
  cbn [andb]. rewrite Z.add_assoc. reflexivity.
Qed.

Lemma ld32_p raw f i : link_ok raw f -> 0 <= i -> i + 4 <= Zlength (lp raw f) ->
  ld32 (nl raw + i) f = Some (be32 (byte_at i (lp raw f)) (byte_at (i + 1) (lp raw f))
                                   (byte_at (i + 2) (lp raw f)) (byte_at (i + 3) (lp raw f))).
Proof.
  intros Hl Hi Hj. rewrite lp_len in Hj by exact Hl. unfold ld32. rewrite !byte_at_lp by lia.
  assert (0 <= nl raw) by (unfold nl; destruct raw; lia).
  destruct (Z.leb_spec 0 (nl raw + i)); [|lia]. destruct (Z.leb_spec (nl raw + i + 4) (Zlength f)); [|lia].
  cbn [andb]. rewrite !Z.add_assoc. reflexivity.
Qed.

Lemma byte_at_body p i : ip_hdr_ok p = true -> 0 <= i < Zlength (ip_body p) ->
  byte_at i (ip_body p) = byte_at (ip_ihl p * 4 + i) p.
Proof.
  intros Hh Hi. destruct (ip_body_len p Hh) as [Hlen [Hb [Hc Hihl]]]. rewrite Hlen in Hi. unfold ip_body.
  rewrite byte_at_drop by lia. destruct (ip_total p <? Zlength p); [|reflexivity].
  apply byte_at_take. lia.
Qed.

Lemma ev_and raw x y f : bpf_eval raw (BAnd x y) f = oand (bpf_eval raw x f) (fun _ => bpf_eval raw y f).
Proof. reflexivity. Qed.
Lemma ev_or raw x y f : bpf_eval raw (BOr x y) f = oor (bpf_eval raw x f) (fun _ => bpf_eval raw y f).
Proof. reflexivity. Qed.

(* the facts a filter program reads off an IPv4 frame *)
Section OnIPv4.
Variables (raw : bool) (f : bytes).
Local Notation p := (lp raw f).
Hypothesis Hlink : raw = true \/ eth_header 2048 f = true.
Hypothesis Hh : ip_hdr_ok p = true.

Lemma on_link_ok : link_ok raw f.
Proof.
  destruct Hlink as [->|H]; [left; reflexivity|right]. unfold eth_header in H.
  apply andb_true_iff in H. destruct H as [H _]. apply Z.leb_le. exact H.
Qed.

Lemma on_len : 20 <= Zlength p /\ 5 <= ip_ihl p /\ ip_ihl p * 4 <= Zlength p /\ 0 <= ip_ihl p < 16.
Proof.
  pose proof (ip_body_len p Hh) as [_ [_ [Hb Hi]]]. split; [lia|]. split; [lia|]. split; [lia|].
  unfold ip_ihl. apply Z.mod_pos_bound. lia.
Qed.

Lemma on_etype ty : is_etype raw ty f = Some (ty =? 2048).
Proof.
  unfold is_etype. destruct Hlink as [->|H]; [reflexivity|]. destruct raw; [reflexivity|].
  unfold eth_header in H. apply andb_true_iff in H. destruct H as [H1 H2].
  apply Z.leb_le in H1. apply Z.eqb_eq in H2. unfold ld16.
  destruct (Z.leb_spec (12 + 2) (Zlength f)); [|lia]. cbn [andb Z.leb obind]. change (12 + 1) with 13.
  rewrite H2. rewrite Z.eqb_sym. reflexivity.
Qed.

Lemma on_proto : ld8 (nl raw + 9) f = Some (byte_at 9 p).
Proof. apply ld8_p; [exact on_link_ok|]. pose proof on_len. lia. Qed.

Lemma on_frag : ip_unfragmented p = true -> unfrag_off raw f = Some true.
Proof.
  intros Hu. unfold unfrag_off. rewrite (ld16_p raw f 6 on_link_ok) by (pose proof on_len; lia).
  cbn [obind]. unfold ip_unfragmented in Hu. apply andb_true_iff in Hu. destruct Hu as [_ Hu].
  change (6 + 1) with 7. rewrite Hu. reflexivity.
Qed.

Lemma on_xhl : xhl raw f = Some (4 * ip_ihl p).
Proof.
  unfold xhl. replace (nl raw) with (nl raw + 0) by lia.
  rewrite (ld8_p raw f 0 on_link_ok) by (pose proof on_len; lia). reflexivity.
Qed.

Lemma on_src : ld32 (nl raw + 12) f = Some (src_addr p).
Proof. rewrite (ld32_p raw f 12 on_link_ok) by (pose proof on_len; lia). reflexivity. Qed.

Lemma on_body8 i : 0 <= i < Zlength (ip_body p) ->
  ld8 (nl raw + 4 * ip_ihl p + i) f = Some (byte_at i (ip_body p)).
Proof.
  intros Hi. rewrite (byte_at_body p i Hh Hi). destruct (ip_body_len p Hh) as [Hlen [Hb _]]. rewrite Hlen in Hi.
  replace (nl raw + 4 * ip_ihl p + i) with (nl raw + (ip_ihl p * 4 + i)) by lia.
  apply ld8_p; [exact on_link_ok|]. pose proof on_len. lia.
Qed.

Lemma on_body16 : 2 <= Zlength (ip_body p) ->
  ld16 (nl raw + 4 * ip_ihl p) f = Some (be16 (byte_at 0 (ip_body p)) (byte_at 1 (ip_body p))).
Proof.
  intros Hi. rewrite (byte_at_body p 0 Hh) by lia. rewrite (byte_at_body p 1 Hh) by lia.
  destruct (ip_body_len p Hh) as [Hlen [Hb _]]. rewrite Hlen in Hi.
  replace (nl raw + 4 * ip_ihl p) with (nl raw + (ip_ihl p * 4)) by lia.
  rewrite (ld16_p raw f (ip_ihl p * 4) on_link_ok) by (pose proof on_len; lia).
  rewrite Z.add_0_r. reflexivity.
Qed.

(* ---- primitives *)
Lemma ev_tcp : byte_at 9 p = 6 -> bpf_eval raw (BProto PTcp) f = Some true.
Proof. intros E. cbn [bpf_eval]. rewrite on_etype, on_proto, E. reflexivity. Qed.

Lemma ev_icmp : byte_at 9 p = 1 -> bpf_eval raw (BProto PIcmp) f = Some true.
Proof. intros E. cbn [bpf_eval]. rewrite on_etype, on_proto, E. reflexivity. Qed.

Lemma ev_ipsrc n b : bpf_eval raw (BIpSrcNet n b) f = Some (in_net (src_addr p) n b).
Proof. cbn [bpf_eval]. rewrite on_etype, on_src. reflexivity. Qed.

Lemma ev_port a b : byte_at 9 p = 6 -> ip_unfragmented p = true -> 2 <= Zlength (ip_body p) ->
  bpf_eval raw (BSrcPortRange a b) f =
  Some ((a <=? be16 (byte_at 0 (ip_body p)) (byte_at 1 (ip_body p)))
        && (be16 (byte_at 0 (ip_body p)) (byte_at 1 (ip_body p)) <=? b)).
Proof.
  intros E Hu Hb. cbn [bpf_eval]. rewrite (on_etype 2048), (on_etype 34525), on_proto, E, (on_frag Hu), on_xhl.
  cbn [oand obind Z.eqb Pos.eqb transport3 orb]. rewrite on_body16 by exact Hb. cbn [obind].
  destruct (_ && _); cbn [oor]; [reflexivity|].
  destruct raw; reflexivity.
Qed.

Lemma ev_tcpbyte k v : byte_at 9 p = 6 -> ip_unfragmented p = true -> 0 <= k < Zlength (ip_body p) ->
  bpf_eval raw (BTcpByteEq k v) f = Some (byte_at k (ip_body p) =? v).
Proof.
  intros E Hu Hk. cbn [bpf_eval]. rewrite on_etype, on_proto, E, (on_frag Hu), on_xhl.
  cbn [oand obind Z.eqb Pos.eqb]. rewrite on_body8 by exact Hk. reflexivity.
Qed.

Lemma ev_icmpbyte k v : byte_at 9 p = 1 -> ip_unfragmented p = true -> 0 <= k < Zlength (ip_body p) ->
  bpf_eval raw (BIcmpByteNe k v) f = Some (negb (byte_at k (ip_body p) =? v)).
Proof.
  intros E Hu Hk. cbn [bpf_eval]. rewrite on_etype, on_proto, E, (on_frag Hu), on_xhl.
  cbn [oand obind Z.eqb Pos.eqb]. rewrite on_body8 by exact Hk. reflexivity.
Qed.

Lemma ev_ports ps : byte_at 9 p = 6 -> ip_unfragmented p = true -> 2 <= Zlength (ip_body p) ->
  forall e, or_ports ps = Some e ->
  bpf_eval raw e f = Some (existsb (fun ab => (fst ab <=? be16 (byte_at 0 (ip_body p)) (byte_at 1 (ip_body p)))
                                              && (be16 (byte_at 0 (ip_body p)) (byte_at 1 (ip_body p)) <=? snd ab)) ps).
Proof.
  intros E Hu Hb. induction ps as [|[a b] ps IH]; intros e He; [discriminate|].
  cbn [or_ports] in He. destruct (or_ports ps) as [r|] eqn:Er.
  - injection He as <-. rewrite ev_or. cbn [existsb fst snd]. rewrite (ev_port a b E Hu Hb).
    destruct (_ && _); cbn [oor orb]; [reflexivity|]. apply IH. reflexivity.
  - injection He as <-. rewrite (ev_port a b E Hu Hb). cbn [existsb fst snd].
    destruct ps as [|[? ?] ?]; [cbn [existsb]; rewrite orb_false_r; reflexivity|].
    cbn [or_ports] in Er. destruct (or_ports ps); discriminate.
Qed.

(* ---- the builders *)
Lemma ev_tcp_filter r : byte_at 9 p = 6 -> ip_unfragmented p = true -> 2 <= Zlength (ip_body p) ->
  bpf_eval raw (tcp_filter r) f =
  Some (in_subnet r (src_addr p) && in_ports r (be16 (byte_at 0 (ip_body p)) (byte_at 1 (ip_body p)))).
Proof.
  intros E Hu Hb. unfold tcp_filter, in_subnet, in_ports.
  assert (H1 : bpf_eval raw (and_opt (BProto PTcp) (option_map (fun n => BIpSrcNet (fst n) (snd n)) (r_subnet r))) f
               = Some (match r_subnet r with None => true | Some n => in_net (src_addr p) (fst n) (snd n) end)).
  { destruct (r_subnet r) as [n|]; cbn [option_map and_opt]; [|exact (ev_tcp E)].
    rewrite ev_and, (ev_tcp E). cbn [oand]. apply ev_ipsrc. }
  destruct (r_ports r) as [|ab ps] eqn:Ep.
  - cbn [or_ports and_opt]. rewrite H1. rewrite andb_true_r. reflexivity.
  - destruct (or_ports (ab :: ps)) as [e|] eqn:Eo.
    + cbn [and_opt]. rewrite ev_and, H1.
      destruct (match r_subnet r with None => true | Some n => in_net (src_addr p) (fst n) (snd n) end); cbn [oand andb];
        [apply (ev_ports (ab :: ps) E Hu Hb e Eo)|reflexivity].
    + exfalso. cbn [or_ports] in Eo. destruct ab. destruct (or_ports ps); discriminate.
Qed.

Lemma ev_synack_filter r : byte_at 9 p = 6 -> ip_unfragmented p = true -> 14 <= Zlength (ip_body p) ->
  bpf_eval raw (synack_filter r) f =
  Some (in_subnet r (src_addr p) && in_ports r (be16 (byte_at 0 (ip_body p)) (byte_at 1 (ip_body p)))
        && (byte_at 13 (ip_body p) =? 18)).
Proof.
  intros E Hu Hb. unfold synack_filter. rewrite ev_and, (ev_tcp_filter r E Hu) by lia.
  destruct (_ && _); cbn [oand andb]; [|reflexivity]. apply ev_tcpbyte; [exact E|exact Hu|lia].
Qed.

Lemma ev_icmp_filter r : byte_at 9 p = 1 -> ip_unfragmented p = true -> 1 <= Zlength (ip_body p) ->
  bpf_eval raw (icmp_filter r) f = Some (negb (byte_at 0 (ip_body p) =? 8) && in_subnet r (src_addr p)).
Proof.
  intros E Hu Hb. unfold icmp_filter, in_subnet.
  assert (H1 : bpf_eval raw (BAnd (BProto PIcmp) (BIcmpByteNe 0 8)) f = Some (negb (byte_at 0 (ip_body p) =? 8))).
  { rewrite ev_and, (ev_icmp E). cbn [oand]. apply ev_icmpbyte; [exact E|exact Hu|lia]. }
  destruct (r_subnet r) as [n|]; cbn [option_map and_opt].
  - rewrite ev_and, H1. destruct (negb _); cbn [oand andb]; [apply ev_ipsrc|reflexivity].
  - rewrite H1, andb_true_r. reflexivity.
Qed.

End OnIPv4.

(* ------------------------------------------------------------------ cutting a frame to the snapshot length *)
Lemma take_nonpos n (l : bytes) : n <= 0 -> take n l = [].
Proof. intros H. destruct l; cbn; [reflexivity|]. destruct (Z.leb_spec n 0); [reflexivity|lia]. Qed.

Lemma take_take (l : bytes) : forall n m, n <= m -> take n (take m l) = take n l.
Proof.
  induction l as [|x l IH]; intros n m H; [reflexivity|]. cbn [take].
  destruct (Z.leb_spec m 0).
  - destruct (Z.leb_spec n 0); [|lia]. reflexivity.
  - cbn [take]. destruct (Z.leb_spec n 0); [reflexivity|]. f_equal. apply IH. lia.
Qed.

Lemma take_drop_take (l : bytes) n m a : 0 <= n -> n + m <= a -> take m (drop n (take a l)) = take m (drop n l).
Proof. intros Hn H. rewrite drop_take by lia. apply take_take. lia. Qed.

Definition d1_of (x : bytes) : bytes := if ip_total x <? Zlength x then take (ip_total x) x else x.

Lemma d1_prefix x n m : 0 <= n -> n + m <= ip_total x -> take m (drop n (d1_of x)) = take m (drop n x).
Proof. intros Hn H. unfold d1_of. destruct (_ <? _); [apply take_drop_take; assumption|reflexivity]. Qed.

Lemma body_prefix x n m : 0 <= n -> 0 <= ip_ihl x -> ip_ihl x * 4 + n + m <= ip_total x ->
  take m (drop n (ip_body x)) = take m (drop (ip_ihl x * 4 + n) x).
Proof.
  intros Hn Hh H. unfold ip_body. fold (d1_of x). rewrite drop_drop by lia. apply d1_prefix; lia.
Qed.

Section Cut.
Variables (p : bytes) (S' : Z).
Hypothesis Hwf : wf_ip p = true.
Hypothesis Hsmall : Zlength p < 65536.
Hypothesis HS : 60 <= S'.
Local Notation q := (take S' p).
Local Notation h := (ip_ihl p * 4).

Lemma cut_byte i : 0 <= i < S' -> byte_at i q = byte_at i p.
Proof. intros. apply byte_at_take. lia. Qed.

Lemma cut_len : Zlength q = Z.min S' (Zlength p).
Proof. rewrite Zlength_take. lia. Qed.

Lemma cut_ihl : ip_ihl q = ip_ihl p.
Proof. unfold ip_ihl. rewrite cut_byte by lia. reflexivity. Qed.

Lemma cut_wf : 20 <= Zlength p /\ 5 <= ip_ihl p < 16 /\ h <= ip_total p <= Zlength p.
Proof.
  destruct (wf_ip_parts p Hwf) as [Hh _]. destruct (ip_body_len p Hh) as [_ [H1 [H2 H3]]].
  unfold wf_ip in Hwf. repeat (apply andb_true_iff in Hwf; destruct Hwf as [Hwf ?]).
  repeat match goal with Hx : (_ <=? _) = true |- _ => apply Z.leb_le in Hx end.
  assert (0 <= ip_ihl p < 16) by (unfold ip_ihl; apply Z.mod_pos_bound; lia). lia.
Qed.

Lemma cut_total : Z.min S' (ip_total p) <= ip_total q /\ Z.min (ip_total q) (Zlength q) = Z.min S' (ip_total p).
Proof.
  pose proof cut_wf as [H20 [Hi Ht]]. pose proof cut_len as Hl. unfold ip_total in *.
  rewrite !cut_byte by lia.
  pose proof (Zlength_nonneg p). pose proof (Zlength_nonneg q).
  destruct (be16 (byte_at 2 p) (byte_at 3 p) =? 0).
  - rewrite (Z.mod_small (Zlength p)) in * by lia. rewrite (Z.mod_small (Zlength q)) by lia. lia.
  - lia.
Qed.

Lemma cut_hdr_ok : ip_hdr_ok q = true.
Proof.
  pose proof cut_wf as [H20 [Hi Ht]]. pose proof cut_len as Hl. pose proof cut_total as [Hq1 Hq2].
  destruct (wf_ip_parts p Hwf) as [Hh _].
  unfold ip_hdr_ok in *. rewrite cut_ihl. fold (d1_of q). fold (d1_of p) in Hh.
  repeat (apply andb_true_iff in Hh; destruct Hh as [Hh ?]).
  rewrite (d1_prefix q 20 (h - 20)) by lia. rewrite take_drop_take by lia.
  match goal with Hx : match ip_opts 41 _ with _ => _ end = true |- _ => rewrite (d1_prefix p 20 (h - 20)) in Hx by lia; rewrite Hx end.
  repeat (apply andb_true_iff; split); try reflexivity; apply Z.leb_le; lia.
Qed.

Lemma cut_body_len : Zlength (ip_body q) = Z.min S' (ip_total p) - h.
Proof.
  destruct (ip_body_len q cut_hdr_ok) as [Hl _]. rewrite Hl, cut_ihl. destruct cut_total as [_ ->]. reflexivity.
Qed.

Lemma cut_body_byte i : 0 <= i -> h + i < S' -> h + i < ip_total p ->
  byte_at i (ip_body q) = byte_at i (ip_body p).
Proof.
  intros Hi H1 H2. pose proof cut_wf as [H20 [Hih Ht]]. destruct (wf_ip_parts p Hwf) as [Hh _].
  rewrite (byte_at_body q i cut_hdr_ok) by (rewrite cut_body_len; lia).
  rewrite (byte_at_body p i Hh) by (destruct (ip_body_len p Hh) as [-> _]; lia).
  rewrite cut_ihl. apply cut_byte. lia.
Qed.

Lemma cut_unfrag : ip_unfragmented q = ip_unfragmented p.
Proof. unfold ip_unfragmented. rewrite !cut_byte by lia. reflexivity. Qed.

Lemma cut_chain_ok :
  (byte_at 9 p = 6 -> 120 <= S') -> (byte_at 9 p = 1 -> 68 <= S') -> ip_chain_ok q.
Proof.
  intros H6 H1. pose proof cut_wf as [H20 [Hih Ht]].
  destruct (wf_ip_parts p Hwf) as [Hh [_ [Hu [Htcp Hicmp]]]].
  destruct (ip_body_len p Hh) as [Hbl _]. rewrite Z.min_l in Hbl by lia.
  unfold ip_chain_ok. split; [exact cut_hdr_ok|]. split; [rewrite cut_unfrag; exact Hu|].
  rewrite (cut_byte 9) by lia. split.
  - intros E. specialize (H6 E). destruct (Htcp E) as [Hth Hto].
    assert (Hd : 20 <= Zlength (ip_body p) /\ 5 <= (byte_at 12 (ip_body p) / 16) mod 16 < 16 /\
                 (byte_at 12 (ip_body p) / 16) mod 16 * 4 <= Zlength (ip_body p)).
    { unfold tcp_header in Hth. repeat (apply andb_true_iff in Hth; destruct Hth as [Hth ?]).
      repeat match goal with Hx : (_ <=? _) = true |- _ => apply Z.leb_le in Hx end.
      pose proof (Z.mod_pos_bound (byte_at 12 (ip_body p) / 16) 16 ltac:(lia)). lia. }
    destruct Hd as [Hd1 [Hd2 Hd3]].
    assert (E12 : byte_at 12 (ip_body q) = byte_at 12 (ip_body p)) by (apply cut_body_byte; lia).
    split.
    + unfold tcp_header. rewrite E12, cut_body_len.
      repeat (apply andb_true_iff; split); apply Z.leb_le; lia.
    + rewrite E12. pose proof cut_total as [Hq1 Hq2].
      rewrite (body_prefix q 20) by (rewrite ?cut_ihl; lia). rewrite cut_ihl, take_drop_take by lia.
      rewrite (body_prefix p 20) in Hto by lia. exact Hto.
  - intros E. specialize (H1 E). pose proof (Hicmp E) as Hth. unfold icmp_header in *. apply Z.leb_le in Hth.
    rewrite cut_body_len. apply Z.leb_le. lia.
Qed.

End Cut.

(* ------------------------------------------------------------------ reported <-> reply shape *)
Lemma flags512_in fl : 0 <= fl < 512 -> In fl flags512.
Proof.
  intros H. unfold flags512. apply in_map_iff. exists (Z.to_nat fl). split; [apply Z2Nat.id; lia|].
  apply in_seq. lia.
Qed.

Lemma wf_bytes_body p : wf_bytes p = true -> wf_bytes (ip_body p) = true.
Proof.
  intros H. unfold ip_body, wf_bytes in *. apply forallb_drop. destruct (_ <? _); [apply forallb_take|]; exact H.
Qed.

Lemma flags9_range s : wf_bytes s = true -> 0 <= flags9 s < 512 /\ flags9 s mod 256 = byte_at 13 s.
Proof.
  intros H. unfold flags9. pose proof (byte_at_range s 13 H). pose proof (Z.mod_pos_bound (byte_at 12 s) 2 ltac:(lia)).
  split; [lia|]. rewrite Z.add_comm, Z_mod_plus_full. apply Z.mod_small. lia.
Qed.

Lemma wf_unfrag_ip raw f : wf_unfrag raw f = true -> (raw = true \/ eth_header 2048 f = true) ->
  wf_ip (lp raw f) = true /\ wf_bytes (lp raw f) = true.
Proof.
  unfold wf_unfrag, lp. intros H Hl. apply andb_true_iff in H. destruct H as [Hb H].
  apply andb_true_iff in Hb. destruct Hb as [Hb _].
  destruct raw; [split; assumption|]. destruct Hl as [Hl|Hl]; [discriminate|]. rewrite Hl in H.
  split; [exact H|]. apply forallb_drop. exact Hb.
Qed.

(* no record unless the frame is IPv4 carrying the scanned protocol *)
Lemma no_record_ip k raw st f proto :
  (match k with KTcp _ _ => proto = 6 | KIcmp => proto = 1 | KArp => False end) ->
  (raw || eth_header 2048 f) && (byte_at 9 (lp raw f) =? proto) = false ->
  is_record (snd (process k raw (code_valid k) st f)) = false.
Proof.
  intros Hk Hc. destruct (process k raw (code_valid k) st f) as [st' o] eqn:E. destruct o; try reflexivity.
  exfalso. apply (process_record k (code_valid k) (code_valid_sound k)) in E. destruct E as [Hch _].
  destruct k as [pf af| |]; [| |contradiction]; subst proto; unfold has_chain, ipv4_header in Hch;
    repeat match goal with Hx : _ && _ = true |- _ => apply andb_true_iff in Hx; destruct Hx end;
    unfold lp in Hc; cbn [l3] in *;
    match goal with Ha : (raw || _) = true, Hb : (byte_at 9 _ =? _) = true |- _ => rewrite Ha, Hb in Hc end;
    discriminate.
Qed.

Lemma is_record_expected k raw f :
  is_record (expected_outcome k raw f) =
  match k with KTcp pf _ => pf (flags9 (ip_body (l3 k raw f))) | _ => true end.
Proof. destruct k as [pf af| |]; cbn; [destruct (pf _); reflexivity|reflexivity|reflexivity]. Qed.

Lemma bpf_sem_some raw e f b : bpf_eval raw e f = Some b -> bpf_sem raw e f = b.
Proof. unfold bpf_sem. intros ->. destruct b; reflexivity. Qed.

Lemma eth_header_take ty f S : 14 <= S -> eth_header ty (take S f) = eth_header ty f.
Proof.
  intros. unfold eth_header. rewrite !byte_at_take by lia. rewrite Zlength_take.
  pose proof (Zlength_nonneg f).
  destruct (Z.leb_spec 14 (Zlength f)), (Z.leb_spec 14 (Z.min (Z.max 0 S) (Zlength f))); try lia; reflexivity.
Qed.

Lemma lp_take raw f S : 14 <= S -> lp raw (take S f) = take (S - nl raw) (lp raw f).
Proof. intros. unfold lp, nl. destruct raw; [rewrite Z.sub_0_r; reflexivity|apply drop_take; lia]. Qed.

Lemma l3_lp k raw f : k <> KArp -> l3 k raw f = lp raw f.
Proof. destruct k; try reflexivity. congruence. Qed.

(* cutting a well-formed frame to a snapshot length that covers the largest header chain of the scan
   does not change what the processor does with it *)
Lemma process_cut_ip k raw st f S proto :
  (match k with KTcp _ _ => proto = 6 | KIcmp => proto = 1 | KArp => False end) ->
  wf_unfrag raw f = true -> snap_need k <= S ->
  snd (process k raw (code_valid k) st (take S f)) = snd (process k raw (code_valid k) st f) \/
  (is_record (snd (process k raw (code_valid k) st (take S f))) = false /\
   is_record (snd (process k raw (code_valid k) st f)) = false).
Proof.
  intros Hk Hwf HS.
  assert (Hka : k <> KArp) by (destruct k; try discriminate; contradiction).
  assert (HS14 : 82 <= S) by (destruct k; cbn in HS; try lia; contradiction).
  assert (Hnl : 0 <= nl raw <= 14) by (unfold nl; destruct raw; lia).
  assert (E9 : byte_at 9 (lp raw (take S f)) = byte_at 9 (lp raw f)) by (rewrite lp_take by lia; apply byte_at_take; lia).
  destruct ((raw || eth_header 2048 f) && (byte_at 9 (lp raw f) =? proto)) eqn:C0.
  - left. apply andb_true_iff in C0. destruct C0 as [Hl E]. apply Z.eqb_eq in E. apply orb_true_iff in Hl.
    destruct (wf_unfrag_ip raw f Hwf Hl) as [Hip Hby].
    assert (Hsmall : Zlength (lp raw f) < 65536).
    { unfold wf_unfrag in Hwf. repeat (apply andb_true_iff in Hwf; destruct Hwf as [Hwf ?]).
      match goal with Hx : (Zlength f <? 65536) = true |- _ => apply Z.ltb_lt in Hx end.
      unfold lp. destruct raw; [assumption|]. rewrite Zlength_drop. pose proof (Zlength_nonneg f). lia. }
    assert (Hl' : raw = true \/ eth_header 2048 (take S f) = true)
      by (destruct Hl as [Hl|Hl]; [left; exact Hl|right; rewrite eth_header_take by lia; exact Hl]).
    assert (HS' : 60 <= S - nl raw) by lia.
    assert (Hchain : ip_chain_ok (l3 k raw (take S f))).
    { rewrite (l3_lp k raw _ Hka), lp_take by lia.
      assert (H120 : byte_at 9 (lp raw f) = 6 -> 120 <= S - nl raw).
      { intros E6. destruct k as [pf af| |]; cbn in HS; [lia| |contradiction]. rewrite E in E6. subst proto. discriminate. }
      assert (H68 : byte_at 9 (lp raw f) = 1 -> 68 <= S - nl raw) by (intros _; lia).
      exact (cut_chain_ok _ _ Hip Hsmall HS' H120 H68). }
    assert (Hk1 : match k with KTcp _ _ => byte_at 9 (l3 k raw (take S f)) = 6 | KIcmp => byte_at 9 (l3 k raw (take S f)) = 1 | KArp => False end)
      by (destruct k; try contradiction; cbn [l3]; fold (lp raw (take S f)); rewrite E9, E; exact Hk).
    assert (Hk2 : match k with KTcp _ _ => byte_at 9 (l3 k raw f) = 6 | KIcmp => byte_at 9 (l3 k raw f) = 1 | KArp => False end)
      by (destruct k; try contradiction; cbn [l3]; fold (lp raw f); rewrite E; exact Hk).
    rewrite (process_complete_ip k raw st (take S f) Hk1 Hl' Hchain).
    rewrite (process_complete_ip k raw st f Hk2 Hl (eq_ind_r ip_chain_ok (wf_ip_chain _ Hip) (l3_lp k raw f Hka))).
    (* the two expected outcomes read the same bytes *)
    destruct (cut_wf _ Hip) as [H20 [Hih Htl]]. destruct (wf_ip_parts _ Hip) as [Hh [_ [_ [Htcp Hicmp]]]].
    destruct (ip_body_len _ Hh) as [Hbl _]. rewrite Z.min_l in Hbl by lia.
    unfold expected_outcome, fields_of. rewrite !(l3_lp k raw _ Hka), lp_take by lia.
    destruct k as [pf af| |]; [| |contradiction]; subst proto.
    + destruct (Htcp E) as [Hth _]. unfold tcp_header in Hth.
      repeat (apply andb_true_iff in Hth; destruct Hth as [Hth ?]). apply Z.leb_le in Hth. cbn in HS.
      unfold flags9.
      rewrite !(cut_body_byte _ _ Hip Hsmall HS') by lia. rewrite take_drop_take by lia. reflexivity.
    + pose proof (Hicmp E) as Hth. unfold icmp_header in Hth. apply Z.leb_le in Hth. cbn in HS.
      rewrite !(cut_body_byte _ _ Hip Hsmall HS') by lia. rewrite take_drop_take by lia.
      rewrite (cut_byte _ _ 8) by lia. reflexivity.
  - right. split.
    + apply (no_record_ip k raw st (take S f) proto Hk). rewrite E9, eth_header_take by lia. exact C0.
    + apply (no_record_ip k raw st f proto Hk C0).
Qed.

Lemma process_cut_arp st f S :
  wf_unfrag false f = true -> snap_need KArp <= S ->
  snd (process KArp false (code_valid KArp) st (take S f)) = snd (process KArp false (code_valid KArp) st f) \/
  (is_record (snd (process KArp false (code_valid KArp) st (take S f))) = false /\
   is_record (snd (process KArp false (code_valid KArp) st f)) = false).
Proof.
  intros Hwf HS. cbn in HS.
  destruct (eth_header 2054 f) eqn:C0.
  - left.
    assert (Hn : eth_header 2048 f = false).
    { unfold eth_header in *. apply andb_true_iff in C0. destruct C0 as [_ C0]. apply Z.eqb_eq in C0. rewrite C0.
      apply andb_false_r. }
    unfold wf_unfrag in Hwf. rewrite Hn, C0 in Hwf. apply andb_true_iff in Hwf. destruct Hwf as [_ Ha].
    assert (Ha' : arp_6_4 (drop 14 (take S f)) = true).
    { rewrite drop_take by lia. unfold arp_6_4 in *. rewrite !byte_at_take by lia.
      repeat (apply andb_true_iff in Ha; destruct Ha as [Ha ?]). apply Z.leb_le in Ha.
      repeat (apply andb_true_iff; split); try assumption. apply Z.leb_le. rewrite Zlength_take. lia. }
    rewrite (process_complete_arp st (take S f) (eq_trans (eth_header_take 2054 f S ltac:(lia)) C0) Ha').
    rewrite (process_complete_arp st f C0 Ha).
    unfold fields_of, l3. rewrite drop_take by lia. rewrite !take_drop_take by lia. reflexivity.
  - right. split.
    + destruct (process KArp false (code_valid KArp) st (take S f)) as [st' o] eqn:E. destruct o; try reflexivity.
      exfalso. apply (process_record KArp (code_valid KArp) (code_valid_sound KArp)) in E. destruct E as [Hch _].
      unfold has_chain in Hch. rewrite eth_header_take, C0 in Hch by lia. discriminate.
    + destruct (process KArp false (code_valid KArp) st f) as [st' o] eqn:E. destruct o; try reflexivity.
      exfalso. apply (process_record KArp (code_valid KArp) (code_valid_sound KArp)) in E. destruct E as [Hch _].
      unfold has_chain in Hch. rewrite C0 in Hch. discriminate.
Qed.

Lemma cut_is_record a b : a = b \/ (is_record a = false /\ is_record b = false) -> is_record a = is_record b.
Proof. intros [->|[-> ->]]; reflexivity. Qed.

Opaque forallb.
Theorem reported_iff w c vpn r st f :
  cmd_wiring_ok w = true -> class_of_cmd (w_cmd w) = Some c ->
  wf_unfrag (source_raw w vpn) f = true ->
  reported w vpn r st f = reply_shape c (source_raw w vpn) r f.
Proof.
  intros Hok Hc.
  unfold cmd_wiring_ok in Hok. rewrite Hc in Hok. unfold reported, source_raw, method_raw.
  destruct c; destruct (w_method w) as [pf af| | |] eqn:Em; try discriminate;
    destruct (w_filter w) eqn:Ef; try discriminate;
    unfold method_gets_vpn in *;
    repeat match goal with Hx : _ && _ = true |- _ => apply andb_true_iff in Hx; destruct Hx end;
    repeat match goal with Hx : ?b = true |- context [?b] => rewrite Hx end;
    cbn [andb kind_of_method filter_of]; intros Hwf.
  - (* tcp scans with TrueFilter *)
    set (raw := vpn) in *. fold (lp raw f).
    match goal with Hs : (snap_need _ <=? _) = true |- _ => apply Z.leb_le in Hs;
      rewrite (cut_is_record _ _ (process_cut_ip (KTcp pf af) raw st f _ 6 eq_refl Hwf Hs)) end.
    destruct ((raw || eth_header 2048 f) && (byte_at 9 (lp raw f) =? 6)) eqn:C0.
    + apply andb_true_iff in C0. destruct C0 as [Hl E]. apply Z.eqb_eq in E. apply orb_true_iff in Hl.
      destruct (wf_unfrag_ip raw f Hwf Hl) as [Hip Hby].
      destruct (wf_ip_parts _ Hip) as [Hh [_ [Hu [Ht _]]]]. destruct (Ht E) as [Hth _].
      assert (H20 : 20 <= Zlength (ip_body (lp raw f))).
      { unfold tcp_header in Hth. repeat (apply andb_true_iff in Hth; destruct Hth as [Hth ?]). apply Z.leb_le. exact Hth. }
      rewrite (process_complete_ip (KTcp pf af) raw st f E Hl (wf_ip_chain _ Hip)), is_record_expected. cbn [l3]. fold (lp raw f).
      rewrite (bpf_sem_some _ _ _ _ (ev_tcp_filter raw f Hl Hh r E Hu ltac:(lia))).
      destruct (flags9_range _ (wf_bytes_body _ Hby)) as [Hfr _].
      assert (Hpf : pf (flags9 (ip_body (lp raw f))) = true).
      { match goal with Hx : forallb pf flags512 = true |- _ => rewrite forallb_forall in Hx; apply Hx end.
        apply flags512_in. exact Hfr. }
      rewrite Hpf, andb_true_r. unfold reply_shape. fold (lp raw f).
      rewrite E, (proj2 (orb_true_iff _ _) Hl). reflexivity.
    + rewrite (no_record_ip (KTcp pf af) raw st f 6 eq_refl C0), andb_false_r.
      unfold reply_shape. fold (lp raw f). rewrite C0. reflexivity.
  - (* SYN scan *)
    set (raw := vpn) in *. fold (lp raw f).
    match goal with Hs : (snap_need _ <=? _) = true |- _ => apply Z.leb_le in Hs;
      rewrite (cut_is_record _ _ (process_cut_ip (KTcp pf af) raw st f _ 6 eq_refl Hwf Hs)) end.
    destruct ((raw || eth_header 2048 f) && (byte_at 9 (lp raw f) =? 6)) eqn:C0.
    + apply andb_true_iff in C0. destruct C0 as [Hl E]. apply Z.eqb_eq in E. apply orb_true_iff in Hl.
      destruct (wf_unfrag_ip raw f Hwf Hl) as [Hip Hby].
      destruct (wf_ip_parts _ Hip) as [Hh [_ [Hu [Ht _]]]]. destruct (Ht E) as [Hth _].
      assert (H20 : 20 <= Zlength (ip_body (lp raw f))).
      { unfold tcp_header in Hth. repeat (apply andb_true_iff in Hth; destruct Hth as [Hth ?]). apply Z.leb_le. exact Hth. }
      rewrite (process_complete_ip (KTcp pf af) raw st f E Hl (wf_ip_chain _ Hip)), is_record_expected. cbn [l3]. fold (lp raw f).
      rewrite (bpf_sem_some _ _ _ _ (ev_synack_filter raw f Hl Hh r E Hu ltac:(lia))).
      destruct (flags9_range _ (wf_bytes_body _ Hby)) as [Hfr Hm].
      match goal with Hx : forallb _ flags512 = true |- _ =>
        rewrite forallb_forall in Hx; pose proof (Hx _ (flags512_in _ Hfr)) as Hsyn end.
      cbv beta in Hsyn. rewrite Hm in Hsyn. apply eqb_prop in Hsyn.
      unfold reply_shape. fold (lp raw f). rewrite <- Hsyn.
      rewrite E, (proj2 (orb_true_iff _ _) Hl); cbn [andb Z.eqb Pos.eqb];
        destruct (in_subnet _ _), (in_ports _ _), (byte_at 13 _ =? 18), (pf _); reflexivity.
    + rewrite (no_record_ip (KTcp pf af) raw st f 6 eq_refl C0), andb_false_r.
      unfold reply_shape. fold (lp raw f). rewrite C0. reflexivity.
  - (* udp scan: ICMP *)
    set (raw := vpn) in *. fold (lp raw f).
    match goal with Hs : (snap_need _ <=? _) = true |- _ => apply Z.leb_le in Hs;
      rewrite (cut_is_record _ _ (process_cut_ip (KIcmp) raw st f _ 1 eq_refl Hwf Hs)) end.
    destruct ((raw || eth_header 2048 f) && (byte_at 9 (lp raw f) =? 1)) eqn:C0.
    + apply andb_true_iff in C0. destruct C0 as [Hl E]. apply Z.eqb_eq in E. apply orb_true_iff in Hl.
      destruct (wf_unfrag_ip raw f Hwf Hl) as [Hip Hby].
      destruct (wf_ip_parts _ Hip) as [Hh [_ [Hu [_ Hi]]]]. pose proof (Hi E) as Hth.
      assert (H8 : 8 <= Zlength (ip_body (lp raw f))) by (apply Z.leb_le; exact Hth).
      rewrite (process_complete_ip KIcmp raw st f E Hl (wf_ip_chain _ Hip)). cbn [expected_outcome is_record].
      rewrite (bpf_sem_some _ _ _ _ (ev_icmp_filter raw f Hl Hh r E Hu ltac:(lia))).
      rewrite andb_true_r. unfold reply_shape. fold (lp raw f).
      rewrite E, (proj2 (orb_true_iff _ _) Hl). reflexivity.
    + rewrite (no_record_ip KIcmp raw st f 1 eq_refl C0), andb_false_r.
      unfold reply_shape. fold (lp raw f). rewrite C0. reflexivity.
  - (* icmp scan *)
    set (raw := vpn) in *. fold (lp raw f).
    match goal with Hs : (snap_need _ <=? _) = true |- _ => apply Z.leb_le in Hs;
      rewrite (cut_is_record _ _ (process_cut_ip (KIcmp) raw st f _ 1 eq_refl Hwf Hs)) end.
    destruct ((raw || eth_header 2048 f) && (byte_at 9 (lp raw f) =? 1)) eqn:C0.
    + apply andb_true_iff in C0. destruct C0 as [Hl E]. apply Z.eqb_eq in E. apply orb_true_iff in Hl.
      destruct (wf_unfrag_ip raw f Hwf Hl) as [Hip Hby].
      destruct (wf_ip_parts _ Hip) as [Hh [_ [Hu [_ Hi]]]]. pose proof (Hi E) as Hth.
      assert (H8 : 8 <= Zlength (ip_body (lp raw f))) by (apply Z.leb_le; exact Hth).
      rewrite (process_complete_ip KIcmp raw st f E Hl (wf_ip_chain _ Hip)). cbn [expected_outcome is_record].
      rewrite (bpf_sem_some _ _ _ _ (ev_icmp_filter raw f Hl Hh r E Hu ltac:(lia))).
      rewrite andb_true_r. unfold reply_shape. fold (lp raw f).
      rewrite E, (proj2 (orb_true_iff _ _) Hl). reflexivity.
    + rewrite (no_record_ip KIcmp raw st f 1 eq_refl C0), andb_false_r.
      unfold reply_shape. fold (lp raw f). rewrite C0. reflexivity.
  - (* arp *)
    match goal with Hx : negb (w_vpn_source w) = true |- _ => apply negb_true_iff in Hx; rewrite Hx in * end.
    cbn [andb method_gets_vpn] in *.
    match goal with Hs : (snap_need _ <=? _) = true |- _ => apply Z.leb_le in Hs;
      rewrite (cut_is_record _ _ (process_cut_arp st f _ Hwf Hs)) end.
    unfold reply_shape. cbn [negb andb].
    destruct (eth_header 2054 f) eqn:C0.
    + assert (H14 : 14 <= Zlength f) by (unfold eth_header in C0; apply andb_true_iff in C0; destruct C0 as [C0 _]; apply Z.leb_le; exact C0).
      assert (Hn : eth_header 2048 f = false).
      { unfold eth_header in *. apply andb_true_iff in C0. destruct C0 as [_ C0]. apply Z.eqb_eq in C0. rewrite C0.
        apply andb_false_r. }
      pose proof Hwf as Hwf0. unfold wf_unfrag in Hwf. rewrite Hn, C0 in Hwf. apply andb_true_iff in Hwf. destruct Hwf as [_ Ha].
      rewrite (process_complete_arp st f C0 Ha). cbn [is_record]. rewrite andb_true_r.
      assert (H28 : 28 <= Zlength (drop 14 f)).
      { unfold arp_6_4 in Ha. repeat (apply andb_true_iff in Ha; destruct Ha as [Ha ?]). apply Z.leb_le. exact Ha. }
      rewrite Zlength_drop in H28.
      assert (Het : is_etype false 2054 f = Some true).
      { unfold is_etype. unfold eth_header in C0. apply andb_true_iff in C0. destruct C0 as [_ C0].
        assert (Hld : ld16 12 f = Some (be16 (byte_at 12 f) (byte_at 13 f))).
        { unfold ld16. destruct (Z.leb_spec (12 + 2) (Zlength f)); [|lia]. reflexivity. }
        rewrite Hld. cbn [obind]. rewrite C0. reflexivity. }
      unfold arp_filter, in_subnet. destruct (r_subnet r) as [n|].
      * apply bpf_sem_some. cbn [bpf_eval]. rewrite Het. cbn [oand nl]. unfold ld32.
        destruct (Z.leb_spec (14 + 14 + 4) (Zlength f)); [|lia]. cbn [andb Z.leb Z.add Pos.add Pos.succ obind].
        unfold src_addr. rewrite !byte_at_drop by lia. reflexivity.
      * apply bpf_sem_some. cbn [bpf_eval]. exact Het.
    + cbn [andb]. rewrite andb_false_iff. right.
      destruct (process KArp false (code_valid KArp) st f) as [st' o] eqn:E. destruct o; try reflexivity.
      exfalso. apply (process_record KArp (code_valid KArp) (code_valid_sound KArp)) in E. destruct E as [Hch _].
      unfold has_chain in Hch. rewrite C0 in Hch. discriminate.
Qed.

Lemma wiring_facts w : cmd_wiring_ok w = true ->
  snap_need (kind_of_method (w_method w)) <= snaplen_of (w_filter w) /\
  (forall vpn, method_raw w vpn = source_raw w vpn) /\
  (kind_of_method (w_method w) = KArp -> forall vpn, source_raw w vpn = false).
Proof.
  unfold cmd_wiring_ok, method_raw, source_raw. intros Hok.
  apply andb_true_iff in Hok. destruct Hok as [Hs Hok]. apply Z.leb_le in Hs. split; [exact Hs|].
  destruct (class_of_cmd (w_cmd w)) as [c|]; [|discriminate].
  destruct c; destruct (w_method w) as [pf af| | |] eqn:Em; try discriminate;
    destruct (w_filter w) eqn:Ef; try discriminate;
    unfold method_gets_vpn in *;
    repeat match goal with Hx : _ && _ = true |- _ => apply andb_true_iff in Hx; destruct Hx end;
    repeat match goal with Hx : ?b = true |- context [?b] => rewrite Hx end;
    repeat match goal with Hx : negb ?b = true |- _ => apply negb_true_iff in Hx; rewrite Hx in * end;
    (split; [intros vpn; reflexivity|]); cbn [kind_of_method]; try discriminate.
  intros _ vpn. reflexivity.
Qed.
Transparent forallb.

(* a reported frame's record is the record of the whole frame, although the processor only saw the
   frame cut to the snapshot length *)
Lemma reported_record w vpn r st f :
  cmd_wiring_ok w = true -> wf_unfrag (source_raw w vpn) f = true -> reported w vpn r st f = true ->
  snd (process (kind_of_method (w_method w)) (method_raw w vpn) (code_valid (kind_of_method (w_method w))) st
               (take (snaplen_of (w_filter w)) f))
  = ORecord (fields_of (kind_of_method (w_method w)) (method_raw w vpn) f).
Proof.
  intros Hok Hwf Hr. destruct (wiring_facts w Hok) as [Hs [Hraw Harp]].
  unfold reported in Hr. apply andb_true_iff in Hr. destruct Hr as [_ Hr].
  rewrite Hraw in *. set (k := kind_of_method (w_method w)) in *. set (raw := source_raw w vpn) in *.
  assert (Hcut : snd (process k raw (code_valid k) st (take (snaplen_of (w_filter w)) f)) = snd (process k raw (code_valid k) st f) \/
                 (is_record (snd (process k raw (code_valid k) st (take (snaplen_of (w_filter w)) f))) = false /\
                  is_record (snd (process k raw (code_valid k) st f)) = false)).
  { destruct k as [pf af| |] eqn:Ek.
    - exact (process_cut_ip (KTcp pf af) raw st f _ 6 eq_refl Hwf Hs).
    - exact (process_cut_ip KIcmp raw st f _ 1 eq_refl Hwf Hs).
    - assert (Hf : raw = false) by (subst raw; apply Harp; reflexivity). rewrite Hf in *.
      exact (process_cut_arp st f _ Hwf Hs). }
  destruct Hcut as [Heq|[Hn _]]; [|rewrite Hn in Hr; discriminate].
  rewrite Heq in *. destruct (process k raw (code_valid k) st f) as [st' o] eqn:E. destruct o; try discriminate.
  cbn [snd]. f_equal. exact (proj2 (process_record k (code_valid k) (code_valid_sound k) _ _ _ _ _ E)).
Qed.
