(* Lemmas for C03: forward evaluation of the decoders on well-formed frames (completeness of the
   receive path), evaluation of the capture filters on such frames, and the iff between [reported]
   and [reply_shape]. *)
From Coq Require Import ZArith List Bool Lia String.
From SX Require Import Base.Bytes Model.Decode Model.Process Model.Bpf Gen.ValidPacket Gen.Wiring
  Spec.C06 Spec.C03 Proofs.DecodeProofs Proofs.ProcessProofs Proofs.ValidPacketProofs.
Import ListNotations.
Open Scope Z_scope.

(* ------------------------------------------------------------------ bytes *)
Lemma drop_nonpos n (l : bytes) : n <= 0 -> drop n l = l.
Proof. intros H. destruct l; cbn; [reflexivity|]. destruct (Z.leb_spec n 0); [reflexivity|lia]. Qed.

Lemma drop_drop (l : bytes) : forall n i, 0 <= n -> 0 <= i -> drop i (drop n l) = drop (n + i) l.
Proof.
  induction l as [|x l IH]; intros n i Hn Hi; [reflexivity|].
  cbn [drop]. destruct (Z.leb_spec n 0).
  - assert (n = 0) by lia. subst. cbn [Z.add]. reflexivity.
  - destruct (Z.leb_spec (n + i) 0); [lia|]. rewrite IH by lia. f_equal. lia.
Qed.

Lemma byte_at_drop (l : bytes) n i : 0 <= n -> 0 <= i -> byte_at i (drop n l) = byte_at (n + i) l.
Proof. intros. unfold byte_at. rewrite drop_drop by assumption. reflexivity. Qed.

Lemma drop_take (l : bytes) : forall m i, 0 <= i -> drop i (take m l) = take (m - i) (drop i l).
Proof.
  induction l as [|x l IH]; intros m i Hi; [reflexivity|].
  cbn [take drop]. destruct (Z.leb_spec m 0).
  - destruct (Z.leb_spec i 0).
    + cbn [take]. destruct (Z.leb_spec (m - i) 0); [reflexivity|lia].
    + cbn [drop]. assert (Hn : take (m - i) (drop (i - 1) l) = []).
      { destruct (drop (i - 1) l); cbn; [reflexivity|]. destruct (Z.leb_spec (m - i) 0); [reflexivity|lia]. }
      rewrite Hn. reflexivity.
  - destruct (Z.leb_spec i 0).
    + assert (i = 0) by lia. subst. cbn [drop]. destruct (Z.leb_spec 0 0); [|lia].
      cbn [take]. rewrite Z.sub_0_r. destruct (Z.leb_spec m 0); [lia|reflexivity].
    + cbn [drop]. destruct (Z.leb_spec i 0); [lia|]. rewrite IH by lia. f_equal. lia.
Qed.

Lemma hd_take (l : bytes) k : 0 < k -> hd 0 (take k l) = hd 0 l.
Proof. intros. destruct l; cbn; [reflexivity|]. destruct (Z.leb_spec k 0); [lia|reflexivity]. Qed.

Lemma byte_at_take (l : bytes) m i : 0 <= i < m -> byte_at i (take m l) = byte_at i l.
Proof. intros. unfold byte_at. rewrite drop_take by lia. apply hd_take. lia. Qed.

Lemma forallb_take (l : bytes) p : forall n, forallb p l = true -> forallb p (take n l) = true.
Proof.
  induction l as [|x l IH]; intros n H; [reflexivity|]. cbn in H |- *.
  apply andb_true_iff in H. destruct H as [H1 H2]. destruct (n <=? 0); [reflexivity|].
  cbn. rewrite H1. apply IH. exact H2.
Qed.

Lemma forallb_drop (l : bytes) p : forall n, forallb p l = true -> forallb p (drop n l) = true.
Proof.
  induction l as [|x l IH]; intros n H; [reflexivity|]. cbn [drop].
  destruct (n <=? 0); [exact H|]. cbn in H. apply andb_true_iff in H. apply IH. apply H.
Qed.

Lemma byte_at_range (l : bytes) i : wf_bytes l = true -> 0 <= byte_at i l < 256.
Proof.
  intros H. unfold byte_at. pose proof (forallb_drop l is_byte i H) as Hd.
  destruct (drop i l) as [|x t]; cbn; [lia|]. cbn in Hd. apply andb_true_iff in Hd. destruct Hd as [Hx _].
  unfold is_byte in Hx. apply andb_true_iff in Hx. destruct Hx as [H1 H2].
  apply Z.leb_le in H1. apply Z.ltb_lt in H2. lia.
Qed.

Lemma nonempty_of_len (l : bytes) : 0 < Zlength l -> exists x t, l = x :: t.
Proof. destruct l; [rewrite Zlength_nil; lia|]. intros _. eauto. Qed.

(* ------------------------------------------------------------------ forward decoding *)
Lemma eth_fwd st f ty :
  eth_header ty f = true -> 1536 <= ty -> decode_eth st f = DOk st (eth_next ty) (drop 14 f).
Proof.
  unfold eth_header, decode_eth. intros H Hty. apply andb_true_iff in H. destruct H as [H1 H2].
  apply Z.leb_le in H1. apply Z.eqb_eq in H2. rewrite H2.
  destruct (Z.ltb_spec (Zlength f) 14); [lia|]. destruct (Z.ltb_spec ty 1536); [lia|]. reflexivity.
Qed.

(* the IPv4-header part of wf_ip *)
Definition ip_hdr_ok (p : bytes) : bool :=
  let d1 := if ip_total p <? Zlength p then take (ip_total p) p else p in
  (20 <=? Zlength p) && (5 <=? ip_ihl p) && (ip_ihl p * 4 <=? ip_total p) && (ip_total p <=? Zlength p)
  && match ip_opts 41 (take (ip_ihl p * 4 - 20) (drop 20 d1)) with None => true | Some _ => false end.

Lemma ip_fwd st p :
  ip_hdr_ok p = true ->
  decode_ip st p = DOk (set_ip st {| ip_src := take 4 (drop 12 p); ip_ttl := byte_at 8 p |})
                       (ip_next (be16 (byte_at 6 p) (byte_at 7 p)) (byte_at 9 p)) (ip_body p).
Proof.
  unfold ip_hdr_ok, decode_ip, ip_body, ip_total, ip_ihl. intros H.
  repeat (apply andb_true_iff in H; destruct H as [H ?]).
  set (ihl := byte_at 0 p mod 16) in *.
  set (tl := if be16 (byte_at 2 p) (byte_at 3 p) =? 0 then Zlength p mod 65536 else be16 (byte_at 2 p) (byte_at 3 p)) in *.
  repeat match goal with Hx : (_ <=? _) = true |- _ => apply Z.leb_le in Hx end.
  destruct (Z.ltb_spec (Zlength p) 20); [lia|].
  destruct (Z.ltb_spec tl 20); [lia|]. destruct (Z.ltb_spec ihl 5); [lia|].
  destruct (Z.ltb_spec tl (ihl * 4)); [lia|].
  destruct (Z.ltb_spec (Zlength p) tl); [lia|]. cbn [andb].
  destruct (ip_opts 41 _); [discriminate|]. reflexivity.
Qed.

Lemma tcp_fwd st s :
  tcp_header s = true ->
  tcp_opts 41 (take ((byte_at 12 s / 16) mod 16 * 4 - 20) (drop 20 s)) = None ->
  decode_tcp st s = DOk (set_tcp st {| tcp_sport := be16 (byte_at 0 s) (byte_at 1 s); tcp_flags := flags9 s |})
                        LOther (drop ((byte_at 12 s / 16) mod 16 * 4) s).
Proof.
  unfold tcp_header, decode_tcp, flags9. intros H Ho.
  repeat (apply andb_true_iff in H; destruct H as [H ?]).
  repeat match goal with Hx : (_ <=? _) = true |- _ => apply Z.leb_le in Hx end.
  destruct (Z.ltb_spec (Zlength s) 20); [lia|].
  destruct (Z.ltb_spec ((byte_at 12 s / 16) mod 16) 5); [lia|].
  destruct (Z.ltb_spec (Zlength s) ((byte_at 12 s / 16) mod 16 * 4)); [lia|].
  rewrite Ho. reflexivity.
Qed.

Lemma icmp_fwd st s :
  icmp_header s = true ->
  decode_icmp st s = DOk (set_icmp st {| ic_type := byte_at 0 s; ic_code := byte_at 1 s |}) LOther (drop 8 s).
Proof.
  unfold icmp_header, decode_icmp. intros H. apply Z.leb_le in H.
  destruct (Z.ltb_spec (Zlength s) 8); [lia|]. reflexivity.
Qed.

Lemma arp_fwd st a :
  arp_6_4 a = true ->
  decode_arp st a = DOk (set_arp st {| ar_hw := 6; ar_pr := 4; ar_sha := take 6 (drop 8 a); ar_sha_cap := drop 8 a;
                                       ar_spa := take 4 (drop 14 a) |}) LOther (drop 28 a).
Proof.
  unfold arp_6_4, decode_arp. intros H.
  repeat (apply andb_true_iff in H; destruct H as [H ?]).
  apply Z.leb_le in H. repeat match goal with Hx : (_ =? _) = true |- _ => apply Z.eqb_eq in Hx end.
  match goal with Hx : byte_at 4 a = 6 |- _ => rewrite Hx end.
  match goal with Hx : byte_at 5 a = 4 |- _ => rewrite Hx end.
  change (u8 (8 + 2 * 6 + 2 * 4)) with 28. change (u8 (8 + 6)) with 14. change (u8 (8 + 6 + 4)) with 18.
  change (u8 (8 + 2 * 6 + 4)) with 24.
  destruct (Z.ltb_spec (Zlength a) 8); [lia|]. destruct (Z.ltb_spec (Zlength a) 28); [lia|].
  unfold slice.
  repeat match goal with |- context [?x <=? ?y] => destruct (Z.leb_spec x y); [|lia] end.
  cbn [andb]. reflexivity.
Qed.

(* ------------------------------------------------------------------ completeness of the receive path *)
(* what wf_ip says, split *)
Lemma wf_ip_parts p : wf_ip p = true ->
  ip_hdr_ok p = true /\ byte_at 0 p / 16 = 4 /\ ip_unfragmented p = true /\
  (byte_at 9 p = 6 -> tcp_header (ip_body p) = true /\
     tcp_opts 41 (take ((byte_at 12 (ip_body p) / 16) mod 16 * 4 - 20) (drop 20 (ip_body p))) = None) /\
  (byte_at 9 p = 1 -> icmp_header (ip_body p) = true).
Proof.
  unfold wf_ip, ip_hdr_ok. intros H.
  repeat (apply andb_true_iff in H; destruct H as [H ?]).
  repeat match goal with Hx : ?b = true |- context [?b] => rewrite Hx end.
  split; [reflexivity|]. split; [apply Z.eqb_eq; assumption|]. split; [reflexivity|].
  match goal with Hx : (if byte_at 9 p =? 6 then _ else _) = true |- _ => rename Hx into Ht end.
  split.
  - intros E. rewrite E in Ht. cbn in Ht. apply andb_true_iff in Ht. destruct Ht as [Ht1 Ht2].
    split; [exact Ht1|]. destruct (tcp_opts 41 _); [discriminate|reflexivity].
  - intros E. rewrite E in Ht. cbn in Ht. exact Ht.
Qed.

Lemma ip_next_unfrag p proto :
  ip_unfragmented p = true -> byte_at 9 p = proto ->
  ip_next (be16 (byte_at 6 p) (byte_at 7 p)) (byte_at 9 p) =
  if proto =? 6 then LTCP else if proto =? 1 then LICMP else if (proto =? 4) || (proto =? 94) then LIPv4 else LOther.
Proof.
  unfold ip_unfragmented, ip_next. intros H <-. apply andb_true_iff in H. destruct H as [H1 H2].
  rewrite H1, H2. reflexivity.
Qed.

Lemma ip_body_len p : ip_hdr_ok p = true ->
  Zlength (ip_body p) = ip_total p - ip_ihl p * 4 /\ ip_ihl p * 4 <= ip_total p <= Zlength p /\ 5 <= ip_ihl p.
Proof.
  unfold ip_hdr_ok, ip_body. intros H. repeat (apply andb_true_iff in H; destruct H as [H ?]).
  repeat match goal with Hx : (_ <=? _) = true |- _ => apply Z.leb_le in Hx end.
  destruct (Z.ltb_spec (ip_total p) (Zlength p)); rewrite Zlength_drop; [rewrite Zlength_take|]; lia.
Qed.

(* the loop from the IPv4 layer on, on a well-formed packet carrying the scanned transport *)
Lemma loop_ip_transport k st p acc fuel :
  wf_ip p = true ->
  (match k with KTcp _ _ => byte_at 9 p = 6 | KIcmp => byte_at 9 p = 1 | KArp => False end) ->
  exists st',
    decode_loop (has_dec k) (S (S fuel)) LIPv4 st p acc = (st', acc ++ [LIPv4; transport k], None) /\
    s_ip st' = {| ip_src := take 4 (drop 12 p); ip_ttl := byte_at 8 p |} /\
    match k with
    | KTcp _ _ => s_tcp st' = {| tcp_sport := be16 (byte_at 0 (ip_body p)) (byte_at 1 (ip_body p));
                                 tcp_flags := flags9 (ip_body p) |}
    | KIcmp => s_icmp st' = {| ic_type := byte_at 0 (ip_body p); ic_code := byte_at 1 (ip_body p) |}
    | KArp => True
    end.
Proof.
  intros Hwf Hk. destruct (wf_ip_parts p Hwf) as [Hh [_ [Hu [Ht Hi]]]].
  destruct (ip_body_len p Hh) as [Hlen [Hb Hihl]].
  cbn [decode_loop decode_layer]. rewrite (ip_fwd st p Hh).
  destruct k as [pf af| |]; [| |contradiction].
  - rewrite (ip_next_unfrag p 6 Hu Hk). cbn [Z.eqb Pos.eqb].
    destruct (Ht Hk) as [Hth Hto].
    assert (Hne : 0 < Zlength (ip_body p)).
    { unfold tcp_header in Hth. repeat (apply andb_true_iff in Hth; destruct Hth as [Hth ?]). apply Z.leb_le in Hth. lia. }
    destruct (nonempty_of_len _ Hne) as [x [t Ex]]. rewrite Ex at 1. cbn [has_dec]. rewrite <- Ex.
    rewrite (tcp_fwd _ _ Hth Hto).
    eexists. split.
    + destruct (drop _ (ip_body p)); cbn [has_dec]; rewrite <- app_assoc; reflexivity.
    + split; reflexivity.
  - rewrite (ip_next_unfrag p 1 Hu Hk). cbn [Z.eqb Pos.eqb].
    pose proof (Hi Hk) as Hth.
    assert (Hne : 0 < Zlength (ip_body p)) by (unfold icmp_header in Hth; apply Z.leb_le in Hth; lia).
    destruct (nonempty_of_len _ Hne) as [x [t Ex]]. rewrite Ex at 1. cbn [has_dec]. rewrite <- Ex.
    rewrite (icmp_fwd _ _ Hth).
    eexists. split.
    + destruct (drop 8 (ip_body p)); cbn [has_dec]; rewrite <- app_assoc; reflexivity.
    + split; reflexivity.
Qed.

Lemma length_ge_2 (l : bytes) : 2 <= Zlength l -> exists n, length l = S (S n).
Proof.
  rewrite Zlength_correct. destruct (length l) as [|[|n]]; [lia|lia|]. intros _. exists n. reflexivity.
Qed.

(* the outcome of processing a frame that has the header chain and well-formed options *)
Definition expected_outcome (k : kind) (raw : bool) (f : bytes) : outcome :=
  match k with
  | KTcp pf _ => if negb (pf (flags9 (ip_body (l3 k raw f)))) then ONone else ORecord (fields_of k raw f)
  | _ => ORecord (fields_of k raw f)
  end.

Lemma process_complete_ip k raw st f :
  (match k with KTcp _ _ => byte_at 9 (l3 k raw f) = 6 | KIcmp => byte_at 9 (l3 k raw f) = 1 | KArp => False end) ->
  (raw = true \/ eth_header 2048 f = true) -> wf_ip (l3 k raw f) = true ->
  snd (process k raw (code_valid k) st f) = expected_outcome k raw f.
Proof.
  intros Hk Hl Hwf. unfold process, decode_layers.
  assert (Hk' : k <> KArp) by (destruct k; try discriminate; contradiction).
  destruct (wf_ip_parts _ Hwf) as [Hh _]. destruct (ip_body_len _ Hh) as [_ [Hb Hihl]].
  destruct raw.
  - (* raw IPv4 *)
    assert (El : l3 k true f = f) by (destruct k; reflexivity). rewrite El in *.
    assert (Ef : first_layer k true = LIPv4) by (destruct k; try reflexivity; contradiction). rewrite Ef.
    destruct (length_ge_2 f ltac:(lia)) as [n En]. rewrite En.
    destruct (loop_ip_transport k st f [] (S n) Hwf Hk) as [st' [Hrun [Hip Htr]]].
    rewrite Hrun. cbn [app].
    assert (Hv : code_valid k [LIPv4; transport k] st' = true)
      by (apply code_valid_complete; destruct k; try reflexivity; contradiction).
    rewrite Hv. cbn [negb]. unfold expected_outcome, fields_of. rewrite El.
    destruct k as [pf af| |]; [| |contradiction]; rewrite Hip, Htr; reflexivity.
  - destruct Hl as [Hl|Hl]; [discriminate|].
    assert (El : l3 k false f = drop 14 f) by (destruct k; reflexivity). rewrite El in *.
    assert (Ef : first_layer k false = LEth) by (destruct k; reflexivity). rewrite Ef.
    assert (H14 : 14 <= Zlength f) by (unfold eth_header in Hl; apply andb_true_iff in Hl; destruct Hl as [Hl _]; apply Z.leb_le in Hl; exact Hl).
    assert (Hd : Zlength (drop 14 f) = Zlength f - 14) by (rewrite Zlength_drop; lia).
    destruct (length_ge_2 f ltac:(lia)) as [n En]. rewrite En.
    cbn [decode_loop decode_layer]. rewrite (eth_fwd st f 2048 Hl ltac:(lia)). cbn [eth_next Z.eqb Pos.eqb].
    destruct (nonempty_of_len (drop 14 f) ltac:(lia)) as [x [t Ex]]. rewrite Ex at 1.
    assert (Hhas : has_dec k LIPv4 = true) by (destruct k; try reflexivity; contradiction). rewrite Hhas. rewrite <- Ex.
    destruct n as [|n]; [rewrite Zlength_correct, En in *; lia|].
    destruct (loop_ip_transport k st (drop 14 f) ([] ++ [LEth]) n Hwf Hk) as [st' [Hrun [Hip Htr]]].
    rewrite Hrun. cbn [app].
    assert (Hv : code_valid k [LEth; LIPv4; transport k] st' = true)
      by (apply code_valid_complete; destruct k; try reflexivity; contradiction).
    rewrite Hv. cbn [negb]. unfold expected_outcome, fields_of. rewrite El.
    destruct k as [pf af| |]; [| |contradiction]; rewrite Hip, Htr; reflexivity.
Qed.

Lemma process_complete_arp st f :
  eth_header 2054 f = true -> arp_6_4 (drop 14 f) = true ->
  snd (process KArp false (code_valid KArp) st f) = ORecord (fields_of KArp false f).
Proof.
  intros Hl Ha. unfold process, decode_layers. cbn [first_layer].
  assert (H14 : 14 <= Zlength f) by (unfold eth_header in Hl; apply andb_true_iff in Hl; destruct Hl as [Hl _]; apply Z.leb_le in Hl; exact Hl).
  assert (H28 : 28 <= Zlength (drop 14 f)).
  { unfold arp_6_4 in Ha. repeat (apply andb_true_iff in Ha; destruct Ha as [Ha ?]). apply Z.leb_le in Ha. exact Ha. }
  destruct (length_ge_2 f ltac:(lia)) as [n En]. rewrite En.
  cbn [decode_loop decode_layer]. rewrite (eth_fwd st f 2054 Hl ltac:(lia)). cbn [eth_next Z.eqb Pos.eqb].
  destruct (nonempty_of_len (drop 14 f) ltac:(lia)) as [x [t Ex]]. rewrite Ex at 1. cbn [has_dec]. rewrite <- Ex.
  rewrite (arp_fwd st _ Ha).
  set (st' := set_arp st _).
  assert (Hout : forall pl, (match pl with [] => (st', [] ++ [LEth] ++ [LARP], @None derr)
                              | _ :: _ => if has_dec KArp LOther then decode_loop (has_dec KArp) n LOther st' pl (([] ++ [LEth]) ++ [LARP])
                                          else (st', ([] ++ [LEth]) ++ [LARP], None) end) = (st', [LEth; LARP], None))
    by (intros [|? ?]; reflexivity).
  cbn [app] in Hout |- *. rewrite Hout.
  assert (Hv : code_valid KArp [LEth; LARP] st' = true).
  { apply code_valid_complete. subst st'. cbn. rewrite Zlength_take, Zlength_drop.
    apply Z.leb_le. lia. }
  rewrite Hv. cbn [negb]. subst st'. cbn [s_arp set_arp ar_sha_cap ar_sha ar_spa].
  destruct (Z.ltb_spec (Zlength (drop 8 (drop 14 f))) 3) as [Hlt|_]; [rewrite Zlength_drop in Hlt; lia|].
  reflexivity.
Qed.
