(* C08: exactly-once statements for the application-scan engine, from the two conservation laws,
   the typing by fate and the closed-and-drained chain. *)
From stdpp Require Import gmultiset list sets.
From SX Require Import Base.Net Model.AppEngine Proofs.AppEngineProofs.

Section order.
Variable W : nat.
Variable scan_out : nat -> scan_res.
Variable reqs : list (nat * bool).
Hypothesis Hnodup : NoDup (fst <$> reqs).
Notation beh := (beh W scan_out).

Definition scan_tok (e : ev) : gmultiset nat := match e with EScan id => {[+ id +]} | _ => ∅ end.
Definition print_tok (e : ev) : gmultiset nat := match e with EPrint v => tok_val v | _ => ∅ end.
Definition errlog_tok (e : ev) : gmultiset nat := match e with EErrLog v => tok_val v | _ => ∅ end.
Definition neg_tok (e : ev) : gmultiset nat := match e with ENeg id => {[+ id +]} | _ => ∅ end.
Definition scans_of (n : net val loc ev) : gmultiset nat := msum scan_tok (log n).
Definition printed_of (n : net val loc ev) : gmultiset nat := msum print_tok (log n).
Definition errlog_of (n : net val loc ev) : gmultiset nat := msum errlog_tok (log n).
Definition negs_of (n : net val loc ev) : gmultiset nat := msum neg_tok (log n).

Lemma msum_mult0 {A} (f : A -> gmultiset nat) (l : list A) id :
  (forall a, a ∈ l -> multiplicity id (f a) = 0) -> multiplicity id (msum f l) = 0.
Proof.
  induction l as [|a l IH]; simpl; intros Hf; [apply multiplicity_empty|].
  rewrite multiplicity_disj_union. rewrite (Hf a) by (left). rewrite IH; [reflexivity|].
  intros b Hb. apply Hf. right. assumption.
Qed.

Lemma msum_split3 (l : list ev) :
  msum tok_ev l = msum neg_tok l ⊎ msum print_tok l ⊎ msum errlog_tok l.
Proof. induction l as [|e l IH]; simpl; [multiset_solver|]. rewrite IH. destruct e; simpl; multiset_solver. Qed.

Lemma msum_owed_log (l : list ev) :
  (forall e, e ∈ l -> match e with EPrint v | EErrLog v => owed_val v = ∅ | _ => True end) ->
  msum owed_ev l = msum scan_tok l.
Proof.
  induction l as [|e l IH]; simpl; intros Hl; [reflexivity|].
  rewrite IH by (intros e' He'; apply Hl; right; assumption).
  pose proof (Hl e ltac:(left)) as He. destruct e; simpl in *; try rewrite He; multiset_solver.
Qed.

Lemma has_unique id b b' : has reqs id b -> has reqs id b' -> b = b'.
Proof.
  unfold has. intros H1 H2.
  apply elem_of_list_lookup in H1. destruct H1 as (i1 & H1).
  apply elem_of_list_lookup in H2. destruct H2 as (i2 & H2).
  assert (i1 = i2).
  { eapply NoDup_lookup; [exact Hnodup| |]; rewrite list_lookup_fmap; [rewrite H1|rewrite H2]; reflexivity. }
  subst. congruence.
Qed.

Lemma notin_mult0 (x : nat) (l : list nat) : x ∉ l -> multiplicity x (list_to_set_disj l : gmultiset nat) = 0.
Proof.
  intros Hx. destruct (multiplicity x (list_to_set_disj l : gmultiset nat)) eqn:Em; [reflexivity|]. exfalso. apply Hx.
  apply elem_of_list_to_set_disj. apply elem_of_multiplicity. lia.
Qed.

Lemma mult_filtered (P : nat * bool -> bool) (l : list (nat * bool)) id b :
  NoDup (fst <$> l) -> (id, b) ∈ l ->
  multiplicity id (list_to_set_disj (fst <$> filter (fun r => P r = true) l) : gmultiset nat) = if P (id, b) then 1 else 0.
Proof.
  induction l as [|[x bx] l IH]; intros Hnd Hin; [set_solver|].
  rewrite fmap_cons in Hnd. apply NoDup_cons in Hnd. destruct Hnd as [Hx Hnd].
  assert (Hnotf : x ∉ fst <$> filter (fun r => P r = true) l).
  { intros Hel. apply Hx. apply elem_of_list_fmap in Hel. destruct Hel as (y & Hy & Hel).
    apply elem_of_list_filter in Hel. destruct Hel as [_ Hel]. apply elem_of_list_fmap. exists y. auto. }
  apply elem_of_cons in Hin. destruct Hin as [[= -> ->]|Hin].
  - rewrite filter_cons. destruct (decide (P (x, bx) = true)) as [HP|HP].
    + rewrite fmap_cons, list_to_set_disj_cons, multiplicity_disj_union, multiplicity_singleton, HP.
      rewrite (notin_mult0 _ _ Hnotf). reflexivity.
    + destruct (P (x, bx)); [done|]. apply notin_mult0. assumption.
  - assert (Hne : id <> x).
    { intros ->. apply Hx. apply elem_of_list_fmap. exists (x, b). auto. }
    rewrite filter_cons. destruct (decide (P (x, bx) = true)) as [HP|HP].
    + rewrite fmap_cons, list_to_set_disj_cons, multiplicity_disj_union. simpl fst.
      rewrite multiplicity_singleton_ne by assumption. simpl. apply IH; assumption.
    + apply IH; assumption.
Qed.

Lemma ids_mult id b : has reqs id b -> multiplicity id (ids_of reqs) = 1.
Proof.
  intros Hh. unfold ids_of.
  pose proof (mult_filtered (fun _ => true) reqs id b Hnodup Hh) as H. simpl in H.
  rewrite <- H. f_equal. f_equal. f_equal. symmetry. clear. induction reqs as [|a l IH]; [reflexivity|].
  rewrite filter_cons. destruct (decide (true = true)); [|done]. f_equal. assumption.
Qed.

Lemma good_mult id : has reqs id false -> multiplicity id (good_ids reqs) = 1.
Proof.
  intros Hh. unfold good_ids.
  pose proof (mult_filtered (fun r => negb (snd r)) reqs id false Hnodup Hh) as H. simpl in H.
  rewrite <- H. f_equal. f_equal. f_equal. clear. induction reqs as [|[x b] l IH]; [reflexivity|].
  rewrite !filter_cons. simpl. destruct b; simpl.
  - destruct (decide (true = false)); [done|]. destruct (decide (false = true)); [done|]. assumption.
  - destruct (decide (false = false)); [|done]. destruct (decide (true = true)); [|done]. f_equal. assumption.
Qed.

Lemma res_owed0 v : is_res scan_out reqs v -> owed_val v = ∅.
Proof. intros (id & -> & _). reflexivity. Qed.
Lemma verr_owed0 v : is_verr scan_out reqs v -> owed_val v = ∅.
Proof. intros (id & -> & _). reflexivity. Qed.

(* Each error-free target is probed exactly once by the time completion is signalled: when [done] is
   closed and nothing was cancelled, Scan has been called exactly once for every error-free request
   (and, in every state, never for a request that carried an error, and never twice). *)
Theorem engine_probe_once cap n id :
  0 < W -> reachable beh (init W cap reqs) n -> cancelled n = false -> chan_closed n c_done ->
  has reqs id false -> multiplicity id (scans_of n) = 1.
Proof.
  intros HW Hr Hcan Hdone Hh.
  destruct (engine_done_quiet W scan_out reqs cap n HW Hr Hcan Hdone) as (Hworkers & Hcreq & (jsrc & Hsrc) & _).
  pose proof (engine_conservation_owed W scan_out cap reqs n Hr Hcan) as Hcons.
  pose proof (engine_typed W scan_out reqs cap n Hr) as [[HPL HPE] HPV].
  pose proof (engine_safe W scan_out cap reqs n Hr) as (Hroles & _).
  assert (Hone : multiplicity id (good_ids reqs) = 1) by (apply good_mult; assumption).
  rewrite <- Hcons in Hone. unfold potential in Hone. rewrite !multiplicity_disj_union in Hone.
  rewrite (msum_owed_log (log n)) in Hone.
  2:{ intros e He. rewrite Forall_forall in HPE. specialize (HPE e He). destruct e; simpl in *; try exact I.
      - apply res_owed0. assumption. - apply verr_owed0. assumption. }
  rewrite (msum_mult0 owed (procs n) id) in Hone.
  2:{ intros l Hl. apply elem_of_list_lookup in Hl. destruct Hl as (j & Hj).
      assert (Hpl : PL scan_out reqs l) by (eapply Forall_lookup_1; eauto).
      assert (Hrl : layout W !! j = Some (role_of l)) by (rewrite <- Hroles; unfold roles_of; rewrite list_lookup_fmap, Hj; done).
      destruct l; simpl in Hpl |- *; try apply multiplicity_empty; try done;
        try (rewrite res_owed0 by assumption; apply multiplicity_empty);
        try (rewrite verr_owed0 by assumption; apply multiplicity_empty).
      - (* the source has ended *)
        exfalso. assert (j = jsrc) by (eapply (same_role_same_index W); eauto). subst. congruence.
      - (* a worker still scanning: impossible, all workers have ended *)
        exfalso. simpl in Hrl. destruct (layout_worker_inv W _ _ Hrl) as [Hk ->]. rewrite (Hworkers i Hk) in Hj. discriminate.
      - exfalso. assert (j = jsrc) by (eapply (same_role_same_index W); eauto). subst. congruence. }
  rewrite (msum_mult0 (bufW owed_val) (chans n) id) in Hone.
  2:{ intros ch Hch. apply elem_of_list_lookup in Hch. destruct Hch as (c & Hc).
      unfold bufW. apply msum_mult0. intros v Hv.
      pose proof (HPV c ch Hc) as Hall. rewrite Forall_forall in Hall. specialize (Hall v Hv).
      destruct Hall as [[E1 _]|[[_ Hve]|[_ Hvr]]].
      - subst c. destruct Hcreq as (ch' & Hc' & _ & Hb). rewrite Hc in Hc'. injection Hc' as <-. rewrite Hb in Hv. set_solver.
      - rewrite verr_owed0 by assumption. apply multiplicity_empty.
      - rewrite res_owed0 by assumption. apply multiplicity_empty. }
  unfold scans_of. lia.
Qed.

Theorem engine_probe_at_most_once cap n id :
  reachable beh (init W cap reqs) n -> cancelled n = false ->
  multiplicity id (scans_of n) <= multiplicity id (good_ids reqs).
Proof.
  intros Hr Hcan.
  pose proof (engine_conservation_owed W scan_out cap reqs n Hr Hcan) as Hcons.
  pose proof (engine_typed W scan_out reqs cap n Hr) as [[_ HPE] _].
  rewrite <- Hcons. unfold potential. rewrite !multiplicity_disj_union.
  rewrite (msum_owed_log (log n)).
  2:{ intros e He. rewrite Forall_forall in HPE. specialize (HPE e He). destruct e; simpl in *; try exact I.
      - apply res_owed0. assumption. - apply verr_owed0. assumption. }
  unfold scans_of. lia.
Qed.

Lemma pos_not_err id : posfate scan_out reqs id -> errfate scan_out reqs id -> False.
Proof.
  intros [Hh Hs] [He|[_ He]].
  - pose proof (has_unique _ _ _ Hh He). discriminate.
  - congruence.
Qed.

Lemma tok_res_mult id v : is_res scan_out reqs v -> ~ posfate scan_out reqs id -> multiplicity id (tok_val v) = 0.
Proof.
  intros (id' & -> & Hp) Hn. simpl. destruct (decide (id = id')) as [->|Hne]; [contradiction|].
  apply multiplicity_singleton_ne. assumption.
Qed.
Lemma tok_verr_mult id v : is_verr scan_out reqs v -> ~ errfate scan_out reqs id -> multiplicity id (tok_val v) = 0.
Proof.
  intros (id' & -> & Hp) Hn. simpl. destruct (decide (id = id')) as [->|Hne]; [contradiction|].
  apply multiplicity_singleton_ne. assumption.
Qed.

(* Everything detected before completion is printed, if the result queues have been drained when the
   context is cancelled: in a non-cancelled state where [done] is closed, both result channels are
   empty and copier and logger hold nothing, every target whose probe detected a service has been
   printed exactly once (and nothing else about that target was reported). *)
Theorem engine_printed_if_drained cap n id :
  0 < W -> reachable beh (init W cap reqs) n -> cancelled n = false -> chan_closed n c_done ->
  (forall ch, chans n !! c_int = Some ch -> cbuf ch = []) ->
  (forall ch, chans n !! c_results = Some ch -> cbuf ch = []) ->
  (forall j l, procs n !! j = Some l -> role_of l = RCopier \/ role_of l = RLogger -> weight l = ∅) ->
  posfate scan_out reqs id ->
  multiplicity id (printed_of n) = 1 /\ multiplicity id (errlog_of n) = 0 /\ multiplicity id (negs_of n) = 0.
Proof.
  intros HW Hr Hcan Hdone Hint Hres Hidle Hpos.
  destruct (engine_done_quiet W scan_out reqs cap n HW Hr Hcan Hdone) as (Hworkers & Hcreq & (jsrc & Hsrc) & _).
  pose proof (engine_conservation W scan_out cap reqs n Hr Hcan) as Hcons.
  pose proof (engine_typed W scan_out reqs cap n Hr) as [[HPL HPE] HPV].
  pose proof (engine_safe W scan_out cap reqs n Hr) as (Hroles & _).
  assert (Hnoterr : ~ errfate scan_out reqs id) by (intros He; eapply pos_not_err; eauto).
  assert (Hone : multiplicity id (ids_of reqs) = 1) by (destruct Hpos as [Hh _]; eapply ids_mult; eauto).
  rewrite <- Hcons in Hone. unfold potential in Hone. rewrite !multiplicity_disj_union in Hone.
  rewrite msum_split3, !multiplicity_disj_union in Hone.
  rewrite (msum_mult0 weight (procs n) id) in Hone.
  2:{ intros l Hl. apply elem_of_list_lookup in Hl. destruct Hl as (j & Hj).
      assert (Hpl : PL scan_out reqs l) by (eapply Forall_lookup_1; eauto).
      assert (Hrl : layout W !! j = Some (role_of l)) by (rewrite <- Hroles; unfold roles_of; rewrite list_lookup_fmap, Hj; done).
      destruct l; simpl in Hpl |- *; try apply multiplicity_empty; try done.
      - exfalso. assert (j = jsrc) by (eapply (same_role_same_index W); eauto). subst. congruence.
      - exfalso. simpl in Hrl. destruct (layout_worker_inv W _ _ Hrl) as [Hk ->]. rewrite (Hworkers i Hk) in Hj. discriminate.
      - exfalso. simpl in Hrl. destruct (layout_worker_inv W _ _ Hrl) as [Hk ->]. rewrite (Hworkers i Hk) in Hj. discriminate.
      - exfalso. simpl in Hrl. destruct (layout_worker_inv W _ _ Hrl) as [Hk ->]. rewrite (Hworkers i Hk) in Hj. discriminate.
      - pose proof (Hidle j (CSend v) Hj (or_introl eq_refl)) as Hw. simpl in Hw. rewrite Hw. apply multiplicity_empty.
      - pose proof (Hidle j (LWrite v) Hj (or_intror eq_refl)) as Hw. simpl in Hw. rewrite Hw. apply multiplicity_empty.
      - apply tok_verr_mult; assumption.
      - exfalso. assert (j = jsrc) by (eapply (same_role_same_index W); eauto). subst. congruence. }
  rewrite (msum_mult0 (bufW tok_val) (chans n) id) in Hone.
  2:{ intros ch Hch. apply elem_of_list_lookup in Hch. destruct Hch as (c & Hc).
      unfold bufW. apply msum_mult0. intros v Hv.
      pose proof (HPV c ch Hc) as Hall. rewrite Forall_forall in Hall. specialize (Hall v Hv).
      destruct Hall as [[E1 _]|[[_ Hve]|[[E1|E1] _]]].
      - subst c. destruct Hcreq as (ch' & Hc' & _ & Hb). rewrite Hc in Hc'. injection Hc' as <-. rewrite Hb in Hv. set_solver.
      - apply tok_verr_mult; assumption.
      - subst c. rewrite (Hint ch Hc) in Hv. set_solver.
      - subst c. rewrite (Hres ch Hc) in Hv. set_solver. }
  assert (Hneg0 : multiplicity id (negs_of n) = 0).
  { apply msum_mult0. intros e He. rewrite Forall_forall in HPE. specialize (HPE e He).
    destruct e as [id'|id'|v|v]; simpl in *; try apply multiplicity_empty.
    destruct (decide (id = id')) as [->|Hne]; [|apply multiplicity_singleton_ne; assumption].
    exfalso. destruct HPE as [_ Hs]. destruct Hpos as [_ Hp]. congruence. }
  assert (Herr0 : multiplicity id (errlog_of n) = 0).
  { apply msum_mult0. intros e He. rewrite Forall_forall in HPE. specialize (HPE e He).
    destruct e as [id'|id'|v|v]; simpl in *; try apply multiplicity_empty. apply tok_verr_mult; assumption. }
  unfold negs_of, errlog_of, printed_of in *. lia.
Qed.

(* Every failed probe (request with an error, or Scan returning an error) yields exactly one error
   record once the error stream has been drained (the drain does not depend on the context). *)
Theorem engine_errors_once cap n id :
  0 < W -> reachable beh (init W cap reqs) n -> cancelled n = false -> chan_closed n c_done ->
  (forall ch, chans n !! c_errc = Some ch -> cbuf ch = []) ->
  (forall j l, procs n !! j = Some l -> role_of l = RDrain -> weight l = ∅) ->
  errfate scan_out reqs id ->
  multiplicity id (errlog_of n) = 1 /\ multiplicity id (printed_of n) = 0.
Proof.
  intros HW Hr Hcan Hdone Herrc Hidle Herr.
  destruct (engine_done_quiet W scan_out reqs cap n HW Hr Hcan Hdone) as (Hworkers & Hcreq & (jsrc & Hsrc) & _).
  pose proof (engine_conservation W scan_out cap reqs n Hr Hcan) as Hcons.
  pose proof (engine_typed W scan_out reqs cap n Hr) as [[HPL HPE] HPV].
  pose proof (engine_safe W scan_out cap reqs n Hr) as (Hroles & _).
  assert (Hnotpos : ~ posfate scan_out reqs id) by (intros Hp; eapply pos_not_err; eauto).
  assert (Hone : multiplicity id (ids_of reqs) = 1).
  { destruct Herr as [Hh|[Hh _]]; eapply ids_mult; eauto. }
  rewrite <- Hcons in Hone. unfold potential in Hone. rewrite !multiplicity_disj_union in Hone.
  rewrite msum_split3, !multiplicity_disj_union in Hone.
  rewrite (msum_mult0 weight (procs n) id) in Hone.
  2:{ intros l Hl. apply elem_of_list_lookup in Hl. destruct Hl as (j & Hj).
      assert (Hpl : PL scan_out reqs l) by (eapply Forall_lookup_1; eauto).
      assert (Hrl : layout W !! j = Some (role_of l)) by (rewrite <- Hroles; unfold roles_of; rewrite list_lookup_fmap, Hj; done).
      destruct l; simpl in Hpl |- *; try apply multiplicity_empty; try done.
      - exfalso. assert (j = jsrc) by (eapply (same_role_same_index W); eauto). subst. congruence.
      - exfalso. simpl in Hrl. destruct (layout_worker_inv W _ _ Hrl) as [Hk ->]. rewrite (Hworkers i Hk) in Hj. discriminate.
      - exfalso. simpl in Hrl. destruct (layout_worker_inv W _ _ Hrl) as [Hk ->]. rewrite (Hworkers i Hk) in Hj. discriminate.
      - exfalso. simpl in Hrl. destruct (layout_worker_inv W _ _ Hrl) as [Hk ->]. rewrite (Hworkers i Hk) in Hj. discriminate.
      - apply tok_res_mult; assumption.
      - apply tok_res_mult; assumption.
      - pose proof (Hidle j (DEmit v) Hj eq_refl) as Hw. simpl in Hw. rewrite Hw. apply multiplicity_empty.
      - exfalso. assert (j = jsrc) by (eapply (same_role_same_index W); eauto). subst. congruence. }
  rewrite (msum_mult0 (bufW tok_val) (chans n) id) in Hone.
  2:{ intros ch Hch. apply elem_of_list_lookup in Hch. destruct Hch as (c & Hc).
      unfold bufW. apply msum_mult0. intros v Hv.
      pose proof (HPV c ch Hc) as Hall. rewrite Forall_forall in Hall. specialize (Hall v Hv).
      destruct Hall as [[E1 _]|[[E1 Hve]|[_ Hvr]]].
      - subst c. destruct Hcreq as (ch' & Hc' & _ & Hb). rewrite Hc in Hc'. injection Hc' as <-. rewrite Hb in Hv. set_solver.
      - subst c. rewrite (Herrc ch Hc) in Hv. set_solver.
      - apply tok_res_mult; assumption. }
  assert (Hneg0 : multiplicity id (msum neg_tok (log n)) = 0).
  { apply msum_mult0. intros e He. rewrite Forall_forall in HPE. specialize (HPE e He).
    destruct e as [id'|id'|v|v]; simpl in *; try apply multiplicity_empty.
    destruct (decide (id = id')) as [->|Hne]; [|apply multiplicity_singleton_ne; assumption].
    exfalso. destruct HPE as [Hh Hs]. destruct Herr as [He'|[_ He']]; [|congruence].
    pose proof (has_unique _ _ _ Hh He'). discriminate. }
  assert (Hpr0 : multiplicity id (printed_of n) = 0).
  { apply msum_mult0. intros e He. rewrite Forall_forall in HPE. specialize (HPE e He).
    destruct e as [id'|id'|v|v]; simpl in *; try apply multiplicity_empty. apply tok_res_mult; assumption. }
  unfold errlog_of, printed_of in *. lia.
Qed.

End order.
