(* C07: invariants of the packet pipeline network, for every number of workers N, every request
   list, every Fill/Write outcome function and every schedule (with cancellation at any moment). *)
From stdpp Require Import gmultiset list sets.
From SX Require Import Base.Net Model.Pipeline.

Section proofs.
Variable N : nat.
Variables fill_ok write_ok : nat -> bool.
Notation beh := (beh N fill_ok write_ok).

Ltac alts H :=
  repeat (apply elem_of_cons in H; destruct H as [H|H]); [..|apply elem_of_nil in H; destruct H];
  try (injection H as -> ->).

(* decompose membership in a list built from ++, ::, <$> *)
Ltac mem H :=
  repeat match type of H with
  | _ ∈ _ ++ _ => apply elem_of_app in H; destruct H as [H|H]
  | _ ∈ _ :: _ => apply elem_of_cons in H; destruct H as [H|H]
  | _ ∈ [] => apply elem_of_nil in H; destruct H
  | _ ∈ _ <$> _ => apply elem_of_list_fmap in H; destruct H as (? & H & _)
  end.

Lemma ids_of_cons id b r : ids_of ((id, b) :: r) = {[+ id +]} ⊎ ids_of r.
Proof. reflexivity. Qed.

Lemma ended_is_End l : Pipeline.beh N fill_ok write_ok l = PEnd -> exists r, l = End r.
Proof.
  destruct l as
    [rest| |i|i id|i id|i id|i|i|i v| | | |id|id| | | | | | |j|j v| | | |v|r v|r|srest]; simpl; try discriminate.
  - destruct rest as [|[id b] r]; discriminate.
  - eauto.
Qed.

(* ------------------------------------------------------------------ conservation *)
Lemma pipeline_conserving : conserving beh weight tok_val tok_ev.
Proof.
  intros l. destruct l as
    [rest| |i|i id|i id|i id|i|i|i v| | | |id|id| | | | | | |j|j v| | | |v|r v|r|srest]; simpl; try done.
  - destruct rest as [|[id b] r]; simpl; [done|].
    intros g k Hin. alts Hin; simpl; [|done|reflexivity]. rewrite ids_of_cons. multiset_solver.
  - intros g k Hin. alts Hin; simpl; [done|]. split; [|multiset_solver].
    intros v. destruct v as [id b|id|id|id|]; simpl; try multiset_solver. destruct b; simpl; multiset_solver.
  - intros o. destruct (fill_ok id); simpl; multiset_solver.
  - intros g k Hin. alts Hin; simpl; [done|]. multiset_solver.
  - intros g k Hin. alts Hin; simpl; [done|]. multiset_solver.
  - intros g k Hin. alts Hin; simpl; [done|]. split; [|multiset_solver]. intros v0. multiset_solver.
  - intros g k Hin. alts Hin; simpl; [done|]. multiset_solver.
  - intros g k Hin. alts Hin; simpl; [done|]. split; [|multiset_solver].
    intros v. destruct v as [id b|id|id|id|]; simpl; multiset_solver.
  - intros g k Hin. alts Hin; simpl. multiset_solver.
  - intros o. destruct (write_ok id); simpl; multiset_solver.
  - intros g k Hin. alts Hin; simpl; done.
  - intros o. destruct o as [|[|o]]; simpl; multiset_solver.
  - intros g k Hin. alts Hin; simpl; [done|]. multiset_solver.
  - intros g k Hin. alts Hin; simpl; [done|]. split; [|multiset_solver]. intros v0. multiset_solver.
  - intros g k Hin. alts Hin; simpl; [done|]. multiset_solver.
  - intros g k Hin. alts Hin; simpl. split; [|multiset_solver]. intros v0. multiset_solver.
  - intros o. simpl. multiset_solver.
  - intros g k Hin. apply elem_of_nil in Hin. destruct Hin.
  - intros g k Hin. apply elem_of_nil in Hin. destruct Hin.
Qed.

Lemma msum_empty {A} (f : A -> gmultiset nat) (l : list A) :
  (forall a, a ∈ l -> f a = ∅) -> msum f l = ∅.
Proof.
  induction l as [|a l IH]; simpl; intros Hf; [done|].
  rewrite (Hf a) by (apply elem_of_cons; auto). rewrite IH; [multiset_solver|].
  intros b Hb. apply Hf. apply elem_of_cons; auto.
Qed.

Lemma potential_init cap reqs :
  potential weight tok_val tok_ev (init N cap reqs) = ids_of reqs.
Proof.
  unfold potential, init. cbn [procs chans log].
  rewrite (msum_empty (bufW tok_val)).
  2:{ intros ch Hch. unfold init_chans in Hch. mem Hch; subst; reflexivity. }
  unfold init_procs. rewrite msum_app.
  rewrite (msum_empty weight ((WIdle <$> seq 0 N) ++ _)).
  2:{ intros l Hl. mem Hl; subst; reflexivity. }
  simpl.
  multiset_solver.
Qed.

(* Nothing is lost and nothing is duplicated: in every reachable state that has not been cancelled,
   the request ids held by goroutines, sitting in channel buffers, written to the wire or logged as
   errors are together exactly the ids of the request stream (as multisets). *)
Theorem pipeline_conservation cap reqs n :
  reachable beh (init N cap reqs) n -> cancelled n = false ->
  potential weight tok_val tok_ev n = ids_of reqs.
Proof.
  intros Hr Hc. rewrite <- (potential_init cap reqs).
  apply (conservation beh weight tok_val tok_ev); [apply pipeline_conserving|assumption|assumption].
Qed.

(* ------------------------------------------------------------------ no panic *)
Definition fin (l : loc) : list nat :=
  match l with
  | CClose | End RCloser => mux_ids N
  | ECClose | End RECloser => emux_ids N
  | _ => []
  end.

Definition live (l : loc) (c : nat) : Prop :=
  match l with
  | Src _ | SrcClose => c = c_in
  | WIdle i | WFill i _ | WSend i _ | WSendErr i _ | WClose i => c = c_w i
  | MIdle _ | MSend _ _ | CWait | CClose => c = c_m N
  | SIdle | SErr _ | SWrite _ | SCloseDone => c = c_done N \/ c = c_serr N
  | SCloseErr => c = c_serr N
  | RLoop | RRead | RSendErr | RClose => c = c_rerr N
  | EIdle _ | ESend _ _ | ECWait | ECClose => c = c_eout N
  | DIdle | DEmit _ | Junk _ _ | End _ | SrcStalled _ => False
  end.

Ltac dmatch := repeat match goal with |- context [match ?x with _ => _ end] => is_var x; destruct x end.
Ltac psel := let g := fresh "g" in let k := fresh "k" in let Hin := fresh "Hin" in let rr := fresh "rr" in
  intros g k Hin; alts Hin; simpl; (split; [first [done|tauto]|]); intros rr; dmatch; simpl; (split; [set_solver|tauto]).
Ltac pclose := split; [first [reflexivity|tauto]|]; split; [set_solver|]; split; [tauto|tauto].

Lemma pipeline_disciplined : disciplined beh role_of fin live.
Proof.
  intros l. split.
  - intros l' Hc. unfold conts in Hc.
    destruct l as
      [rest| |i|i id|i id|i id|i|i|i v| | | |id|id| | | | | | |j|j v| | | |v|r v|r|srest]; simpl in Hc.
    + destruct rest as [|[id b] r]; simpl in Hc; [subst; reflexivity|].
      destruct Hc as (g & k & rr & Hin & ->). alts Hin; reflexivity.
    + subst; reflexivity.
    + destruct Hc as (g & k & rr & Hin & ->). alts Hin; [reflexivity|].
      destruct rr as [v| | | |]; try reflexivity. destruct v as [id b|id|id|id|]; try reflexivity. destruct b; reflexivity.
    + destruct Hc as [o ->]. destruct (fill_ok id); reflexivity.
    + destruct Hc as (g & k & rr & Hin & ->). alts Hin; reflexivity.
    + destruct Hc as (g & k & rr & Hin & ->). alts Hin; reflexivity.
    + subst; reflexivity.
    + destruct Hc as (g & k & rr & Hin & ->). alts Hin; [reflexivity|]. destruct rr; reflexivity.
    + destruct Hc as (g & k & rr & Hin & ->). alts Hin; reflexivity.
    + subst; reflexivity.
    + subst; reflexivity.
    + destruct Hc as (g & k & rr & Hin & ->). alts Hin; [reflexivity|].
      destruct rr as [v| | | |]; try reflexivity. destruct v; reflexivity.
    + destruct Hc as (g & k & rr & Hin & ->). alts Hin; reflexivity.
    + destruct Hc as [o ->]. destruct (write_ok id); reflexivity.
    + subst; reflexivity.
    + subst; reflexivity.
    + destruct Hc as (g & k & rr & Hin & ->). alts Hin; reflexivity.
    + destruct Hc as [o ->]. destruct o as [|[|o]]; reflexivity.
    + destruct Hc as (g & k & rr & Hin & ->). alts Hin; reflexivity.
    + subst; reflexivity.
    + destruct Hc as (g & k & rr & Hin & ->). alts Hin; [reflexivity|]. destruct rr; reflexivity.
    + destruct Hc as (g & k & rr & Hin & ->). alts Hin; reflexivity.
    + subst; reflexivity.
    + subst; reflexivity.
    + destruct Hc as (g & k & rr & Hin & ->). alts Hin. destruct rr; reflexivity.
    + destruct Hc as [o ->]. reflexivity.
    + destruct Hc as (g & k & rr & Hin & _). apply elem_of_nil in Hin. destruct Hin.
    + destruct Hc.
    + destruct Hc as (g & k & rr & Hin & _). apply elem_of_nil in Hin. destruct Hin.
  - destruct l as
      [rest| |i|i id|i id|i id|i|i|i v| | | |id|id| | | | | | |j|j v| | | |v|r v|r|srest]; simpl.
    + destruct rest as [|[id b] r]; simpl; [pclose|psel].
    + pclose.
    + psel.
    + intros o. destruct (fill_ok id); simpl; (split; [set_solver|tauto]).
    + psel.
    + psel.
    + pclose.
    + psel.
    + psel.
    + split; [set_solver|tauto].
    + pclose.
    + psel.
    + psel.
    + intros o. destruct (write_ok id); simpl; (split; [set_solver|tauto]).
    + split; [tauto|]. split; [set_solver|]. split; [tauto|]. unfold c_done, c_serr. lia.
    + pclose.
    + psel.
    + intros o. destruct o as [|[|o]]; simpl; (split; [set_solver|tauto]).
    + psel.
    + pclose.
    + psel.
    + psel.
    + split; [set_solver|tauto].
    + pclose.
    + psel.
    + intros o. simpl. split; [set_solver|tauto].
    + intros g k Hin. apply elem_of_nil in Hin. destruct Hin.
    + tauto.
    + intros g k Hin. apply elem_of_nil in Hin. destruct Hin.
Qed.

(* every role occurs at exactly one index of the layout *)
Lemma layout_NoDup : NoDup (layout N).
Proof using N. clear fill_ok write_ok.
  unfold layout. apply NoDup_app. split; [apply NoDup_singleton|]. split.
  { intros x Hx. apply elem_of_list_singleton in Hx. subst. rewrite !elem_of_app. intros [H|[H|H]].
    - apply elem_of_list_fmap in H. destruct H as (? & ? & _). done.
    - apply elem_of_list_fmap in H. destruct H as (? & ? & _). done.
    - set_solver. }
  apply NoDup_app. split; [apply NoDup_fmap_2; [intros a b; congruence|apply NoDup_seq]|]. split.
  { intros x Hx. apply elem_of_list_fmap in Hx. destruct Hx as (a & -> & _). rewrite elem_of_app. intros [H|H].
    - apply elem_of_list_fmap in H. destruct H as (? & ? & _). done.
    - set_solver. }
  apply NoDup_app. split; [apply NoDup_fmap_2; [intros a b; congruence|apply NoDup_seq]|]. split.
  { intros x Hx. apply elem_of_list_fmap in Hx. destruct Hx as (a & -> & _). set_solver. }
  repeat (apply NoDup_cons; split; [set_solver|]). apply NoDup_nil_2.
Qed.

Lemma same_role_same_index (n : net val loc ev) i j li lj :
  roles_of role_of n = layout N -> procs n !! i = Some li -> procs n !! j = Some lj ->
  role_of li = role_of lj -> i = j.
Proof using N. clear fill_ok write_ok.
  intros Hr Hi Hj Heq.
  assert (Hli : layout N !! i = Some (role_of li)) by (rewrite <- Hr; unfold roles_of; rewrite list_lookup_fmap, Hi; done).
  assert (Hlj : layout N !! j = Some (role_of lj)) by (rewrite <- Hr; unfold roles_of; rewrite list_lookup_fmap, Hj; done).
  rewrite <- Heq in Hlj. eapply NoDup_lookup; [apply layout_NoDup|eassumption|eassumption].
Qed.

Lemma layout_mux k : k < N -> layout N !! p_m N k = Some (RMux k).
Proof using N. clear fill_ok write_ok.
  intros Hk.
  assert (E : layout N = ([RSrc] ++ (RWorker <$> seq 0 N)) ++ (RMux <$> seq 0 N) ++
                         [RCloser; RSender; RReceiver; REMux 0; REMux 1; RECloser; RDrain])
    by (unfold layout; rewrite <- !app_assoc; reflexivity).
  rewrite E.
  assert (Hlen : length ([RSrc] ++ (RWorker <$> seq 0 N)) = 1 + N)
    by (rewrite !app_length, !fmap_length, !seq_length; reflexivity).
  rewrite lookup_app_r by (rewrite Hlen; unfold p_m; lia). rewrite Hlen.
  rewrite lookup_app_l by (rewrite fmap_length, seq_length; unfold p_m; lia).
  rewrite list_lookup_fmap. replace (p_m N k - (1 + N)) with k by (unfold p_m; lia).
  rewrite lookup_seq_lt by lia. reflexivity.
Qed.

Lemma layout_mux_inv j k : layout N !! j = Some (RMux k) -> k < N /\ j = p_m N k.
Proof using N. clear fill_ok write_ok.
  intros Hj.
  assert (Hk : k < N).
  { apply elem_of_list_lookup_2 in Hj. unfold layout in Hj. rewrite !elem_of_app in Hj.
    destruct Hj as [H|[H|[H|H]]].
    - set_solver.
    - apply elem_of_list_fmap in H. destruct H as (? & ? & _). done.
    - apply elem_of_list_fmap in H. destruct H as (x & [= ->] & Hx). apply elem_of_seq in Hx. lia.
    - set_solver. }
  split; [assumption|]. eapply NoDup_lookup; [apply layout_NoDup|eassumption|apply layout_mux; assumption].
Qed.

Lemma layout_emux j0 : j0 < 2 -> layout N !! p_em N j0 = Some (REMux j0).
Proof using N. clear fill_ok write_ok.
  intros Hj0.
  assert (E : layout N = ([RSrc] ++ (RWorker <$> seq 0 N) ++ (RMux <$> seq 0 N)) ++
                         [RCloser; RSender; RReceiver; REMux 0; REMux 1; RECloser; RDrain])
    by (unfold layout; rewrite <- !app_assoc; reflexivity).
  rewrite E.
  assert (Hlen : length ([RSrc] ++ (RWorker <$> seq 0 N) ++ (RMux <$> seq 0 N)) = 1 + (N + N))
    by (rewrite !app_length, !fmap_length, !seq_length; reflexivity).
  rewrite lookup_app_r by (rewrite Hlen; unfold p_em; lia). rewrite Hlen.
  replace (p_em N j0 - (1 + (N + N))) with (3 + j0) by (unfold p_em; lia).
  destruct j0 as [|[|j0]]; [reflexivity|reflexivity|lia].
Qed.

Lemma layout_emux_inv j k : layout N !! j = Some (REMux k) -> k < 2 /\ j = p_em N k.
Proof using N. clear fill_ok write_ok.
  intros Hj.
  assert (Hk : k < 2).
  { apply elem_of_list_lookup_2 in Hj. unfold layout in Hj. rewrite !elem_of_app in Hj.
    destruct Hj as [H|[H|[H|H]]].
    - set_solver.
    - apply elem_of_list_fmap in H. destruct H as (? & ? & _). done.
    - apply elem_of_list_fmap in H. destruct H as (? & ? & _). done.
    - repeat (apply elem_of_cons in H; destruct H as [H|H]; [try done; injection H as ->; lia|]). set_solver. }
  split; [assumption|]. eapply NoDup_lookup; [apply layout_NoDup|eassumption|apply layout_emux; assumption].
Qed.

Lemma layout_worker_lt j k : layout N !! j = Some (RWorker k) -> k < N.
Proof using N. clear fill_ok write_ok.
  intros Hl. apply elem_of_list_lookup_2 in Hl. unfold layout in Hl. rewrite !elem_of_app in Hl.
  destruct Hl as [H|[H|[H|H]]].
  - set_solver.
  - apply elem_of_list_fmap in H. destruct H as (x & [= ->] & Hx). apply elem_of_seq in Hx. lia.
  - apply elem_of_list_fmap in H. destruct H as (? & ? & _). done.
  - set_solver.
Qed.

Ltac chan_arith H := unfold c_in, c_w, c_m, c_done, c_serr, c_rerr, c_eout in H; lia.
Ltac other_proc lj Hlive Hrole_j Hsame :=
  destruct lj; simpl in Hlive, Hrole_j; try done; try (apply Hsame; reflexivity);
  try (pose proof (layout_worker_lt _ _ Hrole_j)); try (chan_arith Hlive).

Lemma pipeline_exclusive_close : exclusive_close beh role_of fin live (layout N).
Proof.
  intros n i l c k Hroles Hfin Hpi Hbl j lj Hne Hpj Hlive.
  assert (Hrole_j : layout N !! j = Some (role_of lj))
    by (rewrite <- Hroles; unfold roles_of; rewrite list_lookup_fmap, Hpj; done).
  (* a goroutine with the same role is the same goroutine *)
  assert (Hsame : role_of lj = role_of l -> False).
  { intros Heq. apply Hne. symmetry. eapply same_role_same_index; eauto. }
  destruct l as
    [rest| |i0|i0 id|i0 id|i0 id|i0|i0|i0 v| | | |id|id| | | | | | |j0|j0 v| | | |v|r v|r|srest];
    simpl in Hbl; try discriminate.
  - (* Src [] closes c_in *)
    destruct rest as [|[id b] r]; [|discriminate]. injection Hbl as <- <-.
    other_proc lj Hlive Hrole_j Hsame.
  - injection Hbl as <- <-. other_proc lj Hlive Hrole_j Hsame.
  - (* worker i0 closes c_w i0 *)
    injection Hbl as <- <-.
    assert (Hi0 : i0 < N).
    { apply (layout_worker_lt i). rewrite <- Hroles. unfold roles_of. rewrite list_lookup_fmap, Hpi. done. }
    other_proc lj Hlive Hrole_j Hsame.
    all: apply Hsame; simpl; f_equal; unfold c_w in Hlive; lia.
  - (* closer closes c_m: every multiplexer has ended *)
    injection Hbl as <- <-.
    other_proc lj Hlive Hrole_j Hsame.
    all: destruct (layout_mux_inv _ _ Hrole_j) as [Hk ->];
      match goal with |- context [MIdle ?m] => rename m into mi | _ => idtac end.
    all: match type of Hpj with procs _ !! p_m N ?m = _ =>
           destruct (Hfin i CClose (p_m N m) Hpi) as (lm & Hlm & Hend);
           [simpl; unfold mux_ids; apply elem_of_list_fmap; exists m; split; [reflexivity|apply elem_of_seq; lia]|];
           rewrite Hpj in Hlm; injection Hlm as <-; unfold ended in Hend; simpl in Hend; discriminate end.
  - (* sender closes done *)
    injection Hbl as <- <-. other_proc lj Hlive Hrole_j Hsame.
  - (* sender closes errc *)
    injection Hbl as <- <-. other_proc lj Hlive Hrole_j Hsame.
  - (* receiver closes its errc *)
    injection Hbl as <- <-. other_proc lj Hlive Hrole_j Hsame.
  - (* error closer closes the merged error stream: both error multiplexers have ended *)
    injection Hbl as <- <-.
    other_proc lj Hlive Hrole_j Hsame.
    all: destruct (layout_emux_inv _ _ Hrole_j) as [Hk ->].
    all: match type of Hpj with procs _ !! p_em N ?m = _ =>
           destruct (Hfin i ECClose (p_em N m) Hpi) as (lm & Hlm & Hend);
           [simpl; unfold emux_ids; destruct m as [|[|m]]; [set_solver|set_solver|lia]|];
           rewrite Hpj in Hlm; injection Hlm as <-; unfold ended in Hend; simpl in Hend; discriminate end.
Qed.

Lemma init_safe cap reqs : safe beh role_of fin live (layout N) (init N cap reqs).
Proof.
  split; [|split; [|split]].
  - unfold roles_of, init, init_procs, layout. simpl. rewrite !fmap_app. simpl.
    rewrite <- !list_fmap_compose. reflexivity.
  - intros j l i Hj Hi. exfalso. simpl in Hj. unfold init_procs in Hj.
    apply elem_of_list_lookup_2 in Hj. mem Hj; subst; simpl in Hi; set_solver.
  - intros c ch Hc Hcl. exfalso. simpl in Hc. unfold init_chans in Hc.
    apply elem_of_list_lookup_2 in Hc. mem Hc; subst; discriminate.
  - reflexivity.
Qed.

(* No schedule, with cancellation at any moment, sends on a closed channel or closes a channel
   twice; every goroutine keeps its role; and whenever a channel is closed nobody will use it. *)
Theorem pipeline_safe cap reqs n :
  reachable beh (init N cap reqs) n -> safe beh role_of fin live (layout N) n.
Proof.
  apply safe_reachable; [apply pipeline_disciplined|apply pipeline_exclusive_close|apply init_safe].
Qed.

Corollary pipeline_no_panic cap reqs n :
  reachable beh (init N cap reqs) n -> panicked n = false.
Proof. intros Hr. destruct (pipeline_safe cap reqs n Hr) as (_ & _ & _ & H). exact H. Qed.

End proofs.
