(* Lemmas about Model/IPNet.v: ParseIPNet accepts exactly IPv4, byte-wise masking of an IPv4 address by a
   canonical mask is arithmetic rounding, the address generator never crashes on an IPv4 net and yields a
   permutation of exactly the addresses of the net. *)
From Coq Require Import ZArith List Bool Lia Permutation.
From SX Require Import Base.Loop Base.Bytes Model.RangeIter Model.IPNet Proofs.NumTheory Proofs.RangeIterProofs.
Import ListNotations.
Open Scope Z_scope.

(* ------------------------------------------------------------------ small helpers *)
Definition zseq (n : nat) : list Z := map Z.of_nat (seq 0 n).
Lemma zseq_In n x : 0 <= x < Z.of_nat n -> In x (zseq n).
Proof. intros H. unfold zseq. apply in_map_iff. exists (Z.to_nat x). split; [lia|]. apply in_seq. lia. Qed.

Lemma len_length {A} (l : list A) n : len l =? Z.of_nat n = true -> length l = n.
Proof. unfold len. intros H. apply Z.eqb_eq in H. lia. Qed.

Lemma length4 {A} (l : list A) : length l = 4%nat -> exists a b c d, l = [a; b; c; d].
Proof.
  destruct l as [|a [|b [|c [|d [|e l]]]]]; cbn; intros H; try discriminate. exists a, b, c, d. reflexivity.
Qed.

Lemma wf_bytes4 a b c d : wf_bytes [a; b; c; d] = true ->
  0 <= a < 256 /\ 0 <= b < 256 /\ 0 <= c < 256 /\ 0 <= d < 256.
Proof.
  unfold wf_bytes, is_byte. cbn [forallb]. intros H.
  repeat (apply andb_true_iff in H; destruct H as [? H]).
  repeat match goal with H : _ && _ = true |- _ => apply andb_true_iff in H; destruct H end.
  repeat match goal with H : (_ <=? _) = true |- _ => apply Z.leb_le in H end.
  repeat match goal with H : (_ <? _) = true |- _ => apply Z.ltb_lt in H end.
  lia.
Qed.

Lemma be_num4 a b c d : be_num [a; b; c; d] = ((a * 256 + b) * 256 + c) * 256 + d.
Proof. unfold be_num. cbn [fold_left]. lia. Qed.

Lemma u32_bytes_be v : 0 <= v < 2 ^ 32 -> be_num (u32_bytes v) = v.
Proof.
  intros Hv. unfold u32_bytes. rewrite be_num4. change (2 ^ 32) with 4294967296 in Hv.
  Z.div_mod_to_equations. lia.
Qed.

Lemma u32_bytes_wf v : wf_bytes (u32_bytes v) = true.
Proof.
  unfold u32_bytes, wf_bytes, is_byte. cbn [forallb].
  repeat (apply andb_true_iff; split); try reflexivity;
    first [apply Z.leb_le | apply Z.ltb_lt]; apply Z.mod_pos_bound; lia.
Qed.

Lemma be_num_inj4 a b c d a' b' c' d' :
  wf_bytes [a; b; c; d] = true -> wf_bytes [a'; b'; c'; d'] = true ->
  be_num [a; b; c; d] = be_num [a'; b'; c'; d'] -> [a; b; c; d] = [a'; b'; c'; d'].
Proof.
  intros H1 H2. apply wf_bytes4 in H1. apply wf_bytes4 in H2. rewrite !be_num4. intros E.
  assert (a = a' /\ b = b' /\ c = c' /\ d = d') as (-> & -> & -> & ->) by lia. reflexivity.
Qed.

(* ------------------------------------------------------------------ masks *)
Definition mask_bytes : list Z := [255; 254; 252; 248; 240; 224; 192; 128; 0].
Definition mask_div (m : Z) : Z :=
  match m with 255 => 1 | 254 => 2 | 252 => 4 | 248 => 8 | 240 => 16 | 224 => 32 | 192 => 64 | 128 => 128 | _ => 256 end.

(* finite sweep: 9 mask bytes x 256 byte values *)
Lemma byte_land_sweep :
  forallb (fun m => forallb (fun x => Z.land x m =? x - x mod (mask_div m)) (zseq 256)) mask_bytes = true.
Proof. vm_compute. reflexivity. Qed.

Lemma byte_land x m : 0 <= x < 256 -> In m mask_bytes -> Z.land x m = x - x mod (mask_div m).
Proof.
  intros Hx Hm. pose proof byte_land_sweep as H. rewrite forallb_forall in H. specialize (H m Hm).
  rewrite forallb_forall in H. specialize (H x (zseq_In 256 x Hx)). apply Z.eqb_eq in H. exact H.
Qed.

Lemma byte_land_range x m : 0 <= x < 256 -> In m mask_bytes -> 0 <= Z.land x m < 256.
Proof.
  intros Hx Hm. rewrite (byte_land x m Hx Hm).
  assert (0 < mask_div m) by (cbn in Hm; repeat (destruct Hm as [<-|Hm]; [cbn; lia|]); destruct Hm).
  pose proof (Z.mod_pos_bound x (mask_div m) ltac:(lia)). pose proof (Z.mod_le x (mask_div m) ltac:(lia) ltac:(lia)). lia.
Qed.

(* finite sweep over the 33 prefix lengths: Size() of CIDRMask(k, 32) is (k, 32), it has 4 bytes, every
   byte is one of the nine mask bytes *)
Definition mask_facts (k : Z) : bool :=
  let m := cidr_mask k 32 in
  (fst (mask_size m) =? k) && (snd (mask_size m) =? 32) && (len m =? 4) &&
  forallb (fun b => existsb (Z.eqb b) mask_bytes) m.
Lemma mask_facts_sweep : forallb mask_facts (zseq 33) = true.
Proof. vm_compute. reflexivity. Qed.

Lemma cidr_mask_facts k : 0 <= k <= 32 ->
  mask_size (cidr_mask k 32) = (k, 32) /\ length (cidr_mask k 32) = 4%nat /\
  Forall (fun b => In b mask_bytes) (cidr_mask k 32).
Proof.
  intros Hk. pose proof mask_facts_sweep as H. rewrite forallb_forall in H.
  specialize (H k (zseq_In 33 k ltac:(lia))). unfold mask_facts in H.
  apply andb_true_iff in H. destruct H as [H Hall].
  apply andb_true_iff in H. destruct H as [H Hlen].
  apply andb_true_iff in H. destruct H as [Hfst Hsnd].
  apply Z.eqb_eq in Hfst. apply Z.eqb_eq in Hsnd.
  split; [destruct (mask_size (cidr_mask k 32)); cbn in *; congruence|].
  split; [apply (len_length _ 4); exact Hlen|].
  apply Forall_forall. intros b Hb.
  rewrite forallb_forall in Hall. specialize (Hall b Hb).
  apply existsb_exists in Hall. destruct Hall as [b' [Hin E]]. apply Z.eqb_eq in E. subst b'. exact Hin.
Qed.

Ltac masked_case :=
  match goal with |- context [cidr_mask ?k 32] =>
    let v := eval vm_compute in (cidr_mask k 32) in change (cidr_mask k 32) with v end;
  match goal with |- context [2 ^ (32 - ?k)] =>
    let v := eval vm_compute in (2 ^ (32 - k)) in change (2 ^ (32 - k)) with v end;
  cbn [map2];
  rewrite !byte_land by (first [assumption | cbn; tauto]);
  cbn [mask_div]; unfold be_num; cbn [fold_left];
  rewrite ?Z.mod_1_r;
  Z.div_mod_to_equations; lia.

(* byte-wise AND with the canonical mask /k = clearing the low 32-k bits of the number *)
Lemma masked_num a0 a1 a2 a3 k :
  0 <= a0 < 256 -> 0 <= a1 < 256 -> 0 <= a2 < 256 -> 0 <= a3 < 256 -> 0 <= k <= 32 ->
  be_num (map2 Z.land [a0; a1; a2; a3] (cidr_mask k 32)) = (be_num [a0; a1; a2; a3] / 2 ^ (32 - k)) * 2 ^ (32 - k).
Proof.
  intros H0 H1 H2 H3 Hk.
  assert (Hin : In k (zseq 33)) by (apply zseq_In; lia).
  unfold zseq in Hin. cbn in Hin.
  repeat (destruct Hin as [<-|Hin]; [masked_case|]).
  destruct Hin.
Qed.

Lemma masked_wf a0 a1 a2 a3 k :
  wf_bytes [a0; a1; a2; a3] = true -> 0 <= k <= 32 ->
  exists b0 b1 b2 b3, map2 Z.land [a0; a1; a2; a3] (cidr_mask k 32) = [b0; b1; b2; b3] /\ wf_bytes [b0; b1; b2; b3] = true.
Proof.
  intros Hwf Hk. apply wf_bytes4 in Hwf. destruct Hwf as (H0 & H1 & H2 & H3).
  destruct (cidr_mask_facts k Hk) as (_ & Hlen & Hall).
  destruct (length4 _ Hlen) as (m0 & m1 & m2 & m3 & Em). rewrite Em in *. cbn [map2].
  inversion Hall as [|? ? M0 Hall1]; subst. inversion Hall1 as [|? ? M1 Hall2]; subst.
  inversion Hall2 as [|? ? M2 Hall3]; subst. inversion Hall3 as [|? ? M3 _]; subst.
  do 4 eexists. split; [reflexivity|].
  pose proof (byte_land_range a0 m0 H0 M0). pose proof (byte_land_range a1 m1 H1 M1).
  pose proof (byte_land_range a2 m2 H2 M2). pose proof (byte_land_range a3 m3 H3 M3).
  unfold wf_bytes, is_byte. cbn [forallb].
  repeat (apply andb_true_iff; split); try reflexivity; first [apply Z.leb_le | apply Z.ltb_lt]; lia.
Qed.

(* ------------------------------------------------------------------ IPv4 nets *)
(* the propositional reading of [is_ipv4_net] *)
Definition ipv4_net (n : ipnet) (k : Z) : Prop :=
  0 <= k <= 32 /\ length (fst n) = 4%nat /\ wf_bytes (fst n) = true /\ snd n = cidr_mask k 32.

Lemma is_ipv4_net_sound n : is_ipv4_net n = true -> exists k, ipv4_net n k.
Proof.
  destruct n as [a m]. unfold is_ipv4_net.
  intros H. repeat (apply andb_true_iff in H; destruct H as [H ?]).
  destruct (mask_len m) as [k|] eqn:Ek; [|discriminate].
  match goal with H : bytes_eqb m _ = true |- _ => apply bytes_eqb_eq in H; rename H into Em end.
  exists k. unfold ipv4_net. cbn [fst snd].
  assert (Hk : 0 <= k <= 32).
  { destruct (Z.leb_spec 0 k); [destruct (Z.leb_spec k 32); [lia|]|].
    - exfalso. rewrite Em in H1. unfold cidr_mask in H1. cbn [Z.eqb negb orb] in H1.
      replace (k <? 0) with false in H1 by (symmetry; apply Z.ltb_ge; lia).
      replace (32 <? k) with true in H1 by (symmetry; apply Z.ltb_lt; lia). cbn in H1. discriminate.
    - exfalso. rewrite Em in H1. unfold cidr_mask in H1. cbn [Z.eqb negb orb] in H1.
      replace (k <? 0) with true in H1 by (symmetry; apply Z.ltb_lt; lia). cbn in H1. discriminate. }
  split; [exact Hk|]. split; [apply (len_length _ 4); assumption|]. split; assumption.
Qed.

Lemma ipv4_net_is n k : ipv4_net n k -> is_ipv4_net n = true.
Proof.
  destruct n as [a m]. intros (Hk & Hlen & Hwf & Em). cbn [fst snd] in *. subst m.
  destruct (cidr_mask_facts k Hk) as (Hsz & Hl & _).
  unfold is_ipv4_net. unfold len. rewrite Hlen, Hl, Hwf. cbn [Z.of_nat Z.eqb Pos.of_succ_nat Pos.succ Pos.eqb andb].
  unfold mask_size in Hsz. destruct (mask_len (cidr_mask k 32)) as [k'|]; [|inversion Hsz; lia].
  inversion Hsz; subst k'. apply bytes_eqb_eq. reflexivity.
Qed.

Lemma shl1_small h : 0 <= h <= 32 -> shl1 h = 2 ^ h.
Proof. intros H. unfold shl1. destruct (Z.ltb_spec h 63); [reflexivity|lia]. Qed.

Lemma net_size_ipv4 n k : ipv4_net n k -> net_size n = 2 ^ (32 - k).
Proof.
  destruct n as [a m]. intros (Hk & _ & _ & Em). cbn [snd] in Em. subst m.
  unfold net_size. cbn [snd]. destruct (cidr_mask_facts k Hk) as (-> & _ & _). apply shl1_small. lia.
Qed.

Lemma ip_mask44 a0 a1 a2 a3 m0 m1 m2 m3 :
  ip_mask [a0; a1; a2; a3] [m0; m1; m2; m3] = map2 Z.land [a0; a1; a2; a3] [m0; m1; m2; m3].
Proof. reflexivity. Qed.

Lemma net_base_ipv4 n k : ipv4_net n k ->
  net_base n = (be_num (fst n) / 2 ^ (32 - k)) * 2 ^ (32 - k) /\ 0 <= be_num (fst n) < 2 ^ 32.
Proof.
  destruct n as [a m]. intros (Hk & Hlen & Hwf & Em). cbn [fst snd] in *. subst m.
  destruct (length4 _ Hlen) as (a0 & a1 & a2 & a3 & ->).
  destruct (cidr_mask_facts k Hk) as (_ & Hl & _). destruct (length4 _ Hl) as (m0 & m1 & m2 & m3 & Em).
  unfold net_base. cbn [fst snd]. rewrite Em, ip_mask44, <- Em.
  pose proof (wf_bytes4 _ _ _ _ Hwf) as (H0 & H1 & H2 & H3).
  split; [apply masked_num; assumption|]. rewrite be_num4. change (2 ^ 32) with 4294967296. lia.
Qed.

(* Go's IPNet.Contains on an IPv4 net and a 4-byte address = "same top k bits" *)
Lemma contains_ipv4 n k y :
  ipv4_net n k -> length y = 4%nat -> wf_bytes y = true ->
  contains n y = true <-> be_num y / 2 ^ (32 - k) = be_num (fst n) / 2 ^ (32 - k).
Proof.
  destruct n as [a m]. intros (Hk & Hlen & Hwf & Em) Hy Hywf. cbn [fst snd] in *. subst m.
  destruct (length4 _ Hlen) as (a0 & a1 & a2 & a3 & ->). destruct (length4 _ Hy) as (y0 & y1 & y2 & y3 & ->).
  destruct (cidr_mask_facts k Hk) as (_ & Hl & _). destruct (length4 _ Hl) as (m0 & m1 & m2 & m3 & Em).
  assert (Hpow : 0 < 2 ^ (32 - k)) by (apply Z.pow_pos_nonneg; lia).
  rewrite Em.
  change (bytes_eqb (map2 Z.land [a0; a1; a2; a3] [m0; m1; m2; m3]) (map2 Z.land [y0; y1; y2; y3] [m0; m1; m2; m3]) = true
          <-> be_num [y0; y1; y2; y3] / 2 ^ (32 - k) = be_num [a0; a1; a2; a3] / 2 ^ (32 - k)).
  rewrite <- Em. rewrite bytes_eqb_eq.
  destruct (masked_wf a0 a1 a2 a3 k Hwf Hk) as (b0 & b1 & b2 & b3 & Eb & Hbwf).
  destruct (masked_wf y0 y1 y2 y3 k Hywf Hk) as (c0 & c1 & c2 & c3 & Ec & Hcwf).
  pose proof (wf_bytes4 _ _ _ _ Hwf) as (? & ? & ? & ?). pose proof (wf_bytes4 _ _ _ _ Hywf) as (? & ? & ? & ?).
  pose proof (masked_num a0 a1 a2 a3 k ltac:(assumption) ltac:(assumption) ltac:(assumption) ltac:(assumption) Hk) as Na.
  pose proof (masked_num y0 y1 y2 y3 k ltac:(assumption) ltac:(assumption) ltac:(assumption) ltac:(assumption) Hk) as Ny.
  rewrite Eb in *. rewrite Ec in *. split.
  - intros Heq. rewrite Heq in Na. rewrite Na in Ny. apply Z.mul_cancel_r in Ny; [symmetry; exact Ny|lia].
  - intros Heq. apply be_num_inj4; [assumption|assumption|]. rewrite Na, Ny, Heq. reflexivity.
Qed.

(* ------------------------------------------------------------------ ParseIPNet *)
Lemma parse_ipnet_ok cidr addr n :
  parse_ipnet cidr addr = POk n <->
  (cidr = Some n /\ len (snd n) = 4) \/
  (cidr = None /\ exists b, addr = Some b /\ len b = 4 /\ n = (b, cidr_mask 32 32)).
Proof.
  unfold parse_ipnet. destruct cidr as [[a m]|].
  - destruct (Z.eqb_spec (len m) 4) as [E|E]; split.
    + intros H. inversion H; subst. left. split; [reflexivity|exact E].
    + intros [[H _]|[H _]]; [inversion H; reflexivity|discriminate].
    + discriminate.
    + intros [[H E']|[H _]]; [inversion H; subst; cbn in E'; contradiction|discriminate].
  - destruct addr as [b|].
    + destruct (Z.eqb_spec (len b) 4) as [E|E]; split.
      * intros H. inversion H; subst. right. split; [reflexivity|]. exists b. repeat split; assumption.
      * intros [[H _]|[_ (b' & Hb & _ & ->)]]; [discriminate|]. inversion Hb; reflexivity.
      * discriminate.
      * intros [[H _]|[_ (b' & Hb & E' & _)]]; [discriminate|]. inversion Hb; subst. contradiction.
    + split; [discriminate|]. intros [[H _]|[_ (b' & Hb & _)]]; discriminate.
Qed.

(* under what the library guarantees, an accepted target is an IPv4 net *)
Lemma parse_ipnet_ipv4 cidr addr n :
  lib_cidr_ok cidr = true -> lib_addr_ok addr = true ->
  parse_ipnet cidr addr = POk n -> is_ipv4_net n = true.
Proof.
  intros Hc Ha H. apply parse_ipnet_ok in H. destruct H as [[-> Hm]|[-> (b & -> & Hb & ->)]].
  - cbn in Hc. apply orb_true_iff in Hc. destruct Hc as [Hc|Hc]; [exact Hc|].
    exfalso. destruct n as [a m]. unfold is_ipv6_net in Hc.
    repeat (apply andb_true_iff in Hc; destruct Hc as [Hc ?]). cbn [snd] in Hm.
    match goal with H : (len m =? 16) = true |- _ => apply Z.eqb_eq in H; lia end.
  - cbn in Ha. apply andb_true_iff in Ha. destruct Ha as [Hwf _].
    apply (ipv4_net_is _ 32). unfold ipv4_net. cbn [fst snd]. split; [lia|].
    split; [unfold len in Hb; lia|]. split; [exact Hwf|reflexivity].
Qed.

(* every IPv6 form (16-byte CIDR result, or no CIDR and a 16-byte address) and every string neither parser
   accepts is refused *)
Lemma parse_ipnet_refuses cidr addr :
  lib_cidr_ok cidr = true -> lib_addr_ok addr = true ->
  (exists n, cidr = Some n /\ len (snd n) = 16) \/
  (cidr = None /\ exists b, addr = Some b /\ len b = 16) \/
  (cidr = None /\ addr = None) ->
  parse_ipnet cidr addr = PErr.
Proof.
  intros _ _ [(n & -> & H)|[(-> & b & -> & H)|(-> & ->)]]; unfold parse_ipnet.
  - destruct n as [a m]. cbn [snd] in H. rewrite H. reflexivity.
  - rewrite H. reflexivity.
  - reflexivity.
Qed.

(* ------------------------------------------------------------------ the address generator *)
Lemma emit_until_all {A} (f : Z -> option A) (g : Z -> A) l e :
  (forall i, In i l -> f i = Some (g i)) -> emit_until f l e = (map g l, e).
Proof.
  induction l as [|i l IH]; intros H; cbn [emit_until map]; [reflexivity|].
  rewrite (H i (or_introl eq_refl)). rewrite IH by (intros j Hj; apply H; right; exact Hj). reflexivity.
Qed.

Lemma perm_zrange n l : 0 <= n -> is_perm_1n n l -> Permutation l (zrange 1 (Z.to_nat n)).
Proof.
  intros Hn [Hnd Hin]. apply NoDup_Permutation; [exact Hnd|apply zrange_NoDup|].
  intros x. rewrite zrange_In, Hin. lia.
Qed.

Section Gen.
Variable table : list row.
Hypothesis table_good : table_ok table.

(* for every IPv4 net and all draws: the generator does not fail, does not crash, ends normally, and its
   output is [map address l] for a permutation l of 1..2^(32-k) *)
Lemma ips_gen_ipv4 n k d :
  ipv4_net n k -> 0 <= fst d -> 0 <= snd d ->
  exists l, ips_gen table d (Some n) = Emit (map (fun i => u32_bytes (net_base n - 1 + i)) l) Done /\
            is_perm_1n (2 ^ (32 - k)) l /\
            forall i, In i l -> 0 <= net_base n - 1 + i < 2 ^ 32.
Proof.
  intros Hn Hd1 Hd2. pose proof Hn as (Hk & _).
  pose proof (net_size_ipv4 n k Hn) as Hsz. destruct (net_base_ipv4 n k Hn) as [Hbase HA].
  set (N := 2 ^ (32 - k)) in *.
  assert (HN : 1 <= N <= 2 ^ 32).
  { unfold N. split; [pose proof (Z.pow_pos_nonneg 2 (32 - k)); lia|apply Z.pow_le_mono_r; lia]. }
  destruct (run_permutation table N (fst d) (snd d) table_good HN Hd1 Hd2) as [l [Hrun Hperm]].
  exists l. unfold ips_gen, ips_gen_fuel. rewrite Hsz. fold N.
  unfold run in Hrun. rewrite Hrun.
  assert (Hrange : forall i, In i l -> 0 <= net_base n - 1 + i < 2 ^ 32).
  { intros i Hi. apply (proj2 Hperm) in Hi. rewrite Hbase. fold N.
    set (A := be_num (fst n)) in *.
    assert (HNk : N * 2 ^ k = 2 ^ 32) by (unfold N; rewrite <- Z.pow_add_r by lia; f_equal; lia).
    assert (Hq : A / N < 2 ^ k) by (apply Z.div_lt_upper_bound; lia).
    assert (0 <= A / N) by (apply Z.div_pos; lia).
    nia. }
  split; [|split; [exact Hperm|exact Hrange]].
  rewrite (emit_until_all _ (fun i => u32_bytes (net_base n - 1 + i))); [reflexivity|].
  intros i Hi. specialize (Hrange i Hi). unfold fill4.
  rewrite Z.abs_eq by lia. destruct (Z.ltb_spec (net_base n - 1 + i) (2 ^ 32)); [reflexivity|lia].
Qed.

(* ... and each address is inside the net *)
Lemma ips_gen_inside n k l :
  ipv4_net n k -> is_perm_1n (2 ^ (32 - k)) l ->
  forall i, In i l -> let y := u32_bytes (net_base n - 1 + i) in
                      contains n y = true /\ length y = 4%nat /\ wf_bytes y = true.
Proof.
  intros Hn Hperm i Hi y. pose proof Hn as (Hk & _).
  destruct (net_base_ipv4 n k Hn) as [Hbase HA]. apply (proj2 Hperm) in Hi.
  set (N := 2 ^ (32 - k)) in *. set (A := be_num (fst n)) in *.
  assert (HN : 0 < N) by (unfold N; apply Z.pow_pos_nonneg; lia).
  assert (HNk : N * 2 ^ k = 2 ^ 32) by (unfold N; rewrite <- Z.pow_add_r by lia; f_equal; lia).
  assert (Hq : A / N < 2 ^ k) by (apply Z.div_lt_upper_bound; lia).
  assert (Hq0 : 0 <= A / N) by (apply Z.div_pos; lia).
  assert (Hv : 0 <= net_base n - 1 + i < 2 ^ 32) by (rewrite Hbase; nia).
  split; [|split; [reflexivity|apply u32_bytes_wf]].
  apply (contains_ipv4 n k y Hn eq_refl (u32_bytes_wf _)). unfold y. rewrite u32_bytes_be by exact Hv.
  rewrite Hbase. fold N. replace (A / N * N - 1 + i) with ((i - 1) + (A / N) * N) by lia.
  rewrite Z.div_add by lia. rewrite Z.div_small by lia. unfold A. lia.
Qed.

(* the output as a multiset: exactly the addresses of the net, each once *)
Lemma ips_gen_perm n k d :
  ipv4_net n k -> 0 <= fst d -> 0 <= snd d ->
  exists out, ips_gen table d (Some n) = Emit out Done /\ Permutation out (net_addrs n).
Proof.
  intros Hn Hd1 Hd2. destruct (ips_gen_ipv4 n k d Hn Hd1 Hd2) as (l & Hgen & Hperm & _).
  eexists. split; [exact Hgen|].
  pose proof Hn as (Hk & _).
  assert (HN : 0 <= 2 ^ (32 - k)) by (apply Z.pow_nonneg; lia).
  pose proof (perm_zrange _ l HN Hperm) as P.
  unfold net_addrs, net_addrs_from. rewrite (net_size_ipv4 n k Hn).
  apply (Permutation_map (fun i => u32_bytes (net_base n - 1 + i))) in P.
  eapply Permutation_trans; [exact P|]. unfold zrange. rewrite map_map.
  erewrite map_ext; [apply Permutation_refl|]. intros j. cbv beta. f_equal. lia.
Qed.
End Gen.

(* every address the specification denotes for an IPv4 net lies inside the net *)
Lemma net_addrs_inside n k a : ipv4_net n k -> In a (net_addrs n) -> contains n a = true /\ length a = 4%nat.
Proof.
  intros Hn Ha. pose proof Hn as (Hk & _). unfold net_addrs, net_addrs_from in Ha. rewrite (net_size_ipv4 n k Hn) in Ha.
  apply in_map_iff in Ha. destruct Ha as [j [<- Hj]]. apply in_seq in Hj.
  assert (HN : 0 <= 2 ^ (32 - k)) by (apply Z.pow_nonneg; lia).
  set (l := zrange 1 (Z.to_nat (2 ^ (32 - k)))).
  assert (Hperm : is_perm_1n (2 ^ (32 - k)) l).
  { split; [apply zrange_NoDup|]. intros x. unfold l. rewrite zrange_In. lia. }
  assert (Hi : In (Z.of_nat j + 1) l) by (unfold l; apply zrange_In; lia).
  pose proof (ips_gen_inside n k l Hn Hperm (Z.of_nat j + 1) Hi) as H. cbv zeta in H.
  replace (net_base n - 1 + (Z.of_nat j + 1)) with (net_base n + Z.of_nat j) in H by lia.
  destruct H as (H1 & H2 & _). split; assumption.
Qed.
